/-
  C14 — the hand-written (non-reflection) codecs of the consensus types, over the generic `Item` tree:

    * `types.Profile`            EncodeRLP / DecodeRLP                      chain/types/account_data.go:70-107
    * change-log payload decoders registered per log type                  chain/account/change_log.go:53-250
    * `types.ChangeLog`          EncodeRLP / DecodeRLP                      chain/types/change_log.go:91-132
    * a list of change logs decoded through `decodeSliceElems`, with the `rlp.EOL` that
      `ChangeLog.DecodeRLP` lets escape                                    common/rlp/decode.go:306-333
    * `types.Asset` (reflection struct whose last field is a Profile)      chain/types/asset.go:34-43
    * `types.Block` (reflection struct of Header, txs, change logs, confirms, deputy nodes)   chain/types/block.go:77-83

  Everything is modelled AS THE CODE IS.  Every decoder takes the flag `fx` of LemoModel/RlpSchema.lean:
    `fx = true`   /repo as it is, after the strictness fixes 05de783 (header roots), 8a6b205 (Profile), 7e982c7
                  (ChangeLog EOL), 4ab6b74 (decodeHash/decodeAddress), a0389ea (nil payload = 0xC0 only),
                  29ca096 / f02560a / 4e3d12b (decodeCandidate / decodeSigners / decodeAsset return the type that
                  Redo asserts).  This is what the driver runs and what the theorems of LemoProofs/C14.lean state.
    `fx = false`  the code before those fixes, laxness included; used by the labelled witnesses
                  `LemoProofs.C14.Legacy.*` only.
  What the item level could not express about the code BEFORE the fixes (`fx = false`):
    - `Profile.DecodeRLP` and the `size <= 0` tests ignored the *error* of `Stream.Kind`, so they also accepted
      size-zero headers that are not canonical RLP (0xB800, 0xF800 …); such inputs are no `Item` at all;
    - after the leaked EOL the Stream's list stack was one level off; inside a Block the following struct fields
      were then read from inside the change-log list.
  With the fixes every custom decoder hands the error of `Stream.Kind` on, so - like the reflection decoders - it
  accepts `b` only if the generic decoder does (oracle `c14/<family>-typed-accepts-generic-rejects`, now a failure for
  every family), and no EOL leaves `ChangeLog.DecodeRLP`.
  Core Lean only.
-/
import LemoModel.RlpSchema
namespace LemoModel.RlpCustom
open LemoModel.Rlp LemoModel.RlpSchema

/-- `_, size, _ := s.Kind(); size <= 0`: the empty string, a single byte < 0x80 (kind Byte has size 0)
    and the empty list.  (The test of the code before a0389ea / 8a6b205.) -/
def sizeZero : Item → Bool
  | .bytes [] => true
  | .bytes [x] => x.toNat < 128
  | .bytes _ => false
  | .list [] => true
  | .list _ => false

/-- `decodeNil` (chain/account/change_log.go): `kind == rlp.List && size == 0`, the encoding of a nil interface{} -/
def emptyList : Item → Bool
  | .list [] => true
  | _ => false

/-- which items stand for nil in a payload position -/
def nilForm (fx : Bool) (it : Item) : Bool := if fx then emptyList it else sizeZero it

/-! ### Profile: a map written as the list of its (key, value) pairs in key order -/

/-- Go string comparison (bytewise lexicographic, a proper prefix is smaller) -/
def ltBytes : List UInt8 → List UInt8 → Bool
  | [], [] => false
  | [], _ :: _ => true
  | _ :: _, [] => false
  | a :: as, b :: bs => if a.toNat < b.toNat then true else if b.toNat < a.toNat then false else ltBytes as bs

abbrev KV := List UInt8 × List UInt8

/-- `(*a)[key] = val` on a map kept as a key-sorted association list -/
def insertKV (p : KV) : List KV → List KV
  | [] => [p]
  | q :: qs =>
    if ltBytes p.1 q.1 then p :: q :: qs
    else if ltBytes q.1 p.1 then q :: insertKV p qs
    else p :: qs

def asPair : Item → Option KV
  | .list [.bytes k, .bytes v] => some (k, v)
  | _ => none

def asPairs : List Item → Option (List KV)
  | [] => some []
  | x :: xs =>
    match asPair x, asPairs xs with
    | some p, some ps => some (p :: ps)
    | _, _ => none

/-- `dec[index-1].Key >= dec[index].Key → ErrProfileKeyOrder`: every key strictly above its predecessor -/
def ascB : List KV → Bool
  | [] => true
  | [_] => true
  | a :: b :: rest => ltBytes a.1 b.1 && ascB (b :: rest)

/-- `Profile.DecodeRLP` into an empty map.  `fx`: the item must be the list `[]Pair` with strictly ascending keys; the
    pairs are inserted in order.  Before 8a6b205: size zero → nothing read; otherwise `[]Pair` in any order. -/
def decodeProfile (fx : Bool) (it : Item) : Option (List KV) :=
  if fx then
    match it with
    | .list xs =>
      match asPairs xs with
      | some ps => if ascB ps then some (ps.foldl (fun m p => insertKV p m) []) else none
      | none => none
    | .bytes _ => none
  else if sizeZero it then some []
  else
    match it with
    | .list xs => (asPairs xs).map (fun ps => ps.foldl (fun m p => insertKV p m) [])
    | .bytes _ => none

def pairItem (p : KV) : Item := .list [.bytes p.1, .bytes p.2]

/-- `Profile.EncodeRLP`: pairs in key order (the association list is key-sorted) -/
def encodeProfile (ps : List KV) : Item := .list (ps.map pairItem)

def pairVal (p : KV) : Val := .list [.bytes p.1, .bytes p.2]
def profileVal (ps : List KV) : Val := .list (ps.map pairVal)

/-! ### Asset: seven reflection-decoded fields and a Profile -/

def assetFields : List Schema := [.uint 32, .uint 8, .fixed 32, .uint 32, .big, .uint 8, .fixed 20]

/-- `decodeBool`: `Stream.uint(8)` followed by "0 or 1, anything else is an error" -/
def boolOk : Val → Bool
  | .nat 0 => true
  | .nat 1 => true
  | _ => false

/-- IsDivisible (index 1) and IsReplenishable (index 5) are Go bools -/
def assetBools : List Val → Bool
  | [_, b1, _, _, _, b2, _] => boolOk b1 && boolOk b2
  | _ => false

def decodeAssetFields (fx : Bool) (xs : List Item) : Option (List Val) :=
  match decodeFields fx assetFields xs with
  | some fs => if assetBools fs then some fs else none
  | none => none

/-- struct decoder of `types.Asset`.  Before 8a6b205 a list with only the seven leading fields was accepted as well:
    at the end of the list `Profile.DecodeRLP` saw `size == 0` (the EOL error was ignored) and returned nil. -/
def decodeAsset (fx : Bool) : Item → Option (List Val × List KV)
  | .list [a, b, c, d, e, f, g] =>
    if fx then none else (decodeAssetFields fx [a, b, c, d, e, f, g]).map (fun fs => (fs, []))
  | .list [a, b, c, d, e, f, g, p] =>
    match decodeAssetFields fx [a, b, c, d, e, f, g], decodeProfile fx p with
    | some fs, some ps => some (fs, ps)
    | _, _ => none
  | _ => none

def encodeAsset (v : List Val × List KV) : Option Item :=
  if assetBools v.1 then (encodeFields assetFields v.1).map (fun xs => .list (xs ++ [encodeProfile v.2])) else none

/-! ### change-log payloads -/

/-- the registered payload decoders, by their decoding behaviour (`fx` / before the fixes) -/
inductive PDec where
  | strict (s : Schema)   -- decodeBigInt (.big), decodeBytes/decodeString/decodeCode (.bytes), decodeEvent (struct)
  | emptyIface            -- decodeEmptyInterface: the empty list / any size-zero item
  | fixedN (n : Nat)      -- decodeHash (32) / decodeAddress (20): exactly n bytes / `BytesToHash` of any byte string
  | nilOr (fs : List Schema) -- decodeEquity / decodeProfileChangeLogExtra: the nil form → nil, else the struct `fs`
  | signers               -- decodeSigners: always a `types.Signers` / `size <= 0` → untyped nil, else the list
  | asset                 -- decodeAsset: the nil form → nil (*types.Asset / untyped), else the Asset
  | candidate             -- decodeCandidate: always a Profile / `size <= 0` → *interface{} holding whatever was there
  deriving Repr, Inhabited

/-- payload values: a typed value, a Profile, an Asset, or the raw item kept by `decodeCandidate` before 29ca096.
    `.v .nil` is a nil payload: the untyped nil, or - both are written 0xC0 - the nil `*types.Asset` that
    `NewAssetCodeLog` stores and `decodeAsset` now returns. -/
inductive CVal where
  | v (x : Val)
  | prof (ps : List KV)
  | asset (fs : List Val) (ps : List KV)
  | raw (it : Item)
  deriving Repr, Inhabited

/-- `Hash.SetBytes` / `Address.SetBytes` on a zero value: keep the last n bytes, left-pad with zeros -/
def setBytesN (n : Nat) (b : List UInt8) : List UInt8 :=
  List.replicate (n - (b.drop (b.length - n)).length) 0 ++ b.drop (b.length - n)

def signersSchema : Schema := .listOf (.struct [.fixed 20, .uint 8])
def equityFields : List Schema := [.fixed 32, .fixed 32, .big]
def extraFields : List Schema := [.fixed 32, .bytes]
def eventSchema' : Schema := .struct [.fixed 20, .listOf (.fixed 32), .bytes]

def runDec (fx : Bool) : PDec → Item → Option CVal
  | .strict s, it => (decodeS fx s it).map CVal.v
  | .emptyIface, it => if nilForm fx it then some (.v .nil) else none
  | .fixedN n, .bytes b =>
    if fx then (if b.length = n then some (.v (.bytes b)) else none) else some (.v (.bytes (setBytesN n b)))
  | .fixedN _, .list _ => none
  | .nilOr fs, it => if nilForm fx it then some (.v .nil) else (decodeS fx (.struct fs) it).map CVal.v
  | .signers, it =>
    if fx then (decodeS fx signersSchema it).map CVal.v
    else if sizeZero it then some (.v .nil) else (decodeS fx signersSchema it).map CVal.v
  | .asset, it => if nilForm fx it then some (.v .nil) else (decodeAsset fx it).map (fun a => CVal.asset a.1 a.2)
  | .candidate, it =>
    if fx then (decodeProfile fx it).map CVal.prof
    else if sizeZero it then some (.raw it) else (decodeProfile fx it).map CVal.prof

/-- the encoder side (`rlp.Encode` of the `interface{}` field; unchanged by the fixes): a nil interface{}, a nil
    pointer to a struct and a nil slice are the empty list -/
def runEnc : PDec → CVal → Option Item
  | .strict s, .v x => encodeS s x
  | .emptyIface, .v .nil => some (.list [])
  | .fixedN n, .v (.bytes b) => if b.length = n then some (.bytes b) else none
  | .nilOr _, .v .nil => some (.list [])
  | .nilOr fs, .v x => encodeS (.struct fs) x
  | .signers, .v .nil => some (.list [])
  | .signers, .v x => encodeS signersSchema x
  | .asset, .v .nil => some (.list [])
  | .asset, .asset fs ps => encodeAsset (fs, ps)
  | .candidate, .raw it => some it
  | .candidate, .prof ps => some (encodeProfile ps)
  | _, _ => none

def dHash := PDec.fixedN 32
def dAddr := PDec.fixedN 20
def dBig := PDec.strict .big
def dBytes := PDec.strict .bytes

/-- `logConfigs`: (NewValDecoder, ExtraDecoder) per log type (chain/account/change_log.go:14-37, 53-73) -/
def logDecoders : Nat → Option (PDec × PDec)
  | 1 => some (dBig, .emptyIface)                        -- BalanceLog
  | 2 => some (dBytes, dHash)                            -- StorageLog
  | 3 => some (dHash, .emptyIface)                       -- StorageRootLog
  | 4 => some (.asset, dHash)                            -- AssetCodeLog
  | 5 => some (dBytes, .nilOr extraFields)               -- AssetCodeStateLog
  | 6 => some (dHash, .emptyIface)                       -- AssetCodeRootLog
  | 7 => some (dBig, dHash)                              -- AssetCodeTotalSupplyLog
  | 8 => some (dBytes, dHash)                            -- AssetIdLog
  | 9 => some (dHash, .emptyIface)                       -- AssetIdRootLog
  | 10 => some (.nilOr equityFields, dHash)              -- EquityLog
  | 11 => some (dHash, .emptyIface)                      -- EquityRootLog
  | 12 => some (.candidate, .emptyIface)                 -- CandidateLog
  | 13 => some (dBytes, dBytes)                          -- CandidateStateLog
  | 14 => some (dBytes, .emptyIface)                     -- CodeLog
  | 15 => some (.strict eventSchema', .emptyIface)       -- AddEventLog
  | 16 => some (.emptyIface, .emptyIface)                -- SuicideLog
  | 17 => some (dAddr, .emptyIface)                      -- VoteForLog
  | 18 => some (dBig, .emptyIface)                       -- VotesLog
  | 19 => some (.signers, .emptyIface)                   -- SignerLog
  | _ => none

structure CLog where
  logType : Nat
  address : List UInt8
  version : Nat
  newVal : CVal
  extra : CVal
  deriving Repr, Inhabited

def decU32 (it : Item) : Option Nat :=
  match decodeS true (.uint 32) it with
  | some (.nat n) => some n
  | _ => none

def decAddr (it : Item) : Option (List UInt8) :=
  match decodeS true (.fixed 20) it with
  | some (.bytes b) => some b
  | _ => none

/-- `ChangeLog.DecodeRLP`: a complete five-element list (with `fx` everything else is an error; before 7e982c7 a
    shorter list leaked `rlp.EOL`, see `leaksEOL`) -/
def decodeChangeLog (fx : Bool) : Item → Option CLog
  | .list [a, b, c, d, e] =>
    match decU32 a, decAddr b, decU32 c with
    | some lt, some addr, some ver =>
      match logDecoders lt with
      | some (p, q) =>
        match runDec fx p d, runDec fx q e with
        | some nv, some ex => some ⟨lt, addr, ver, nv, ex⟩
        | _, _ => none
      | none => none
    | _, _, _ => none
  | _ => none

def encodeChangeLog (l : CLog) : Option Item :=
  match logDecoders l.logType with
  | some (p, q) =>
    match encodeS (.uint 32) (.nat l.logType), encodeS (.fixed 20) (.bytes l.address),
          encodeS (.uint 32) (.nat l.version), runEnc p l.newVal, runEnc q l.extra with
    | some a, some b, some c, some d, some e => some (.list [a, b, c, d, e])
    | _, _, _, _, _ => none
  | none => none

/-- THE CODE BEFORE 7e982c7: a list element with fewer than five entries whose present entries decode:
    `ChangeLog.DecodeRLP` ran into the end of the element's list and returned the raw `rlp.EOL` of the Stream -/
def leaksEOL : Item → Bool
  | .list [] => true
  | .list [a] => (decU32 a).isSome
  | .list [a, b] => (decU32 a).isSome && (decAddr b).isSome
  | .list [a, b, c] =>
    match decU32 a, decAddr b, decU32 c with
    | some lt, some _, some _ => (logDecoders lt).isSome
    | _, _, _ => false
  | .list [a, b, c, d] =>
    match decU32 a, decAddr b, decU32 c with
    | some lt, some _, some _ =>
      match logDecoders lt with
      | some (p, _) => (runDec false p d).isSome
      | none => false
    | _, _, _ => false
  | _ => false

/-- `decodeSliceElems` over change logs at top level (`rlp.DecodeBytes(b, &ChangeLogSlice)`): every element is a
    change log.  Before 7e982c7 an element error equal to EOL ended the loop "successfully"; `DecodeBytes` then still
    insisted that all input was consumed, so the leak was accepted exactly when the short log was the last element. -/
def decodeLogElems (fx : Bool) : List Item → Option (List CLog)
  | [] => some []
  | x :: rest =>
    if !fx && leaksEOL x then (if rest.isEmpty then some [] else none)
    else
      match decodeChangeLog fx x, decodeLogElems fx rest with
      | some l, some ls => some (l :: ls)
      | _, _ => none

def decodeLogSlice (fx : Bool) : Item → Option (List CLog)
  | .list xs => decodeLogElems fx xs
  | .bytes _ => none

def encodeLogElems : List CLog → Option (List Item)
  | [] => some []
  | l :: ls =>
    match encodeChangeLog l, encodeLogElems ls with
    | some x, some xs => some (x :: xs)
    | _, _ => none

def encodeLogSlice (ls : List CLog) : Option Item := (encodeLogElems ls).map Item.list

/-! ### `Header` on top of `rlpHeader` (block.go:193-243): TxRoot (index 3) and LogRoot (index 4) -/

def onBytes (f : List UInt8 → List UInt8) : Val → Val
  | .bytes r => .bytes (f r)
  | x => x

/-- apply `f` to the elements whose position (counted from `i`) is 3 or 4 -/
def mapAt (f : Val → Val) : Nat → List Val → List Val
  | _, [] => []
  | i, x :: xs => (if i = 3 ∨ i = 4 then f x else x) :: mapAt f (i + 1) xs

def okAt (P : Val → Prop) : Nat → List Val → Prop
  | _, [] => True
  | i, x :: xs => ((i = 3 ∨ i = 4) → P x) ∧ okAt P (i + 1) xs

/-- `rootOk` on the byte strings at positions 3 and 4 (counted from `i`) -/
def rootsOk (E : List UInt8) : Nat → List Val → Bool
  | _, [] => true
  | i, x :: xs =>
    (if i = 3 ∨ i = 4 then (match x with | .bytes r => rootOk E r | _ => true) else true) && rootsOk E (i + 1) xs

/-- `Header.DecodeRLP`: the reflection decoder of `rlpHeader`, then the roots through `decodeRoot`
    (`fx`: `rootOk` or an error; before 05de783 every byte string) -/
def decodeHeader (fx : Bool) (E : List UInt8) (it : Item) : Option Val :=
  match decodeS fx headerSchema it with
  | some (.list ws) => if fx && !rootsOk E 0 ws then none else some (.list (mapAt (onBytes (decRoot E)) 0 ws))
  | _ => none

/-- `Header.EncodeRLP`: the roots through `encRoot`, then the reflection encoder of `rlpHeader` -/
def encodeHeader (E : List UInt8) : Val → Option Item
  | .list vs => encodeS headerSchema (.list (mapAt (onBytes (encRoot E)) 0 vs))
  | _ => none

/-- what `Header.Hash()` feeds to Keccak: every field except SignData, roots NOT elided (block.go:96-110) -/
def headerHashPreimage : Val → Option (List UInt8)
  | .list [a, b, c, d, e, f, g, h, i, _, k, l] =>
    (encodeS (.struct [hash, address, hash, hash, hash, .uint 32, .uint 64, .uint 64, .uint 32, .bytes, .bytes])
      (.list [a, b, c, d, e, f, g, h, i, k, l])).map encode
  | _ => none

/-! ### `Block` (block.go:77-83): the reflection struct of the codecs above — Header (custom), Txs (`[]*Transaction`, each
  the `txdata` struct), ChangeLogs (`[]*ChangeLog`, custom elements), Confirms (`[]SignData`), DeputyNodes (`[]*DeputyNode`).

  Only the code as it is.  Before 7e982c7 a short change log inside a block leaked `rlp.EOL` and left the Stream's list
  stack one level off (the following struct fields were read from inside the change-log list); the item level cannot
  express that, so there is no `fx = false` version of the Block codec (the stand-alone list is `decodeLogSlice false`). -/

structure BlockV where
  header : Val
  txs : Val
  logs : List CLog
  confirms : Val
  deputies : Val
  deriving Repr, Inhabited

def decodeBlock (E : List UInt8) : Item → Option BlockV
  | .list [h, txs, logs, cf, dn] =>
    match decodeHeader true E h, decodeS true (.listOf txSchema) txs, decodeLogSlice true logs,
          decodeS true (.listOf signData) cf, decodeS true (.listOf deputyNodeSchema) dn with
    | some hv, some tv, some lv, some cv, some dv => some ⟨hv, tv, lv, cv, dv⟩
    | _, _, _, _, _ => none
  | _ => none

def encodeBlock (E : List UInt8) (b : BlockV) : Option Item :=
  match encodeHeader E b.header, encodeS (.listOf txSchema) b.txs, encodeLogSlice b.logs,
        encodeS (.listOf signData) b.confirms, encodeS (.listOf deputyNodeSchema) b.deputies with
  | some h, some t, some l, some c, some d => some (.list [h, t, l, c, d])
  | _, _, _, _, _ => none

/-- `merkle.EmptyTrieHash` = Keccak256 of nothing (common/merkle) -/
def emptyTrieHash : List UInt8 :=
  [0xc5, 0xd2, 0x46, 0x01, 0x86, 0xf7, 0x23, 0x3c, 0x92, 0x7e, 0x7d, 0xb2, 0xdc, 0xc7, 0x03, 0xc0,
   0xe5, 0x00, 0xb6, 0x53, 0xca, 0x82, 0x27, 0x3b, 0x7b, 0xfa, 0xd8, 0x04, 0x5d, 0x85, 0xa4, 0x70]

end LemoModel.RlpCustom

/-
  C14 — typed layer of /repo/common/rlp: what the reflection based struct/slice/array/uint/big.Int
  coders accept and produce, expressed over the generic `Item` tree.  Core Lean only.

  Schema constructors and the Go coders they stand for (decode.go / encode.go):
    bytes        []byte, string          decodeByteSlice/decodeString  | writeBytes/writeString
    fixed n      [n]byte (Hash, Address, SignData)   decodeByteArray: exactly n bytes | writeByteArray
    uint bits    uint8/16/32/64          Stream.uint: no leading zero, at most bits/8 bytes | writeUint
    big          *big.Int (≥ 0)          decodeBigInt: no leading zero | writeBigInt (nil and 0 both → empty string)
    listOf s     []T                     decodeListSlice | makeSliceWriter
    struct fs    struct                  makeStructDecoder: exactly one element per field | makeStructWriter
    optFixed n   *[n]byte `rlp:"nil"`    makeOptionalPtrDecoder: the empty STRING is the nil pointer - the empty
                                         value of the kind the writer emits for nil (makePtrWriter, byte-array
                                         case; `nilKindOf`, since /repo ac28a64); the empty list is an error.
                                         Before that fix ANY empty value (`size == 0 && kind != Byte`: empty
                                         string **or empty list**) was the nil pointer.

  The flag `fx : Bool` of the decoders: `true` = /repo as it is, with the C14 strictness fixes - what the driver runs and
  what the theorems are about; `false` = the code before those fixes, kept for the labelled refutation witnesses only
  (`LemoProofs.C14.Legacy.*`).  The encoders did not change and take no flag.  The fixes (branch c14fix of /repo; the
  commit subjects identify them should the hashes change in a rebase):
    ac28a64  fix: a pointer field tagged rlp:"nil" decoded the empty list 0xC0 as well as the empty string …   (common/rlp/decode.go)
    05de783  fix: Header.DecodeRLP accepted a TxRoot/LogRoot byte string of any length …                      (chain/types/block.go)
    8a6b205  fix: Profile.DecodeRLP took any size-zero item … and accepted duplicate or unsorted keys         (chain/types/account_data.go)
    7e982c7  fix: ChangeLog.DecodeRLP handed on rlp.EOL when the list of the log had fewer than five elements (chain/types/change_log.go)
    4ab6b74  fix: the change-log payload decoders decodeHash and decodeAddress ran BytesToHash/BytesToAddress … (chain/account/change_log.go)
    a0389ea  fix: the change-log payload decoders decodeEmptyInterface, decodeSigners, decodeAsset, decodeEquity and
             decodeProfileChangeLogExtra took every size-zero item … for nil                                  (chain/account/change_log.go)
    29ca096  fix: decodeCandidate returned a *interface{} for a CandidateLog with an empty profile            (chain/account/change_log.go)
    f02560a  fix: decodeSigners returned an untyped nil for a SignerLog with no signers                       (chain/account/change_log.go)
    4e3d12b  fix: decodeAsset returned an untyped nil for an AssetCodeLog without asset                       (chain/account/change_log.go)
  The typed stream decoders read the same headers as the generic one (`Stream.Kind`), so a typed
  decoder accepts `b` iff the generic decoder accepts `b` as some item `it` and `decodeS s it` is a value
  (tied to the real code by the `typed <family> <hex>` ops of `hx c14`: same accept/reject and same re-encoding
  on valid, mutated and random inputs; the field lists below are compared with the Go source by the `schema` ops).
-/
import LemoModel.Rlp
namespace LemoModel.RlpSchema
open LemoModel.Rlp

inductive Schema where
  | bytes
  | fixed (n : Nat)
  | uint (bits : Nat)
  | big
  | listOf (s : Schema)
  | struct (fs : List Schema)
  | optFixed (n : Nat)
  deriving Repr, Inhabited

inductive Val where
  | bytes (b : List UInt8)
  | nat (n : Nat)
  | list (vs : List Val)
  | nil                       -- nil pointer of an `optFixed` field
  deriving Repr, Inhabited

def noLeadZero (b : List UInt8) : Bool := b.head? != some 0

mutual
  /-- typed decoding of an already parsed item (`none` = the typed decoder returns an error) -/
  def decodeS (fx : Bool) : Schema → Item → Option Val
    | .bytes, .bytes b => some (.bytes b)
    | .fixed n, .bytes b => if b.length = n then some (.bytes b) else none
    | .uint bits, .bytes b => if noLeadZero b ∧ b.length ≤ bits / 8 then some (.nat (fromBE b)) else none
    | .big, .bytes b => if noLeadZero b then some (.nat (fromBE b)) else none
    | .listOf s, .list xs => (decodeAll fx s xs).map Val.list
    | .struct fs, .list xs => (decodeFields fx fs xs).map Val.list
    | .optFixed n, .bytes b => if b.isEmpty then some .nil else if b.length = n then some (.bytes b) else none
    | .optFixed _, .list xs => if fx then none else if xs.isEmpty then some .nil else none
    | _, _ => none
  def decodeAll (fx : Bool) : Schema → List Item → Option (List Val)
    | _, [] => some []
    | s, x :: xs =>
      match decodeS fx s x, decodeAll fx s xs with
      | some v, some vs => some (v :: vs)
      | _, _ => none
  def decodeFields (fx : Bool) : List Schema → List Item → Option (List Val)
    | [], [] => some []
    | f :: fs, x :: xs =>
      match decodeS fx f x, decodeFields fx fs xs with
      | some v, some vs => some (v :: vs)
      | _, _ => none
    | _, _ => none
end

mutual
  /-- typed encoding (`none` = the value does not have the Go type described by the schema) -/
  def encodeS : Schema → Val → Option Item
    | .bytes, .bytes b => some (.bytes b)
    | .fixed n, .bytes b => if b.length = n then some (.bytes b) else none
    | .uint bits, .nat v => if v < 256 ^ (bits / 8) then some (.bytes (toBE v)) else none
    | .big, .nat v => some (.bytes (toBE v))
    | .listOf s, .list vs => (encodeAll s vs).map Item.list
    | .struct fs, .list vs => (encodeFields fs vs).map Item.list
    | .optFixed _, .nil => some (.bytes [])
    | .optFixed n, .bytes b => if b.length = n ∧ 0 < n then some (.bytes b) else none
    | _, _ => none
  def encodeAll : Schema → List Val → Option (List Item)
    | _, [] => some []
    | s, v :: vs =>
      match encodeS s v, encodeAll s vs with
      | some x, some xs => some (x :: xs)
      | _, _ => none
  def encodeFields : List Schema → List Val → Option (List Item)
    | [], [] => some []
    | f :: fs, v :: vs =>
      match encodeS f v, encodeFields fs vs with
      | some x, some xs => some (x :: xs)
      | _, _ => none
    | _, _ => none
end

mutual
  /-- the schema has no `rlp:"nil"` pointer field -/
  def noOpt : Schema → Bool
    | .optFixed _ => false
    | .listOf s => noOpt s
    | .struct fs => noOptAll fs
    | _ => true
  def noOptAll : List Schema → Bool
    | [] => true
    | f :: fs => noOpt f && noOptAll fs
end

/-! ### the custom layer of `Header.EncodeRLP/DecodeRLP` (block.go:193-243): root elision

  `E` is `merkle.EmptyTrieHash` (any fixed 32-byte value).  The encoder writes an empty string for a
  root equal to `E`; the decoder maps an empty string to `E` and any other ACCEPTED byte string through
  `common.BytesToHash` (crop from the left / left-pad to 32 bytes).  Since /repo 05de783 `decodeRoot` accepts
  (`rootOk`) the empty string and the 32 bytes of a root other than `E` only; before, every byte string. -/

def bytesToHash (b : List UInt8) : List UInt8 :=
  let b' := if b.length > 32 then b.drop (b.length - 32) else b
  List.replicate (32 - b'.length) 0 ++ b'

def encRoot (E h : List UInt8) : List UInt8 := if h = E then [] else h
def decRoot (E b : List UInt8) : List UInt8 := if b.isEmpty then E else bytesToHash b
/-- `decodeRoot` (block.go): `len(b) == 0`, or `len(b) == 32` and not the empty-trie hash -/
def rootOk (E b : List UInt8) : Bool := if b.isEmpty then true else decide (b.length = 32 ∧ b ≠ E)

/-! ### consensus types (field lists read off the Go struct definitions) -/

def hash := Schema.fixed 32
def address := Schema.fixed 20
def signData := Schema.fixed 65

/-- chain/types/block.go `rlpHeader` -/
def headerSchema : Schema :=
  .struct [hash, address, hash, .bytes, .bytes, .uint 32, .uint 64, .uint 64, .uint 32, .bytes, .bytes, .bytes]

/-- chain/types/deputy_node.go `DeputyNode` -/
def deputyNodeSchema : Schema := .struct [address, .bytes, .uint 32, .big]

/-- network/protocol.go `BlockConfirmData` -/
def blockConfirmSchema : Schema := .struct [hash, .uint 32, signData]

/-- network/protocol.go `BlockConfirms` -/
def blockConfirmsSchema : Schema := .struct [.uint 32, hash, .listOf signData]

/-- network/peer.go `ProtocolHandshake` (with `LatestStatus`) -/
def handshakeSchema : Schema :=
  .struct [.uint 16, hash, .uint 32, .struct [.uint 32, hash, .uint 32, hash]]

/-- chain/types/tx.go `txdata` (the `rlp:"-"` field `Hash` is skipped; `GasPayerSigs` is last) -/
def txSchema : Schema :=
  .struct [.uint 16, .uint 8, .uint 16, address, .optFixed 20, .optFixed 20, .bytes, .big, .uint 64, .uint 64,
           .big, .bytes, .uint 64, .bytes, .listOf .bytes, .listOf .bytes]

/-- chain/types/event.go `rlpEvent` -/
def eventSchema : Schema := .struct [address, .listOf hash, .bytes]

/-- chain/types/asset.go `AssetEquity` -/
def assetEquitySchema : Schema := .struct [hash, hash, .big]

end LemoModel.RlpSchema

/-
  C13 — hand part of the schedule model.  All arithmetic comes from the
  generated `LemoGen.Schedule` (regenerated from /repo on every run); the hand
  part is only the control flow of `GetDeputyByDistance` / `GetMinerDistance`
  over a deputy list whose members are identified with their ranks `0..n-1`
  (`TermRecord` guarantees rank i = index i).
-/
import LemoGen.Schedule
namespace LemoModel.Sched
open LemoModel LemoGen.Schedule

/-- `Manager.GetDeputyByDistance` on ranks. `special` = `targetHeight == 1 || IsRewardBlock(targetHeight)`;
    `parentRank = none` when the parent's miner is not among the deputies of the target height. -/
def deputyByDistance (n : Nat) (special : Bool) (parentRank : Option Nat) (distance : Nat) : GoRes Nat :=
  if distance < 1 then .panic
  else if n == 0 then .err "ErrNotDeputy"
  else if special then .ok (byDistanceRewardIndex (distance := distance) (nodeCount := n))
  else match parentRank with
    | some r => .ok (byDistanceIndex (distance := distance) (index := (r : Int)) (nodeCount := n))
    | none => .err "ErrNotDeputy"

/-- `Manager.GetMinerDistance` on ranks (`target = none`: target miner is not a deputy). -/
def minerDistance (n : Nat) (special : Bool) (parentRank target : Option Nat) : GoRes Nat :=
  match target with
  | none => .err "ErrNotDeputy"
  | some t =>
    if special then .ok (minerDistanceReward (targetDeputy_Rank := t))
    else if parentRank == some t then .ok n
    else match parentRank with
      | none => .err "ErrNotDeputy"
      | some p => .ok (minerDistanceRanks (lastDeputy_Rank := p) (nodeCount := n) (targetDeputy_Rank := t))

/-- `consensus.GetCorrectMiner` followed by the deputy lookup, on ranks. -/
def correctMiner (n : Nat) (special : Bool) (parentRank : Option Nat)
    (parentTimeSec : Nat) (parentHeight : Nat) (mineTime mineTimeout : Int) : GoRes Nat :=
  match GetCorrectMiner (mineTime := mineTime) (mineTimeout := mineTimeout) (parent_Time := parentTimeSec)
      (nodeCount := (n : Int)) (parent_Height := parentHeight) (parent_MinerAddress := 0) with
  | .panic => .panic
  | .err e => .err e
  | .ok (_, _, d) => deputyByDistance n special parentRank d

/-- `special` as the code computes it for a target height. -/
def isSpecial (targetHeight termDuration interimDuration : Nat) : Bool :=
  targetHeight == 1 || IsRewardBlock (height := targetHeight) (params_TermDuration := termDuration)
    (params_InterimDuration := interimDuration)

end LemoModel.Sched

/-
  C13 — hand part of the schedule model.  All arithmetic comes from the
  generated `LemoGen.Schedule` (regenerated from /repo on every run); the hand
  part is only the control flow of `GetDeputyByDistance` / `GetMinerDistance`
  over a deputy list whose members are identified with their ranks `0..n-1`
  (`TermRecord` guarantees rank i = index i).
-/
import LemoGen.Schedule
namespace LemoModel.Sched
open LemoModel LemoGen.Schedule

/-- `Manager.GetDeputyByDistance` on ranks. `special` = `targetHeight == 1 || IsRewardBlock(targetHeight)`;
    `parentRank = none` when the parent's miner is not among the deputies of the target height. -/
def deputyByDistance (n : Nat) (special : Bool) (parentRank : Option Nat) (distance : Nat) : GoRes Nat :=
  if distance < 1 then .panic
  else if n == 0 then .err "ErrNotDeputy"
  else if special then .ok (byDistanceRewardIndex (distance := distance) (nodeCount := n))
  else match parentRank with
    | some r => .ok (byDistanceIndex (distance := distance) (index := (r : Int)) (nodeCount := n))
    | none => .err "ErrNotDeputy"

/-- `Manager.GetMinerDistance` on ranks (`target = none`: target miner is not a deputy). -/
def minerDistance (n : Nat) (special : Bool) (parentRank target : Option Nat) : GoRes Nat :=
  match target with
  | none => .err "ErrNotDeputy"
  | some t =>
    if special then .ok (minerDistanceReward (targetDeputy_Rank := t))
    else if parentRank == some t then .ok n
    else match parentRank with
      | none => .err "ErrNotDeputy"
      | some p => .ok (minerDistanceRanks (lastDeputy_Rank := p) (nodeCount := n) (targetDeputy_Rank := t))

/-- `consensus.GetCorrectMiner` followed by the deputy lookup, on ranks. -/
def correctMiner (n : Nat) (special : Bool) (parentRank : Option Nat)
    (parentTimeSec : Nat) (parentHeight : Nat) (mineTime mineTimeout : Int) : GoRes Nat :=
  match GetCorrectMiner (mineTime := mineTime) (mineTimeout := mineTimeout) (parent_Time := parentTimeSec)
      (nodeCount := (n : Int)) (parent_Height := parentHeight) (parent_MinerAddress := 0) with
  | .panic => .panic
  | .err e => .err e
  | .ok (_, _, d) => deputyByDistance n special parentRank d

/-- `GetCorrectMiner` + lookup WITH Go's integer-division panics made explicit.  The translator renders Go's `%` and
    `/` by Lean's total `Int.tmod` / `Int.tdiv` (`x % 0 = x`, `x / 0 = 0`), where Go panics with "integer divide by
    zero".  After the two error returns the code evaluates `passTime % (nodeCount*mineTimeout)` and then
    `… / mineTimeout`: a term without deputies (`n = 0`, the term is not loaded / not stable yet) or a zero timeout
    crashes the caller.  `correctMiner` (kept for the proofs that assume `0 < n`, `0 < T`) agrees with this function
    exactly when `n * T ≠ 0` (`correctMinerGo_eq`). -/
def correctMinerGo (n : Nat) (special : Bool) (parentRank : Option Nat)
    (parentTimeSec : Nat) (parentHeight : Nat) (mineTime mineTimeout : Int) : GoRes Nat :=
  match GetCorrectMiner (mineTime := mineTime) (mineTimeout := mineTimeout) (parent_Time := parentTimeSec)
      (nodeCount := (n : Int)) (parent_Height := parentHeight) (parent_MinerAddress := 0) with
  | .panic => .panic
  | .err e => .err e
  | .ok _ =>
    if (n : Int) * mineTimeout == 0 then .panic
    else correctMiner n special parentRank parentTimeSec parentHeight mineTime mineTimeout

/-- `special` as the code computes it for a target height. -/
def isSpecial (targetHeight termDuration interimDuration : Nat) : Bool :=
  targetHeight == 1 || IsRewardBlock (height := targetHeight) (params_TermDuration := termDuration)
    (params_InterimDuration := interimDuration)

end LemoModel.Sched

/-
  C19 — interleaving semantics + the unsynchronised two-word memos of the consensus engine.
  Core Lean only.

  (1) A tiny shared-memory machine.  A thread is a list of SECTIONS; a section is a list of atomic
      steps `σ → σ` that is either run under THE lock (`locked = true`: the section can only begin
      while no other locked section is in progress, and the lock is released after its last step)
      or without any lock.  An execution is any schedule `List Nat` of thread picks: each pick lets
      that thread do its next micro-action (begin a section / one atomic step / end the section);
      a pick of a thread that is finished or blocked on the lock is a no-op, so EVERY list of picks
      is an execution and the executions are exactly the merges of the threads' step lists that
      respect the lock.

  (2) `consensus.SignBlock` (/repo/chain/consensus/block_signer.go) over the package-level
      `sigCache {Hash; Sig}`:
          if sigCache.Hash == blockHash { return sigCache.Sig }      -- read Hash; read Sig
          sig := Sign(blockHash)                                      -- local
          sigCache.Hash = blockHash                                   -- write Hash
          sigCache.Sig  = sig                                         -- write Sig
          return sigCache.Sig                                         -- read Sig AGAIN
      A signature is identified with the hash it signs (`0` = nil / the zero hash of the empty
      cache): the call `SignBlock h` is correct iff it returns `h`.

  (3) `Confirmer.lastSig {Height; Hash}` (/repo/chain/consensus/confirmer.go): `SetLastSig`
      (read Height; write Height; write Hash) against the reads of `needConfirm` (Height; Hash).
-/
namespace LemoModel.Signer

/-! ### (1) the machine -/

structure Sec (σ : Type) where
  locked : Bool
  steps  : List (σ → σ)

structure TState (σ : Type) where
  cur  : Option (Sec σ) := none
  todo : List (Sec σ) := []

structure Cfg (σ : Type) where
  st    : σ
  owner : Option Nat := none
  ts    : Nat → TState σ
  /-- the step lists of the sections begun so far, most recent first (= reverse acquisition order) -/
  log   : List (List (σ → σ)) := []

def upd {σ : Type} (ts : Nat → TState σ) (i : Nat) (t : TState σ) : Nat → TState σ :=
  fun j => if j = i then t else ts j

/-- thread `i` does its next micro-action -/
def pick {σ : Type} (c : Cfg σ) (i : Nat) : Cfg σ :=
  match (c.ts i).cur with
  | none =>
    match (c.ts i).todo with
    | [] => c
    | sec :: rest =>
      if sec.locked && c.owner.isSome then c
      else { st := c.st, owner := if sec.locked then some i else c.owner,
             ts := upd c.ts i ⟨some sec, rest⟩, log := sec.steps :: c.log }
  | some sec =>
    match sec.steps with
    | f :: fs => { st := f c.st, owner := c.owner,
                   ts := upd c.ts i ⟨some ⟨sec.locked, fs⟩, (c.ts i).todo⟩, log := c.log }
    | [] => { st := c.st, owner := if sec.locked then none else c.owner,
              ts := upd c.ts i ⟨none, (c.ts i).todo⟩, log := c.log }

def exec {σ : Type} (c : Cfg σ) (sch : List Nat) : Cfg σ := sch.foldl pick c

def init {σ : Type} (s : σ) (progs : Nat → List (Sec σ)) : Cfg σ :=
  { st := s, ts := fun i => ⟨none, progs i⟩ }

def runSteps {σ : Type} (fs : List (σ → σ)) (s : σ) : σ := fs.foldl (fun s f => f s) s

/-- sequential composition of whole sections -/
def runSecs {σ : Type} (secs : List (List (σ → σ))) (s : σ) : σ := secs.foldl (fun s fs => runSteps fs s) s

def allBools : Nat → List (List Bool)
  | 0 => [[]]
  | k + 1 => (allBools k).map (false :: ·) ++ (allBools k).map (true :: ·)

def countTrue : List Bool → Nat
  | [] => 0
  | b :: l => (if b then 1 else 0) + countTrue l

/-- all merges of `m` picks of thread `false` with `n` picks of thread `true`
    (= the Boolean lists of length `m + n` with exactly `n` `true`s), in lexicographic order -/
def merges (m n : Nat) : List (List Bool) := (allBools (m + n)).filter (fun l => countTrue l == n)

/-! ### (2) SignBlock over sigCache -/

inductive PC where
  | start | hit | wHash | wSig | rSig | done
  deriving DecidableEq, Repr

structure Loc where
  pc  : PC := .start
  deriving Repr

/-- shared `sigCache` + the threads' program counters + the log of completed calls
    `(thread, requested hash, returned signature)`, most recent first -/
structure SS where
  hash : Nat := 0
  sig  : Nat := 0
  rets : List (Nat × Nat × Nat) := []
  loc  : Nat → Loc := fun _ => {}

def setPc (s : SS) (i : Nat) (pc : PC) : SS :=
  { s with loc := fun j => if j = i then ⟨pc⟩ else s.loc j }

def finish (s : SS) (i h r : Nat) : SS :=
  setPc { s with rets := (i, h, r) :: s.rets } i .done

/-- one atomic shared-memory action of thread `i` inside `SignBlock h` -/
def sbStep (i h : Nat) (s : SS) : SS :=
  match (s.loc i).pc with
  | .start => if s.hash = h then setPc s i .hit else setPc s i .wHash
  | .hit   => finish s i h s.sig
  | .wHash => setPc { s with hash := h } i .wSig
  | .wSig  => setPc { s with sig := h } i .rSig
  | .rSig  => finish s i h s.sig
  | .done  => s

/-- the call returns: the thread's next call starts from the top (local, no shared access) -/
def sbReset (i : Nat) (s : SS) : SS := setPc s i .start

/-- `SignBlock h` by thread `i`: at most four shared accesses (`done` steps are no-ops) -/
def signSteps (i h : Nat) : List (SS → SS) := [sbStep i h, sbStep i h, sbStep i h, sbStep i h, sbReset i]

def signSec (locked : Bool) (i h : Nat) : Sec SS := ⟨locked, signSteps i h⟩

/-- two threads, one unsynchronised call each, from a given cache, following one merge of their
    shared-memory accesses (`false` = thread 0, `true` = thread 1) -/
def run2 (hash sig h0 h1 : Nat) (m : List Bool) : SS :=
  m.foldl (fun s b => if b then sbStep 1 h1 s else sbStep 0 h0 s) { hash := hash, sig := sig }

def retOf (s : SS) (i : Nat) : Option Nat :=
  (s.rets.find? (fun x => x.1 == i)).map (·.2.2)

/-- (what thread 0 returned, what thread 1 returned, final cache) -/
def outcome (hash sig h0 h1 : Nat) (m : List Bool) : Option Nat × Option Nat × Nat × Nat :=
  let s := run2 hash sig h0 h1 m
  (retOf s 0, retOf s 1, s.hash, s.sig)

def dedup {α : Type} [BEq α] : List α → List α
  | [] => []
  | a :: l => if (dedup l).contains a then dedup l else a :: dedup l

/-- sequential `SignBlock h` (the whole body as one transition) on a cache -/
def signSeq (hash sig h : Nat) : Nat × Nat × Nat :=
  let s := runSteps (signSteps 0 h) { hash := hash, sig := sig }
  ((retOf s 0).getD 0, s.hash, s.sig)

/-! ### (3) lastSig -/

structure LS where
  height : Nat
  hash   : Nat
  /-- writer's local: the Height it compared against -/
  wSeen  : Nat := 0
  /-- reader's locals -/
  rHeight : Nat := 0
  rHash   : Nat := 0

/-- `SetLastSig(block)` : `if block.Height() > c.lastSig.Height { lastSig.Height = …; lastSig.Hash = … }` -/
def setLastSigSteps (height hash : Nat) : List (LS → LS) :=
  [ fun s => { s with wSeen := s.height },
    fun s => if height > s.wSeen then { s with height := height } else s,
    fun s => if height > s.wSeen then { s with hash := hash } else s ]

/-- the two reads at the top of `needConfirm` -/
def readLastSigSteps : List (LS → LS) :=
  [ fun s => { s with rHeight := s.height }, fun s => { s with rHash := s.hash } ]

/-- writer = thread `false`, reader = thread `true`; the merge picks the next step of either list -/
def runLS : List (LS → LS) → List (LS → LS) → List Bool → LS → LS
  | f :: w, r, false :: m, s => runLS w r m (f s)
  | w, g :: r, true :: m, s => runLS w r m (g s)
  | _, _, _, s => s

/-- what the reader saw -/
def lsOutcome (h0 hash0 h1 hash1 : Nat) (m : List Bool) : Nat × Nat :=
  let s := runLS (setLastSigSteps h1 hash1) readLastSigSteps m { height := h0, hash := hash0 }
  (s.rHeight, s.rHash)

/-! ### (4) read-modify-write of one stored record

  `ChainDatabase.setConfirm` on a STABLE block (/repo/store/chain_database.go): `getBlock4DB(hash)` (read the
  record from Beansdb and decode it into a PRIVATE block), `appendConfirm` (local), `setBlock2DB` (write the
  record back).  Two writers: `DPoVP.InsertConfirms` (under chainLock) and the `batchConfirmStable`
  goroutine (outside it); the only thing that makes the triple atomic is `ChainDatabase.RW` held by
  `SetConfirms` from before the read until after the write back.  Confirms are distinct naturals. -/

structure RS where
  /-- the stored confirm set of the block -/
  cell  : List Nat := []
  /-- (ghost) the confirms whose writer has returned successfully, most recent first -/
  acked : List Nat := []
  /-- each writer's private decoded copy -/
  loc   : Nat → List Nat := fun _ => []

def rmwRead (i : Nat) (s : RS) : RS := { s with loc := fun j => if j = i then s.cell else s.loc j }
def rmwWrite (i x : Nat) (s : RS) : RS := { s with cell := s.loc i ++ [x], acked := x :: s.acked }

/-- one `setConfirm(hash, [x])` by writer `i`: two shared accesses -/
def rmwSteps (i x : Nat) : List (RS → RS) := [rmwRead i, rmwWrite i x]

def rmwSec (locked : Bool) (i x : Nat) : Sec RS := ⟨locked, rmwSteps i x⟩

/-- two step lists merged by a Boolean schedule (`false` = first list) -/
def runMerge2 {σ : Type} : List (σ → σ) → List (σ → σ) → List Bool → σ → σ
  | f :: a, b, false :: m, s => runMerge2 a b m (f s)
  | a, g :: b, true :: m, s => runMerge2 a b m (g s)
  | _, _, _, s => s

/-- (stored set, acknowledged confirms) after two unsynchronised writers appending 1 and 2 -/
def rmwOutcome (m : List Bool) : List Nat × List Nat :=
  let s := runMerge2 (rmwSteps 0 1) (rmwSteps 1 2) m {}
  (s.cell, s.acked)

/-! ### (5) check-then-act on the fork head (`MineBlock` against `InsertBlock`)

  `DPoVP.MineBlock` (/repo/chain/consensus/dpovp.go): `parentHeader := dp.CurrentBlock().Header` (READ the
  head), then check the node's slot against it, build a child of it, store it and update the fork head (ACT).
  `DPoVP.InsertBlock(B)` moves the head from P to B under the chain lock.  Blocks: `0` = P, `1` = B, `2` = M (the
  node's own block); the node is in turn on P only.  The engine's section must start BEFORE the read. -/

structure CS where
  head      : Nat := 0
  /-- (ghost) every mining decision: (the head the slot was checked against, the head at the moment the block
      was built and stored), most recent first -/
  decisions : List (Nat × Nat) := []
  /-- parents of the blocks this node mined, most recent first -/
  mined     : List Nat := []
  /-- failed `MineBlock` calls (not in turn) -/
  mineErr   : Nat := 0
  loc       : Nat → Nat := fun _ => 0

def ctaInTurn (h : Nat) : Bool := h == 0

/-- `parentHeader := dp.CurrentBlock().Header` -/
def ctaRead (i : Nat) (s : CS) : CS := { s with loc := fun j => if j = i then s.head else s.loc j }

/-- the rest of `MineBlock`: slot check against the header read, build + store a child of it, `UpdateFork`
    (the new block becomes the head only if it extends the current head; a sibling at the same height does not) -/
def ctaAct (i : Nat) (s : CS) : CS :=
  let p := s.loc i
  if ctaInTurn p then
    { s with decisions := (p, s.head) :: s.decisions, mined := p :: s.mined,
             head := if s.head = p then 2 else s.head }
  else { s with mineErr := s.mineErr + 1 }

/-- `InsertBlock(B)`, B a child of P: B becomes the head if P still is -/
def ctaInsert (s : CS) : CS := { s with head := if s.head = 0 then 1 else s.head }

/-- `MineBlock` with the read INSIDE the chain-lock section (the code) -/
def ctaMineSteps (i : Nat) : List (CS → CS) := [ctaRead i, ctaAct i]

/-- one engine call of thread `i` under the chain lock: `true` = MineBlock, `false` = InsertBlock(B) -/
def ctaSec (i : Nat) (mine : Bool) : Sec CS := if mine then ⟨true, ctaMineSteps i⟩ else ⟨true, [ctaInsert]⟩

/-- `MineBlock` with the read BEFORE the lock (the seeded variant): an unlocked read, then the locked rest -/
def ctaMineOutside (i : Nat) : List (Sec CS) := [⟨false, [ctaRead i]⟩, ⟨true, [ctaAct i]⟩]

/-- (parents of the mined blocks, failed MineBlock calls, final head) -/
def ctaOutcome (s : CS) : List Nat × Nat × Nat := (s.mined, s.mineErr, s.head)

/-- one MineBlock (thread 0; its two steps merged freely = the read is not protected) against one InsertBlock(B) -/
def ctaOutcomeUnlocked (m : List Bool) : List Nat × Nat × Nat :=
  ctaOutcome (runMerge2 (ctaMineSteps 0) [ctaInsert] m {})

/-! ### (6) `needConfirm`'s use of lastSig: the clamp to the stable block

  `needConfirm` (/repo/chain/consensus/confirmer.go) reads `lastSig` (under `lastSigLock` since 204ebea), releases the
  lock, then reads the stable block and CLAMPS: `if lastConfirmHeight <= stable.Height() { use the stable block }`.
  The batch goroutine may run `SetLastSig(S)` in between (check-then-act); it only signs blocks that are already
  stable (`BatchConfirmStable(oldStable+1 .. StableBlock().Height())`) and `SetLastSig` only moves lastSig upwards. -/

/-- the (height, hash) `needConfirm` compares the new block with -/
def clampLast (lastH lastX stableH stableX : Nat) : Nat × Nat :=
  if lastH ≤ stableH then (stableH, stableX) else (lastH, lastX)

/-! ### (7) the last-signed record as a monotone-max register (`SetLastSig`)

  `Confirmer.SetLastSig(block)`: `if block.Height() > lastSig.Height { lastSig = block }`.  Writers: the chain-lock
  holder (`saveNewBlock`, own high block) and the batch-confirm goroutine (lower, stable blocks).  Heights only. -/

structure MS where
  cell : Nat := 0
  /-- (ghost) the heights of the completed `SetLastSig` calls, most recent first -/
  done : List Nat := []
  loc  : Nat → Nat := fun _ => 0

/-- `lastSig.Height` is read -/
def mxRead (i : Nat) (s : MS) : MS := { s with loc := fun j => if j = i then s.cell else s.loc j }

/-- the check against the height READ and the update -/
def mxWrite (i x : Nat) (s : MS) : MS :=
  { s with cell := if x > s.loc i then x else s.cell, done := x :: s.done }

/-- `SetLastSig(x)` with check and update in ONE section of lastSigLock (the code) -/
def mxSteps (i x : Nat) : List (MS → MS) := [mxRead i, mxWrite i x]
def mxSec (i x : Nat) : Sec MS := ⟨true, mxSteps i x⟩

/-- the split variant: the read in one section of the lock, the update in ANOTHER one (both guarded) -/
def mxSplit (i x : Nat) : List (Sec MS) := [⟨true, [mxRead i]⟩, ⟨true, [mxWrite i x]⟩]

def maxList (l : List Nat) : Nat := l.foldl Nat.max 0

end LemoModel.Signer

/-
  C03 — executable model of the finality machinery (core Lean only).

  Anchors (read line by line, defects kept):
    chain/consensus/stable_manager.go   IsConfirmEnough, StableManager.UpdateStable
    chain/consensus/validator.go        VerifyNewConfirms (with the signer map of commit d34eb0a), IsSigExist, VerifyConfirmPacket
    chain/types/block.go                Block.IsConfirmExist   (byte comparison only)
    chain/consensus/dpovp.go            InsertBlock / saveNewBlock / InsertConfirms / insertConfirms
    chain/consensus/fork_manager.go     UpdateFork, UpdateForkForConfirm, ChooseNewFork, needSwitchFork, isCurrentForkCut
    chain/consensus/confirmer.go        SaveConfirm
    store/chain_database.go             SetBlock, appendConfirm/setConfirm, SetStableBlock (commit + prune), GetUnConfirmByHeight
    chain/deputynode/manager.go         TwoThirdDeputyCount

  A signature is a byte string; what the code can learn from it is the node it
  recovers to.  `Sig = (signer, variant)`: `signer` is the recovered node
  (`none` = Ecrecover fails), `variant` separates different byte strings that
  recover to the same node (0 = the deterministic `crypto.Sign` output,
  1 = its re-encoding (r, N−s, v⊕1), 2.. = signatures with other nonces).
  Byte equality of signatures is structural equality of `Sig`; `recover` is
  deliberately NOT injective.

  The unconfirmed tree (`ChainDatabase.UnConfirmBlocks` + CBlock parent/children
  pointers) is a list of blocks, NEWEST FIRST (SetBlock conses), so the parent of
  a block is always later in the list or is the stable block.
-/
import LemoModel.GoSem
namespace LemoModel.Stable

structure Sig where
  signer : Option Nat
  variant : Nat
  deriving DecidableEq, Repr

/-- `SignData.RecoverNodeID` (for the hash of the block the signature is offered for). -/
def recover (s : Sig) : Option Nat := s.signer

structure Blk where
  id : Nat          -- the block hash (label)
  parent : Nat      -- parent hash
  height : Nat
  miner : Nat       -- rank of the deputy named by Header.MinerAddress
  rank : Nat        -- position of the hash in byte order (ChooseNewFork tie break)
  hdr : Sig         -- Header.SignData
  confirms : List Sig
  deriving DecidableEq, Repr

/-- `uint32(math.Ceil(float64(n) * 2.0 / 3.0))` — integer form; the equality with the float
    expression is swept for every n < 65536 by the harness (`tt` lines) and
    `LemoProofs.C03.two_thirds_arith` proves it is the ceiling. -/
def twoThirds (n : Nat) : Nat := (2 * n + 2) / 3

/-- `IsConfirmEnough`: `len(Confirms)+1` against the fast path (configured maximum `dc`) and the
    term's deputy count `n`.  Counts signatures, not signers. -/
def isConfirmEnough (dc n : Nat) (b : Blk) : Bool :=
  decide (twoThirds dc ≤ b.confirms.length + 1) || decide (twoThirds n ≤ b.confirms.length + 1)

/-- `Block.IsConfirmExist`: byte comparison with the header signature and the stored confirms. -/
def isConfirmExist (b : Blk) (s : Sig) : Bool :=
  decide (b.hdr = s) || decide (s ∈ b.confirms)

inductive CErr where
  | none | existed | invalidSig | invalidSigner
  deriving DecidableEq, Repr

def CErr.name : CErr → String
  | .none => "nil"
  | .existed => "ErrExistedConfirm"
  | .invalidSig => "ErrInvalidSignedConfirmInfo"
  | .invalidSigner => "ErrInvalidConfirmSigner"

/-- loop of `Validator.VerifyNewConfirms` AS IT WAS BEFORE /repo commit d34eb0a (bytes-only
    de-duplication; kept for the refutation theorems and for `C03_ASIS` runs against a reverted tree):
    `valid` and `lastErr` are the accumulators. -/
def verifyLoop (n : Nat) (b : Blk) : List Sig → List Sig → CErr → List Sig × CErr
  | [], valid, e => (valid, e)
  | s :: rest, valid, e =>
    if s ∈ valid then                                    -- IsSigExist(validConfirms, sig)
      verifyLoop n b rest valid (if e = .none then .existed else e)
    else match recover s with
      | none => verifyLoop n b rest valid .invalidSig    -- RecoverNodeID failed
      | some d =>
        if ¬ d < n then verifyLoop n b rest valid .invalidSigner   -- GetDeputyByNodeID == nil
        else if isConfirmExist b s then verifyLoop n b rest valid e -- "Duplicate confirm": BYTES only
        else verifyLoop n b rest (valid ++ [s]) e

def verifyNewConfirms (n : Nat) (b : Blk) (sigs : List Sig) : List Sig × CErr :=
  verifyLoop n b sigs [] .none

/-- loop of `Validator.VerifyNewConfirms` AS CODED NOW (/repo commit d34eb0a, the repair): everything
    as before, plus one test — a confirmation whose RECOVERED NODE is the miner (header signer), the
    signer of a stored confirm, or the signer of a confirm accepted earlier in this call, is dropped
    (the `signers` map). This is the live model: the driver runs it by default. -/
def verifyLoopFixed (n : Nat) (b : Blk) : List Sig → List Sig → CErr → List Sig × CErr
  | [], valid, e => (valid, e)
  | s :: rest, valid, e =>
    if s ∈ valid then
      verifyLoopFixed n b rest valid (if e = .none then .existed else e)
    else match recover s with
      | none => verifyLoopFixed n b rest valid .invalidSig
      | some d =>
        if ¬ d < n then verifyLoopFixed n b rest valid .invalidSigner
        else if isConfirmExist b s then verifyLoopFixed n b rest valid e
        else if recover b.hdr = some d ∨ d ∈ b.confirms.filterMap recover ∨ d ∈ valid.filterMap recover then
          verifyLoopFixed n b rest valid e                 -- NEW: "Duplicate confirm signer"
        else verifyLoopFixed n b rest (valid ++ [s]) e

def verifyNewConfirmsFixed (n : Nat) (b : Blk) (sigs : List Sig) : List Sig × CErr :=
  verifyLoopFixed n b sigs [] .none

/-- the verifier is a parameter of the engine model: the structural theorems hold for any of them. -/
abbrev Verifier := Nat → Blk → List Sig → List Sig × CErr

/-- `ChainDatabase.appendConfirm`. -/
def appendConfirm (b : Blk) : List Sig → Blk
  | [] => b
  | s :: rest =>
    if isConfirmExist b s then appendConfirm b rest
    else appendConfirm { b with confirms := b.confirms ++ [s] } rest

structure St where
  dc : Nat               -- Manager.DeputyCount (configured maximum)
  n : Nat                -- deputies of the (single) term
  stable : Blk           -- ChainDatabase.LastConfirm.Block (in-memory pointer)
  committed : List Blk   -- blocks written by blockCommit (the DB copies), newest first
  tree : List Blk        -- UnConfirmBlocks, newest first
  headId : Nat           -- ForkManager.head
  headHeight : Nat
  deriving Repr

def genesis (rank : Nat) : Blk :=
  { id := 0, parent := 0, height := 0, miner := 0, rank := rank, hdr := ⟨none, 0⟩, confirms := [] }

def init (dc n grank : Nat) : St :=
  { dc := dc, n := n, stable := genesis grank, committed := [genesis grank], tree := [], headId := 0, headHeight := 0 }

def findBlk (l : List Blk) (id : Nat) : Option Blk := l.find? (fun x => x.id == id)

/-- `ChainDatabase.getBlock`: the unconfirmed cache first, then the database. -/
def getBlock (s : St) (id : Nat) : Option Blk :=
  match findBlk s.tree id with
  | some b => some b
  | none => findBlk s.committed id

/-! ### store: SetBlock, SetConfirms, SetStableBlock -/

/-- `ChainDatabase.SetBlock` (`none` = ErrExist / ErrArgInvalid). -/
def setBlock (s : St) (b : Blk) : Option St :=
  if (getBlock s b.id).isSome then none
  else if b.height = 0 then none
  else if b.height ≤ s.stable.height then none
  else match findBlk s.tree b.parent with
    | none =>
      if s.stable.id ≠ b.parent then none
      else if s.stable.height + 1 ≠ b.height then none
      else some { s with tree := b :: s.tree }
    | some p =>
      if p.height + 1 ≠ b.height then none
      else some { s with tree := b :: s.tree }

/-- write the new confirm list of block `nb` back under its hash. (A hash is a content address: the
    entry with this id is the block `nb` was derived from, so only the confirm list differs.) -/
def replaceBlk (l : List Blk) (nb : Blk) : List Blk :=
  l.map (fun x => if x.id = nb.id then { x with confirms := nb.confirms } else x)

/-- `Confirmer.SaveConfirm` → `setConfirm`: the cached block is changed in place, a committed one is
    rewritten in the database. Returns the new block. -/
def saveConfirm (s : St) (b : Blk) (valid : List Sig) : St × Blk :=
  let nb := appendConfirm b valid
  match findBlk s.tree b.id with
  | some _ => ({ s with tree := replaceBlk s.tree nb }, nb)
  | none => ({ s with committed := replaceBlk s.committed nb }, nb)

/-- `CBlock.CollectToParent(LastConfirm)`: follow Parent pointers from the block upwards; the walk
    ends at the stable block (which is not in the tree). Newest first. -/
def pathUp : List Blk → Nat → List Blk
  | [], _ => []
  | x :: rest, want => if x.id = want then x :: pathUp rest x.parent else pathUp rest want

/-- the nodes reachable from `a` through child links (`CBlock.Walk`), i.e. what survives `clear`:
    one pass from the oldest block to the newest. -/
def descOf (a : Nat) : List Blk → List Blk
  | [] => []
  | x :: rest =>
    let k := descOf a rest
    if x.parent = a ∨ (k.any (fun y => y.id == x.parent)) then x :: k else k

/-- `ChainDatabase.SetStableBlock`, net effect of the commit loop: the path LastConfirm → c is
    committed oldest first; every branch that does not pass through the committed block is removed,
    and the committed block itself leaves the unconfirmed map. -/
def setStable (s : St) (c : Blk) : St :=
  { s with
    stable := c,
    committed := pathUp s.tree c.id ++ s.committed,
    tree := (descOf c.id s.tree).filter (fun x => x.id != c.id) }

/-- `StableManager.UpdateStable`: (state, changed, error). -/
def updateStable (s : St) (b : Blk) : St × Bool × Bool :=
  if b.height ≤ s.stable.height then (s, false, false)
  else if !isConfirmEnough s.dc s.n b then (s, false, false)
  else match findBlk s.tree b.id with
    | none => (s, false, true)            -- SetStableBlock: ErrArgInvalid
    | some c => (setStable s c, true, false)

/-! ### fork choice -/

/-- the comparison inside `ChooseNewFork`'s callback. -/
def better (max x : Blk) : Bool :=
  decide (x.height > max.height) || (decide (x.height = max.height) && decide (x.rank < max.rank))

/-- `ForkManager.ChooseNewFork`: highest block, ties by smaller hash, the stable block if the tree is
    empty. (The walk order of the Go code does not matter for a strict maximum; oldest first here.) -/
def chooseNewFork (stable : Blk) (tree : List Blk) : Blk :=
  tree.foldr (fun x m => if better m x then x else m) stable

/-- `isCurrentForkCut`: `GetUnConfirmByHeight(head.Height, head.Hash)` fails. -/
def isCut (s : St) : Bool :=
  decide (s.headHeight ≤ s.stable.height) || (findBlk s.tree s.headId).isNone

/-- `needSwitchFork`; `none` = Go panic (integer divide by zero when the term has no deputies). -/
def needSwitchFork (s : St) (cand : Blk) : Option Bool :=
  if cand.height > s.headHeight then
    let signDistance := twoThirds s.n
    if signDistance = 0 then none
    else some (decide (GoSem.usub 4294967296 cand.height s.stable.height % signDistance = 0))
  else some false

/-- the decision part of `UpdateFork`: `none` = panic, `some none` = keep the head. -/
def forkDecision (s : St) (nb : Blk) : Option (Option Blk) :=
  if isCut s then some (some (chooseNewFork s.stable s.tree))
  else if nb.parent = s.headId then some (some nb)
  else
    let cand := chooseNewFork s.stable s.tree
    match needSwitchFork s cand with
    | none => none
    | some true => some (some cand)
    | some false => some none

def setHead (s : St) (h : Option Blk) : St :=
  match h with
  | some h => if h.id ≠ s.headId then { s with headId := h.id, headHeight := h.height } else s
  | none => s

/-- `UpdateForkForConfirm`. -/
def updateForkForConfirm (s : St) : St :=
  if isCut s then setHead s (some (chooseNewFork s.stable s.tree)) else s

/-! ### engine: InsertBlock, InsertConfirms -/

/-- `DPoVP.saveNewBlock`: store, try to move the stable pointer, re-pick the head. -/
def saveNewBlock (s : St) (b : Blk) : St × String :=
  match setBlock s b with
  | none => (s, "ErrSaveBlock")
  | some s1 =>
    match updateStable s1 b with
    | (s2, _, true) => (s2, "ErrSaveBlock")
    | (s2, _, false) =>
      match forkDecision s2 b with
      | none => (s2, "panic")
      | some h => (setHead s2 h, "ok")

/-- `DPoVP.InsertBlock` on a node that is not a deputy itself (TryConfirm is a no-op).
    `valid` stands for every check of VerifyBeforeTxProcess/RunBlock/VerifyAfterTxProcess that is
    outside this model (time slot, tx root, state roots). -/
def insertBlock (V : Verifier) (s : St) (b : Blk) (valid : Bool) : St × String :=
  if (getBlock s b.id).isSome then (s, "ErrIgnoreBlock")
  else if b.height ≤ s.stable.height then (s, "ErrIgnoreBlock")
  else match getBlock s b.parent with
    | none => (s, "ErrVerifyBlockFailed")                 -- verifyParentHash
    | some p =>
      if recover b.hdr ≠ some b.miner ∨ ¬ b.miner < s.n then (s, "ErrVerifyBlockFailed")  -- verifySigner
      else if p.height + 1 ≠ b.height then (s, "ErrVerifyBlockFailed")                    -- verifyHeight
      else if !valid then (s, "ErrVerifyBlockFailed")
      else
        -- block.Confirms = nil; block.Confirms, _ = VerifyNewConfirms(block, confirms)
        saveNewBlock s { b with confirms := (V s.n { b with confirms := [] } b.confirms).1 }

/-- the second half of `DPoVP.InsertConfirms`, after the confirms were stored. -/
def afterConfirm (s1 : St) (nb : Blk) (height : Nat) : St × String :=
  if height > s1.stable.height then
    match updateStable s1 nb with
    | (s2, _, true) => (s2, "ErrSetStableBlockToDB")
    | (s2, _, false) => (updateForkForConfirm s2, "ok")
  else (s1, "ok")

/-- `DPoVP.InsertConfirms`. -/
def insertConfirms (V : Verifier) (s : St) (id height : Nat) (sigs : List Sig) : St × String :=
  if sigs.isEmpty then (s, "ErrNoNewConfirm")
  else match getBlock s id with
    | none => (s, "ErrBlockNotExist")
    | some b =>
      if isConfirmEnough s.dc s.n b then (s, "ErrConfirmsEnough")
      else if b.height ≠ height then (s, "ErrInvalidSignedConfirmInfo")     -- VerifyConfirmPacket
      else
        let r := V s.n b sigs
        if r.1.isEmpty then (s, if r.2 = .none then "ErrNoNewConfirm" else r.2.name)
        else afterConfirm (saveConfirm s b r.1).1 (saveConfirm s b r.1).2 height

inductive Op where
  | block (b : Blk) (valid : Bool)
  | confirms (id height : Nat) (sigs : List Sig)
  deriving Repr

def step (V : Verifier) (s : St) : Op → St × String
  | .block b valid => insertBlock V s b valid
  | .confirms id h sigs => insertConfirms V s id h sigs

def run (V : Verifier) (s : St) (ops : List Op) : St :=
  ops.foldl (fun s op => (step V s op).1) s

/-! ### what the property counts -/

/-- the nodes that signed `b`: the miner (header) and whatever the stored confirms recover to. -/
def signersOf (b : Blk) : List Nat := b.miner :: b.confirms.filterMap recover

/-- number of DISTINCT deputies (ranks `< n`) among the signers of `b`. -/
def distinctCount (n : Nat) (b : Blk) : Nat :=
  ((List.range n).filter (fun d => decide (d ∈ signersOf b))).length

end LemoModel.Stable

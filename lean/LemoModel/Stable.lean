/-
  C03 — executable model of the finality machinery (core Lean only).

  Anchors (read line by line):
    chain/consensus/stable_manager.go   IsConfirmEnough, StableManager.UpdateStable
    chain/consensus/validator.go        VerifyNewConfirms (signer map of commit d34eb0a), IsSigExist, VerifyConfirmPacket, verifySigner
    chain/types/block.go                Block.IsConfirmExist   (byte comparison only)
    chain/consensus/dpovp.go            InsertBlock / saveNewBlock / InsertConfirms / insertConfirms / UpdateStable /
                                        saveSnapshot / batchConfirmStable / MineBlock (the saveNewBlock half)
    chain/consensus/confirmer.go        TryConfirm, needConfirm, confirmBlock, SetLastSig, tryConfirmStable, SaveConfirm
    chain/consensus/fork_manager.go     UpdateFork, UpdateForkForConfirm, ChooseNewFork, needSwitchFork, isCurrentForkCut
    store/chain_database.go             SetBlock, appendConfirm/setConfirm, SetStableBlock (commit + prune), GetUnConfirmByHeight
    chain/deputynode/manager.go         NewManager.init, SaveSnapshot, GetTermByHeight, GetDeputiesByHeight, TwoThirdDeputyCount
    chain/deputynode/term_record.go     NewTermRecord (panics), GetDeputies, IsSnapshotBlock, GetSignerTermIndexByHeight
                                        (the last two are the GENERATED definitions of LemoGen.Schedule, tools/go2lean)

  A signature is a byte string; what the code can learn from it is the node it recovers to.
  `Sig = (signer, variant)`: `signer` is the recovered node (`none` = Ecrecover fails), `variant`
  separates different byte strings that recover to the same node (0 = the deterministic `crypto.Sign`
  output, 1 = its re-encoding (r, N−s, v⊕1), 2.. = signatures with other nonces).  Byte equality of
  signatures is structural equality of `Sig`; `recover` is deliberately NOT injective.

  Nodes are numbered by the harness (index of the node key in the scenario's key list); the deputies
  of a term are a list of such numbers in rank order.

  The unconfirmed tree (`ChainDatabase.UnConfirmBlocks` + CBlock parent/children pointers) is a list of
  blocks, NEWEST FIRST (SetBlock conses), so the parent of a block is always later in the list or is
  the stable block.
-/
import LemoModel.GoSem
import LemoGen.Schedule
namespace LemoModel.Stable

structure Sig where
  signer : Option Nat
  variant : Nat
  deriving DecidableEq, Repr

/-- `SignData.RecoverNodeID` (for the hash of the block the signature is offered for). -/
def recover (s : Sig) : Option Nat := s.signer

structure Blk where
  id : Nat          -- the block hash (label)
  parent : Nat      -- parent hash
  height : Nat
  miner : Nat       -- node named by Header.MinerAddress
  rank : Nat        -- position of the hash in byte order (ChooseNewFork tie break)
  hdr : Sig         -- Header.SignData
  confirms : List Sig
  nextDeps : List Nat := []  -- Block.DeputyNodes (snapshot blocks and genesis: the next term, rank order)
  snapBad : Bool := false    -- NewTermRecord would panic on DeputyNodes (rank / votes order; C10's finding)
  deriving DecidableEq, Repr

/-- `uint32(math.Ceil(float64(n) * 2.0 / 3.0))` — integer form; the equality with the float
    expression is swept for every n < 65536 by the harness (`tt` lines) and
    `LemoProofs.C03.two_thirds_arith` proves it is the ceiling. -/
def twoThirds (n : Nat) : Nat := (2 * n + 2) / 3

/-- `IsConfirmEnough`: `len(Confirms)+1` against the fast path (configured maximum `dc`) and the
    deputy count of the block's term. Counts signatures, not signers. With an unknown term
    (`deps = []`, `TwoThirdDeputyCount = 0`) it is true for a block without any confirm. -/
def isConfirmEnough (dc : Nat) (deps : List Nat) (b : Blk) : Bool :=
  decide (twoThirds dc ≤ b.confirms.length + 1) || decide (twoThirds deps.length ≤ b.confirms.length + 1)

/-- `Block.IsConfirmExist`: byte comparison with the header signature and the stored confirms. -/
def isConfirmExist (b : Blk) (s : Sig) : Bool :=
  decide (b.hdr = s) || decide (s ∈ b.confirms)

inductive CErr where
  | none | existed | invalidSig | invalidSigner
  deriving DecidableEq, Repr

def CErr.name : CErr → String
  | .none => "nil"
  | .existed => "ErrExistedConfirm"
  | .invalidSig => "ErrInvalidSignedConfirmInfo"
  | .invalidSigner => "ErrInvalidConfirmSigner"

/-- loop of `Validator.VerifyNewConfirms` AS IT WAS BEFORE /repo commit d34eb0a (bytes-only
    de-duplication; kept for the refutation theorems and for `C03_ASIS` runs against a reverted tree):
    `valid` and `lastErr` are the accumulators, `deps` the deputies of the block's term. -/
def verifyLoop (deps : List Nat) (b : Blk) : List Sig → List Sig → CErr → List Sig × CErr
  | [], valid, e => (valid, e)
  | s :: rest, valid, e =>
    if s ∈ valid then                                    -- IsSigExist(validConfirms, sig)
      verifyLoop deps b rest valid (if e = .none then .existed else e)
    else match recover s with
      | none => verifyLoop deps b rest valid .invalidSig    -- RecoverNodeID failed
      | some d =>
        if ¬ d ∈ deps then verifyLoop deps b rest valid .invalidSigner   -- GetDeputyByNodeID == nil
        else if isConfirmExist b s then verifyLoop deps b rest valid e    -- "Duplicate confirm": BYTES only
        else verifyLoop deps b rest (valid ++ [s]) e

def verifyNewConfirms (deps : List Nat) (b : Blk) (sigs : List Sig) : List Sig × CErr :=
  verifyLoop deps b sigs [] .none

/-- loop of `Validator.VerifyNewConfirms` AS CODED NOW (/repo commit d34eb0a): everything as before,
    plus one test — a confirmation whose RECOVERED NODE is the miner (header signer), the signer of a
    stored confirm, or the signer of a confirm accepted earlier in this call, is dropped (the
    `signers` map). -/
def verifyLoopFixed (deps : List Nat) (b : Blk) : List Sig → List Sig → CErr → List Sig × CErr
  | [], valid, e => (valid, e)
  | s :: rest, valid, e =>
    if s ∈ valid then
      verifyLoopFixed deps b rest valid (if e = .none then .existed else e)
    else match recover s with
      | none => verifyLoopFixed deps b rest valid .invalidSig
      | some d =>
        if ¬ d ∈ deps then verifyLoopFixed deps b rest valid .invalidSigner
        else if isConfirmExist b s then verifyLoopFixed deps b rest valid e
        else if recover b.hdr = some d ∨ d ∈ b.confirms.filterMap recover ∨ d ∈ valid.filterMap recover then
          verifyLoopFixed deps b rest valid e                 -- "Duplicate confirm signer"
        else verifyLoopFixed deps b rest (valid ++ [s]) e

def verifyNewConfirmsFixed (deps : List Nat) (b : Blk) (sigs : List Sig) : List Sig × CErr :=
  verifyLoopFixed deps b sigs [] .none

abbrev Verifier := List Nat → Blk → List Sig → List Sig × CErr

/-- the test "is my signature already on the block?" of `Confirmer.TryConfirm` / `tryConfirmStable`
    (block, own signature, own node). -/
abbrev SelfTest := Blk → Sig → Nat → Bool

/-- `block.IsConfirmExist(sig)`: bytes only. -/
def selfTestBytes : SelfTest := fun b sig _ => isConfirmExist b sig

/-- by signer (`block.IsConfirmExist(sig) || isSignedBySelf(block)`, /repo commit 262c027): the bytes
    test, or the node is the header signer or the signer of a stored confirm. -/
def selfTestSigner : SelfTest := fun b sig d =>
  isConfirmExist b sig || decide (recover b.hdr = some d) || decide (d ∈ b.confirms.filterMap recover)

/-- the two places of the engine that decide whether a signature is new are parameters of the model:
    the structural theorems hold for any of them. -/
structure Cfg where
  V : Verifier
  T : SelfTest

/-- `ChainDatabase.appendConfirm`. -/
def appendConfirm (b : Blk) : List Sig → Blk
  | [] => b
  | s :: rest =>
    if isConfirmExist b s then appendConfirm b rest
    else appendConfirm { b with confirms := b.confirms ++ [s] } rest

structure St where
  dc : Nat                  -- Manager.DeputyCount (configured maximum)
  termDur : Nat             -- params.TermDuration
  interim : Nat             -- params.InterimDuration
  terms : List (List Nat)   -- Manager.termList: the nodes of every known term, rank order
  self : Nat                -- this node (deputynode self key); a deputy of a term iff listed there
  lastSigH : Nat            -- Confirmer.lastSig
  lastSigId : Nat
  stable : Blk              -- ChainDatabase.LastConfirm.Block (in-memory pointer)
  committed : List Blk      -- blocks written by blockCommit (the DB copies), newest first
  tree : List Blk           -- UnConfirmBlocks, newest first
  headId : Nat              -- ForkManager.head
  headHeight : Nat
  deriving Repr

/-- the genesis block: `DeputyNodes` = term 0. -/
def genesis (rank : Nat) (term0 : List Nat) : Blk :=
  { id := 0, parent := 0, height := 0, miner := 0, rank := rank, hdr := ⟨none, 0⟩, confirms := [], nextDeps := term0 }

def init (dc termDur interim self grank : Nat) (term0 : List Nat) : St :=
  { dc := dc, termDur := termDur, interim := interim, terms := [term0], self := self,
    lastSigH := 0, lastSigId := 0,
    stable := genesis grank term0, committed := [genesis grank term0], tree := [], headId := 0, headHeight := 0 }

/-- `Manager.GetDeputiesByHeight(h, true)`: the term in charge of signing height `h`
    (generated `GetSignerTermIndexByHeight`), truncated to `DeputyCount`; empty if the term is not
    known yet (`ErrNoStableTerm`). -/
def depsAt (s : St) (h : Nat) : List Nat :=
  match s.terms[LemoGen.Schedule.GetSignerTermIndexByHeight h s.termDur s.interim]? with
  | some l => l.take s.dc
  | none => []

def findBlk (l : List Blk) (id : Nat) : Option Blk := l.find? (fun x => x.id == id)

/-- `ChainDatabase.getBlock`: the unconfirmed cache first, then the database. -/
def getBlock (s : St) (id : Nat) : Option Blk :=
  match findBlk s.tree id with
  | some b => some b
  | none => findBlk s.committed id

/-! ### store: SetBlock, SetConfirms, SetStableBlock -/

/-- `ChainDatabase.SetBlock` (`none` = ErrExist / ErrArgInvalid). -/
def setBlock (s : St) (b : Blk) : Option St :=
  if (getBlock s b.id).isSome then none
  else if b.height = 0 then none
  else if b.height ≤ s.stable.height then none
  else match findBlk s.tree b.parent with
    | none =>
      if s.stable.id ≠ b.parent then none
      else if s.stable.height + 1 ≠ b.height then none
      else some { s with tree := b :: s.tree }
    | some p =>
      if p.height + 1 ≠ b.height then none
      else some { s with tree := b :: s.tree }

/-- write the new confirm list of block `nb` back under its hash. (A hash is a content address: the
    entry with this id is the block `nb` was derived from, so only the confirm list differs.) -/
def replaceBlk (l : List Blk) (nb : Blk) : List Blk :=
  l.map (fun x => if x.id = nb.id then { x with confirms := nb.confirms } else x)

/-- `Confirmer.SaveConfirm` → `setConfirm`: the cached block is replaced, a committed one is
    rewritten in the database. Returns the new block. -/
def saveConfirm (s : St) (b : Blk) (valid : List Sig) : St × Blk :=
  let nb := appendConfirm b valid
  match findBlk s.tree b.id with
  | some _ => ({ s with tree := replaceBlk s.tree nb }, nb)
  | none => ({ s with committed := replaceBlk s.committed nb }, nb)

/-- `CBlock.CollectToParent(LastConfirm)`: follow Parent pointers from the block upwards; the walk
    ends at the stable block (which is not in the tree). Newest first. -/
def pathUp : List Blk → Nat → List Blk
  | [], _ => []
  | x :: rest, want => if x.id = want then x :: pathUp rest x.parent else pathUp rest want

/-- the nodes reachable from `a` through child links (`CBlock.Walk`), i.e. what survives `clear`:
    one pass from the oldest block to the newest. -/
def descOf (a : Nat) : List Blk → List Blk
  | [] => []
  | x :: rest =>
    let k := descOf a rest
    if x.parent = a ∨ (k.any (fun y => y.id == x.parent)) then x :: k else k

/-- `ChainDatabase.SetStableBlock`, net effect of the commit loop: the path LastConfirm → c is
    committed oldest first; every branch that does not pass through the committed block is removed,
    and the committed block itself leaves the unconfirmed map. -/
def setStable (s : St) (c : Blk) : St :=
  { s with
    stable := c,
    committed := pathUp s.tree c.id ++ s.committed,
    tree := (descOf c.id s.tree).filter (fun x => x.id != c.id) }

/-- `StableManager.UpdateStable`: (state, changed, error). -/
def updateStable (s : St) (b : Blk) : St × Bool × Bool :=
  if b.height ≤ s.stable.height then (s, false, false)
  else if !isConfirmEnough s.dc (depsAt s b.height) b then (s, false, false)
  else match findBlk s.tree b.id with
    | none => (s, false, true)            -- SetStableBlock: ErrArgInvalid
    | some c => (setStable s c, true, false)

/-! ### term snapshots -/

/-- `Manager.SaveSnapshot(h, nodes)` after `NewTermRecord(h, nodes)`; `none` = Go panic
    (ErrNoDeputyInBlock / ErrInvalidDeputyRank / ErrInvalidDeputyVotes / ErrMissingTerm). -/
def saveSnapshot (termDur : Nat) (terms : List (List Nat)) (b : Blk) : Option (List (List Nat)) :=
  if b.snapBad || b.nextDeps.isEmpty then none
  else
    let idx := LemoGen.Schedule.GetDeputyTermIndexByHeight b.height termDur
    if terms.isEmpty then some [b.nextDeps]
    else if terms.length < idx then none
    else if terms.length = idx then some (terms ++ [b.nextDeps])
    else some ((terms.set idx b.nextDeps).take (idx + 1))      -- "Overwrite existed term", drop the later ones

/-- `DPoVP.saveSnapshot(old+1, new)` / `Manager.init`: the snapshot blocks among `blocks` (newest
    first, as the lists of this model are; processed oldest first) are saved as terms. The Go loop
    reads the blocks by height from the database: these are exactly the blocks just committed. -/
def saveSnapshots (termDur : Nat) (terms : List (List Nat)) : List Blk → Option (List (List Nat))
  | [] => some terms
  | b :: older =>
    match saveSnapshots termDur terms older with
    | none => none
    | some t =>
      if LemoGen.Schedule.IsSnapshotBlock b.height termDur then saveSnapshot termDur t b else some t

/-! ### the node's own confirmations -/

def setLastSig (s : St) (b : Blk) : St :=
  if b.height > s.lastSigH then { s with lastSigH := b.height, lastSigId := b.id } else s

/-- the signature `SignBlock` produces: deterministic, canonical. -/
def selfSig (s : St) : Sig := ⟨some s.self, 0⟩

/-- `Confirmer.needConfirm`. -/
def needConfirm (s : St) (b : Blk) : Bool :=
  let deps := depsAt s b.height
  if !(deps.contains s.self) then false                    -- IsSelfDeputyNode
  else if isConfirmEnough s.dc deps b then false
  else
    let lh := if s.lastSigH ≤ s.stable.height then s.stable.height else s.lastSigH
    let lid := if s.lastSigH ≤ s.stable.height then s.stable.id else s.lastSigId
    if b.parent = lid then true
    else decide (b.height > GoSem.uadd 4294967296 lh (twoThirds deps.length))

/-- `Confirmer.TryConfirm` (inside InsertBlock, before the block is stored). -/
def tryConfirm (C : Cfg) (s : St) (b : Blk) : St × Blk :=
  if needConfirm s b then
    let s1 := setLastSig s b                               -- confirmBlock
    if C.T b (selfSig s) s.self then (s1, b)
    else (s1, { b with confirms := b.confirms ++ [selfSig s] })
  else (s, b)

/-- `Confirmer.tryConfirmStable` on the database copy `b` of a stable block (`GetBlockByHeight`).
    `SaveConfirm` → `setConfirm` looks the hash up in the unconfirmed map first; a committed block is
    not there, so the database copy is rewritten (`appendConfirm`, bytes test again). -/
def tryConfirmStable (C : Cfg) (s : St) (b : Blk) : St :=
  let deps := depsAt s b.height
  if !(deps.contains s.self) then s
  else if isConfirmEnough s.dc deps b then s
  else
    let s1 := setLastSig s b
    if C.T b (selfSig s) s.self then s1
    else { s1 with committed := replaceBlk s1.committed (appendConfirm b [selfSig s]) }

/-- `DPoVP.batchConfirmStable(old+1, new)`: a goroutine in Go; the harness waits for it before the
    next operation, the model runs it at once. `blocks`: the newly committed ones, newest first. -/
def batchConfirm (C : Cfg) (s : St) : List Blk → St
  | [] => s
  | b :: older =>
    let s1 := batchConfirm C s older
    match findBlk s1.committed b.id with     -- GetBlockByHeight: the database copy
    | some cb => tryConfirmStable C s1 cb
    | none => s1

/-! ### fork choice -/

/-- the comparison inside `ChooseNewFork`'s callback. -/
def better (max x : Blk) : Bool :=
  decide (x.height > max.height) || (decide (x.height = max.height) && decide (x.rank < max.rank))

/-- `ForkManager.ChooseNewFork`: highest block, ties by smaller hash, the stable block if the tree is
    empty. (The walk order of the Go code does not matter for a strict maximum; oldest first here.) -/
def chooseNewFork (stable : Blk) (tree : List Blk) : Blk :=
  tree.foldr (fun x m => if better m x then x else m) stable

/-- `isCurrentForkCut`: `GetUnConfirmByHeight(head.Height, head.Hash)` fails. -/
def isCut (s : St) : Bool :=
  decide (s.headHeight ≤ s.stable.height) || (findBlk s.tree s.headId).isNone

/-- `needSwitchFork`; `none` = Go panic (integer divide by zero when the term has no deputies). -/
def needSwitchFork (s : St) (cand : Blk) : Option Bool :=
  if cand.height > s.headHeight then
    let signDistance := twoThirds (depsAt s cand.height).length
    if signDistance = 0 then none
    else some (decide (GoSem.usub 4294967296 cand.height s.stable.height % signDistance = 0))
  else some false

/-- the decision part of `UpdateFork`: `none` = panic, `some none` = keep the head. -/
def forkDecision (s : St) (nb : Blk) : Option (Option Blk) :=
  if isCut s then some (some (chooseNewFork s.stable s.tree))
  else if nb.parent = s.headId then some (some nb)
  else
    let cand := chooseNewFork s.stable s.tree
    match needSwitchFork s cand with
    | none => none
    | some true => some (some cand)
    | some false => some none

def setHead (s : St) (h : Option Blk) : St :=
  match h with
  | some h => if h.id ≠ s.headId then { s with headId := h.id, headHeight := h.height } else s
  | none => s

/-- `UpdateForkForConfirm`. -/
def updateForkForConfirm (s : St) : St :=
  if isCut s then setHead s (some (chooseNewFork s.stable s.tree)) else s

/-! ### engine: UpdateStable, InsertBlock, MineBlock, InsertConfirms, restart -/

/-- outcome of `DPoVP.UpdateStable`. -/
inductive UOut where
  | same | changed | err | panic
  deriving DecidableEq, Repr

/-- `DPoVP.UpdateStable`: `StableManager.UpdateStable`, then for the newly committed blocks
    `saveSnapshot` (may panic — AFTER the commit) and `batchConfirmStable`. -/
def updateStableFull (C : Cfg) (s : St) (b : Blk) : St × UOut :=
  let r := updateStable s b
  if r.2.2 then (r.1, .err)
  else if !r.2.1 then (r.1, .same)
  else
    let newly := pathUp s.tree b.id        -- the blocks SetStableBlock has just committed, newest first
    match saveSnapshots s.termDur r.1.terms newly with
    | none => (r.1, .panic)
    | some t => (batchConfirm C { r.1 with terms := t } newly, .changed)

/-- `DPoVP.saveNewBlock`: store, try to move the stable pointer, re-pick the head. -/
def saveNewBlock (C : Cfg) (s : St) (b : Blk) : St × String :=
  match setBlock s b with
  | none => (s, "ErrSaveBlock")
  | some s1 =>
    let s1' := if recover b.hdr = some s1.self then setLastSig s1 b else s1     -- IsMinedByself
    let r := updateStableFull C s1' b
    if r.2 = .err then (r.1, "ErrSaveBlock")
    else if r.2 = .panic then (r.1, "panic")
    else
      match forkDecision r.1 b with
      | none => (r.1, "panic")
      | some h => (setHead r.1 h, "ok")

/-- `DPoVP.InsertBlock`. `valid` stands for every check of VerifyBeforeTxProcess / RunBlock /
    VerifyAfterTxProcess that is outside this model (time slot, tx root, state roots). -/
def insertBlock (C : Cfg) (s : St) (b : Blk) (valid : Bool) : St × String :=
  if (getBlock s b.id).isSome then (s, "ErrIgnoreBlock")
  else if b.height ≤ s.stable.height then (s, "ErrIgnoreBlock")
  else match getBlock s b.parent with
    | none => (s, "ErrVerifyBlockFailed")                 -- verifyParentHash
    | some p =>
      -- verifySigner: the header signer is a deputy of the block's term and is the named miner
      if recover b.hdr ≠ some b.miner ∨ ¬ b.miner ∈ depsAt s b.height then (s, "ErrVerifyBlockFailed")
      else if p.height + 1 ≠ b.height then (s, "ErrVerifyBlockFailed")                    -- verifyHeight
      else if !valid then (s, "ErrVerifyBlockFailed")
      else
        -- block.Confirms = nil; block.Confirms, _ = VerifyNewConfirms(block, confirms)
        let b1 : Blk := { b with confirms := (C.V (depsAt s b.height) { b with confirms := [] } b.confirms).1 }
        let r := tryConfirm C s b1
        saveNewBlock C r.1 r.2

/-- `DPoVP.MineBlock`: `PrepareHeader` needs this node to be a deputy of the next height and builds
    on the head; the block is signed by this node, carries no confirm and goes straight to
    `saveNewBlock` (nothing is verified, no confirm is tried). The op supplies the hash (`id`,
    `rank`) and the deputy list of a snapshot block; whether the node is in turn (`VerifyMiner`) is
    outside the model: the harness emits the op only when the engine mined. -/
def mineBlock (C : Cfg) (s : St) (b : Blk) : St × String :=
  if ¬ s.self ∈ depsAt s (s.headHeight + 1) then (s, "ErrNotDeputy")
  else saveNewBlock C s { b with parent := s.headId, height := s.headHeight + 1, miner := s.self,
                                 hdr := selfSig s, confirms := [] }

/-- the second half of `DPoVP.InsertConfirms`, after the confirms were stored. -/
def afterConfirm (C : Cfg) (s1 : St) (nb : Blk) (height : Nat) : St × String :=
  if height > s1.stable.height then
    let r := updateStableFull C s1 nb
    if r.2 = .err then (r.1, "ErrSetStableBlockToDB")
    else if r.2 = .panic then (r.1, "panic")
    else (updateForkForConfirm r.1, "ok")
  else (s1, "ok")

/-- `DPoVP.InsertConfirms`. -/
def insertConfirms (C : Cfg) (s : St) (id height : Nat) (sigs : List Sig) : St × String :=
  if sigs.isEmpty then (s, "ErrNoNewConfirm")
  else match getBlock s id with
    | none => (s, "ErrBlockNotExist")
    | some b =>
      if isConfirmEnough s.dc (depsAt s b.height) b then (s, "ErrConfirmsEnough")
      else if b.height ≠ height then (s, "ErrInvalidSignedConfirmInfo")     -- VerifyConfirmPacket
      else
        let r := C.V (depsAt s b.height) b sigs
        if r.1.isEmpty then (s, if r.2 = .none then "ErrNoNewConfirm" else r.2.name)
        else afterConfirm C (saveConfirm s b r.1).1 (saveConfirm s b r.1).2 height

/-- restart of the node on its data directory: the unconfirmed tree lives in memory only; the stable
    block is the database copy; `Manager.init` reloads the terms from the committed snapshot blocks
    (`none` from `saveSnapshots` = the node cannot start); head and lastSig restart at the stable block. -/
def reopen (s : St) : St × String :=
  match saveSnapshots s.termDur [] s.committed with      -- only the snapshot heights are read and saved
  | none => (s, "panic")
  | some t =>
    match s.committed with
    | [] => (s, "panic")
    | top :: _ =>
      ({ s with terms := t, tree := [], stable := top, headId := top.id, headHeight := top.height,
                lastSigH := top.height, lastSigId := top.id }, "ok")

inductive Op where
  | block (b : Blk) (valid : Bool)
  | mine (b : Blk)
  | confirms (id height : Nat) (sigs : List Sig)
  | reopen
  deriving Repr

def step (C : Cfg) (s : St) : Op → St × String
  | .block b valid => insertBlock C s b valid
  | .mine b => mineBlock C s b
  | .confirms id h sigs => insertConfirms C s id h sigs
  | .reopen => reopen s

def run (C : Cfg) (s : St) (ops : List Op) : St :=
  ops.foldl (fun s op => (step C s op).1) s

/-- `runP`: the run, as long as no operation ended in a Go panic. -/
def runP (C : Cfg) (s : St) : List Op → Option St
  | [] => some s
  | op :: ops => if (step C s op).2 = "panic" then none else runP C (step C s op).1 ops

/-- the engine before /repo commit d34eb0a: both tests compare bytes. -/
def cfgBytes : Cfg := ⟨verifyNewConfirms, selfTestBytes⟩
/-- the engine between commits d34eb0a and 262c027: VerifyNewConfirms by signer, TryConfirm by bytes. -/
def cfgVerifierFixed : Cfg := ⟨verifyNewConfirmsFixed, selfTestBytes⟩
/-- THE LIVE MODEL: the engine as it is now (VerifyNewConfirms since d34eb0a, TryConfirm /
    tryConfirmStable since 262c027: `isSignedBySelf`): both tests compare signers. -/
def cfgSigner : Cfg := ⟨verifyNewConfirmsFixed, selfTestSigner⟩

/-! ### what the property counts -/

/-- the nodes that signed `b`: the miner (header) and whatever the stored confirms recover to. -/
def signersOf (b : Blk) : List Nat := b.miner :: b.confirms.filterMap recover

/-- remove repeated entries (keeps the last occurrence of each). -/
def dedup : List Nat → List Nat
  | [] => []
  | x :: xs => if x ∈ dedup xs then dedup xs else x :: dedup xs

/-- number of DISTINCT signers of `b` that are deputies of the list `deps`. -/
def distinctCount (deps : List Nat) (b : Blk) : Nat :=
  ((dedup (signersOf b)).filter (fun d => decide (d ∈ deps))).length

end LemoModel.Stable

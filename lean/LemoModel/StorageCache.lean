/-
  C17 (part E) — executable model of `chain/account.StorageCache`
  (/repo/chain/account/account.go:36-186: `NewStorageCache`, `Reset`, `GetTrie`, `Save`, `Update`,
  `SetState`, `IsDirty`, `RevertState` (both since /repo 3a69bc7), `DelState`, `GetState`), the
  contract-storage front end of a `trie.SecureTrie`.
  Core Lean only.

  The trie below the cache is NOT abstracted away: it is the partially resolved trie of
  `LemoModel.MptStore` (hash nodes, `resolveHash` with `MissingNodeError`, the hasher, `Trie.Commit`,
  `Trie.Hash`, `trie.New`) over the node pool `MptStore.Db` (`TrieDatabase`: pool in memory + the
  key-value store).  `LemoProofs.C17Storage` shows that over a sound store it refines the finite map of
  part B (`LemoModel.Mpt` / `get_refines_map`, `canonical_shape`).

  Go details that are modelled:
    * `cached` / `dirty` are Go maps: association lists read through `sget` (first match), written
      through `sset` / `sdel` (all entries of the key removed): nothing depends on the list order;
    * `for key, value := range cache.dirty` visits the dirty keys in an order the Go runtime picks:
      `update` takes that order as the explicit parameter `order` (the theorems quantify over it);
      `delete(cache.dirty, key)` is the first statement of the loop body, so an error in the middle
      leaves a half-emptied dirty map AND the failing key already removed;
    * `len(value) == 0` ⇒ `TryDelete`; otherwise `bytes.TrimLeft(value, "\x00")` and `TryUpdate`, which
      deletes when the trimmed value is empty (trie.go:197);
    * `GetTrie` opens the trie only when `cache.trie == nil` — the `root` argument of a later call is
      IGNORED; `NewSecure(root, trieDb, MaxTrieCacheGen = 120)`; any error of `NewSecure` is reported as
      `ErrTrieFail`; `cache.trieDb` is created once and survives `Reset`;
    * `GetState`: a `cached` hit returns the bytes as written (untrimmed, also empty ones);
      otherwise `TryGet`, `MissingNodeError` is swallowed (value nil, no error), only non-empty values
      are put into `cached`;
    * `Update`: the short cut `root == common.Hash{} && len(dirty) == 0` returns the zero hash without
      looking at the trie; otherwise the result is `tr.Hash()` (`emptyRoot`, not the zero hash, for an
      empty trie);
    * `Save`: refuses a non-empty dirty map (`ErrTrieChanged`); `root == common.Hash{}` returns nil
      without any check; otherwise `tr.Commit(nil)` runs FIRST (its pool writes and the cache-generation
      step stay even if the comparison fails), a root different from its result is `ErrTrieChanged`,
      then `trieDb.Commit(result)` flushes the pool to the key-value store.

  Parameters (never given a definition here): `hk` = Keccak256 on the 32-byte storage key
  (`SecureTrie.hashKey`), `hashOf` / `small` as in `MptStore`, `fuel` = stack depth.
  NOT modelled: the pre-image table of `SecureTrie` (`secKeyCache`, `InsertPreimage`), logging, the
  `IdealBatchSize` batching of `TrieDatabase.Commit`.  A Go panic below the cache is the explicit
  outcome `Err.panic`, an exhausted stack `Err.overflow`.
-/
import LemoModel.Mpt
import LemoModel.MptStore
namespace LemoModel.StorageCache
open LemoModel.Mpt LemoModel.MptStore

/-- `common.Hash` used as storage key (32 bytes in Go; the model never looks inside) -/
abbrev Key := List Nat
abbrev Bytes := List Nat
/-- `type Storage map[common.Hash][]byte` -/
abbrev Storage := List (Key × Bytes)
/-- the key-value store below every `TrieDatabase` (`ChainDatabase.Beansdb`), latest write first -/
abbrev Disk := List (Hash × CNode)

/-- `m[k]` (`none` = not present) -/
def sget : Storage → Key → Option Bytes
  | [], _ => none
  | (k, v) :: rest, x => if k = x then some v else sget rest x

/-- `delete(m, k)` -/
def sdel (m : Storage) (k : Key) : Storage := m.filter (fun e => decide (e.1 ≠ k))

/-- `m[k] = v` -/
def sset (m : Storage) (k : Key) (v : Bytes) : Storage := (k, v) :: sdel m k

/-- `bytes.TrimLeft(value, "\x00")` -/
def trimLeft : Bytes → Bytes
  | 0 :: r => trimLeft r
  | v => v

/-- the parameters of the model -/
structure Env where
  /-- `SecureTrie.hashKey`: Keccak256 of the storage key -/
  hk : Key → List Nat
  small : CNode → Bool
  hashOf : CNode → Hash
  /-- available stack depth -/
  fuel : Nat

/-- `account.MaxTrieCacheGen` -/
def maxTrieCacheGen : Nat := 120

inductive Err where
  | trieFail        -- types.ErrTrieFail
  | trieChanged     -- types.ErrTrieChanged
  | missing         -- *trie.MissingNodeError
  | panic           -- a Go panic below the cache
  | overflow        -- stack exhausted
  deriving DecidableEq, Repr

inductive Out (α : Type) where
  | ok (a : α)
  | err (e : Err)
  deriving DecidableEq, Repr

/-- `StorageCache`; `mem` is the node pool of `cache.trieDb` (the `TrieDatabase` is created by the first
    `GetTrie` and kept for ever; before that its pool is empty, which is what `mem = []` says) -/
structure SC where
  cached : Storage := []
  dirty : Storage := []
  trie : Option Trie := none
  mem : List (Hash × MemNode) := []

/-- `NewStorageCache(db)` -/
def SC.new : SC := {}

/-- what `cache.trieDb.Node` returns: pool first, then the key-value store -/
def SC.store (sc : SC) (disk : Disk) : Store := Db.node ⟨sc.mem, disk⟩

/-- the hex key the secure trie works on: `keybytesToHex(Keccak256(key))` -/
def secKey (env : Env) (k : Key) : List Nib := hexKey (env.hk k)

/-- `Reset`: the trie handle and both maps go, the `TrieDatabase` (its pool) stays -/
def reset (sc : SC) : SC := { sc with trie := none, cached := [], dirty := [] }

/-- `SetState` -/
def setState (sc : SC) (k : Key) (v : Bytes) : SC :=
  { sc with cached := sset sc.cached k v, dirty := sset sc.dirty k v }

/-- `IsDirty(key)` (since /repo 3a69bc7): a write of the key waits to be flushed into the trie -/
def isDirty (sc : SC) (k : Key) : Bool := (sget sc.dirty k).isSome

/-- `RevertState(key, oldValue)` (since /repo 3a69bc7; the undo of a change log whose slot had no pending
    write): nothing stays queued for the trie, the old value is visible again — an EMPTY old value removes
    the `cached` entry (the next read goes to the trie) -/
def revertState (sc : SC) (k : Key) (old : Bytes) : SC :=
  { sc with dirty := sdel sc.dirty k,
            cached := if old = [] then sdel sc.cached k else sset sc.cached k old }

/-- `DelState`: forgets the entry in both maps — it does NOT record a deletion for the trie -/
def delState (sc : SC) (k : Key) : SC :=
  { sc with cached := sdel sc.cached k, dirty := sdel sc.dirty k }

/-- `GetTrie(root)`: a loaded trie is returned whatever `root` says -/
def getTrie (env : Env) (disk : Disk) (sc : SC) (root : Hash) : SC × Out Trie :=
  match sc.trie with
  | some t => (sc, .ok t)
  | none =>
    match Trie.new env.hashOf (sc.store disk) root with
    | .ok t =>
      let t : Trie := { t with cachelimit := maxTrieCacheGen }
      ({ sc with trie := some t }, .ok t)
    | .missing _ => (sc, .err .missing)
    | .panic => (sc, .err .panic)
    | .overflow => (sc, .err .overflow)

/-- the error the callers of `GetTrie` return: every error value becomes `ErrTrieFail` -/
def loadErr : Err → Err
  | .panic => .panic
  | .overflow => .overflow
  | _ => .trieFail

/-- `GetState(root, key)` -/
def getState (env : Env) (disk : Disk) (sc : SC) (root : Hash) (key : Key) : SC × Out Bytes :=
  match sget sc.cached key with
  | some v => (sc, .ok v)
  | none =>
    match getTrie env disk sc root with
    | (sc1, .err e) => (sc1, .err (loadErr e))
    | (sc1, .ok t) =>
      match t.get (sc1.store disk) env.fuel (secKey env key) with
      | .ok (v, t') =>
        let value := v.getD []
        let sc2 : SC := { sc1 with trie := some t' }
        (if value = [] then sc2 else { sc2 with cached := sset sc2.cached key value }, .ok value)
      | .missing _ => (sc1, .ok [])      -- `MissingNodeError` is ignored: value nil, err nil
      | .panic => (sc1, .err .panic)
      | .overflow => (sc1, .err .overflow)

/-- the trie call of one loop iteration of `Update` -/
def applyOne (env : Env) (s : Store) (t : Trie) (k : Key) (v : Bytes) : Res Trie :=
  if v = [] then t.remove s env.fuel (secKey env k)
  else t.update s env.fuel (secKey env k) (trimLeft v)

/-- the loop `for key, value := range cache.dirty` of `Update`, visiting the keys in `order`:
    the trie after the last successful iteration, what is left of `dirty`, the error that ended the
    loop.  A key of `order` that is not (or no longer) dirty is never produced by `range`: skipped. -/
def applyDirty (env : Env) (s : Store) : List Key → Trie → Storage → Trie × Storage × Option Err
  | [], t, d => (t, d, none)
  | k :: ks, t, d =>
    match sget d k with
    | none => applyDirty env s ks t d
    | some v =>
      match applyOne env s t k v with
      | .ok t' => applyDirty env s ks t' (sdel d k)
      | .missing _ => (t, sdel d k, some .missing)
      | .panic => (t, sdel d k, some .panic)
      | .overflow => (t, sdel d k, some .overflow)

/-- `Update(root)` with the iteration order of the dirty map made explicit -/
def update (env : Env) (disk : Disk) (sc : SC) (root : Hash) (order : List Key) : SC × Out Hash :=
  if root = zeroHash ∧ sc.dirty = [] then (sc, .ok zeroHash)
  else
    match getTrie env disk sc root with
    | (sc1, .err e) => (sc1, .err (loadErr e))
    | (sc1, .ok t) =>
      match applyDirty env (sc1.store disk) order t sc1.dirty with
      | (t', d', some e) => ({ sc1 with trie := some t', dirty := d' }, .err e)
      | (t', d', none) =>
        match t'.hash env.small env.hashOf with
        | .ok (h, t'') => ({ sc1 with trie := some t'', dirty := d' }, .ok h)
        | .missing _ => ({ sc1 with trie := some t', dirty := d' }, .err .missing)
        | .panic => ({ sc1 with trie := some t', dirty := d' }, .err .panic)
        | .overflow => ({ sc1 with trie := some t', dirty := d' }, .err .overflow)

/-- `Save(root)`: the new key-value store, the new cache, the result -/
def save (env : Env) (disk : Disk) (sc : SC) (root : Hash) : Disk × SC × Out Unit :=
  if sc.dirty ≠ [] then (disk, sc, .err .trieChanged)
  else if root = zeroHash then (disk, sc, .ok ())
  else
    match getTrie env disk sc root with
    | (sc1, .err e) => (disk, sc1, .err (loadErr e))
    | (sc1, .ok t) =>
      match t.commit env.small env.hashOf with
      | .ok (result, t', ws) =>
        let db := (Db.mk sc1.mem disk).insertAll ws
        let sc2 : SC := { sc1 with trie := some t', mem := db.mem }
        if root ≠ result then (disk, sc2, .err .trieChanged)
        else
          match db.commit result with
          | .ok db' => (db'.disk, { sc2 with mem := db'.mem }, .ok ())
          | .missing _ => (disk, sc2, .err .missing)
          | .panic => (disk, sc2, .err .panic)
          | .overflow => (disk, sc2, .err .overflow)
      | .missing _ => (disk, sc1, .err .missing)
      | .panic => (disk, sc1, .err .panic)
      | .overflow => (disk, sc1, .err .overflow)

/-- the keys of a map in list order (one of the orders `range` may take when they are distinct) -/
def keysOf (m : Storage) : List Key := m.map (·.1)

end LemoModel.StorageCache

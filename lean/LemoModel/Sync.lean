/-
  C20 — model of /repo/network/cache.go (`BlockCache`, `ConfirmCache`) exactly as
  coded, and of the receive loop of /repo/network/protocol_manager.go
  (`rcvBlockLoop`, the 500 ms drain timer, `mergeConfirmsFromCache`,
  `handleConfirmMsg`, `stableBlockLoop`'s cache clearing, `handleTxsMsg`) over an
  abstract chain that accepts a block iff its parent is known.

  Core Lean only.  Everything is structurally recursive so that `decide` can run it.

  LIVE model (= /repo now, after the repair commits bca2980, 2a76dcb, b496d03, 9829a42):
  `addLive` (= `addFixed` + flush), `isExitFixed`, `ccPushLive`, `handleTxs _ true`.
  `add`, `isExit`, `addChecked`, `ccPushChecked`, `handleTxs _ false` model the code BEFORE those commits
  and are kept for the regression theorems (`*_refuted`).

  The receive-loop functions take arbitrary `Blk`s (height, hash, parent hash): nothing in them assumes one block
  per height.  `LemoProofs.C20` proves convergence over ONE linear segment (`seg base k`), `LemoProofs/C20Tree.lean`
  over any block TREE (competing blocks at the same height); the driver ops `blocks …` / `fblocks h:hash:parent …`
  feed the same functions.

  Go facts the model makes explicit
  * `BlockCache.cache` is a `[]*blocksSameHeight`: slice entries are POINTERS.  A pointer
    is a `gid`; two entries with the same `gid` are the same Go object (same `Blocks` map).
    Mutating a map (`putIn`/`delIn`) is therefore visible through every entry with that gid.
  * `Add`'s middle branch is
        tmp := append(c.cache[:i+1], bsh)          -- (1)
        c.cache = append(tmp, c.cache[i+1:]...)    -- (2)
    `c.cache[:i+1]` keeps the capacity of `c.cache`, so whenever `i+1 < len` statement (1)
    WRITES `bsh` INTO SLOT `i+1` of the shared backing array, and (2) then reads the
    already-overwritten tail.  When `i+1 = len` the write goes to spare capacity or to a fresh
    array and is not visible.  Either way the result does not depend on the capacity
    (`middleInsert`); if (2) reallocates it copies the same (overwritten) values.
  * `if len(c.cache) > 10240 { c.Clear(^uint32(0)) }` is executed while `c.lock` is held and
    `Clear` locks the same non-reentrant `sync.Mutex`: the calling goroutine blocks for ever
    (`addChecked`/`ccPushChecked` return `none`).
  * a Go map is a set of keys here; a block's hash determines the block, so the key is the
    whole `Blk`.  Iteration order inside one map is random in Go; the model uses insertion
    order and the driver sorts what it prints.
-/
namespace LemoModel.Sync

/-- what the network layer looks at in a `*types.Block` (the hash identifies the block) -/
structure Blk where
  height : Nat
  hash : Nat
  parent : Nat := 0
  deriving DecidableEq, Repr, Inhabited

/-- one `*blocksSameHeight` object; `gid` = its address -/
structure Group where
  gid : Nat
  height : Nat
  blocks : List Blk
  deriving DecidableEq, Repr, Inhabited

structure BlockCache where
  cache : List Group := []
  /-- allocator: address of the next `&blocksSameHeight{}` -/
  next : Nat := 0
  deriving DecidableEq, Repr, Inhabited

def mapPut (l : List Blk) (b : Blk) : List Blk := if b ∈ l then l else l ++ [b]
def mapDel (l : List Blk) (b : Blk) : List Blk := l.filter (fun x => decide (x ≠ b))

/-- `obj.Blocks[hash] = block` on the object with address `g` -/
def putIn (g : Nat) (b : Blk) (l : List Group) : List Group :=
  l.map (fun e => if e.gid = g then { e with blocks := mapPut e.blocks b } else e)

/-- `delete(obj.Blocks, hash)` on the object with address `g` -/
def delIn (g : Nat) (b : Blk) (l : List Group) : List Group :=
  l.map (fun e => if e.gid = g then { e with blocks := mapDel e.blocks b } else e)

/-- the two `append`s of `Add`'s "not exist" branch, with Go's slice aliasing (see header) -/
def middleInsert (i : Nat) (new : Group) (a : List Group) : List Group :=
  let tmp := a.take (i + 1) ++ [new]
  let arr := a.set (i + 1) new
  tmp ++ arr.drop (i + 1)

/-- the repair: insert BEFORE index `i`, no aliasing -/
def middleInsertFixed (i : Nat) (new : Group) (a : List Group) : List Group :=
  a.take i ++ new :: a.drop i

/-- the `for i := 0; i < len(c.cache); i++` loop of `Add` -/
def addLoop (mid : Nat → Group → List Group → List Group) (b : Blk) (new : Group) (whole : List Group) :
    Nat → List Group → List Group
  | _, [] => whole
  | i, g :: rest =>
    if g.height = b.height then putIn g.gid b whole
    else if g.height > b.height then mid i new whole
    else addLoop mid b new whole (i + 1) rest

def lastHeight (l : List Group) : Nat := (l.getLast?.map (·.height)).getD 0

def addWith (mid : Nat → Group → List Group → List Group) (b : Blk) (c : BlockCache) : BlockCache :=
  let new : Group := { gid := c.next, height := b.height, blocks := [b] }
  let cache' :=
    match c.cache with
    | [] => [new]
    | first :: _ =>
      if b.height < first.height then new :: c.cache
      else if b.height > lastHeight c.cache then c.cache ++ [new]
      else addLoop mid b new c.cache 0 c.cache
  { cache := cache', next := c.next + 1 }

/-- `BlockCache.Add` as coded (without the 10240 check) -/
def add : Blk → BlockCache → BlockCache := addWith middleInsert
/-- `BlockCache.Add` with the repaired middle branch -/
def addFixed : Blk → BlockCache → BlockCache := addWith middleInsertFixed

/-- `Add` including `if len(c.cache) > 10240 { c.Clear(..) }`: `none` = self-deadlock on `c.lock` -/
def addChecked (limit : Nat) (b : Blk) (c : BlockCache) : Option BlockCache :=
  let c' := add b c
  if c'.cache.length > limit then none else some c'

/-- guard of the `_partial` theorems: `Add` takes the "not exist" (middle insert) branch -/
def strictMiddle (h : Nat) (l : List Group) : Bool :=
  match l with
  | [] => false
  | first :: _ => !(h < first.height) && !(h > lastHeight l) && !(l.any (fun g => g.height == h))

/-! ### Iterate -/

/-- `for _, v := range blocks.Blocks { if callback(v) { delete(blocks.Blocks, v.Hash()) } }`:
    returns the new callback state and the deleted keys -/
def visitKeys {σ : Type} (f : σ → Blk → σ × Bool) : σ → List Blk → σ × List Blk
  | s, [] => (s, [])
  | s, k :: ks =>
    let r := f s k
    let r2 := visitKeys f r.1 ks
    (r2.1, if r.2 then k :: r2.2 else r2.2)

/-- keys of entry `g` that are still in its map given the deletions `D` (address, key) done so far -/
def live (D : List (Nat × Blk)) (g : Group) : List Blk :=
  g.blocks.filter (fun k => decide ((g.gid, k) ∉ D))

/-- outer loop of `Iterate`; deletions are accumulated in `D` and read back through `live`
    (this is what sharing the map between two entries means).  Third result: the visits. -/
def iterGo {σ : Type} (f : σ → Blk → σ × Bool) : σ → List (Nat × Blk) → List Group →
    σ × List (Nat × Blk) × List (Nat × List Blk)
  | s, D, [] => (s, D, [])
  | s, D, g :: rest =>
    let keys := live D g
    let r := visitKeys f s keys
    let r2 := iterGo f r.1 (D ++ r.2.map (fun k => (g.gid, k))) rest
    (r2.1, r2.2.1, (g.height, keys) :: r2.2.2)

/-- `BlockCache.Iterate(callback)`; `σ` is whatever the callback closes over -/
def iterate {σ : Type} (f : σ → Blk → σ × Bool) (s : σ) (c : BlockCache) :
    σ × BlockCache × List (Nat × List Blk) :=
  let r := iterGo f s [] c.cache
  (r.1, { c with cache := c.cache.map (fun e => { e with blocks := live r.2.1 e }) }, r.2.2)

/-! ### Clear, Remove, Size, FirstHeight, IsExit -/

/-- `Clear(height)`: `index` = last position of the leading run of entries with `Height <= height` -/
def clear (h : Nat) (c : BlockCache) : BlockCache :=
  { c with cache := c.cache.dropWhile (fun g => g.height ≤ h) }

/-- blocks of `e` after `delete(.., hash)` was done on the objects whose addresses are in `D` -/
def after (b : Blk) (D : List Nat) (e : Group) : Group :=
  if e.gid ∈ D then { e with blocks := mapDel e.blocks b } else e

/-- the `for i := 0; i < len(c.cache); i++` loop of `Remove`.  When an entry is spliced out the
    following entry moves into slot `i` and `i++` steps over it WITHOUT examining it. -/
def removeGo (b : Blk) : List Nat → List Group → List Group × List Nat
  | D, [] => ([], D)
  | D, g :: rest =>
    if g.height = b.height then
      let D' := g.gid :: D
      if (after b D' g).blocks.isEmpty then
        match rest with
        | [] => ([], D')
        | y :: rest' => let r := removeGo b D' rest'; (y :: r.1, r.2)
      else let r := removeGo b D' rest; (g :: r.1, r.2)
    else let r := removeGo b D rest; (g :: r.1, r.2)

def remove (b : Blk) (c : BlockCache) : BlockCache :=
  match c.cache with
  | [] => c
  | first :: _ =>
    if first.height > b.height || lastHeight c.cache < b.height then c
    else
      let r := removeGo b [] c.cache
      { c with cache := r.1.map (after b r.2) }

def size (c : BlockCache) : Nat := (c.cache.map (fun g => g.blocks.length)).foldl (· + ·) 0

def firstHeight (c : BlockCache) : Nat :=
  match c.cache with
  | [] => 0
  | g :: _ => g.height

/-- `IsExit(hash, height)`: the `for` loop returns in its first iteration -/
def isExit (hash height : Nat) (c : BlockCache) : Bool :=
  match c.cache with
  | [] => false
  | first :: _ =>
    if height < first.height || height > lastHeight c.cache then false
    else first.blocks.any (fun k => k.hash == hash)

/-- `IsExit(hash, height)` since /repo commit 2a76dcb: looks into the entry of the requested height -/
def isExitFixed (hash height : Nat) (c : BlockCache) : Bool :=
  match c.cache with
  | [] => false
  | first :: _ =>
    if height < first.height || height > lastHeight c.cache then false
    else
      match c.cache.find? (fun g => g.height == height) with
      | some g => g.blocks.any (fun k => k.hash == hash)
      | none => false

/-- `^uint32(0)` -/
def maxU32 : Nat := 4294967295

/-- `Add` as it is in /repo now (commits bca2980 + 9829a42): repaired middle insert, and a slice longer
    than `limit` (10240) is flushed with `clearLocked(^uint32(0))` instead of dead-locking. -/
def addLive (limit : Nat) (b : Blk) (c : BlockCache) : BlockCache :=
  let c' := addFixed b c
  if c'.cache.length > limit then clear maxU32 c' else c'

/-! ### ConfirmCache: `map[uint32]map[common.Hash][]*BlockConfirmData` -/

structure Confirm where
  hash : Nat
  height : Nat
  sig : Nat
  deriving DecidableEq, Repr, Inhabited

def alGet {β : Type} (k : Nat) : List (Nat × β) → Option β
  | [] => none
  | (k', v) :: rest => if k' = k then some v else alGet k rest

def alSet {β : Type} (k : Nat) (v : β) : List (Nat × β) → List (Nat × β)
  | [] => [(k, v)]
  | (k', v') :: rest => if k' = k then (k, v) :: rest else (k', v') :: alSet k v rest

def alDel {β : Type} (k : Nat) : List (Nat × β) → List (Nat × β)
  | [] => []
  | (k', v') :: rest => if k' = k then alDel k rest else (k', v') :: alDel k rest

abbrev ConfirmCache := List (Nat × List (Nat × List Confirm))

/-- `Push` (without the 10240 check).  The Go code creates the inner map + an empty slice when the
    height is new and then appends; a missing hash entry under an existing height reads as nil. -/
def ccPush (d : Confirm) (c : ConfirmCache) : ConfirmCache :=
  let hm := (alGet d.height c).getD []
  let l := (alGet d.hash hm).getD []
  alSet d.height (alSet d.hash (l ++ [d]) hm) c

/-- `Push` with `if len(c.cache) > 10240 { c.Clear(..) }` under the held lock: `none` = deadlock -/
def ccPushChecked (limit : Nat) (d : Confirm) (c : ConfirmCache) : Option ConfirmCache :=
  let c' := ccPush d c
  if c'.length > limit then none else some c'

def ccClear (h : Nat) (c : ConfirmCache) : ConfirmCache := c.filter (fun e => !(e.1 ≤ h))

/-- `Push` as it is in /repo now (commit 9829a42): more than `limit` heights → flush -/
def ccPushLive (limit : Nat) (d : Confirm) (c : ConfirmCache) : ConfirmCache :=
  let c' := ccPush d c
  if c'.length > limit then ccClear maxU32 c' else c'

/-- `Pop(height, hash)`: the hash entry is deleted, the (possibly empty) height entry stays -/
def ccPop (height hash : Nat) (c : ConfirmCache) : List Confirm × ConfirmCache :=
  match alGet height c with
  | none => ([], c)
  | some hm =>
    match alGet hash hm with
    | none => ([], c)
    | some l => (l, alSet height (alDel hash hm) c)


def ccSize (c : ConfirmCache) : Nat :=
  (c.map (fun e => (e.2.map (fun x => x.2.length)).foldl (· + ·) 0)).foldl (· + ·) 0

/-! ### the receive loop over an abstract chain -/

/-- abstract chain: a block is accepted iff its parent is known (and it is new) -/
structure Chain where
  /-- blocks for which `HasBlock` is true -/
  known : List Blk
  /-- (block hash, signer) confirmations the chain has received for known blocks
      (`block.Confirms` merged on insert, or `InsertConfirms`) -/
  attached : List (Nat × Nat) := []
  deriving DecidableEq, Repr, Inhabited

def hasBlock (ch : Chain) (hash : Nat) : Bool := ch.known.any (fun k => k.hash == hash)

def maxL : List Nat → Nat
  | [] => 0
  | x :: xs => max x (maxL xs)

def dedupN : List Nat → List Nat
  | [] => []
  | x :: xs => if x ∈ xs then dedupN xs else x :: dedupN xs

/-- number of distinct signers attached to a block -/
def sigCount (att : List (Nat × Nat)) (hash : Nat) : Nat :=
  (dedupN ((att.filter (fun p => p.1 == hash)).map (·.2))).length

/-- `CurrentBlock().Height()` of a linear chain -/
def currentHeight (ch : Chain) : Nat := maxL (ch.known.map (·.height))

/-- `StableBlock().Height()`: highest known block with at least `q` distinct confirmations -/
def stableHeight (q : Nat) (ch : Chain) : Nat :=
  maxL ((ch.known.filter (fun k => decide (q ≤ sigCount ch.attached k.hash))).map (·.height))

/-- `chain.InsertBlock`; `sigs` = `block.Confirms` as extended by `mergeConfirmsFromCache`.
    `none` = error (the popped confirms are gone with the rejected block object). -/
def insertBlock (ch : Chain) (b : Blk) (sigs : List Nat) : Option Chain :=
  if hasBlock ch b.parent && !(hasBlock ch b.hash) then
    some { known := b :: ch.known, attached := ch.attached ++ sigs.map (fun s => (b.hash, s)) }
  else none

structure Node where
  chain : Chain
  bc : BlockCache := {}
  cc : ConfirmCache := []
  /-- heights asked from peers (`RequestBlocks(h-1, h-1)`), newest first -/
  requests : List Nat := []
  /-- highest `lstStatus.CurHeight` over the connected peers (a peer's status is raised to the height of
      every block it sends); all that `BestToSync` needs: some peer is above `h` iff `peerMax > h` -/
  peerMax : Nat := 0
  deriving Repr, Inhabited

/-- `Iterate` since commit 6f06589 drops the entries the callback emptied.  (The Go code decides entry by
    entry right after visiting it; on an alias-free cache — the only caches the repaired code can reach —
    that is the same as dropping the empty entries at the end.) -/
def pruneEmpty (c : BlockCache) : BlockCache :=
  { c with cache := c.cache.filter (fun e => !e.blocks.isEmpty) }

/-- `prune = false`: `Iterate` before commit 6f06589 -/
def iterateP {σ : Type} (prune : Bool) (f : σ → Blk → σ × Bool) (s : σ) (c : BlockCache) :
    σ × BlockCache × List (Nat × List Blk) :=
  let r := iterate f s c
  if prune then (r.1, pruneEmpty r.2.1, r.2.2) else r

/-- `pm.insertBlock`: pop the early confirms, `chain.InsertBlock`, then (since commit 8f95517, `fix = true`)
    `flushLateConfirms`.  `late` = confirms the peer goroutine handles WHILE `InsertBlock` is running:
    `HasBlock` is still false, so `handleConfirmMsg` pushes them — after the pop.  A sequential run has
    `late = []`. -/
def pmInsertG (fix : Bool) (late : List Confirm) (n : Node) (b : Blk) : Node × Bool :=
  let p := ccPop b.height b.hash n.cc
  let cc1 := late.foldl (fun c d => ccPushLive 10240 d c) p.2
  match insertBlock n.chain b (p.1.map (·.sig)) with
  | some ch =>
    if fix then
      let p2 := ccPop b.height b.hash cc1
      ({ n with chain := { ch with attached := ch.attached ++ p2.1.map (fun d => (b.hash, d.sig)) }, cc := p2.2 }, true)
    else ({ n with chain := ch, cc := cc1 }, true)
  | none =>
    -- the confirms popped first are gone with the rejected block object
    if fix && hasBlock n.chain b.hash then
      let p2 := ccPop b.height b.hash cc1
      ({ n with chain := { n.chain with attached := n.chain.attached ++ p2.1.map (fun d => (b.hash, d.sig)) },
                cc := p2.2 }, false)
    else ({ n with cc := cc1 }, false)

/-- `pm.insertBlock` of the current code in a sequential run -/
def pmInsert (n : Node) (b : Blk) : Node × Bool := pmInsertG true [] n b

/-- body of `case rcvMsg := <-pm.rcvBlocksCh` (black lists are empty in the model).
    `victim = some h`: the schedule in which the timer's `go pm.insertBlock` of block `h` completes between
    the loop's `HasBlock(h)` check and the loop's own `InsertBlock(h)`; `none` = sequential run.
    `fix = false`: before commit 2ae7988 every insert error aborted the message. -/
def rcvBlockAt (fix : Bool) (victim : Option Nat) (addF : Blk → BlockCache → BlockCache) (q : Nat)
    (n : Node) (b : Blk) : Node × Bool :=
  -- `(node after this block, keep going with the rest of the message?)`
  if b.height ≤ stableHeight q n.chain || hasBlock n.chain b.hash then (n, true)
  else if hasBlock n.chain b.parent then
    let n1 : Node := if victim = some b.hash then (pmInsertG fix [] n b).1 else n
    let r := pmInsertG fix [] n1 b
    if r.2 then (r.1, true)
    else if fix && hasBlock r.1.chain b.hash then (r.1, true)
    else (r.1, false)
  else if b.height ≤ 1 then (n, false)
  else ({ n with bc := addF b n.bc, requests := (b.height - 1) :: n.requests }, true)

/-- one block of the message: first the sender's status is raised (`UpdateStatus`), then `rcvBlockAt` -/
def rcvBlock (fix : Bool) (victim : Option Nat) (addF : Blk → BlockCache → BlockCache) (q : Nat)
    (n0 : Node) (b : Blk) : Node × Bool :=
  rcvBlockAt fix victim addF q { n0 with peerMax := max n0.peerMax b.height } b

def rcvBlocksG (fix : Bool) (victim : Option Nat) (addF : Blk → BlockCache → BlockCache) (q : Nat) :
    Node → List Blk → Node
  | n, [] => n
  | n, b :: rest =>
    let r := rcvBlock fix victim addF q n b
    if r.2 then rcvBlocksG fix victim addF q r.1 rest else r.1

/-- the receive loop of the current code in a sequential run -/
def rcvBlocks (addF : Blk → BlockCache → BlockCache) (q : Nat) : Node → List Blk → Node :=
  rcvBlocksG true none addF q

/-- `handleConfirmMsg` (sequential run: the `flushLateConfirms` after the push sees the same `HasBlock = false`) -/
def rcvConfirm (n : Node) (d : Confirm) : Node :=
  if hasBlock n.chain d.hash then
    { n with chain := { n.chain with attached := n.chain.attached ++ [(d.hash, d.sig)] } }
  else { n with cc := ccPushLive 10240 d n.cc }

/-- `handleConfirmMsg` whose `HasBlock` check answered false BEFORE the block went in and whose `Push` happens
    after `pm.insertBlock` returned (`n` = the node after the insert).  `fix`: commit 8f95517. -/
def rcvConfirmStale (fix : Bool) (n : Node) (d : Confirm) : Node :=
  let cc1 := ccPushLive 10240 d n.cc
  if fix && hasBlock n.chain d.hash then
    let p := ccPop d.height d.hash cc1
    { n with chain := { n.chain with attached := n.chain.attached ++ p.1.map (fun x => (d.hash, x.sig)) }, cc := p.2 }
  else { n with cc := cc1 }

/-- `processBlock` of the timer case when the spawned `go pm.insertBlock(block)` runs at once -/
def tickNow (n : Node) (b : Blk) : Node × Bool :=
  if hasBlock n.chain b.parent then ((pmInsert n b).1, true) else (n, false)

/-- `processBlock` when the spawned goroutines only run after `Iterate` returned:
    the state is (chain seen by `HasBlock`, blocks handed to goroutines) -/
def tickLater (ch : Chain) (pend : List Blk) (b : Blk) : List Blk × Bool :=
  if hasBlock ch b.parent then (pend ++ [b], true) else (pend, false)

/-- `case <-queueTimer.C`.  `prune`: commit 6f06589.  `eqSync`: commit 2d092b8 (`BestToSync(FirstHeight()-1)`
    instead of `BestToSync(FirstHeight())`). -/
def tickG (prune eqSync : Bool) (async : Bool) (n : Node) : Node :=
  let n' :=
    if async then
      let r := iterateP prune (fun pend b => tickLater n.chain pend b) [] n.bc
      r.1.foldl (fun m b => (pmInsert m b).1) { n with bc := r.2.1 }
    else
      let r := iterateP prune tickNow n n.bc
      { r.1 with bc := r.2.1 }
  let fh := firstHeight n'.bc
  if size n'.bc > 0 && (if eqSync then decide (n'.peerMax > fh - 1) else decide (n'.peerMax > fh)) then
    { n' with requests := (fh - 1) :: n'.requests }
  else n'

/-- the drain timer of the current code -/
def tick (async : Bool) (n : Node) : Node := tickG true true async n

/-- `stableBlockLoop`: `confirmsCache.Clear(h); blockCache.Clear(h)` for a stable height `h` -/
def onStable (h : Nat) (n : Node) : Node :=
  { n with bc := clear h n.bc, cc := ccClear h n.cc }

inductive Msg where
  | blocks (bs : List Blk)
  | confirm (d : Confirm)
  | tick (async : Bool)
  /-- a NewStableBlock event is delivered; it carries the chain's stable height at that moment -/
  | stable
  deriving Repr, Inhabited

def step (addF : Blk → BlockCache → BlockCache) (q : Nat) (n : Node) : Msg → Node
  | .blocks bs => rcvBlocks addF q n bs
  | .confirm d => rcvConfirm n d
  | .tick a => tick a n
  | .stable => onStable (stableHeight q n.chain) n

def runMsgs (addF : Blk → BlockCache → BlockCache) (q : Nat) (n : Node) (ms : List Msg) : Node :=
  ms.foldl (step addF q) n

/-! ### handleTxsMsg -/

/-- `handleTxsMsg`, what reaches `txPool.AddTx`.
    `perIter = true`: every goroutine sees its own iteration's `tx` (sequential semantics, or the
    loop with `tx := tx`).  `perIter = false`: ONE variable `tx` per loop (Go < 1.22, which is what
    `go 1.14` in /repo/go.mod selects) and the goroutines run after the loop finished — they all
    read the last element of the batch, valid or not. -/
def txsReach (valid : Nat → Bool) (perIter : Bool) (txs : List Nat) : List Nat :=
  if perIter then txs.filter valid
  else (txs.filter valid).map (fun _ => txs.getLast?.getD 0)

/-- a pool that refuses a hash it already holds (`AddTx` returns ErrTxIsExist) -/
def poolAdd (pool : List Nat) (tx : Nat) : List Nat := if tx ∈ pool then pool else pool ++ [tx]

def handleTxs (valid : Nat → Bool) (perIter : Bool) (pool : List Nat) (txs : List Nat) : List Nat :=
  (txsReach valid perIter txs).foldl poolAdd pool

end LemoModel.Sync

/-
  C06 — temp addresses, bytewise.

  `verifyTemp`   = chain/transaction/set_multisig_account_tx.go `verifyTempAddress(creator, tempAddress)`:
                     if tempAddress[0] != 0x03 { ErrAddressType }
                     if bytes.Compare(creator[20-9:], tempAddress[1:1+9]) != 0 { ErrTempAddress }
  `createTemp`   = common/crypto/crypto.go `CreateTempAddress(creator, userId [10]byte)`:
                     make([]byte, 20); [0] = 0x03; copy([1:10], creator[11:]); copy([10:], userId[:]); BytesToAddress
  `bytesToAddress` = common/types.go `BytesToAddress` / `Address.SetBytes`: longer than 20 bytes keeps the LAST 20,
                     shorter is right-aligned in a zero address.
  An address is the list of its bytes (`common.Address` is `[20]byte`: every Go value has length 20; the functions
  are total over all lists, the theorems name the length hypotheses they need).  The user-id part (bytes 10..19) is
  NOT looked at by `verifyTemp`.  Core Lean only.  Tied by the `c06 tempaddr …` op lines of harness/hx/c06_temp.go and by
  every `setsigners` tx line of the ledger scenario (whose tempOk is computed by `verifyOk` from the two addresses).
-/
namespace LemoModel.TempAddr

abbrev Addr := List Nat

def addressLength : Nat := 20
def issuerLen : Nat := 9
def tempType : Nat := 3

/-- `common.BytesToAddress` -/
def bytesToAddress (b : List Nat) : Addr :=
  let b := if b.length > addressLength then b.drop (b.length - addressLength) else b
  List.replicate (addressLength - b.length) 0 ++ b

inductive TErr where
  | addressType | tempAddress
  deriving DecidableEq, Repr

def TErr.name : TErr → String
  | .addressType => "ErrAddressType" | .tempAddress => "ErrTempAddress"

/-- `verifyTempAddress(creator, tempAddress)` -/
def verifyTemp (creator temp : Addr) : Option TErr :=
  if temp.headD 0 ≠ tempType then some .addressType
  else if creator.drop (addressLength - issuerLen) ≠ (temp.drop 1).take issuerLen then some .tempAddress
  else none

def verifyOk (creator temp : Addr) : Bool := (verifyTemp creator temp).isNone

/-- Go's `copy(dst[lo:hi], src)`: min(hi - lo, len(src)) bytes -/
def copyRange (dst : List Nat) (lo hi : Nat) (src : List Nat) : List Nat :=
  let n := min (hi - lo) src.length
  dst.take lo ++ src.take n ++ dst.drop (lo + n)

/-- `crypto.CreateTempAddress(creator, userId)` -/
def createTemp (creator : Addr) (userId : List Nat) : Addr :=
  let t := List.replicate addressLength 0
  let t := copyRange t 0 1 [tempType]
  let t := copyRange t 1 (1 + issuerLen) (creator.drop (addressLength - issuerLen))
  let t := copyRange t (1 + issuerLen) addressLength userId
  bytesToAddress t

end LemoModel.TempAddr

/-
  C04 — replay protection.  Executable model of chain/txpool/{tx_guard,block_cache,time_bucket,
  tx_tracer}.go, of consensus/validator.go `verifyTxs` and of chain/blockchain.go `initTxPool`,
  as coded (core Lean only).

  * A block "hash" is a natural number ≥ 1 (0 = the zero hash); blocks are created after their
    parents, so `parent < hash` in every run (hash-chain acyclicity).  Go maps are association
    lists; a `map[txHash]HashSet` is the relation `List (txId × blockHash)`.
  * `txId`  = Transaction.Hash()  (covers the signature bytes)
    `content` = the signing hash (what the user signed).  They are DISTINCT fields.
  * the bucket index, the two VerifyTxBody comparisons, MaxTxLifeTime and BucketDuration are the
    definitions GENERATED from the Go source (`LemoGen.TxWindow`).
-/
import LemoModel.GoSem
import LemoGen.TxWindow
namespace LemoModel.TxGuard
open LemoGen.TxWindow

/-- a transaction without its box structure (a standalone tx or a box sub-tx) -/
structure Core where
  txId : Nat
  /-- what the SENDER signed: `MakeSigner().Hash(tx)`; for a reimbursement tx
      `MakeReimbursementTxSigner().Hash(tx)`, which omits GasPrice and GasLimit -/
  content : Nat
  exp : Nat
  /-- what the gas PAYER signed (`MakeGasPayerSigner().Hash(tx)`, covers the gas terms);
      0 = not a reimbursement tx.  A reimbursed tx has TWO signed contents. -/
  payer : Nat := 0
  deriving DecidableEq, Repr, Inhabited

structure Tx where
  txId : Nat
  content : Nat
  exp : Nat
  /-- sub-transactions when this is a box tx (`getSubTxs`) -/
  subs : List Core := []
  payer : Nat := 0
  deriving DecidableEq, Repr, Inhabited

def Tx.core (t : Tx) : Core := ⟨t.txId, t.content, t.exp, t.payer⟩
/-- the tx itself and its box sub-txs: everything that is executed when the tx is executed -/
def Tx.cores (t : Tx) : List Core := t.core :: t.subs
/-- the hashes `TxTracer` records / looks up for one tx: its own and its sub-txs' -/
def Tx.ids (t : Tx) : List Nat := t.txId :: t.subs.map (·.txId)

structure Block where
  hash : Nat
  parent : Nat
  height : Nat
  time : Nat
  txs : List Tx
  deriving DecidableEq, Repr, Inhabited

def Block.ids (b : Block) : List Nat := b.txs.flatMap Tx.ids
def Block.cores (b : Block) : List Core := b.txs.flatMap Tx.cores

def idsOf (txs : List Tx) : List Nat := txs.flatMap Tx.ids

/-- outcome of a Go call: value, panic, or non-termination (only possible on a cyclic cache) -/
inductive Out (α : Type) where
  | ok (a : α)
  | panic
  | hang
  deriving Repr, DecidableEq, Inhabited

/-! ### time_bucket.go -/

structure Buckets where
  timeBase : Nat
  slots : List (List Nat)
  cap : Nat
  deriving Repr, DecidableEq, Inhabited

def lifeTime : Nat := MaxTxLifeTime.toNat

/-- `newTimeBucket` -/
def newTimeBucket (timeBase : Nat) : Buckets :=
  let cap := lifeTime / BucketDuration + 10
  { timeBase := timeBase / BucketDuration * BucketDuration, cap := cap, slots := List.replicate cap [] }

inductive AddRes where
  | ok (b : Buckets)
  | errTime
  | panic
  deriving Repr, DecidableEq

/-- the "extend storage" step of `TimeBuckets.Add`: the slice is re-allocated with `cap` slots when
    the index is beyond its length -/
def Buckets.grow (tb : Buckets) (i : Nat) : Buckets :=
  if i ≥ tb.slots.length then
    let cap' := if i ≥ tb.cap then i * 2 else tb.cap
    { tb with cap := cap', slots := (tb.slots ++ List.replicate (cap' - tb.slots.length) []).take cap' }
  else tb

/-- `TimeBuckets.Add` -/
def Buckets.add (tb : Buckets) (time hash : Nat) : AddRes :=
  if getBucketIndex time tb.timeBase < 0 then .errTime else
  let i := (getBucketIndex time tb.timeBase).toNat
  if i < (tb.grow i).slots.length then
    .ok { tb.grow i with slots := (tb.grow i).slots.modify i (· ++ [hash]) }
  else .panic

/-- `TimeBuckets.Expire`: returns the expired hashes; the receiver is updated in place -/
def Buckets.expire (tb : Buckets) (newTimeBase : Nat) : List Nat × Buckets :=
  let nbi := getBucketIndex newTimeBase tb.timeBase
  if nbi ≤ 0 then ([], tb) else
  let k0 := nbi.toNat
  let k := if k0 > tb.slots.length then tb.slots.length else k0
  ((tb.slots.take k).flatten,
   { tb with timeBase := newTimeBase / BucketDuration * BucketDuration, slots := tb.slots.drop k })

/-! ### block_cache.go -/

abbrev Cache := List Block

def cacheGet (c : Cache) (h : Nat) : Option Block := c.find? (fun b => b.hash == h)
def cacheAdd (c : Cache) (b : Block) : Cache := if (cacheGet c b.hash).isSome then c else c ++ [b]
def cacheDel (c : Cache) (h : Nat) : Cache := c.filter (fun b => b.hash != h)

/-- `BlockNodes.getHeightRange` -/
def heightRange (bs : List Block) : Nat × Nat :=
  if bs.isEmpty then (0, 0) else
  bs.foldl (fun (r : Nat × Nat) b =>
    (if b.height < r.1 then b.height else r.1, if b.height > r.2 then b.height else r.2)) (4294967295, 0)

/-- `CollectBlocks`: `none` = ErrNotFoundBlockCache -/
def collectBlocks (c : Cache) : List Nat → Option (List Block)
  | [] => some []
  | h :: hs =>
    match cacheGet c h with
    | none => none
    | some b => (collectBlocks c hs).map (b :: ·)

/-- the loop of `SliceOnFork`; `none` = fuel exhausted (a cycle of parent links: Go would not return) -/
def sliceLoop (c : Cache) (minH maxH : Nat) : Nat → Nat → Block → Option (List Nat)
  | 0, _, _ => none
  | fuel + 1, pHash, pBlock =>
    if pBlock.height < minH then some [] else
    let acc := if minH ≤ pBlock.height ∧ pBlock.height ≤ maxH then [pHash] else []
    match cacheGet c pBlock.parent with
    | none => some acc
    | some pb => (sliceLoop c minH maxH fuel pBlock.parent pb).map (acc ++ ·)

inductive SliceRes where
  | ok (hs : List Nat)
  | errNotFound
  | hang
  deriving Repr, DecidableEq

/-- `BlockCache.SliceOnFork` -/
def sliceOnFork (c : Cache) (start minH maxH : Nat) : SliceRes :=
  if start = 0 ∨ minH > maxH then .ok [] else
  match cacheGet c start with
  | none => .errNotFound
  | some pBlock =>
    if pBlock.height < minH then .ok [] else
    match sliceLoop c minH maxH (start + 1) start pBlock with
    | none => .hang
    | some hs => .ok hs

/-- `BlockCache.IsAppearedOnFork` -/
def isAppearedOnFork (c : Cache) (trace : List Nat) (start : Nat) : Out Bool :=
  if trace.isEmpty then .ok false else
  match collectBlocks c trace with
  | none => .panic
  | some blocks =>
    let r := heightRange blocks
    match sliceOnFork c start r.1 r.2 with
    | .errNotFound => .panic
    | .hang => .hang
    | .ok slice => .ok (slice.any (fun h => trace.contains h))

/-! ### tx_tracer.go -/

/-- `map[txHash]HashSet` as a relation (txId, blockHash) -/
abbrev Tracer := List (Nat × Nat)

def addTrace1 (t : Tracer) (id h : Nat) : Tracer := if t.contains (id, h) then t else t ++ [(id, h)]
/-- `AddTrace`: the tx hash and, for a box, its sub-tx hashes -/
def addTrace (t : Tracer) (tx : Tx) (h : Nat) : Tracer := tx.ids.foldl (fun t id => addTrace1 t id h) t
/-- `DelTrace`: `delete(t, hash)` removes the WHOLE entry of the tx hash (every block it was seen in) -/
def delTrace (t : Tracer) (tx : Tx) : Tracer := t.filter (fun e => !(tx.ids.contains e.1))
def traceGet (t : Tracer) (id : Nat) : List Nat := (t.filter (fun e => e.1 == id)).map (·.2)
/-- `LoadTraces`: union of the entries of the txs and of their sub-txs -/
def loadTraces (t : Tracer) (txs : List Tx) : List Nat := ((idsOf txs).flatMap (traceGet t)).eraseDups

/-! ### tx_guard.go -/

structure Guard where
  tb : Buckets
  cache : Cache
  tracer : Tracer
  deriving Repr, DecidableEq, Inhabited

/-- `NewTxGuard(stableBlockTime)` -/
def newTxGuard (stableTime : Nat) : Guard :=
  let timeBase := if stableTime > lifeTime then stableTime - lifeTime else 0
  { tb := newTimeBucket timeBase, cache := [], tracer := [] }

/-- `SaveBlock` -/
def Guard.saveBlock (g : Guard) (b : Block) : Out Guard :=
  match g.tb.add b.time b.hash with
  | .errTime => .ok g
  | .panic => .panic
  | .ok tb' =>
    .ok { tb := tb', cache := cacheAdd g.cache b,
          tracer := b.txs.foldl (fun t tx => addTrace t tx b.hash) g.tracer }

/-- `ExistTxs(startBlockHash, txs)` -/
def Guard.existTxs (g : Guard) (start : Nat) (txs : List Tx) : Out Bool :=
  isAppearedOnFork g.cache (loadTraces g.tracer txs) start

/-- one iteration of the loop of `DelOldBlocks` over the expired hashes -/
def dropOne (g : Guard) (h : Nat) : Guard :=
  match cacheGet g.cache h with
  | none => g
  | some b => { g with cache := cacheDel g.cache h, tracer := b.txs.foldl delTrace g.tracer }

/-- `DelOldBlocks(newStableBlockTime)` -/
def Guard.delOldBlocks (g : Guard) (T : Nat) : Out Guard :=
  if T < lifeTime then .panic else
  let r := g.tb.expire (T - lifeTime)
  .ok (r.1.foldl dropOne { g with tb := r.2 })

inductive BranchRes where
  | ok (b1 b2 : List Block)
  | errNotFound
  | errDifferentGenesis
  | hang
  deriving Repr, DecidableEq

/-- the loop of `getBlocksByBranch` -/
def branchLoop (c : Cache) : Nat → Nat → Nat → Nat → Nat → List Block → List Block → BranchRes
  | 0, _, _, _, _, _, _ => .hang
  | fuel + 1, hash1, hash2, h1, h2, a1, a2 =>
    if h1 > h2 then
      match cacheGet c hash1 with
      | none => .errNotFound
      | some t => branchLoop c fuel t.parent hash2 (h1 - 1) h2 (a1 ++ [t]) a2
    else if h1 < h2 then
      match cacheGet c hash2 with
      | none => .errNotFound
      | some t => branchLoop c fuel hash1 t.parent h1 (h2 - 1) a1 (a2 ++ [t])
    else if hash1 = hash2 then .ok a1 a2
    else if h1 = 0 then .errDifferentGenesis
    else
      match cacheGet c hash1 with
      | none => .errNotFound
      | some t1 =>
        match cacheGet c hash2 with
        | none => .errNotFound
        | some t2 => branchLoop c fuel t1.parent t2.parent (h1 - 1) (h2 - 1) (a1 ++ [t1]) (a2 ++ [t2])

inductive BranchTxs where
  | ok (txs1 txs2 : List Tx)
  | errNotFound
  | errDifferentGenesis
  | hang
  deriving Repr, DecidableEq

/-- `GetTxsByBranch(block1, block2)` (only hash and height of the two arguments are used) -/
def Guard.getTxsByBranch (g : Guard) (hash1 height1 hash2 height2 : Nat) : BranchTxs :=
  match branchLoop g.cache (height1 + height2 + 1) hash1 hash2 height1 height2 [] [] with
  | .ok b1 b2 => .ok (b1.flatMap (·.txs)) (b2.flatMap (·.txs))
  | .errNotFound => .errNotFound
  | .errDifferentGenesis => .errDifferentGenesis
  | .hang => .hang

/-! ### blockchain.go initTxPool -/

/-- the loop of `initTxPool`; `byHeight` = `bc.GetBlockByHeight` on the stable chain
    (`stableTime - iter.Time()` is a uint32 subtraction) -/
def initLoop (byHeight : Nat → Option Block) (stableTime : Nat) : Nat → Nat → Block → Guard → Out Guard
  | 0, _, _, _ => .hang
  | fuel + 1, height, iter, g =>
    if GoSem.usub 4294967296 stableTime iter.time ≤ lifeTime then
      match g.saveBlock iter with
      | .ok g' =>
        if height = 0 then .ok g' else
        match byHeight (height - 1) with
        | none => .panic
        | some it => initLoop byHeight stableTime fuel (height - 1) it g'
      | o => o
    else .ok g

/-- `NewTxGuard(latestStable.Time())` followed by `initTxPool(latestStable, …)` -/
def initTxPool (byHeight : Nat → Option Block) (stable : Block) : Out Guard :=
  initLoop byHeight stable.time (stable.height + 1) stable.height stable (newTxGuard stable.time)

/-! ### validator.go verifyTxs / types/tx.go VerifyTxBody (time window part) -/

/-- `VerifyTxBody`'s two expiration comparisons (generated conditions) -/
def windowOk (blockTime exp : Nat) : Bool := !txExpiredCond blockTime exp && !txTooFarCond blockTime exp

/-- `VerifyTxBody` for a block tx, time part: own window; for a box (`checkBoxTx`) every sub-tx
    expires no earlier than the box and is itself inside the window -/
def Tx.validAt (t : Tx) (blockTime : Nat) : Bool :=
  windowOk blockTime t.exp && t.subs.all (fun s => decide (t.exp ≤ s.exp) && windowOk blockTime s.exp)

/-- `verifyTxs`.  `fixed = true`: with the repair that rejects a block in which a tx hash (or box
    sub-tx hash) occurs twice; `fixed = false`: the code before that repair. -/
def verifyTxs (fixed : Bool) (g : Guard) (b : Block) : Out Bool :=
  if fixed && !(decide b.ids.Nodup) then .ok false else
  match g.existTxs b.parent b.txs with
  | .ok true => .ok false
  | .ok false => .ok (b.txs.all (fun tx => tx.validAt b.time))
  | .panic => .panic
  | .hang => .hang

/-- how often a content signed by a SENDER takes effect on a list of executed blocks -/
def execCount (branch : List Block) (content : Nat) : Nat :=
  ((branch.flatMap Block.cores).filter (fun c => c.content == content)).length

/-- how often a content signed by a gas PAYER takes effect -/
def execCountPayer (branch : List Block) (payer : Nat) : Nat :=
  ((branch.flatMap Block.cores).filter (fun c => c.payer == payer)).length

/-! ### what authorisation covers (types/tx_signing.go, transaction/tx_processor.go) versus what the
    tx hash covers (types/tx.go Hash): the replay key is the tx hash -/

/-- a signature as the processor sees it: who it recovers to, and which of the two equivalent
    encodings `(r, s, v)` / `(r, n−s, v⊕1)` it uses -/
structure SigEnc where
  signer : Nat
  highS : Bool := false
  deriving DecidableEq, Repr

/-- `recoverSigners`.  `lowSOnly = true`: since fix 04be1c5 a high-s signature fails the whole list;
    `false`: the code before it (both encodings recover to the same signer). -/
def recoverSigners (lowSOnly : Bool) (sigs : List SigEnc) : Option (List Nat) :=
  if lowSOnly && sigs.any (·.highS) then none else some (sigs.map (·.signer))

/-- `checkSignersWeight(sender, tx, signer)`: `accSigners` = the account's registered (address, weight)
    list.  Plain account: only `signers[0]` is compared with the sender.  Multisig account: the weights
    of the DISTINCT recovered signers that are registered are summed (order, repetitions and foreign
    entries do not matter) and compared with 100. -/
def checkSignersWeight (lowSOnly : Bool) (sender : Nat) (accSigners : List (Nat × Nat)) (sigs : List SigEnc) : Bool :=
  match recoverSigners lowSOnly sigs with
  | none => false
  | some signers =>
    if signers.isEmpty then false
    else if accSigners.isEmpty then signers.head? == some sender
    else
      let w := fun a => match accSigners.find? (fun e => e.1 == a) with | some e => e.2 | none => 0
      decide (100 ≤ (signers.eraseDups.map w).sum)

/-- everything `Transaction.Hash()` covers, split by who vouches for it: `body` (from, to, gas payer,
    amount, data, expiration, …) is in every signing hash; the gas terms are in the sender's signing
    hash only for an ordinary tx; as soon as the tx carries gas-payer signatures the sender's hash is
    `ReimbursementTxSigner.Hash`, which omits them — only the payer signs them; the signature lists
    are covered by nobody's signature.  Two encodings are the same transaction (same tx hash, by
    collision freedom) iff they are equal as values. -/
structure Encoded where
  body : Nat
  gasPrice : Nat
  gasLimit : Nat
  sigs : List SigEnc
  payerSigs : List SigEnc := []
  deriving DecidableEq, Repr

/-- `verifyTransactionSigs` picks the sender's signer by `len(GasPayerSigs) >= 1` -/
def Encoded.reimbursed (e : Encoded) : Bool := !e.payerSigs.isEmpty

/-- the sender's signing hash (`DefaultSigner.Hash` / `ReimbursementTxSigner.Hash`) -/
def Encoded.senderContent (e : Encoded) : Nat × Option (Nat × Nat) :=
  (e.body, if e.reimbursed then none else some (e.gasPrice, e.gasLimit))

/-- the payer's signing hash (`GasPayerSigner.Hash`) -/
def Encoded.payerContent (e : Encoded) : Nat × Nat × Nat := (e.body, e.gasPrice, e.gasLimit)

/-- `verifyTransactionSigs`: the payer's list (when present) against the payer account, the sender's
    list against the sender account (without payer signatures the gas payer must be the sender:
    part of `body`) -/
def Encoded.authorised (lowSOnly : Bool) (e : Encoded) (sender : Nat) (senderSigners : List (Nat × Nat))
    (payer : Nat) (payerSigners : List (Nat × Nat)) : Bool :=
  (e.payerSigs.isEmpty || checkSignersWeight lowSOnly payer payerSigners e.payerSigs) &&
  checkSignersWeight lowSOnly sender senderSigners e.sigs

/-! ### the miner (dpovp.go MineBlock / tx_pool.go GetTxs): `GetTxs` does not consult the guard.
    Since /repo fix 609d2a8 `MineBlock` itself puts every candidate that passed `VerifyTxBody` to
    `txGuard.ExistTx(parent, tx)`: that step, and the pool around it, is modelled in LemoModel/PoolGuard.lean
    (`assemble`); `minePack` below is the candidate list BEFORE that filter. -/

/-- `TxPool.GetTxs(time)`: everything not timed out (`isTxTimeOut`).  NOTE: a tx whose expiration is
    more than MaxTxLifeTime AFTER `time` is not filtered here (only the pool's entry paths check that,
    against the wall clock at entry). -/
def minerPick (pool : List Tx) (time : Nat) : List Tx :=
  pool.filter (fun tx => !(decide (tx.exp < time) || tx.subs.any (fun s => decide (s.exp < time))))

/-- what `MineBlock` hands to the assembler since fix 2e18e3d: the `GetTxs` result filtered by
    `VerifyTxBody(chainID, header.Time, true)` (time part).  Before that fix it was `minerPick` itself. -/
def minePack (pool : List Tx) (time : Nat) : List Tx :=
  (minerPick pool time).filter (fun tx => tx.validAt time)

/-! ### canonical dump for the correspondence harness -/

def sortNat (l : List Nat) : List Nat := l.mergeSort (· ≤ ·)

def joinWith (sep : String) (l : List String) : String := sep.intercalate l

def Guard.dump (g : Guard) : String :=
  let slots := (List.range g.tb.slots.length).filterMap (fun i =>
    let s := g.tb.slots.getD i []
    if s.isEmpty then none else some s!"{i}:{joinWith "," (s.map toString)}")
  let cache := sortNat (g.cache.map (·.hash))
  let ids := (sortNat (g.tracer.map (·.1))).eraseDups
  let tr := ids.map (fun id => s!"{id}>{joinWith "," ((sortNat (traceGet g.tracer id)).map toString)}")
  s!"base={g.tb.timeBase} len={g.tb.slots.length} cap={g.tb.cap} slots=[{joinWith " " slots}] cache=[{joinWith "," (cache.map toString)}] trace=[{joinWith " " tr}]"

end LemoModel.TxGuard

/-
  C09 — the unconfirmed-block tree of store/chain_database.go + store/cblock.go over the
  heap model of the copy-on-write account trie (LemoModel.CowTrie).  Core Lean only.

  Blocks are identified by a label (stands for the block hash; the harness derives the hash from
  the label).  `parent = none` is the zero hash (genesis).
-/
import LemoModel.CowTrie
namespace LemoModel.UTree
open LemoModel.CowTrie

/-- a `CBlock` in `UnConfirmBlocks`; `root` is `AccountTrieDB.trie.root` -/
structure Blk where
  label : Nat
  height : Nat
  parent : Option Nat
  root : Nat
  deriving Repr, DecidableEq, Inhabited

structure St where
  heap : Heap := Heap.empty
  /-- `LastConfirm.Block` (label, height); `none` before the genesis block is stable -/
  stable : Option (Nat × Nat) := none
  /-- `LastConfirm.AccountTrieDB.trie.root` -/
  stableRoot : Nat := 0
  /-- `UnConfirmBlocks`, in insertion order (= order of the `Children` slices) -/
  blocks : List Blk := []
  /-- blocks persisted in the block store: (label, height) -/
  committed : List (Nat × Nat) := []
  /-- persisted accounts: addr ↦ balance, newest first -/
  disk : List (Nat × Nat) := []
  deriving Repr

/-- `NewChainDataBase(home)` on a home whose persisted part is `committed`/`disk`/`stable` -/
def openDb (committed : List (Nat × Nat)) (disk : List (Nat × Nat)) (stable : Option (Nat × Nat)) : St :=
  let (h, r) := newTrie Heap.empty
  { heap := h, stable := stable, stableRoot := r, blocks := [], committed := committed, disk := disk }

def St.reopen (s : St) : St := openDb s.committed s.disk s.stable

def diskGet (s : St) (addr : Nat) : Option Data :=
  (s.disk.lookup addr).map (fun v => { addr := addr, val := v })

def findBlk (s : St) (l : Nat) : Option Blk := s.blocks.find? (fun b => b.label == l)

def stableLabel (s : St) : Option Nat := s.stable.map (·.1)

inductive SetErr where
  | exist | argInvalid
  deriving Repr, DecidableEq

/-- `ChainDatabase.SetBlock(hash, block)` -/
def setBlock (s : St) (l : Nat) (parent : Option Nat) (height : Nat) : Except SetErr St :=
  if (findBlk s l).isSome || s.committed.any (fun c => c.1 == l) then .error .exist
  else
    match s.stable with
    | none =>
      if height ≠ 0 || parent.isSome then .error .argInvalid
      else
        -- genesis: NewGenesisBlock, child of the (empty) LastConfirm
        let (h, r) := newTrie s.heap
        .ok { s with heap := h, blocks := s.blocks ++ [{ label := l, height := 0, parent := none, root := r }] }
    | some (sl, sh) =>
      if height = 0 || parent.isNone then .error .argInvalid
      else if height ≤ sh then .error .argInvalid
      else
        match parent with
        | none => .error .argInvalid
        | some p =>
          match findBlk s p with
          | none =>
            if sl ≠ p then .error .argInvalid
            else if sh + 1 ≠ height then .error .argInvalid
            else .ok { s with blocks := s.blocks ++ [{ label := l, height := height, parent := some p, root := s.stableRoot }] }
          | some pb =>
            if pb.height + 1 ≠ height then .error .argInvalid
            else .ok { s with blocks := s.blocks ++ [{ label := l, height := height, parent := some p, root := pb.root }] }

/-- which trie `GetActDatabase(hash)` hands out: an unconfirmed block's, or `LastConfirm`'s for any
    block found in the block store; otherwise the code panics. `some none` = LastConfirm. -/
inductive TrieRef where
  | blk (b : Blk)
  | last (height : Nat)
  | panic

def actDb (s : St) (l : Nat) : TrieRef :=
  match findBlk s l with
  | some b => .blk b
  | none =>
    match s.committed.find? (fun c => c.1 == l) with
    | some c => .last c.2
    | none => .panic

def setRoot (s : St) (l : Nat) (r : Nat) : St :=
  { s with blocks := s.blocks.map (fun b => if b.label == l then { b with root := r } else b) }

/-- `GetActDatabase(hash).Put(account, height(hash))` (what `Manager.Save` does for each dirty account).
    `fixed = true` is the `put` /repo runs (since fix fb6e64c) and what the driver uses; `false` = the code before the fix. -/
def putAcct (fixed : Bool) (s : St) (l : Nat) (key : Key) (addr val : Nat) : Res St :=
  match actDb s l with
  | .panic => .panic
  | .blk b => do
    let (h, r) ← putTopG fixed s.heap b.root key (some { addr := addr, val := val }) b.height
    .ok (setRoot { s with heap := h } l r)
  | .last ht => do
    let (h, r) ← putTopG fixed s.heap s.stableRoot key (some { addr := addr, val := val }) ht
    .ok { s with heap := h, stableRoot := r }

def rootOf (s : St) (l : Nat) : Res Nat :=
  match actDb s l with
  | .panic => .panic
  | .blk b => .ok b.root
  | .last _ => .ok s.stableRoot

/-- `GetActDatabase(hash).Get(addr)` -/
def getAcct (s : St) (l : Nat) (key : Key) (addr : Nat) : Res (St × Option Nat) := do
  let r ← rootOf s l
  let (h, d) ← getTop s.heap r key (diskGet s addr)
  .ok ({ s with heap := h }, d.map (·.val))

/-- the same answer without the read-through side effect -/
def peekAcct (s : St) (l : Nat) (key : Key) (addr : Nat) : Res (Option Nat) := do
  let r ← rootOf s l
  let d ← peekTop s.heap r key (diskGet s addr)
  .ok (d.map (·.val))

/-- is `p` the LastConfirm block, seen as a parent link -/
def isLast (s : St) (p : Option Nat) : Bool := p == stableLabel s

/-- `CollectToParent(LastConfirm)`: the block and its ancestors below LastConfirm, newest first -/
def pathTo : Nat → St → Nat → List Blk
  | 0, _, _ => []
  | fuel + 1, s, l =>
    match findBlk s l with
    | none => []
    | some b =>
      if isLast s b.parent then [b]
      else match b.parent with
        | none => [b]
        | some p => b :: pathTo fuel s p

/-- `Walk`: all descendants of the block labelled `p` (pre-order, children in insertion order),
    skipping the subtree of `exclude` -/
def walk : Nat → List Blk → Option Nat → Option Nat → List Blk
  | 0, _, _, _ => []
  | fuel + 1, blocks, p, exclude =>
    (blocks.filter (fun b => b.parent == p && some b.label != exclude)).flatMap
      (fun b => b :: walk fuel blocks (some b.label) exclude)

def diskPut (disk : List (Nat × Nat)) (ds : List Data) : List (Nat × Nat) :=
  ds.foldl (fun acc d => (d.addr, d.val) :: acc) disk

/-- one iteration of `commit` inside `SetStableBlock`: `blockCommit` + `clear(oldLast, cItem)`;
    returns the dropped labels in the order of `droppedBlocks` -/
def commitOne (s : St) (b : Blk) : Res (St × List Nat) := do
  let accts ← collectTop s.heap b.root b.height
  let removed := walk (s.blocks.length + 1) s.blocks (stableLabel s) (some b.label)
  let rm := removed.map (·.label)
  let blocks := s.blocks.filter (fun x => !(rm.contains x.label) && x.label != b.label)
  .ok ({ s with disk := diskPut s.disk accts, committed := s.committed ++ [(b.label, b.height)],
                stable := some (b.label, b.height), stableRoot := b.root, blocks := blocks }, rm)

/-- `ChainDatabase.SetStableBlock(hash)`; `none` = ErrArgInvalid -/
def setStable (s : St) (l : Nat) : Res (Option (St × List Nat)) :=
  match findBlk s l with
  | none => .ok none
  | some _ =>
    let path := (pathTo (s.blocks.length + 1) s l).reverse
    let r := path.foldlM (fun (acc : St × List Nat) b => do
        -- the CBlock's trie root is read at commit time (it cannot have changed: pruning does not touch tries)
        let (s1, rm) ← commitOne acc.1 b
        .ok (s1, acc.2 ++ rm)) (s, [])
    match r with
    | .ok x => .ok (some x)
    | .panic => .panic
    | .stuck => .stuck

/-- `IterateUnConfirms`: labels in `Walk` order from LastConfirm -/
def iterate (s : St) : List Nat :=
  (walk (s.blocks.length + 1) s.blocks (stableLabel s) none).map (·.label)

/-- `IsExistByHash` -/
def isExist (s : St) (l : Nat) : Bool :=
  (findBlk s l).isSome || s.committed.any (fun c => c.1 == l)

/-- `GetUnConfirmByHeight(height, leaf)`: `none` = ErrBlockNotExist, `panic` when there is no stable block -/
def unconfirmByHeight (s : St) (height leaf : Nat) : Res (Option Nat) :=
  match s.stable with
  | none => .panic
  | some (sl, sh) =>
    if height ≤ sh then .ok none
    else
      let rec go : Nat → Option Nat → Res (Option Nat)
        | 0, _ => .stuck
        | fuel + 1, cur =>
          match cur with
          | none => .ok none
          | some l =>
            match findBlk s l with
            | some b => if b.height > height then go fuel b.parent else .ok (some b.label)
            | none =>
              -- the parent link reached LastConfirm (its height ≤ sh < height): loop stops there
              if l = sl then .ok (some sl) else .ok none
      match findBlk s leaf with
      | none => .ok none
      | some _ => go (s.blocks.length + 2) (some leaf)

end LemoModel.UTree

/-
  C02 — executable model of block acceptance (core Lean only).

  `insertBlock` is the literal sequence of checks of
    DPoVP.InsertBlock → isIgnorableBlock → VerifyAndSeal
      → Validator.VerifyBeforeTxProcess (verifyParentHash, verifySigner, verifyTxRoot, verifyHeight,
        verifyTime, verifyExtraData, verifyTxs, verifyMiner)
      → (confirm filtering) → BlockAssembler.RunBlock → Validator.VerifyAfterTxProcess
    → saveNewBlock
  of chain/consensus/{dpovp,validator,schedule}.go.  The in-turn computation is NOT re-modelled: it is
  the generated `LemoGen.Schedule.GetCorrectMiner` composed by `LemoModel.Sched.correctMiner`
  (the objects of the C13 theorems); the expiry window is the generated `LemoGen.TxWindow`.

  Abstract (fields of `Ctx`): the store lookups, `hash` (Keccak of the RLP of the hashed tuple),
  `recover` (secp256k1 public-key recovery), `merkleRoot`, the tx guard's ancestor-path predicate
  (`none` = it panics) and `reexec` (TxProcessor.Process + Finalize on the parent's state); per tx the
  non-expiry part of `VerifyTxBody` (`bodyOk`, `bodyPanics`).
  A Go panic is the explicit verdict `.panic`; an error return of `saveNewBlock` AFTER its first writes is
  the explicit verdict `.saveFailed` (the abstract `save` returns the state it leaves behind and a flag).
-/
import LemoModel.Sched
import LemoGen.TxWindow
namespace LemoModel.Validator
open LemoModel LemoModel.Sched LemoGen.Schedule LemoGen.TxWindow

/-- `types.Header`. Hashes, addresses and byte strings are abstract identifiers. -/
structure Header where
  parentHash : Nat
  miner : Nat
  versionRoot : Nat
  txRoot : Nat
  logRoot : Nat
  height : Nat
  gasLimit : Nat
  gasUsed : Nat
  time : Nat
  signData : Nat
  deputyRoot : Nat
  extra : List Nat
  deriving DecidableEq, Repr, Inhabited

/-- the tuple `Header.Hash()` feeds to `rlpHash`: every field except `SignData`. -/
def Header.hashed (h : Header) : Header := { h with signData := 0 }

/-- names of the Go fields of `Header`, with "is an element of the hashed tuple" — compared with the
    AST of chain/types/block.go by `hx c02` (op `hashfield`). -/
def headerFields : List (String × Bool) :=
  [("ParentHash", true), ("MinerAddress", true), ("VersionRoot", true), ("TxRoot", true), ("LogRoot", true),
   ("Height", true), ("GasLimit", true), ("GasUsed", true), ("Time", true), ("SignData", false),
   ("DeputyRoot", true), ("Extra", true)]

/-- a transaction as far as `verifyTxs` looks at it: expiration, and "every other check of
    `VerifyTxBody` (chain id, amount sign, name / message length, data, receiver, box, asset) passes". -/
structure Tx where
  id : Nat
  exp : Nat
  bodyOk : Bool
  /-- hashes of the sub-transactions when the tx is a box -/
  subs : List Nat := []
  /-- expirations of the sub-transactions -/
  subExps : List Nat := []
  /-- the non-expiry part of `VerifyTxBody` PANICS on this tx (e.g. the nil sub-tx dereference in
      `checkBoxTx` before fix d73a53d); an explicit input so that `accept_total` has to name it -/
  bodyPanics : Bool := false
  deriving DecidableEq, Repr

/-- `types.Block`: header + body. The body parts outside the tx list are represented by what the
    validator computes from them. -/
structure Block where
  header : Header
  txs : List Tx
  /-- Merkle root of the body's `ChangeLogs`; `none` when the body carries none. -/
  logsRoot : Option Nat
  /-- Merkle root of the body's `DeputyNodes`. -/
  deputyNodesRoot : Nat
  confirms : List Nat
  deriving Repr

/-- a deputy of a term: its rank is its index in the list. -/
structure Deputy where
  nodeId : Nat
  miner : Nat
  deriving DecidableEq, Repr

/-- result of `RunBlock` up to `Seal`: `Process` + `Finalize` on the parent's state. -/
inductive ExecRes where
  | panic
  | err
  | ok (versionRoot logRoot txRoot gasUsed localDeputyRoot : Nat)
  deriving DecidableEq, Repr

inductive Reason where
  | parentUnknown | badSignature | signerNotDeputy | minerMismatch | txRoot | height | future | extra
  | txReplay | txBody | smallerTime | noMiner | notInTurn | execFailed | deputyRoot | changeLog | hashMismatch
  deriving DecidableEq, Repr

inductive Verdict where
  | ok
  | ignored
  | reject (r : Reason)
  | panic
  /-- the block passed every check but `saveNewBlock` returned an error (ErrSaveBlock / ErrSaveAccount) -/
  | saveFailed
  deriving DecidableEq, Repr

/-- what the validator can see of the node and of the outside world. -/
structure Ctx where
  /-- `db.IsExistByHash` -/
  stored : Nat → Bool
  /-- height of `StableBlock()` -/
  stableHeight : Nat
  /-- `blockLoader.GetBlockByHash` (header of the stored block) -/
  load : Nat → Option Header
  /-- `dm.GetDeputiesByHeight(h, true)`; `[]` when the term is not known -/
  deputies : Nat → List Deputy
  /-- `time.Now().Unix()` -/
  now : Int
  /-- `Config.MineTimeout`, ms -/
  mineTimeout : Int
  termDuration : Nat
  interimDuration : Nat
  hash : Header → Nat
  recover : Nat → Nat → Option Nat
  merkleRoot : List Tx → Nat
  /-- `txGuard.ExistTxs(parentHash, txs)`; `none` = it panics (`BlockCache.IsAppearedOnFork` panics when a
      traced block or the start block is missing from the guard's cache) -/
  onAncestor : Nat → List Tx → Option Bool
  reexec : Block → ExecRes
  /-- `false` = the code before fix 828f704, whose `verifyTxs` did not look for a hash occurring twice inside the block -/
  dupCheck : Bool := true

def u32 : Nat := 4294967296

/-- `params.MaxExtraDataLen` (compared with the Go constant by the op `const MaxExtraDataLen` of `hx c02`) -/
def maxExtraDataLen : Nat := 256

/-- `verifySigner` -/
def verifySigner (c : Ctx) (b : Block) : Option Reason :=
  match c.recover (c.hash b.header.hashed) b.header.signData with
  | none => some .badSignature
  | some nid =>
    match (c.deputies b.header.height).find? (fun d => d.nodeId == nid) with
    | none => some .signerNotDeputy
    | some d => if d.miner == b.header.miner then none else some .minerMismatch

/-- one transaction through the two expiry checks of `VerifyTxBody` and the rest of it -/
def txOk (blockTime : Nat) (tx : Tx) : Bool :=
  !(txExpiredCond (timeStamp := blockTime) (tx_Expiration := tx.exp)) &&
  !(txTooFarCond (timeStamp := blockTime) (tx_Expiration := tx.exp)) && tx.bodyOk &&
  -- `checkBoxTx`: every sub-transaction goes through the same two window checks against the BLOCK time
  tx.subExps.all (fun e => !(txExpiredCond (timeStamp := blockTime) (tx_Expiration := e)) &&
    !(txTooFarCond (timeStamp := blockTime) (tx_Expiration := e)))

/-- does a hash occur twice in the list -/
def hasDup : List Nat → Bool
  | [] => false
  | x :: xs => xs.contains x || hasDup xs

/-- all tx hashes and box sub-tx hashes of a block body, in the order `verifyTxs` visits them -/
def blockHashes (txs : List Tx) : List Nat := txs.flatMap (fun t => t.id :: t.subs)

/-- the two window checks of `VerifyTxBody` on the tx's own expiration (they come first in the Go function) -/
def windowBad (blockTime : Nat) (tx : Tx) : Bool :=
  txExpiredCond (timeStamp := blockTime) (tx_Expiration := tx.exp) ||
  txTooFarCond (timeStamp := blockTime) (tx_Expiration := tx.exp)

/-- the `VerifyTxBody` loop of `verifyTxs`: the first transaction that fails decides — by an error or by a panic -/
def txsLoop (blockTime : Nat) : List Tx → Verdict
  | [] => .ok
  | tx :: rest =>
    if windowBad blockTime tx then .reject .txBody
    else if tx.bodyPanics then .panic
    else if txOk blockTime tx then txsLoop blockTime rest
    else .reject .txBody

/-- `verifyTxs` (`.ok` = passed) -/
def verifyTxs (c : Ctx) (b : Block) : Verdict :=
  if c.dupCheck && hasDup (blockHashes b.txs) then .reject .txReplay
  else match c.onAncestor b.header.parentHash b.txs with
    | none => .panic
    | some true => .reject .txReplay
    | some false => txsLoop b.header.time b.txs

/-- rank of the parent's miner among the deputies of the target height -/
def rankOfMiner (ds : List Deputy) (miner : Nat) : Option Nat :=
  let i := ds.findIdx (fun d => d.miner == miner)
  if i < ds.length then some i else none

/-- control flow of `GetCorrectMiner` after the generated arithmetic `g`: the two extra panics of the Go
    code are explicit — integer division by a zero loop time, and `GetDeputyByDistance(0, …)`; `cm` is the
    deputy lookup. (Separate from `turn` so that proofs can treat the arithmetic as a variable.) -/
def turnCore (g : GoRes (Nat × Nat × Nat)) (loopTime : Int) (target : Nat) (cm : GoRes Nat) : GoRes Nat :=
  match g with
  | .panic => .panic
  | .err e => .err e
  | .ok _ =>
    if loopTime == 0 then .panic
    else if target == 0 then .panic
    else cm

/-- rank of the deputy in turn at second `time` on top of `parent`: `GetCorrectMiner` (generated) +
    `GetDeputyByDistance` (C13 hand model `correctMiner`). -/
def turn (c : Ctx) (time : Nat) (parent : Header) : GoRes Nat :=
  let target := GoSem.uadd u32 parent.height 1
  let ds := c.deputies target
  let n := ds.length
  let mt : Int := (time : Int) * 1000
  turnCore
    (GetCorrectMiner (mineTime := mt) (mineTimeout := c.mineTimeout) (parent_Time := parent.time)
      (nodeCount := (n : Int)) (parent_Height := parent.height) (parent_MinerAddress := 0))
    ((n : Int) * c.mineTimeout) target
    (correctMiner n (isSpecial target c.termDuration c.interimDuration) (rankOfMiner ds parent.miner)
          parent.time parent.height mt c.mineTimeout)

def verifyMinerCore (t : GoRes Nat) (ds : List Deputy) (miner : Nat) : Verdict :=
  match t with
  | .panic => .panic
  | .err e => .reject (if e == "ErrSmallerMineTime" then .smallerTime else .noMiner)
  | .ok r =>
    match ds[r]? with
    | none => .panic
    | some d => if d.miner == miner then .ok else .reject .notInTurn

/-- `verifyMiner`: the deputy in turn must be the header's miner. -/
def verifyMiner (c : Ctx) (h parent : Header) : Verdict :=
  verifyMinerCore (turn c h.time parent) (c.deputies (GoSem.uadd u32 parent.height 1)) h.miner

/-- `Validator.VerifyBeforeTxProcess` -/
def verifyBefore (c : Ctx) (b : Block) : Verdict :=
  let h := b.header
  match c.load h.parentHash with
  | none => .reject .parentUnknown
  | some parent =>
    match verifySigner c b with
    | some r => .reject r
    | none =>
      if c.merkleRoot b.txs != h.txRoot then .reject .txRoot
      else if GoSem.uadd u32 parent.height 1 != h.height then .reject .height
      else if (h.time : Int) - c.now > 1 then .reject .future
      else if h.extra.length > maxExtraDataLen then .reject .extra
      else match verifyTxs c b with
        | .ok => verifyMiner c h parent
        | v => v

/-- `BlockAssembler.Seal`: the header of the locally computed block. Everything the re-execution does
    not produce is COPIED from the received header (gas limit, time, extra, deputy root off snapshot heights). -/
def sealHeader (c : Ctx) (h : Header) (vr lr tr gu ldr : Nat) : Header :=
  { h with versionRoot := vr, logRoot := lr, txRoot := tr, gasUsed := gu,
           deputyRoot := if IsSnapshotBlock (height := h.height) (params_TermDuration := c.termDuration) then ldr else h.deputyRoot }

/-- first half of `verifyChangeLog`: a non-empty body log list must hash to the header's LogRoot -/
def bodyLogsBad (b : Block) : Bool :=
  match b.logsRoot with
  | some r => r != b.header.logRoot
  | none => false

/-- `RunBlock` + `Validator.VerifyAfterTxProcess` -/
def verifyAfter (c : Ctx) (b : Block) : Verdict :=
  let h := b.header
  match c.reexec b with
  | .panic => .panic
  | .err => .reject .execFailed
  | .ok vr lr tr gu ldr =>
    let snap := IsSnapshotBlock (height := h.height) (params_TermDuration := c.termDuration)
    if snap && b.deputyNodesRoot != h.deputyRoot then .reject .deputyRoot
    else if snap && ldr != h.deputyRoot then .reject .deputyRoot
    else if bodyLogsBad b then .reject .changeLog
    else if lr != h.logRoot then .reject .changeLog
    else if c.hash (sealHeader c h vr lr tr gu ldr).hashed != c.hash h.hashed then .reject .hashMismatch
    else .ok

/-- `DPoVP.VerifyAndSeal`: the acceptance decision. -/
def accept (c : Ctx) (b : Block) : Verdict :=
  match verifyBefore c b with
  | .ok => verifyAfter c b
  | v => v

/-- `isIgnorableBlock` -/
def ignorable (c : Ctx) (b : Block) : Bool :=
  c.stored (c.hash b.header.hashed) || decide (c.stableHeight ≥ b.header.height)

/-- the engine: `durable` is everything `saveNewBlock` may touch (store, stable pointer, head, tx guard,
    tx pool, term table, the Confirmer's last signature); `scratch` is the base block of the shared
    `account.Manager`, which `RunBlock` resets before the verdict is known. -/
structure Engine (σ : Type) where
  durable : σ
  scratch : Option Nat

/-- `DPoVP.InsertBlock` over an abstract `view` of the durable state and an abstract `save`.
    `save` models `TryConfirm` + `saveNewBlock`: it returns the state it leaves behind AND whether it
    returned nil. In Go a failing `saveNewBlock` (ErrSaveAccount after `SetBlock`; ErrSaveBlock after
    `SetBlock`, `am.Save`, `txGuard.SaveBlock`, `SetLastSig` when `UpdateStable` errors) has already written:
    the state of the `false` outcome is whatever was written so far, NOT the old state. -/
def insertBlock {σ : Type} (view : σ → Ctx) (save : σ → Block → σ × Bool) (e : Engine σ) (b : Block) : Engine σ × Verdict :=
  let c := view e.durable
  if ignorable c b then (e, .ignored)
  else match verifyBefore c b with
    | .ok =>
      match verifyAfter c b with
      | .ok =>
        let r := save e.durable b
        ({ durable := r.1, scratch := some (c.hash b.header.hashed) }, if r.2 then .ok else .saveFailed)
      | v => ({ e with scratch := some b.header.parentHash }, v)
    | v => (e, v)

/-- class of the error `VerifyBeforeTxProcess` returns (observable on the real validator). -/
def Reason.cls : Reason → String
  | .parentUnknown | .txRoot | .txReplay | .txBody => "B"
  | .badSignature | .signerNotDeputy | .minerMismatch | .height | .future | .extra
  | .smallerTime | .noMiner | .notInTurn => "H"
  | _ => "other"

def Verdict.show : Verdict → String
  | .ok => "ok" | .ignored => "ignored" | .reject _ => "reject" | .panic => "panic" | .saveFailed => "save-error"

def Verdict.pre : Verdict → String
  | .ok => "ok" | .ignored => "ignored" | .reject r => r.cls | .panic => "panic" | .saveFailed => "save-error"

end LemoModel.Validator

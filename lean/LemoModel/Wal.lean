/-
  C08 — byte-level model of the write-ahead file `tmp.data` (core Lean only).

  Mirrors, line by line,
    store/file_util.go   FileUtilsEncode / fileUtilsEncodeHead / fileUtilsMergeHB / FileUtilsRead
    store/file_queue.go  scanFile (the start-up replay loop)
    common/rlp/decode.go the part of the decoder that `rlp.DecodeBytes(bodyBuf, &RecordBody{Key,Val []byte})`
                         executes (Stream.Kind/readKind/readUint/List/Bytes/ListEnd, DecodeBytes' trailing check)
  both for the current reader (io.ReadFull + CRC check) and for the reader before the fix, including
  its defects: the CRC in the head was written but never looked at, a short `file.Read` at the end of
  the file left zero bytes in the buffer, and a non-EOF decode error aborts the scan
  (=> `FileQueue.Start` panics).

  `FileUtilsAlign` is NOT hand-written: it is `LemoGen.Store.FileUtilsAlign`, regenerated from the Go
  source by tools/go2lean on every run.
-/
import LemoGen.Store
namespace LemoModel.Wal
open LemoModel LemoGen.Store

abbrev Bytes := List UInt8

/-- one key/value record as delivered to the async bitcask writer -/
structure Record where
  flg : Nat          -- uint32 `RecordHead.Flg`
  key : Bytes
  val : Bytes
  deriving DecidableEq, Repr

def zeros (n : Nat) : Bytes := List.replicate n 0

/-! ### integers on the wire -/

/-- `binary.Write(.., binary.LittleEndian, ..)` of an unsigned field of `k` bytes -/
def leBytes : Nat → Nat → Bytes
  | 0, _ => []
  | k + 1, n => UInt8.ofNat (n % 256) :: leBytes k (n / 256)

/-- `binary.Read(.., binary.LittleEndian, ..)` -/
def leVal : Bytes → Nat
  | [] => 0
  | b :: bs => b.toNat + 256 * leVal bs

/-- rlp `intsize`: number of bytes of the minimal big-endian form (uint64) -/
def intsize (n : Nat) : Nat :=
  if n < 256 then 1 else if n < 65536 then 2 else if n < 16777216 then 3 else if n < 4294967296 then 4
  else if n < 1099511627776 then 5 else if n < 281474976710656 then 6 else if n < 72057594037927936 then 7 else 8

/-- rlp `putint`: big-endian, fixed width `k` -/
def beFixed : Nat → Nat → Bytes
  | 0, _ => []
  | k + 1, n => UInt8.ofNat (n / 256 ^ k % 256) :: beFixed k n

/-- `binary.BigEndian.Uint64` of the (left zero padded) length bytes -/
def beVal (bs : Bytes) : Nat := bs.foldl (fun a b => a * 256 + b.toNat) 0

/-! ### encoder: `FileUtilsEncode` -/

/-- rlp encoding of a `[]byte` (encode.go `writeBytes`/`encodeStringHeader`) -/
def rlpStr (b : Bytes) : Bytes :=
  if b.length = 1 ∧ (b.headD 0).toNat < 128 then b          -- `len(b) == 1 && b[0] <= 0x7F`
  else if b.length < 56 then UInt8.ofNat (128 + b.length) :: b
  else UInt8.ofNat (183 + intsize b.length) :: (beFixed (intsize b.length) b.length ++ b)

/-- rlp list header for a payload of `n` bytes -/
def rlpListHdr (n : Nat) : Bytes :=
  if n < 56 then [UInt8.ofNat (192 + n)]
  else UInt8.ofNat (247 + intsize n) :: beFixed (intsize n) n

/-- `fileUtilsEncodeBody`: rlp of `RecordBody{Key, Val}` -/
def encodeBody (key val : Bytes) : Bytes :=
  let p := rlpStr key ++ rlpStr val
  rlpListHdr p.length ++ p

/-- `fileUtilsEncodeHead`: 18 bytes {Flg u32, Len u32, TimeStamp u64, Crc u16}, little endian.
    `ts` and `crc` are parameters: the reader never looks at them. -/
def encodeHead (flg bodyLen ts crc : Nat) : Bytes :=
  leBytes 4 flg ++ leBytes 4 bodyLen ++ leBytes 8 ts ++ leBytes 2 crc

/-- `fileUtilsMergeHB`: `make([]byte, FileUtilsAlign(uint32(len h)+uint32(len b)))`, two `copy`s -/
def mergeHB (h b : Bytes) : Bytes :=
  let tLen := FileUtilsAlign (GoSem.uadd 4294967296 (h.length % 4294967296) (b.length % 4294967296))
  ((h ++ b) ++ zeros tLen).take tLen

/-- `FileUtilsEncode(flag, key, val)` -/
def encodeRecord (ts crc : Nat) (r : Record) : Bytes :=
  let body := encodeBody r.key r.val
  mergeHB (encodeHead r.flg (body.length % 4294967296) ts crc) body

/-- a record together with the time stamp and checksum its head carries -/
structure Stamped where
  ts : Nat
  crc : Nat
  r : Record
  deriving DecidableEq, Repr

/-- the bytes `PutBatch` appends for a list of records (`mergeBatchItems`) -/
def encodeAll : List Stamped → Bytes
  | [] => []
  | s :: rs => encodeRecord s.ts s.crc s.r ++ encodeAll rs

/-! ### the rlp decoder as far as `RecordBody` exercises it -/

inductive Kind where
  | byte | str | list
  deriving DecidableEq, Repr

/-- `Stream.readUint(n)` for a size field; `short` is the error of `willRead` in the current context
    (`ErrValueTooLarge` at top level, `ErrElemTooLarge` inside a list) -/
def readUint (n : Nat) (inp : Bytes) (short : String) : Except String (Nat × Bytes) :=
  if n = 1 then
    match inp with
    | [] => .error short
    | b :: rest => .ok (b.toNat, rest)
  else if inp.length < n then .error short
  else if (inp.headD 0).toNat = 0 then .error "CanonSize"
  else .ok (beVal (inp.take n), inp.drop n)

/-- `Stream.readKind` on a non-empty input: (kind, size, byteval, rest) -/
def readKind (inp : Bytes) (short : String) : Except String (Kind × Nat × UInt8 × Bytes) :=
  match inp with
  | [] => .error short
  | b :: rest =>
    if b.toNat < 128 then .ok (.byte, 0, b, rest)
    else if b.toNat < 184 then .ok (.str, b.toNat - 128, 0, rest)
    else if b.toNat < 192 then
      match readUint (b.toNat - 183) rest short with
      | .error e => .error e
      | .ok (size, rest') => if size < 56 then .error "CanonSize" else .ok (.str, size, 0, rest')
    else if b.toNat < 248 then .ok (.list, b.toNat - 192, 0, rest)
    else
      match readUint (b.toNat - 247) rest short with
      | .error e => .error e
      | .ok (size, rest') => if size < 56 then .error "CanonSize" else .ok (.list, size, 0, rest')

/-- `decodeByteSlice` = `Stream.Bytes()` inside the list whose remaining payload is `p` -/
def decodeElem (p : Bytes) : Except String (Bytes × Bytes) :=
  if p = [] then .error "TooFew"                   -- Kind() = EOL -> "too few elements"
  else
    match readKind p "ElemTooLarge" with
    | .error e => .error e
    | .ok (kind, size, bv, rest) =>
      if rest.length < size then .error "ElemTooLarge"
      else
        match kind with
        | .byte => .ok ([bv], rest)
        | .list => .error "ExpectedString"
        | .str =>
          if size = 1 ∧ (rest.headD 0).toNat < 128 then .error "CanonSize"   -- `size == 1 && b[0] < 128`
          else .ok (rest.take size, rest.drop size)

inductive Dec where
  | eof                       -- rlp returns io.EOF (empty input)
  | err (e : String)
  | ok (key val : Bytes)
  deriving DecidableEq, Repr

/-- `rlp.DecodeBytes(b, &RecordBody{})` -/
def decodeBody (b : Bytes) : Dec :=
  if b = [] then .eof
  else
    match readKind b "ValueTooLarge" with
    | .error e => .err e
    | .ok (kind, size, _, rest) =>
      if rest.length < size then .err "ValueTooLarge"
      else if kind ≠ .list then .err "ExpectedList"
      else
        match decodeElem (rest.take size) with
        | .error e => .err e
        | .ok (k, p1) =>
          match decodeElem p1 with
          | .error e => .err e
          | .ok (v, p2) =>
            if p2 ≠ [] then .err "TooMany"
            else if size < rest.length then .err "MoreThanOne"
            else .ok k v

/-! ### reader: `FileUtilsRead` and `scanFile`

  Two variants of `FileUtilsRead` are modelled:
  * `scanStep` / `scan` — the code as it is NOW (after /repo commit "fix: FileUtilsRead stops at a torn
    or corrupt record …"): head and body are read with `io.ReadFull`, a short read is the end of the
    log, and `CheckSum(body)` must equal `head.Crc`, otherwise the record is the end of the log too;
  * `scanStepLegacy` / `scanLegacy` — the code BEFORE that commit: plain `file.Read` (a short read at
    the end of the file leaves the zero bytes of `make` in the buffer) and the CRC is never compared.
    The refutation theorems are about this variant. -/

/-- one bit of CRC-16/MODBUS (reflected polynomial 0xA001) -/
def crcBit (s : Nat) : Nat := if s % 2 = 1 then (s / 2) ^^^ 40961 else s / 2

/-- `n := uint8(uint16(v) ^ crc16); crc16 >>= 8; crc16 ^= MbTable[n]` — one byte, bit by bit -/
def crcByte (s : Nat) (b : UInt8) : Nat :=
  crcBit (crcBit (crcBit (crcBit (crcBit (crcBit (crcBit (crcBit (s ^^^ b.toNat))))))))

/-- `CheckSum` (store/utils.go): initial value 0xFFFF, no final xor -/
def crc16 (b : Bytes) : Nat := b.foldl crcByte 65535

/-- `FileUtilsEncode(flag,key,val)` as the code computes it: the CRC field is `CheckSum(body)` -/
def fileUtilsEncode (ts : Nat) (r : Record) : Bytes :=
  encodeRecord ts (crc16 (encodeBody r.key r.val)) r

/-- Go `file.Read(buf)` with `len buf = n` at position `off` of a regular file (LEGACY reader):
    `none` = (0, io.EOF); otherwise the buffer, whose unread tail keeps the zero bytes of `make`.
    A zero-length read returns (0, nil). -/
def readAt (file : Bytes) (off n : Nat) : Option Bytes :=
  if n = 0 then some []
  else
    let av := (file.drop off).take n
    if av = [] then none else some (av ++ zeros (n - av.length))

/-- `io.ReadFull(file, buf)` with the mapping `io.ErrUnexpectedEOF -> io.EOF` of the repaired reader:
    `none` = fewer than `n` bytes left (end of the log). A zero-length read returns (0, nil). -/
def readFull (file : Bytes) (off n : Nat) : Option Bytes :=
  if n = 0 then some []
  else if (file.drop off).length < n then none
  else some ((file.drop off).take n)

inductive Step where
  | eof
  | err (e : String)
  | deliver (r : Record) (advance : Nat)
  deriving DecidableEq, Repr

/-- one iteration of the loop of `scanFile` with the CURRENT `FileUtilsRead` -/
def scanStep (file : Bytes) (off : Nat) : Step :=
  match readFull file off 18 with
  | none => .eof
  | some hb =>
    let flg := leVal (hb.take 4)
    let len := leVal ((hb.drop 4).take 4)
    let crc := leVal (hb.drop 16)        -- (bytes 8..15: time stamp, never used)
    match readFull file (off + 18) len with
    | none => .eof
    | some bb =>
      if crc16 bb % 65536 ≠ crc then .eof      -- `CheckSum(bodyBuf) != head.Crc`
      else
        match decodeBody bb with
        | .eof => .eof
        | .err e => .err e
        | .ok k v => .deliver ⟨flg, k, v⟩ (FileUtilsAlign (GoSem.uadd 4294967296 18 len))

/-- one iteration of the loop of `scanFile` with the `FileUtilsRead` BEFORE the fix -/
def scanStepLegacy (file : Bytes) (off : Nat) : Step :=
  match readAt file off 18 with
  | none => .eof
  | some hb =>
    let flg := leVal (hb.take 4)
    let len := leVal ((hb.drop 4).take 4)
    -- (hb.drop 8: timestamp and crc — never used)
    match readAt file (off + 18) len with
    | none => .eof
    | some bb =>
      match decodeBody bb with
      | .eof => .eof
      | .err e => .err e
      | .ok k v => .deliver ⟨flg, k, v⟩ (FileUtilsAlign (GoSem.uadd 4294967296 18 len))

inductive Stop where
  | eof                 -- scanFile returns (Offset, ErrEOF): checkFile accepts
  | err (e : String)    -- scanFile returns (-1, err): FileQueue.Start panics
  | hang                -- aligned length wraps to 0: the Go loop never terminates
  | fuel                -- model artefact, proved unreachable (`scan_no_fuel`)
  deriving DecidableEq, Repr

structure ScanOut where
  stop : Stop
  off : Nat              -- queue.Offset when the loop stops
  recs : List Record     -- records delivered, in order
  deriving DecidableEq, Repr

/-- the loop of `scanFile`, for either reader -/
def scanLoop (step : Bytes → Nat → Step) : Nat → Bytes → Nat → List Record → ScanOut
  | 0, file, off, acc => if file.length ≤ off then ⟨.eof, off, acc⟩ else ⟨.fuel, off, acc⟩
  | fuel + 1, file, off, acc =>
    match step file off with
    | .eof => ⟨.eof, off, acc⟩
    | .err e => ⟨.err e, off, acc⟩
    | .deliver r adv =>
      if adv = 0 then ⟨.hang, off, acc ++ [r]⟩
      else scanLoop step fuel file (off + adv) (acc ++ [r])

/-- `scanFile(path, 0)` — current code -/
def scan (file : Bytes) : ScanOut := scanLoop scanStep (file.length + 1) file 0 []

/-- `scanFile(path, 0)` — code before the fix -/
def scanLegacy (file : Bytes) : ScanOut := scanLoop scanStepLegacy (file.length + 1) file 0 []

/-! ### start-up on the file (`FileQueue.checkFile`) and the write position

  `checkFile` scans tmp.data and sets `Offset` to where the scan stopped. Since /repo commit "fix:
  FileQueue.checkFile truncates tmp.data at the end of the last complete record" it also truncates the file
  to that offset (`os.Truncate`: cuts a torn tail off, or extends a cut padding with zeros).
  `Put`/`PutBatch` then write at `Offset` WITHOUT truncating (`FileUtilsFlush`: Seek + Write). -/

/-- `os.Truncate(path, n)` -/
def truncateTo (file : Bytes) (n : Nat) : Bytes := file.take n ++ zeros (n - file.length)

/-- `FileUtilsFlush(path, off, b)`: seek to `off`, write `b`, keep whatever lies behind -/
def writeAt (file : Bytes) (off : Nat) (b : Bytes) : Bytes :=
  truncateTo file off ++ b ++ file.drop (off + b.length)

/-- `checkFile` of the current code: (file after start-up, Offset, redelivered records); `none` = scan error -/
def checkFile (file : Bytes) : Option (Bytes × Nat × List Record) :=
  if (scan file).stop = .eof then some (truncateTo file (scan file).off, (scan file).off, (scan file).recs)
  else none

/-- `checkFile` BEFORE that fix: the file is left as it is -/
def checkFileLegacy (file : Bytes) : Option (Bytes × Nat × List Record) :=
  if (scan file).stop = .eof then some (file, (scan file).off, (scan file).recs) else none

/-- `emptyFile` at byte level (first thing in Put/PutBatch): when nothing is pending (`idle`) tmp.data is deleted
    and re-created and the write position goes back to 0; otherwise nothing changes -/
def emptyFileBytes (idle : Bool) (file : Bytes) (off : Nat) : Bytes × Nat :=
  if idle then ([], 0) else (file, off)

/-- VARIANT (seed-C08c, not the code under test): the write position is rewound but the file is kept -/
def emptyFileRewindOnly (idle : Bool) (file : Bytes) (off : Nat) : Bytes × Nat :=
  if idle then (file, 0) else (file, off)

/-- one `Put`/`PutBatch` of the bytes `b` at byte level: emptyFile, then write at the write position -/
def putBytes (ef : Bool → Bytes → Nat → Bytes × Nat) (idle : Bool) (file : Bytes) (off : Nat) (b : Bytes) : Bytes × Nat :=
  (writeAt (ef idle file off).1 (ef idle file off).2 b, (ef idle file off).2 + b.length)

/-! ### abstract store behind the queue (bitcask + position index), last writer wins -/

abbrev StoreKey := Nat × Bytes
abbrev Store := StoreKey → Option Bytes

def Store.empty : Store := fun _ => none

/-- `SyncFileDB.put`: write the record, point the index entry (flag,key) at it -/
def Store.apply (s : Store) (r : Record) : Store :=
  fun k => if k = (r.flg, r.key) then some r.val else s k

/-- deliver a list of records in order -/
def Store.replay (s : Store) (rs : List Record) : Store := rs.foldl Store.apply s

/-! ### commit protocol of one promotion (`blockCommit`) and start-up recovery, record granularity

  blockCommit(h):  batch := [block, height index, accounts…]
    1. `PutBatch`: `emptyFile` (tmp.data removed + recreated when nothing is pending), append the
       encoded batch at `Offset`, fsync                          — store/file_queue.go:291
    2. each item is handed to the async writer (`SyncFileDB.start`): bitcask file, LevelDB position,
       per-bitcask cursor, `After` hook                          — store/sync_file_db.go:70
    3. `SetCurrentBlock(h)`                                      — store/chain_database.go:280
    4. `Context.Flush()` (candidates; harness only)
  Start-up: `FileQueue.Start` rescans tmp.data from 0 and redelivers every record; the stable
  pointer is read as it is (`ChainDatabase.AfterScan`, which would move it, is never called).
  A torn *record* is the byte level's business (`scan_torn_*`); here a crash leaves whole records. -/

structure Disk where
  wal : List Record      -- complete records in tmp.data
  kv : Store             -- bitcask files + position index
  stable : Nat           -- LEMO-CURRENT-BLOCK, as a height
  cands : Nat            -- context.data: the height whose candidate list the file holds

structure Promotion where
  height : Nat
  batch : List Record
  changesCands : Bool    -- the block changes a candidate: blockCommit ends with Context.Flush

/-- the durable steps of one promotion, in the order the crash points below assume (`appending` … `committed _
    false _`: only the batch; `committed _ true false`: batch and pointer; `committed _ true true`: all three).
    Compared on every run with the order OBSERVED on the real code (op `steps`, inotify on the data directory). -/
def commitSteps : List String := ["wal", "pointer", "context"]

/-- where the process dies during `blockCommit` of a promotion -/
inductive CrashPoint where
  | before                          -- before PutBatch touches anything
  | walReset                        -- inside emptyFile: tmp.data emptied, nothing appended yet
                                    --   (only when nothing is pending: `queue_wal_removed_only_when_idle`)
  | appending (j : Nat)             -- during the append: the first `j` records of the batch are in the file
  | committed (a : Nat) (moved flushed : Bool)
      -- fsync returned (whole batch in tmp.data); the async writer has stored `a` more records of tmp.data;
      -- `moved`: SetCurrentBlock executed; `flushed`: Context.Flush completed (the rename happened)
  deriving Repr

/-- durable state left behind by a crash at `cp` while promoting `p` on top of the disk `d`. `d` need not be
    quiescent (the writer may lag; the second block of a multi-block SetStableBlock): the batch is appended
    behind whatever tmp.data holds. -/
def crashState (d : Disk) (p : Promotion) : CrashPoint → Disk
  | .before => d
  | .walReset => { d with wal := [] }
  | .appending j => { d with wal := d.wal ++ p.batch.take j }
  | .committed a moved flushed =>
    { wal := d.wal ++ p.batch, kv := d.kv.replay ((d.wal ++ p.batch).take a),
      stable := if moved then p.height else d.stable,
      cands := if flushed && p.changesCands then p.height else d.cands }

/-- the start-up sequence: redeliver the whole write-ahead file; pointer and context.data are read as stored -/
def recover (d : Disk) : Disk := { d with kv := d.kv.replay d.wal }

/-- the state of a node that never stopped, after the promotion completed -/
def completed (d : Disk) (p : Promotion) : Disk :=
  { wal := d.wal ++ p.batch, kv := d.kv.replay (d.wal ++ p.batch), stable := p.height,
    cands := if p.changesCands then p.height else d.cands }

/-- start-up on the bytes of tmp.data: `none` = the scan fails (`FileQueue.Start` panics) or never ends;
    otherwise every record the scan returns is redelivered to the store -/
def recoverWith (sc : Bytes → ScanOut) (kv : Store) (walBytes : Bytes) : Option Store :=
  match (sc walBytes).stop with
  | .eof => some (kv.replay (sc walBytes).recs)
  | _ => none

/-- current code -/
def recoverBytes (kv : Store) (walBytes : Bytes) : Option Store := recoverWith scan kv walBytes
/-- code before the fix -/
def recoverBytesLegacy (kv : Store) (walBytes : Bytes) : Option Store := recoverWith scanLegacy kv walBytes

/-- what the property's observables can see: key/value contents, stable pointer, candidate list -/
def Disk.sameView (a b : Disk) : Prop := a.kv = b.kv ∧ a.stable = b.stable ∧ a.cands = b.cands

/-! ### context.data (candidate list): how the file is replaced

  `RunContext.Flush` (store/beansdb.go) persists the candidate list. Two protocols are modelled, at the
  granularity "which bytes does a file name show":
  * `ctxCrash` — the code as it is NOW (/repo commit "fix: RunContext replaces context.data atomically"):
    open `context.data.tmp` with O_CREATE|O_TRUNC, write head and body, fsync, close, `rename` it over
    `context.data`; `Load` reads `context.data` only and calls Flush directly when the file is absent;
  * `ctxCrashLegacy` — the code BEFORE that commit: `context.data` is opened and overwritten from
    offset 0 (so a crash leaves a prefix of the new bytes over the old ones), and on the first start an
    empty file is created before the first flush. -/

/-- the two file names of the data directory that matter; `none` = the name does not exist -/
structure CtxFs where
  main : Option Bytes      -- context.data
  tmp : Option Bytes       -- context.data.tmp
  deriving DecidableEq, Repr

/-- where the process dies inside a flush of the new protocol -/
inductive CtxCrashPoint where
  | before                 -- nothing touched yet
  | tmpWritten (k : Nat)   -- temp file opened (truncated) and the first `k` bytes of the new content written
  | renamed                -- rename executed (the temp name is gone)
  deriving Repr

/-- durable state after a crash of `Flush new` at the given point (new protocol) -/
def ctxCrash (fs : CtxFs) (new : Bytes) : CtxCrashPoint → CtxFs
  | .before => fs
  | .tmpWritten k => { fs with tmp := some (new.take k) }
  | .renamed => { main := some new, tmp := none }

/-- what the next start reads: `RunContext.load` opens `context.data` only (absent = empty list, which the
    start then flushes); the temp file is never opened for reading -/
def ctxLoad (fs : CtxFs) : Option Bytes := fs.main

/-- where the process dies inside a flush of the LEGACY protocol (rewrite in place) -/
inductive CtxCrashPointLegacy where
  | created                -- first start only: createFile done, Flush not started: empty file visible
  | overwritten (k : Nat)  -- the first `k` bytes of the new content overwrite the old file from offset 0
  deriving Repr

/-- bytes of a file of content `old` after its first `k` bytes were overwritten by `new` -/
def overwrite (old new : Bytes) (k : Nat) : Bytes := new.take k ++ old.drop (min k new.length)

def ctxCrashLegacy (fs : CtxFs) (new : Bytes) : CtxCrashPointLegacy → CtxFs
  | .created => { fs with main := some [] }
  | .overwritten k => { fs with main := some (overwrite (fs.main.getD []) new k) }

/-! ### the pending index of the write-ahead queue (`FileQueue.Index`, store/file_queue.go)

  `Index` maps a key (key bytes only — not the flag) to the newest queued item and a reference count
  `refCnt`. `setIndex` (on every Put / batch item) increments it, `delIndex` (on every Done of the async
  writer) decrements it and deletes the entry at `refCnt <= 1`; `emptyFile` (first thing in Put and
  PutBatch) deletes and recreates tmp.data when `len(Index) == 0`. -/

structure IdxEntry where
  key : Bytes
  flg : Nat
  cnt : Nat
  deriving DecidableEq, Repr

abbrev Index := List IdxEntry

def idxFind (idx : Index) (k : Bytes) : Option IdxEntry := idx.find? (fun e => e.key == k)
def idxErase (idx : Index) (k : Bytes) : Index := idx.filter (fun e => !(e.key == k))
def idxPut (idx : Index) (e : IdxEntry) : Index := e :: idxErase idx e.key
/-- reference count of a key (0 = no entry) -/
def idxCnt (idx : Index) (k : Bytes) : Nat := match idxFind idx k with | some e => e.cnt | none => 0

/-- `setIndex`. `seeded = true` is the variant of /scratch/pending/seed-C08 (an existing entry is updated in
    place and the increment is lost); the code under test is `seeded = false`. -/
def setIndex (seeded : Bool) (idx : Index) (r : Record) : Index :=
  match idxFind idx r.key with
  | none => idxPut idx ⟨r.key, r.flg, 1⟩
  | some e => idxPut idx ⟨r.key, r.flg, if seeded then e.cnt else e.cnt + 1⟩

/-- `delIndex(flag, key)`: `none` = the Go code panics ("del index.val.flag != flag") -/
def delIndex (idx : Index) (flg : Nat) (k : Bytes) : Option Index :=
  match idxFind idx k with
  | none => some idx                        -- "del index.done is not exist": logged only
  | some e =>
    if e.flg ≠ flg then none
    else if e.cnt ≤ 1 then some (idxErase idx k)
    else some (idxPut idx ⟨k, e.flg, e.cnt - 1⟩)

/-- queue state at record granularity -/
structure QState where
  index : Index
  pending : List Record     -- handed to the writer (WriteChan / in flight), oldest first
  wal : List Record         -- records in tmp.data
  done : List Record        -- records the writer has persisted, in order: the bitcask holds `replay ∅ done`
  deriving DecidableEq, Repr

def QState.init : QState := ⟨[], [], [], []⟩

inductive QOp where
  | put (r : Record)            -- FileQueue.Put
  | batch (rs : List Record)    -- FileQueue.PutBatch
  | done                        -- the writer persists the oldest pending record, Done -> afterPut -> delIndex
  deriving DecidableEq, Repr

/-- `emptyFile` -/
def qEmptyFile (s : QState) : QState := if s.index = [] then { s with wal := [] } else s

def qDeliver (seeded : Bool) (s : QState) (r : Record) : QState :=
  { s with index := setIndex seeded s.index r, pending := s.pending ++ [r] }

/-- one operation; the Bool is `true` when `delIndex` panicked (the process dies; the record had been
    persisted already, the index is unchanged) -/
def qStep (seeded : Bool) (s : QState) : QOp → QState × Bool
  | .put r =>
    let s1 := qEmptyFile s
    (qDeliver seeded { s1 with wal := s1.wal ++ [r] } r, false)
  | .batch rs =>
    if rs = [] then (s, false)              -- BeansDB.Commit skips empty batches
    else
      let s1 := qEmptyFile s
      (rs.foldl (qDeliver seeded) { s1 with wal := s1.wal ++ rs }, false)
  | .done =>
    match s.pending with
    | [] => (s, false)
    | r :: rest =>
      match delIndex s.index r.flg r.key with
      | some idx => ({ s with index := idx, pending := rest, done := s.done ++ [r] }, false)
      | none => ({ s with pending := rest, done := s.done ++ [r] }, true)

def qRun (seeded : Bool) (s : QState) : List QOp → QState × Bool
  | [] => (s, false)
  | op :: ops =>
    match qStep seeded s op with
    | (s', true) => (s', true)
    | (s', false) => qRun seeded s' ops

/-- the store a restart after a crash in state `s` ends up with: bitcask content + redelivered tmp.data -/
def QState.recovered (s : QState) : Store := (Store.empty.replay s.done).replay s.wal

/-- the store every acknowledged Put / PutBatch promises: all records, in order -/
def QState.promised (s : QState) : Store := Store.empty.replay (s.done ++ s.pending)

/-! ### start-up: WHICH records of tmp.data are handed to the writer again (`checkFile` -> `scanFile` -> `deliver`)

  `scanFile` walks tmp.data from offset 0 and calls `deliver` (setIndex + hand-over to the writer's channel) for EVERY
  record it reads — it does not look at the LevelDB position index. That matters for OVERWRITTEN keys (an account
  record, key = address, is rewritten by every stable block that changes the account; a block record is rewritten by
  SetConfirms): the index then holds a position for the key, but it is the position of the OLD value.
  `redeliver` is that loop at record level, with a Boolean for the variant that skips indexed keys. -/

/-- the records of tmp.data that start-up hands to the writer, in file order.
    `skipIndexed = false`: the code under test — every record, whatever `stored` says.
    `skipIndexed = true`: VARIANT seed-C08h (not the code under test; `isStored(flag, key)` in scanFile): a record is
    skipped when its (flag, key) already has a position in the LevelDB index (`stored`). -/
def redeliver (skipIndexed : Bool) (stored : StoreKey → Bool) (wal : List Record) : List Record :=
  wal.filter (fun r => !(skipIndexed && stored (r.flg, r.key)))

/-- the LevelDB position index as a start-up finds it: (flag, key) has a position iff the writer has persisted a
    record of that key (`done` is the history of completed bitcask puts) -/
def QState.indexed (s : QState) (k : StoreKey) : Bool := s.done.any (fun r => (r.flg, r.key) == k)

/-- `FileQueue.Start` after the process died in state `s`: the volatile state (pending index, writer's channel) is
    rebuilt by delivering `redeliver … tmp.data`; tmp.data and the bitcask content stay as they are -/
def qRestart (skipIndexed : Bool) (s : QState) : QState :=
  (redeliver skipIndexed s.indexed s.wal).foldl (qDeliver false)
    { index := [], pending := [], wal := s.wal, done := s.done }

/-- the store after that restart once the writer has drained: bitcask content + the redelivered records, in order -/
def QState.recoveredBy (skipIndexed : Bool) (s : QState) : Store :=
  (Store.empty.replay s.done).replay (qRestart skipIndexed s).pending

/-- start-up recovery at protocol level with the same switch (`recover` = `recoverBy false`) -/
def recoverBy (skipIndexed : Bool) (stored : StoreKey → Bool) (d : Disk) : Disk :=
  { d with kv := d.kv.replay (redeliver skipIndexed stored d.wal) }

end LemoModel.Wal

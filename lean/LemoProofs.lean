import LemoModel

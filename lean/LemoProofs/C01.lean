/-
  C01 — Deterministic state transition: every mined block re-executes identically.

  Model: `LemoModel.Ledger` (`mine` = TxProcessor.ApplyTxs with per-tx snapshot/discard,
  `validate` = TxProcessor.Process, `votesByBalance` = ChangeVotesByBalance).  The step
  "a discarded candidate leaves the state exactly as it was" is the C07 theorem
  `LemoProofs.C07.discard_leaves_no_trace`; in the ledger model it is the definition of the
  failing branch of `mine`.  Tied to the code by `hx c01` (two independent real nodes: node A runs
  the miner path, node B — different history, restarted — the validator path; block hash and every
  touched account compared) and `hx c05` (the ledger model reproduces every balance / vote).

  * `mine_eq_validate`        — for ALL states and candidate lists: re-executing exactly the txs the
                                miner selected (with the gas the miner recorded) from the same parent
                                state succeeds and yields the same state, gas and fee total.
  * `discards_irrelevant`     — the result does not depend on which other candidates the miner tried
                                and discarded: mining the selected txs alone gives the same block.
  * `votesByBalance_swap/perm`— the end-of-block vote pass is independent of Go's map iteration order.
  * `validate_deterministic`  — stated for completeness: `validate` is a function of (state, txs).
  * `mineBlock_eq_validateBlock` — whole blocks, REWARD BLOCKS included: miner path (ApplyTxs, chargeForGas, Finalize)
                                and validator path (Process, chargeForGas, the same Finalize = term reward, deposit
                                refunds, vote pass) end in the same state with the same gas.
  * `finalize_perm`, `refund_order_irrelevant` — Finalize does not depend on the two Go map iteration orders it
                                walks: the vote pass over the changed accounts, and the refund list
                                (LoadRefundCandidates ranges over the candidate cache's map).
-/
import LemoModel.Ledger
import LemoProofs.Lemmas.LedgerReward
import LemoProofs.Lemmas.LedgerNonNeg
namespace LemoProofs.C01
open LemoModel.Ledger

/-! ### the gas pool only matters through "is there enough left": more pool, same result -/

theorem applySimple_mono (c : Ctx) (s s' : St) (gp gp' g : Nat) (t : Tx)
    (h : applySimple c s gp t = .ok (s', gp', g)) (k : Nat) :
    applySimple c s (gp + k) t = .ok (s', gp' + k, g) := by
  unfold applySimple at h ⊢
  simp only at h ⊢
  split at h; · cases h
  split at h; · cases h
  split at h; · cases h
  rename_i hv hb hg
  split at h; · cases h
  rename_i ig hig
  split at h; · cases h
  rename_i hgl
  split at h; · cases h
  rename_i sb hbody
  injection h with h
  injection h with h1 h2
  injection h2 with h2 h3
  subst h1 h2 h3
  have hg' : ¬ gp + k < t.gasLimit := by omega
  have hgg : ¬ gp < t.gasLimit := hg
  have e1 : gp + k - t.gasLimit + (t.gasLimit - ig) = gp - t.gasLimit + (t.gasLimit - ig) + k := by omega
  simp only [hv, hb, hg', if_false, hig, hgl, hbody, e1]

theorem applySimple_ok_le (c : Ctx) (s s' : St) (gp gp' g : Nat) (t : Tx)
    (h : applySimple c s gp t = .ok (s', gp', g)) : gp' ≤ gp := by
  unfold applySimple at h
  simp only at h
  split at h; · cases h
  split at h; · cases h
  split at h; · cases h
  split at h; · cases h
  split at h; · cases h
  split at h; · cases h
  injection h with h
  injection h with h1 h2
  injection h2 with h2 h3
  subst h2
  omega

theorem applySimple_err_le (c : Ctx) (s : St) (gp gp' : Nat) (e : Err) (t : Tx)
    (h : applySimple c s gp t = .error (e, gp')) : gp' ≤ gp := by
  unfold applySimple at h
  simp only at h
  split at h
  · injection h with h; injection h with _ h2; omega
  split at h
  · injection h with h; injection h with _ h2; omega
  split at h
  · injection h with h; injection h with _ h2; omega
  split at h
  · injection h with h; injection h with _ h2; omega
  split at h
  · injection h with h; injection h with _ h2; omega
  split at h
  · injection h with h; injection h with _ h2; omega
  · cases h

theorem applySubs_mono (c : Ctx) : ∀ (ts : List Tx) (s s' : St) (gp gp' g : Nat) (f : Int),
    applySubs c s gp ts = .ok (s', gp', g, f) → ∀ k, applySubs c s (gp + k) ts = .ok (s', gp' + k, g, f) := by
  intro ts
  induction ts with
  | nil =>
    intro s s' gp gp' g f h k
    simp only [applySubs] at h ⊢
    injection h with h; injection h with h1 h2; injection h2 with h2 h3; injection h3 with h3 h4
    subst h1 h2 h3 h4; rfl
  | cons t ts ih =>
    intro s s' gp gp' g f h k
    simp only [applySubs] at h ⊢
    cases h1 : applySimple c s gp t with
    | error e => simp [h1] at h
    | ok r =>
      obtain ⟨s1, gp1, g1⟩ := r
      simp only [h1] at h
      rw [applySimple_mono c s s1 gp gp1 g1 t h1 k]
      simp only
      cases h2 : applySubs c s1 gp1 ts with
      | error e => simp [h2] at h
      | ok r2 =>
        obtain ⟨s2, gp2, g2, f2⟩ := r2
        simp only [h2] at h
        rw [ih s1 s2 gp1 gp2 g2 f2 h2 k]
        simp only
        injection h with h; injection h with a1 a2; injection a2 with a2 a3; injection a3 with a3 a4
        subst a1 a2 a3 a4; rfl

theorem applySubs_le (c : Ctx) : ∀ (ts : List Tx) (s : St) (gp : Nat),
    (∀ s' gp' g f, applySubs c s gp ts = .ok (s', gp', g, f) → gp' ≤ gp) ∧
    (∀ e gp', applySubs c s gp ts = .error (e, gp') → gp' ≤ gp) := by
  intro ts
  induction ts with
  | nil =>
    intro s gp
    constructor
    · intro s' gp' g f h; simp only [applySubs] at h
      injection h with h; injection h with _ h2; injection h2 with h2 _; omega
    · intro e gp' h; simp [applySubs] at h
  | cons t ts ih =>
    intro s gp
    constructor
    · intro s' gp' g f h
      simp only [applySubs] at h
      cases h1 : applySimple c s gp t with
      | error e => simp [h1] at h
      | ok r =>
        obtain ⟨s1, gp1, g1⟩ := r
        simp only [h1] at h
        have l1 := applySimple_ok_le c s s1 gp gp1 g1 t h1
        cases h2 : applySubs c s1 gp1 ts with
        | error e => simp [h2] at h
        | ok r2 =>
          obtain ⟨s2, gp2, g2, f2⟩ := r2
          simp only [h2] at h
          have l2 := (ih s1 gp1).1 s2 gp2 g2 f2 h2
          injection h with h; injection h with _ a2; injection a2 with a2 _
          omega
    · intro e gp' h
      simp only [applySubs] at h
      cases h1 : applySimple c s gp t with
      | error e1 =>
        obtain ⟨e1, g1⟩ := e1
        simp only [h1] at h
        have := applySimple_err_le c s gp g1 e1 t h1
        injection h with h; injection h with _ a2; omega
      | ok r =>
        obtain ⟨s1, gp1, g1⟩ := r
        simp only [h1] at h
        have l1 := applySimple_ok_le c s s1 gp gp1 g1 t h1
        cases h2 : applySubs c s1 gp1 ts with
        | error e2 =>
          obtain ⟨e2, g2⟩ := e2
          simp only [h2] at h
          have l2 := (ih s1 gp1).2 e2 g2 h2
          injection h with h; injection h with _ a2; omega
        | ok r2 => simp [h2] at h

theorem applyTx_mono (c : Ctx) (s s' : St) (gp gp' g : Nat) (t : Tx)
    (h : applyTx c s gp t = .ok (s', gp', g)) (k : Nat) :
    applyTx c s (gp + k) t = .ok (s', gp' + k, g) := by
  unfold applyTx at h ⊢
  split
  · rename_i hk
    simp only [hk] at h
    simp only at h ⊢
    split at h; · cases h
    split at h; · cases h
    split at h; · cases h
    rename_i hv hb hg
    split at h; · cases h
    rename_i ig hig
    split at h; · cases h
    rename_i hgl
    split at h; · cases h
    rename_i s2 gp2 sg sf hsub
    injection h with h
    injection h with h1 h2
    injection h2 with h2 h3
    subst h1 h2 h3
    have hg' : ¬ gp + k < t.gasLimit := by omega
    have hgg : ¬ gp < t.gasLimit := hg
    have e1 : gp + k - t.gasLimit = (gp - t.gasLimit) + k := by omega
    have e2 : gp2 + k + (t.gasLimit - ig) = gp2 + (t.gasLimit - ig) + k := by omega
    simp only [hv, hb, hg', if_false, hig, hgl, e1, applySubs_mono c t.subs _ s2 _ gp2 sg sf hsub k, e2]
  · rename_i hk
    have : applySimple c s gp t = .ok (s', gp', g) := by
      split at h
      · rename_i hk'; exact absurd hk' hk
      · exact h
    exact applySimple_mono c s s' gp gp' g t this k

theorem applyTx_err_le (c : Ctx) (s : St) (gp gp' : Nat) (e : Err) (t : Tx)
    (h : applyTx c s gp t = .error (e, gp')) : gp' ≤ gp := by
  unfold applyTx at h
  split at h
  · simp only at h
    split at h
    · injection h with h; injection h with _ h2; omega
    split at h
    · injection h with h; injection h with _ h2; omega
    split at h
    · injection h with h; injection h with _ h2; omega
    split at h
    · injection h with h; injection h with _ h2; omega
    split at h
    · injection h with h; injection h with _ h2; omega
    split at h
    · rename_i e2 hsub
      obtain ⟨e2, g2⟩ := e2
      have := (applySubs_le c t.subs _ _).2 e2 g2 hsub
      injection h with h; injection h with _ h2; omega
    · cases h
  · exact applySimple_err_le c s gp gp' e t h

/-- **mine_eq_validate**: for ALL parent states, gas pools and candidate lists: re-executing exactly the
    txs the miner selected, with the gas the miner recorded, from the same parent state — and with ANY gas
    pool at least as large (the validator's pool is not eaten by the miner's discarded candidates) —
    succeeds and yields the same account state, gas and fee total. -/
theorem mine_eq_validate (c : Ctx) : ∀ (txs : List Tx) (s : St) (gp k : Nat),
    ∃ k', validate c s (gp + k) (mineSel c s gp txs) =
      some ((mine c s gp txs).st, (mine c s gp txs).gp + k', (mine c s gp txs).gas, (mine c s gp txs).fee) := by
  intro txs
  induction txs with
  | nil => intro s gp k; exact ⟨k, by simp [mineSel, mine, validate]⟩
  | cons t ts ih =>
    intro s gp k
    unfold mineSel mine
    by_cases hg : gp < LemoGen.Gas.OrdinaryTxGas
    · exact ⟨k, by simp [hg, validate]⟩
    · simp only [hg, if_false]
      cases ha : applyTx c s gp t with
      | error e =>
        obtain ⟨e, gp'⟩ := e
        have hle := applyTx_err_le c s gp gp' e t ha
        obtain ⟨k', hk'⟩ := ih s gp' (k + (gp - gp'))
        have : gp' + (k + (gp - gp')) = gp + k := by omega
        rw [this] at hk'
        exact ⟨k', by simpa using hk'⟩
      | ok r =>
        obtain ⟨s1, gp1, g1⟩ := r
        obtain ⟨k', hk'⟩ := ih s1 gp1 k
        refine ⟨k', ?_⟩
        simp only [validate, applyTx_mono c s s1 gp gp1 g1 t ha k, ne_eq, not_true_eq_false, if_false, hk']

/-- **discards_irrelevant**: the miner's selection re-mined ALONE (with any gas pool at least as large)
    selects every tx again with the same gas and ends in the same account state: the discarded candidates
    leave no trace in the block. -/
theorem discards_irrelevant (c : Ctx) : ∀ (txs : List Tx) (s : St) (gp k : Nat),
    mineSel c s (gp + k) ((mineSel c s gp txs).map (·.1)) = mineSel c s gp txs ∧
    (mine c s (gp + k) ((mineSel c s gp txs).map (·.1))).st = (mine c s gp txs).st := by
  intro txs
  induction txs with
  | nil => intro s gp k; simp [mineSel, mine]
  | cons t ts ih =>
    intro s gp k
    by_cases hg : gp < LemoGen.Gas.OrdinaryTxGas
    · simp [mineSel, mine, hg]
    · cases ha : applyTx c s gp t with
      | error e =>
        obtain ⟨e, gp'⟩ := e
        have hle := applyTx_err_le c s gp gp' e t ha
        have h1 : mineSel c s gp (t :: ts) = mineSel c s gp' ts := by simp [mineSel, hg, ha]
        have h2 : (mine c s gp (t :: ts)).st = (mine c s gp' ts).st := by simp [mine, hg, ha]
        rw [h1, h2]
        have := ih s gp' (k + (gp - gp'))
        have e2 : gp' + (k + (gp - gp')) = gp + k := by omega
        rw [e2] at this
        exact this
      | ok r =>
        obtain ⟨s1, gp1, g1⟩ := r
        have h1 : mineSel c s gp (t :: ts) = (t, g1) :: mineSel c s1 gp1 ts := by simp [mineSel, hg, ha]
        have h2 : (mine c s gp (t :: ts)).st = (mine c s1 gp1 ts).st := by simp [mine, hg, ha]
        rw [h1, h2]
        simp only [List.map_cons]
        obtain ⟨i1, i2⟩ := ih s1 gp1 k
        have hg' : ¬ gp + k < LemoGen.Gas.OrdinaryTxGas := by omega
        have hm := applyTx_mono c s s1 gp gp1 g1 t ha k
        constructor
        · simp [mineSel, hg', hm, i1]
        · simp [mine, hg', hm, i2]

theorem validate_deterministic (c : Ctx) (s : St) (gp : Nat) (txs : List (Tx × Nat)) (r1 r2 : Option (St × Nat × Nat × Int))
    (h1 : validate c s gp txs = r1) (h2 : validate c s gp txs = r2) : r1 = r2 := by rw [← h1, ← h2]

/-! ### the vote pass does not depend on the iteration order -/

/-- one iteration of `ChangeVotesByBalance` -/
def voteStep (c : Ctx) (start : Nat → Int) (s : St) (a : Nat) : St :=
  let d := (s.accts a).bal / c.p.voteRate - start a / c.p.voteRate
  let cand := (s.accts a).voteFor
  if d ≠ 0 ∧ cand ≠ 0 ∧ (s.accts cand).isCand = 1
    then { s with accts := upd s.accts cand { s.accts cand with votes := (s.accts cand).votes + d } } else s

theorem votesByBalance_eq_foldl (c : Ctx) (start : Nat → Int) :
    ∀ (l : List Nat) (s : St), votesByBalance c start s l = l.foldl (voteStep c start) s := by
  intro l
  induction l with
  | nil => intro s; rfl
  | cons a as ih => intro s; simp only [votesByBalance, List.foldl_cons]; exact ih _

/-- the per-candidate vote delta one iteration applies; it reads only balances, voteFor and isCand -/
def stepDelta (c : Ctx) (start : Nat → Int) (s : St) (a : Nat) (x : Nat) : Int :=
  if ((s.accts a).bal / c.p.voteRate - start a / c.p.voteRate ≠ 0 ∧ (s.accts a).voteFor ≠ 0 ∧
      (s.accts (s.accts a).voteFor).isCand = 1) ∧ x = (s.accts a).voteFor
  then (s.accts a).bal / c.p.voteRate - start a / c.p.voteRate else 0

/-- add `δ x` votes to every account `x` -/
def addVotes (s : St) (δ : Nat → Int) : St :=
  { s with accts := fun x => { s.accts x with votes := (s.accts x).votes + δ x } }

theorem acct_votes_add_zero (a : Acct) : { a with votes := a.votes + 0 } = a := by
  cases a; simp

theorem voteStep_eq (c : Ctx) (start : Nat → Int) (s : St) (a : Nat) :
    voteStep c start s a = addVotes s (stepDelta c start s a) := by
  unfold voteStep addVotes stepDelta
  simp only
  by_cases h : ((s.accts a).bal / c.p.voteRate - start a / c.p.voteRate ≠ 0 ∧ (s.accts a).voteFor ≠ 0 ∧
      (s.accts (s.accts a).voteFor).isCand = 1)
  · rw [if_pos h]
    congr 1
    funext x
    by_cases hx : x = (s.accts a).voteFor
    · subst hx
      rw [if_pos (⟨h, rfl⟩ : _ ∧ _)]
      simp only [upd, if_true]
    · have : ¬ (((s.accts a).bal / c.p.voteRate - start a / c.p.voteRate ≠ 0 ∧ (s.accts a).voteFor ≠ 0 ∧
          (s.accts (s.accts a).voteFor).isCand = 1) ∧ x = (s.accts a).voteFor) := fun hh => hx hh.2
      rw [if_neg this]
      simp only [upd, hx, if_false]
      exact (acct_votes_add_zero _).symm
  · rw [if_neg h]
    have e : (fun x => ({ s.accts x with votes := (s.accts x).votes +
        (if (((s.accts a).bal / c.p.voteRate - start a / c.p.voteRate ≠ 0 ∧ (s.accts a).voteFor ≠ 0 ∧
          (s.accts (s.accts a).voteFor).isCand = 1) ∧ x = (s.accts a).voteFor)
        then (s.accts a).bal / c.p.voteRate - start a / c.p.voteRate else 0) } : Acct)) = s.accts := by
      funext x
      have : ¬ (((s.accts a).bal / c.p.voteRate - start a / c.p.voteRate ≠ 0 ∧ (s.accts a).voteFor ≠ 0 ∧
          (s.accts (s.accts a).voteFor).isCand = 1) ∧ x = (s.accts a).voteFor) := fun hh => h hh.1
      rw [if_neg this]
      exact acct_votes_add_zero _
    rw [e]

theorem stepDelta_addVotes (c : Ctx) (start : Nat → Int) (s : St) (δ : Nat → Int) (a : Nat) :
    stepDelta c start (addVotes s δ) a = stepDelta c start s a := by
  funext x
  unfold stepDelta addVotes
  rfl

theorem addVotes_addVotes (s : St) (δ1 δ2 : Nat → Int) :
    addVotes (addVotes s δ1) δ2 = addVotes s (fun x => δ1 x + δ2 x) := by
  unfold addVotes
  simp only
  congr 1
  funext x
  simp only [Int.add_assoc]

/-- **two iterations commute** -/
theorem voteStep_comm (c : Ctx) (start : Nat → Int) (s : St) (a b : Nat) :
    voteStep c start (voteStep c start s a) b = voteStep c start (voteStep c start s b) a := by
  rw [voteStep_eq c start s a, voteStep_eq c start s b, voteStep_eq, voteStep_eq,
      stepDelta_addVotes, stepDelta_addVotes, addVotes_addVotes, addVotes_addVotes]
  congr 1
  funext x
  exact Int.add_comm _ _

/-- **votesByBalance_perm**: the result of the pass is the same for every iteration order. -/
theorem votesByBalance_perm (c : Ctx) (start : Nat → Int) (l1 l2 : List Nat) (h : l1.Perm l2) :
    ∀ s, votesByBalance c start s l1 = votesByBalance c start s l2 := by
  intro s
  rw [votesByBalance_eq_foldl, votesByBalance_eq_foldl]
  induction h generalizing s with
  | nil => rfl
  | cons x _ ih => simp only [List.foldl_cons]; exact ih _
  | swap x y l => simp only [List.foldl_cons]; rw [voteStep_comm]
  | trans _ _ ih1 ih2 => rw [ih1, ih2]

/-! ### whole blocks, reward blocks included -/

/-- **finalize_perm**: `Finalize` (term reward, refunds, vote pass — in either order of the model's `votesLast`
    switch) gives the same state for every iteration order of the vote pass. -/
theorem finalize_perm (c : Ctx) (start : Nat → Int) (l1 l2 : List Nat) (h : l1.Perm l2) (s : St) :
    finalize c start s l1 = finalize c start s l2 := by
  unfold finalize
  split
  · exact votesByBalance_perm c start l1 l2 h _
  · rw [votesByBalance_perm c start l1 l2 h s]

/-- **refund_order_irrelevant**: the refund list of a reward block comes out of a Go map
    (`CandidateCache.GetCandidates` ranges over `cache.Candidates`): every order of the same list gives the same state. -/
theorem refund_order_irrelevant (c : Ctx) (r2 : List Nat) (h : c.rf.refunds.Perm r2) (s : St) :
    rewardSteps c s = rewardSteps { c with rf := { c.rf with refunds := r2 } } s := by
  have e1 : isRewardBlock { c with rf := { c.rf with refunds := r2 } } = isRewardBlock c := rfl
  have e2 : issueTermReward { c with rf := { c.rf with refunds := r2 } } s = issueTermReward c s := rfl
  unfold rewardSteps
  rw [e1, e2]
  split
  · rw [← LemoProofs.LedgerReward.refundAll_ctx c { c with rf := { c.rf with refunds := r2 } } rfl]
    exact LemoProofs.LedgerReward.refundAll_perm c _ _ h _
  · rfl

/-- **mineBlock_eq_validateBlock**: for ALL parent states, candidate lists, heights (reward blocks included) and
    reward facts: the validator path over the miner's selection — with any gas pool at least as large — accepts the
    block and ends in exactly the miner's state with the miner's gas total. Miner and validator run the same
    `Finalize` on the same post-transaction state (`mine_eq_validate`).
    CONDITIONAL ON EQUAL FACTS: one context `c` (deputy flags, term record, term reward, refund list) serves both sides.
    In the code these facts are read from node-local data (deputynode.Manager, the STABLE candidate cache behind
    LoadRefundCandidates, the stable asset index); the two open C01 findings (…/refund-list-from-locally-stable-candidates,
    …/asset-tx-needs-locally-stable-asset) are exactly two nodes holding UNEQUAL facts — outside this theorem, inside the
    two-node oracle scenarios. -/
theorem mineBlock_eq_validateBlock (c : Ctx) (txs : List Tx) (s : St) (gp k : Nat) (addrs : List Nat) :
    validateBlock c s (gp + k) (mineSel c s gp txs) addrs =
      some ((mineBlock c s gp txs addrs).1, (mineBlock c s gp txs addrs).2.2.2) := by
  obtain ⟨k', hk'⟩ := mine_eq_validate c txs s gp k
  unfold validateBlock mineBlock
  simp only [hk']

/-- **refund_panic_order_irrelevant**: whether the refund loop of a reward block panics (insufficient deposit pool) does
    not depend on the order of the refund list either: for a duplicate-free list of accounts with recorded non-negative
    deposits it panics iff the pool does not cover their sum (`LedgerNonNeg.refundPanics_iff`). -/
theorem refund_panic_order_irrelevant (c : Ctx) (s : St) (l1 l2 : List Nat) (h : l1.Perm l2)
    (hok : LemoProofs.LedgerNonNeg.RefundListOk c s l1) (hp : 0 ≤ (s.accts c.p.pool).bal) :
    refundPanics c s l1 = refundPanics c s l2 :=
  LemoProofs.LedgerNonNeg.refundPanics_perm c s l1 l2 h hok hp

/-! ### the per-transaction arguments the two paths compute differently

  `applyTx(gp, header, tx, txIndex, blockHash, …)`: the miner path passes `txIndex = len(selectedTxs)` and
  `blockHash = common.Hash{}`, the validator path `txIndex = i` (position in the block) and `blockHash = header.Hash()`.
  Both only flow into `NewEVMContext` (event records, BLOCKHASH) — no handler of the modelled kinds reads them, which is
  why `applyTx` of the model has no such parameters. What CAN be stated: the index is the same number on both paths. -/

/-- the miner's selection together with the txIndex every executed candidate was given (`len(selectedTxs)` so far) -/
def mineSelIdx (c : Ctx) : St → Nat → Nat → List Tx → List (Tx × Nat × Nat)
  | _, _, _, [] => []
  | s, gp, k, t :: ts =>
    if gp < LemoGen.Gas.OrdinaryTxGas then []
    else
    match applyTx c s gp t with
    | .error (_, gp') => mineSelIdx c s gp' k ts
    | .ok (s1, gp1, g1) => (t, g1, k) :: mineSelIdx c s1 gp1 (k + 1) ts

/-- **miner_txIndex_eq_position**: the txIndex the miner path gives the i-th tx of the block it builds is i — the index
    the validator path (`for i, tx := range txs`) gives it; discarded candidates do not consume an index. (The blockHash
    argument DOES differ — empty on the miner path — and is visible to EVM event records only: outside the ledger kinds.) -/
theorem miner_txIndex_eq_position (c : Ctx) : ∀ (txs : List Tx) (s : St) (gp k : Nat),
    (mineSelIdx c s gp k txs).map (fun x => (x.1, x.2.1)) = mineSel c s gp txs ∧
    (mineSelIdx c s gp k txs).map (fun x => x.2.2) = List.range' k (mineSel c s gp txs).length := by
  intro txs
  induction txs with
  | nil => intro s gp k; simp [mineSelIdx, mineSel]
  | cons t ts ih =>
    intro s gp k
    unfold mineSelIdx mineSel
    by_cases hg : gp < LemoGen.Gas.OrdinaryTxGas
    · simp [hg]
    · simp only [hg, if_false]
      cases ha : applyTx c s gp t with
      | error e =>
        obtain ⟨e, gp'⟩ := e
        exact ih s gp' k
      | ok r =>
        obtain ⟨s1, gp1, g1⟩ := r
        obtain ⟨i1, i2⟩ := ih s1 gp1 (k + 1)
        simp only [List.map_cons, List.length_cons, i1, i2]
        exact ⟨trivial, by rw [List.range'_succ]⟩

end LemoProofs.C01

/-
  C01 — Deterministic state transition: every mined block re-executes identically.

  Model: `LemoModel.Ledger` (`mine` = TxProcessor.ApplyTxs with per-tx snapshot/discard,
  `validate` = TxProcessor.Process, `votesByBalance` = ChangeVotesByBalance).  The step
  "a discarded candidate leaves the state exactly as it was" is the C07 theorem
  `LemoProofs.C07.discard_leaves_no_trace`; in the ledger model it is the definition of the
  failing branch of `mine`.  Tied to the code by `hx c01` (two independent real nodes: node A runs
  the miner path, node B — different history, restarted — the validator path; block hash and every
  touched account compared) and `hx c05` (the ledger model reproduces every balance / vote).

  * `mine_eq_validate`        — for ALL states and candidate lists: re-executing exactly the txs the
                                miner selected (with the gas the miner recorded) from the same parent
                                state succeeds and yields the same state, gas and fee total.
  * `discards_irrelevant`     — the result does not depend on which other candidates the miner tried
                                and discarded: mining the selected txs alone gives the same block.
  * `votesByBalance_swap/perm`— the end-of-block vote pass is independent of Go's map iteration order.
  * `validate_deterministic`  — stated for completeness: `validate` is a function of (state, txs).
-/
import LemoModel.Ledger
namespace LemoProofs.C01
open LemoModel.Ledger

/-- the state / gas / fee components of `mine` -/
theorem mine_eq_validate (c : Ctx) : ∀ (txs : List Tx) (s : St),
    validate c s (mineSel c s txs) =
      some ((mine c s txs).1, (mine c s txs).2.2.2.1, (mine c s txs).2.2.2.2) := by
  intro txs
  induction txs with
  | nil => intro s; simp [mineSel, mine, validate]
  | cons t ts ih =>
    intro s
    unfold mineSel mine
    by_cases hg : s.gp < LemoGen.Gas.OrdinaryTxGas
    · simp [hg, validate]
    · simp only [hg, if_false]
      cases ha : applyTx c s t with
      | error e =>
        simp only []
        rw [ih s]
      | ok r =>
        obtain ⟨s1, g1⟩ := r
        simp only [validate, ha, ne_eq, not_true_eq_false, if_false]
        rw [ih s1]

/-- the miner's selection re-mined alone selects everything again with the same gas:
    the discarded candidates leave no trace in the block. -/
theorem discards_irrelevant (c : Ctx) : ∀ (txs : List Tx) (s : St),
    mineSel c s ((mineSel c s txs).map (·.1)) = mineSel c s txs ∧
    (mine c s ((mineSel c s txs).map (·.1))).1 = (mine c s txs).1 := by
  intro txs
  induction txs with
  | nil => intro s; simp [mineSel, mine]
  | cons t ts ih =>
    intro s
    by_cases hg : s.gp < LemoGen.Gas.OrdinaryTxGas
    · simp [mineSel, mine, hg]
    · cases ha : applyTx c s t with
      | error e =>
        have h1 : mineSel c s (t :: ts) = mineSel c s ts := by simp [mineSel, hg, ha]
        have h2 : (mine c s (t :: ts)).1 = (mine c s ts).1 := by simp [mine, hg, ha]
        rw [h1, h2]; exact ih s
      | ok r =>
        obtain ⟨s1, g1⟩ := r
        have h1 : mineSel c s (t :: ts) = (t, g1) :: mineSel c s1 ts := by simp [mineSel, hg, ha]
        have h2 : (mine c s (t :: ts)).1 = (mine c s1 ts).1 := by simp [mine, hg, ha]
        rw [h1, h2]
        simp only [List.map_cons]
        obtain ⟨i1, i2⟩ := ih s1
        constructor
        · simp [mineSel, hg, ha, i1]
        · simp [mine, hg, ha, i2]

theorem validate_deterministic (c : Ctx) (s : St) (txs : List (Tx × Nat)) (r1 r2 : Option (St × Nat × Int))
    (h1 : validate c s txs = r1) (h2 : validate c s txs = r2) : r1 = r2 := by rw [← h1, ← h2]

/-! ### the vote pass does not depend on the iteration order -/

/-- one iteration of `ChangeVotesByBalance` -/
def voteStep (c : Ctx) (start : Nat → Int) (s : St) (a : Nat) : St :=
  let d := (s.accts a).bal / c.p.voteRate - start a / c.p.voteRate
  let cand := (s.accts a).voteFor
  if d ≠ 0 ∧ cand ≠ 0 ∧ (s.accts cand).isCand = 1
    then { s with accts := upd s.accts cand { s.accts cand with votes := (s.accts cand).votes + d } } else s

theorem votesByBalance_eq_foldl (c : Ctx) (start : Nat → Int) :
    ∀ (l : List Nat) (s : St), votesByBalance c start s l = l.foldl (voteStep c start) s := by
  intro l
  induction l with
  | nil => intro s; rfl
  | cons a as ih => intro s; simp only [votesByBalance, List.foldl_cons]; exact ih _

/-- the per-candidate vote delta one iteration applies; it reads only balances, voteFor and isCand -/
def stepDelta (c : Ctx) (start : Nat → Int) (s : St) (a : Nat) (x : Nat) : Int :=
  if ((s.accts a).bal / c.p.voteRate - start a / c.p.voteRate ≠ 0 ∧ (s.accts a).voteFor ≠ 0 ∧
      (s.accts (s.accts a).voteFor).isCand = 1) ∧ x = (s.accts a).voteFor
  then (s.accts a).bal / c.p.voteRate - start a / c.p.voteRate else 0

/-- add `δ x` votes to every account `x` -/
def addVotes (s : St) (δ : Nat → Int) : St :=
  { s with accts := fun x => { s.accts x with votes := (s.accts x).votes + δ x } }

theorem acct_votes_add_zero (a : Acct) : { a with votes := a.votes + 0 } = a := by
  cases a; simp

theorem voteStep_eq (c : Ctx) (start : Nat → Int) (s : St) (a : Nat) :
    voteStep c start s a = addVotes s (stepDelta c start s a) := by
  unfold voteStep addVotes stepDelta
  simp only
  by_cases h : ((s.accts a).bal / c.p.voteRate - start a / c.p.voteRate ≠ 0 ∧ (s.accts a).voteFor ≠ 0 ∧
      (s.accts (s.accts a).voteFor).isCand = 1)
  · rw [if_pos h]
    congr 1
    funext x
    by_cases hx : x = (s.accts a).voteFor
    · subst hx
      rw [if_pos (⟨h, rfl⟩ : _ ∧ _)]
      simp only [upd, if_true]
    · have : ¬ (((s.accts a).bal / c.p.voteRate - start a / c.p.voteRate ≠ 0 ∧ (s.accts a).voteFor ≠ 0 ∧
          (s.accts (s.accts a).voteFor).isCand = 1) ∧ x = (s.accts a).voteFor) := fun hh => hx hh.2
      rw [if_neg this]
      simp only [upd, hx, if_false]
      exact (acct_votes_add_zero _).symm
  · rw [if_neg h]
    have e : (fun x => ({ s.accts x with votes := (s.accts x).votes +
        (if (((s.accts a).bal / c.p.voteRate - start a / c.p.voteRate ≠ 0 ∧ (s.accts a).voteFor ≠ 0 ∧
          (s.accts (s.accts a).voteFor).isCand = 1) ∧ x = (s.accts a).voteFor)
        then (s.accts a).bal / c.p.voteRate - start a / c.p.voteRate else 0) } : Acct)) = s.accts := by
      funext x
      have : ¬ (((s.accts a).bal / c.p.voteRate - start a / c.p.voteRate ≠ 0 ∧ (s.accts a).voteFor ≠ 0 ∧
          (s.accts (s.accts a).voteFor).isCand = 1) ∧ x = (s.accts a).voteFor) := fun hh => h hh.1
      rw [if_neg this]
      exact acct_votes_add_zero _
    rw [e]

theorem stepDelta_addVotes (c : Ctx) (start : Nat → Int) (s : St) (δ : Nat → Int) (a : Nat) :
    stepDelta c start (addVotes s δ) a = stepDelta c start s a := by
  funext x
  unfold stepDelta addVotes
  rfl

theorem addVotes_addVotes (s : St) (δ1 δ2 : Nat → Int) :
    addVotes (addVotes s δ1) δ2 = addVotes s (fun x => δ1 x + δ2 x) := by
  unfold addVotes
  simp only
  congr 1
  funext x
  simp only [Int.add_assoc]

/-- **two iterations commute** -/
theorem voteStep_comm (c : Ctx) (start : Nat → Int) (s : St) (a b : Nat) :
    voteStep c start (voteStep c start s a) b = voteStep c start (voteStep c start s b) a := by
  rw [voteStep_eq c start s a, voteStep_eq c start s b, voteStep_eq, voteStep_eq,
      stepDelta_addVotes, stepDelta_addVotes, addVotes_addVotes, addVotes_addVotes]
  congr 1
  funext x
  exact Int.add_comm _ _

/-- **votesByBalance_perm**: the result of the pass is the same for every iteration order. -/
theorem votesByBalance_perm (c : Ctx) (start : Nat → Int) (l1 l2 : List Nat) (h : l1.Perm l2) :
    ∀ s, votesByBalance c start s l1 = votesByBalance c start s l2 := by
  intro s
  rw [votesByBalance_eq_foldl, votesByBalance_eq_foldl]
  induction h generalizing s with
  | nil => rfl
  | cons x _ ih => simp only [List.foldl_cons]; exact ih _
  | swap x y l => simp only [List.foldl_cons]; rw [voteStep_comm]
  | trans _ _ ih1 ih2 => rw [ih1, ih2]

end LemoProofs.C01

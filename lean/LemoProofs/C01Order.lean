/-
  C01, clause "the block result does not depend on hash-map iteration order" — the PUBLISHED change-log list
  (what `Header.LogRoot` hashes; the version records and the version trie are computed from it).

  Model: `LemoModel.MergeOrder` (MergeChangeLogs / merge / removeUnchanged / IsValuable, Manager.Finalise / updateVersion /
  root logs, and the two phases of BlockAssembler.Finalize that feed the journal in a Go map order: the deposit refunds
  and ChangeVotesByBalance).  Every map range is an explicit order parameter, sort.Sort is ANY function that returns a
  sorted permutation.

  * `publish_order_independent`      — for ALL journals: MergeChangeLogs + Finalise give the same list for every visiting
                                       order of the three map ranges (the cache may even hold different untouched accounts:
                                       the miner loads accounts for candidates it discards) and every sorting algorithm.
                                       The argument is the one the code relies on: the keys of a map are distinct, a sorted
                                       duplicate-free list is unique, and each account is merged independently.
  * `publish_interleaving_irrelevant`— the list depends on the journal only through each account's own subsequence.
  * `refund_order_sim`, `votePass_order_sim` — the journals the two map-ordered phases produce are DIFFERENT lists for
                                       different orders (the balance logs of the pool / the vote logs of a candidate carry
                                       other intermediate values), but equal after merging: a chain of logs on one merged
                                       slot collapses to (first OldVal, first Version, last NewVal), and the last NewVal is
                                       start ± a sum.
  * `finalize_order_independent`     — the whole tail of Finalize: for every two orders of the refund list, of the range over
                                       the `changes` map, of the three ranges of MergeChangeLogs/Finalise, and every sort,
                                       the published lists are equal.
  * `renumber_versions`              — the invariant behind the version records: after updateVersion the logs of one
                                       (account, type) carry base+1, base+2, … in list order (hence no two published
                                       non-root logs share (address, type, version)).
  * `published_versions_consecutive` — the same for the list Finalise leaves behind, every account of the cache.
  * `finaliseParts_roots`            — as coded: the root logs stand behind the merged logs, in sorted account order, with the
                                       version of the PROVISIONAL counter; updateVersion never renumbers or records them
                                       (two blocks changing one account's storage both publish StorageRootLog version 1).
-/
import LemoModel.MergeOrder
namespace LemoProofs.C01Order
open LemoModel.MergeOrder

/-! ### list facts -/

theorem snoc_induction {α : Type} {P : List α → Prop} (hn : P []) (hs : ∀ l a, P l → P (l ++ [a])) : ∀ l, P l := by
  intro l
  have h : ∀ l : List α, P l.reverse := by
    intro l
    induction l with
    | nil => simpa using hn
    | cons a l ih => rw [List.reverse_cons]; exact hs _ _ ih
  simpa using h l.reverse

theorem flatMap_congr' {α β : Type} (f g : α → List β) : ∀ (l : List α), (∀ a ∈ l, f a = g a) → l.flatMap f = l.flatMap g := by
  intro l
  induction l with
  | nil => intro _; rfl
  | cons a l ih =>
    intro h
    simp only [List.flatMap_cons]
    rw [h a List.mem_cons_self, ih (fun b hb => h b (List.mem_cons_of_mem _ hb))]

/-- a sorted list of naturals is determined by its elements -/
theorem sorted_unique {l l' : List Nat} (h1 : l.Pairwise (· ≤ ·)) (h2 : l'.Pairwise (· ≤ ·)) (hp : l.Perm l') : l = l' :=
  List.Perm.eq_of_pairwise (fun _ _ _ _ hab hba => Nat.le_antisymm hab hba) h1 h2 hp

/-- **the sorting argument**: whatever algorithm sorts, and in whatever order the (distinct) keys were collected, the
    sorted key list is the same -/
theorem sort_canon {srt srt' : List Nat → List Nat} (hs : IsSort srt) (hs' : IsSort srt') {π π' : List Nat}
    (hn : π.Nodup) (hn' : π'.Nodup) (hm : ∀ a, a ∈ π ↔ a ∈ π') : srt π = srt' π' := by
  have hp : π.Perm π' := (List.perm_ext_iff_of_nodup hn hn').mpr hm
  exact sorted_unique (hs π).2 (hs' π').2 (((hs π).1.trans hp).trans (hs' π').1.symm)

/-! ### what the published list reads of a journal: the merged view of every account -/

def view (j : List Log) (a : Nat) : List Log := merge (group a j)

def touched (j : List Log) (a t e : Nat) : Prop := ∃ l ∈ j, l.addr = a ∧ l.ty = t ∧ l.extra = e

theorem view_nil (a : Nat) : view [] a = [] := rfl

theorem view_snoc (j : List Log) (l : Log) (a : Nat) :
    view (j ++ [l]) a = if l.addr = a then mergeStep (view j a) l else view j a := by
  unfold view group merge
  rw [List.filter_append]
  by_cases h : l.addr = a
  · simp [h, List.foldl_append]
  · simp [h]

theorem balSummary_snoc (j : List Log) (l : Log) (a : Nat) :
    balSummary (j ++ [l]) a = if l.ty == 1 && l.addr == a then
      (match balSummary j a with
       | none => some (l.old, l.new)
       | some (o, _) => some (o, l.new)) else balSummary j a := by
  unfold balSummary
  rw [List.foldl_append]
  rfl

theorem touched_snoc (j : List Log) (l : Log) (a t e : Nat) :
    touched (j ++ [l]) a t e ↔ touched j a t e ∨ (l.addr = a ∧ l.ty = t ∧ l.extra = e) := by
  unfold touched
  constructor
  · rintro ⟨r, hr, h⟩
    rcases List.mem_append.mp hr with hr | hr
    · exact Or.inl ⟨r, hr, h⟩
    · rw [List.mem_singleton.mp hr] at h; exact Or.inr h
  · rintro (⟨r, hr, h⟩ | h)
    · exact ⟨r, List.mem_append_left _ hr, h⟩
    · exact ⟨l, List.mem_append_right _ (List.mem_singleton.mpr rfl), h⟩

theorem mergeStep_addr (a : Nat) (V : List Log) (l : Log) (hV : ∀ r ∈ V, r.addr = a) (hl : l.addr = a) :
    ∀ r ∈ mergeStep V l, r.addr = a := by
  intro r hr
  unfold mergeStep at hr
  split at hr
  · obtain ⟨q, hq, rfl⟩ := List.mem_map.mp hr
    split
    · exact hV q hq
    · exact hV q hq
  · rcases List.mem_append.mp hr with h | h
    · exact hV r h
    · rw [List.mem_singleton.mp h]; exact hl

/-- every log of the merged view of account `a` is a log of `a` -/
theorem view_addr (a : Nat) : ∀ (j : List Log), ∀ r ∈ view j a, r.addr = a := by
  apply snoc_induction
  · intro r hr; simp [view_nil] at hr
  · intro j l ih r hr
    rw [view_snoc] at hr
    split at hr
    · rename_i h; exact mergeStep_addr a _ l ih h r hr
    · exact ih r hr

/-- two journals the pipeline cannot tell apart -/
structure Sim (j j' : List Log) : Prop where
  view : ∀ a, view j a = view j' a
  bal : ∀ a, balSummary j a = balSummary j' a
  keys : ∀ a t e, touched j a t e ↔ touched j' a t e

theorem Sim.refl (j : List Log) : Sim j j := ⟨fun _ => rfl, fun _ => rfl, fun _ _ _ => Iff.rfl⟩
theorem Sim.symm {j j' : List Log} (h : Sim j j') : Sim j' j :=
  ⟨fun a => (h.view a).symm, fun a => (h.bal a).symm, fun a t e => (h.keys a t e).symm⟩
theorem Sim.trans {j j' j'' : List Log} (h : Sim j j') (h' : Sim j' j'') : Sim j j'' :=
  ⟨fun a => (h.view a).trans (h'.view a), fun a => (h.bal a).trans (h'.bal a), fun a t e => (h.keys a t e).trans (h'.keys a t e)⟩

theorem Sim.snoc {j j' : List Log} (h : Sim j j') (l : Log) : Sim (j ++ [l]) (j' ++ [l]) := by
  refine ⟨fun a => ?_, fun a => ?_, fun a t e => ?_⟩
  · rw [view_snoc, view_snoc, h.view a]
  · rw [balSummary_snoc, balSummary_snoc, h.bal a]
  · rw [touched_snoc, touched_snoc, h.keys a t e]

theorem hasAddr_iff_touched (j : List Log) (a : Nat) : (∃ l ∈ j, l.addr = a) ↔ ∃ t e, touched j a t e := by
  constructor
  · rintro ⟨l, hl, h⟩; exact ⟨l.ty, l.extra, l, hl, h, rfl, rfl⟩
  · rintro ⟨_, _, l, hl, h, _, _⟩; exact ⟨l, hl, h⟩

theorem Sim.hasAddr {j j' : List Log} (h : Sim j j') (a : Nat) : (∃ l ∈ j, l.addr = a) ↔ ∃ l ∈ j', l.addr = a := by
  rw [hasAddr_iff_touched, hasAddr_iff_touched]
  constructor
  · rintro ⟨t, e, ht⟩; exact ⟨t, e, (h.keys a t e).mp ht⟩
  · rintro ⟨t, e, ht⟩; exact ⟨t, e, (h.keys a t e).mpr ht⟩

/-! ### MergeChangeLogs -/

/-- the merging range visits every key once: whatever the order, every visited account ends up compressed, by a
    function of its own logs only -/
theorem fold_updM (f : List Log → List Log) : ∀ (π : List Nat) (m0 : Nat → List Log), π.Nodup → ∀ x,
    (π.foldl (fun m a => updM m a (f (m a))) m0) x = if x ∈ π then f (m0 x) else m0 x := by
  intro π
  induction π with
  | nil => intro m0 _ x; simp
  | cons a π ih =>
    intro m0 hn x
    obtain ⟨ha, hn'⟩ := List.nodup_cons.mp hn
    simp only [List.foldl_cons]
    rw [ih _ hn' x]
    by_cases hx : x = a
    · subst hx
      simp [ha, updM]
    · simp [hx, updM]

/-- MergeChangeLogs in closed form -/
theorem mergeChangeLogs_eq (srt : List Nat → List Nat) (hs : IsSort srt) (π1 π2 : List Nat) (j : List Log)
    (h1 : IsKeyOrder π1 j) (h2 : IsKeyOrder π2 j) :
    mergeChangeLogs srt π1 π2 j = (srt π2).flatMap (fun a => removeUnchanged (view j a)) := by
  unfold mergeChangeLogs
  apply flatMap_congr'
  intro a ha
  have ha2 : a ∈ π2 := (hs π2).1.mem_iff.mp ha
  have ha1 : a ∈ π1 := (h1.2 a).mpr ((h2.2 a).mp ha2)
  rw [fold_updM compress π1 _ h1.1 a]
  simp [ha1, compress, view]

theorem mergeChangeLogs_sim {srt srt' : List Nat → List Nat} (hs : IsSort srt) (hs' : IsSort srt')
    {j j' : List Log} (hsim : Sim j j') {π1 π2 π1' π2' : List Nat}
    (h1 : IsKeyOrder π1 j) (h2 : IsKeyOrder π2 j) (h1' : IsKeyOrder π1' j') (h2' : IsKeyOrder π2' j') :
    mergeChangeLogs srt π1 π2 j = mergeChangeLogs srt' π1' π2' j' := by
  rw [mergeChangeLogs_eq srt hs π1 π2 j h1 h2, mergeChangeLogs_eq srt' hs' π1' π2' j' h1' h2']
  have hk : srt π2 = srt' π2' := sort_canon hs hs' h2.1 h2'.1 (fun a => by rw [h2.2 a, h2'.2 a]; exact hsim.hasAddr a)
  rw [hk]
  apply flatMap_congr'
  intro a _
  rw [hsim.view a]

/-- the merged list only holds logs of accounts of the journal -/
theorem mergeChangeLogs_addr (srt : List Nat → List Nat) (hs : IsSort srt) (π1 π2 : List Nat) (j : List Log)
    (h1 : IsKeyOrder π1 j) (h2 : IsKeyOrder π2 j) :
    ∀ l ∈ mergeChangeLogs srt π1 π2 j, ∃ r ∈ j, r.addr = l.addr := by
  intro l hl
  rw [mergeChangeLogs_eq srt hs π1 π2 j h1 h2] at hl
  obtain ⟨a, ha, hla⟩ := List.mem_flatMap.mp hl
  have ha2 : a ∈ π2 := (hs π2).1.mem_iff.mp ha
  have : l.addr = a := view_addr a j l (List.mem_filter.mp hla).1
  rw [this]
  exact (h2.2 a).mp ha2

/-! ### Finalise -/

def hasLogs (L : List Log) (a : Nat) : Bool := L.any (fun l => l.addr == a)

theorem renumberIn_hasLogs (a b : Nat) : ∀ (L : List Log) (cnt : Nat → Nat),
    hasLogs (renumberIn a cnt L) b = hasLogs L b := by
  intro L
  induction L with
  | nil => intro cnt; rfl
  | cons l ls ih =>
    intro cnt
    unfold renumberIn
    unfold hasLogs at ih ⊢
    split
    · simp only [List.any_cons]; rw [ih]
    · simp only [List.any_cons]; rw [ih]

theorem finStep_hasLogs (s : JS) (acc : List Log × List Log) (a b : Nat) :
    hasLogs (finStep s acc a).1 b = hasLogs acc.1 b := by
  unfold finStep
  split
  · exact renumberIn_hasLogs a b _ _
  · rfl

/-- an account of the cache without logs is skipped: the loop is the loop over the accounts that have logs -/
theorem foldl_finStep_filter (s : JS) : ∀ (K : List Nat) (acc : List Log × List Log),
    K.foldl (finStep s) acc = (K.filter (hasLogs acc.1)).foldl (finStep s) acc := by
  intro K
  induction K with
  | nil => intro acc; rfl
  | cons a K ih =>
    intro acc
    have hf : K.filter (hasLogs (finStep s acc a).1) = K.filter (hasLogs acc.1) := by
      congr 1; funext b; exact finStep_hasLogs s acc a b
    by_cases h : hasLogs acc.1 a = true
    · simp only [List.foldl_cons, List.filter_cons, h, if_true]
      rw [ih, hf]
    · have hst : finStep s acc a = acc := by
        unfold finStep; unfold hasLogs at h; simp [h]
      simp only [List.foldl_cons, List.filter_cons, h]
      rw [hst]
      simpa using ih acc

theorem hasLogs_iff (L : List Log) (a : Nat) : hasLogs L a = true ↔ ∃ l ∈ L, l.addr = a := by
  unfold hasLogs
  rw [List.any_eq_true]
  constructor
  · rintro ⟨l, hl, h⟩; exact ⟨l, hl, by simpa using h⟩
  · rintro ⟨l, hl, h⟩; exact ⟨l, hl, by simpa using h⟩

/-- Finalise does not depend on the order in which the cache keys are collected, on the sorting algorithm, nor on which
    accounts WITHOUT logs the cache happens to hold -/
theorem finaliseParts_canon {srt srt' : List Nat → List Nat} (hs : IsSort srt) (hs' : IsSort srt') (s : JS) (L : List Log)
    {π3 π3' : List Nat} (hn : π3.Nodup) (hn' : π3'.Nodup) (hc : ∀ l ∈ L, l.addr ∈ π3) (hc' : ∀ l ∈ L, l.addr ∈ π3') :
    finaliseParts srt π3 s L = finaliseParts srt' π3' s L := by
  unfold finaliseParts
  rw [foldl_finStep_filter s (srt π3), foldl_finStep_filter s (srt' π3')]
  have hk : (srt π3).filter (hasLogs L) = (srt' π3').filter (hasLogs L) := by
    apply sorted_unique
    · exact List.Pairwise.sublist List.filter_sublist (hs π3).2
    · exact List.Pairwise.sublist List.filter_sublist (hs' π3').2
    · apply (List.perm_ext_iff_of_nodup _ _).mpr
      · intro a
        simp only [List.mem_filter, hasLogs_iff]
        constructor
        · rintro ⟨_, l, hl, h⟩
          exact ⟨(hs' π3').1.mem_iff.mpr (h ▸ hc' l hl), l, hl, h⟩
        · rintro ⟨_, l, hl, h⟩
          exact ⟨(hs π3).1.mem_iff.mpr (h ▸ hc l hl), l, hl, h⟩
      · exact List.Nodup.sublist List.filter_sublist ((hs π3).1.nodup_iff.mpr hn)
      · exact List.Nodup.sublist List.filter_sublist ((hs' π3').1.nodup_iff.mpr hn')
  show List.foldl (finStep s) (L, []) (List.filter (hasLogs (L, ([] : List Log)).1) (srt π3)) =
       List.foldl (finStep s) (L, []) (List.filter (hasLogs (L, ([] : List Log)).1) (srt' π3'))
  rw [hk]

/-- two journal states the pipeline cannot tell apart -/
structure SimS (s s' : JS) : Prop where
  cell : s.cell = s'.cell
  com : s.com = s'.com
  base : s.base = s'.base
  next : s.next = s'.next
  rz : s.rootZero = s'.rootZero
  logs : Sim s.logs s'.logs

theorem SimS.refl (s : JS) : SimS s s := ⟨rfl, rfl, rfl, rfl, rfl, Sim.refl _⟩
theorem SimS.symm {s s' : JS} (h : SimS s s') : SimS s' s :=
  ⟨h.cell.symm, h.com.symm, h.base.symm, h.next.symm, h.rz.symm, h.logs.symm⟩
theorem SimS.trans {s s' s'' : JS} (h : SimS s s') (h' : SimS s' s'') : SimS s s'' :=
  ⟨h.cell.trans h'.cell, h.com.trans h'.com, h.base.trans h'.base, h.next.trans h'.next, h.rz.trans h'.rz, h.logs.trans h'.logs⟩

theorem contentChanged_iff (s : JS) (a t : Nat) :
    contentChanged s a t = true ↔ ∃ t' e, touched s.logs a t' e ∧ slotChanged s a t t' e = true := by
  unfold contentChanged touched
  rw [List.any_eq_true]
  constructor
  · rintro ⟨l, hl, h⟩
    simp only [Bool.and_eq_true, beq_iff_eq] at h
    exact ⟨l.ty, l.extra, ⟨l, hl, h.1, rfl, rfl⟩, h.2⟩
  · rintro ⟨t', e, ⟨l, hl, h1, h2, h3⟩, h4⟩
    refine ⟨l, hl, ?_⟩
    simp only [Bool.and_eq_true, beq_iff_eq]
    exact ⟨h1, by rw [h2, h3]; exact h4⟩

theorem slotChanged_sim {s s' : JS} (h : SimS s s') (a t t' e : Nat) : slotChanged s a t t' e = slotChanged s' a t t' e := by
  unfold slotChanged pending differs JS.rz
  rw [h.cell, h.com, h.rz]

theorem contentChanged_sim {s s' : JS} (h : SimS s s') (a t : Nat) : contentChanged s a t = contentChanged s' a t := by
  rw [Bool.eq_iff_iff, contentChanged_iff, contentChanged_iff]
  constructor
  · rintro ⟨t', e, ht, hc⟩; exact ⟨t', e, (h.logs.keys a t' e).mp ht, by rw [← slotChanged_sim h]; exact hc⟩
  · rintro ⟨t', e, ht, hc⟩; exact ⟨t', e, (h.logs.keys a t' e).mpr ht, by rw [slotChanged_sim h]; exact hc⟩

theorem finStep_sim {s s' : JS} (h : SimS s s') : finStep s = finStep s' := by
  funext acc a
  unfold finStep rootLogs
  have : (fun p : Nat × Nat => contentChanged s a p.1) = (fun p : Nat × Nat => contentChanged s' a p.1) := by
    funext p; exact contentChanged_sim h a p.1
  rw [this, h.base, h.next]

/-- the published list of two indistinguishable journal states, under ANY map orders and sorting algorithms -/
theorem publish_sim {srt srt' : List Nat → List Nat} (hs : IsSort srt) (hs' : IsSort srt') {s s' : JS} (h : SimS s s')
    {π1 π2 π3 π1' π2' π3' : List Nat}
    (h1 : IsKeyOrder π1 s.logs) (h2 : IsKeyOrder π2 s.logs) (h3 : IsCacheOrder π3 s.logs)
    (h1' : IsKeyOrder π1' s'.logs) (h2' : IsKeyOrder π2' s'.logs) (h3' : IsCacheOrder π3' s'.logs) :
    publish srt π1 π2 π3 s = publish srt' π1' π2' π3' s' := by
  unfold publish finalise
  have hm : mergeChangeLogs srt π1 π2 s.logs = mergeChangeLogs srt' π1' π2' s'.logs :=
    mergeChangeLogs_sim hs hs' h.logs h1 h2 h1' h2'
  have hp : finaliseParts srt π3 s (mergeChangeLogs srt π1 π2 s.logs) =
            finaliseParts srt' π3' s' (mergeChangeLogs srt' π1' π2' s'.logs) := by
    rw [← hm]
    have e1 : finaliseParts srt' π3' s' (mergeChangeLogs srt π1 π2 s.logs) =
              finaliseParts srt' π3' s (mergeChangeLogs srt π1 π2 s.logs) := by
      unfold finaliseParts; rw [finStep_sim h]
    rw [e1]
    apply finaliseParts_canon hs hs' s _ h3.1 h3'.1
    · intro l hl
      obtain ⟨r, hr, hra⟩ := mergeChangeLogs_addr srt hs π1 π2 s.logs h1 h2 l hl
      exact hra ▸ h3.2 r hr
    · intro l hl
      obtain ⟨r, hr, hra⟩ := mergeChangeLogs_addr srt hs π1 π2 s.logs h1 h2 l hl
      obtain ⟨r', hr', hra'⟩ := (h.logs.hasAddr l.addr).mp ⟨r, hr, hra⟩
      exact hra' ▸ h3'.2 r' hr'
  rw [hp]

/-- **publish_order_independent**: for ALL journal states, the list published by MergeChangeLogs + Finalise is the same
    for every visiting order of the three map ranges (each a duplicate-free enumeration of the map's keys; the account
    cache may hold any further accounts without logs) and for every sorting algorithm. -/
theorem publish_order_independent {srt srt' : List Nat → List Nat} (hs : IsSort srt) (hs' : IsSort srt') (s : JS)
    {π1 π2 π3 π1' π2' π3' : List Nat}
    (h1 : IsKeyOrder π1 s.logs) (h2 : IsKeyOrder π2 s.logs) (h3 : IsCacheOrder π3 s.logs)
    (h1' : IsKeyOrder π1' s.logs) (h2' : IsKeyOrder π2' s.logs) (h3' : IsCacheOrder π3' s.logs) :
    publish srt π1 π2 π3 s = publish srt' π1' π2' π3' s :=
  publish_sim hs hs' (SimS.refl s) h1 h2 h3 h1' h2' h3'

/-! ### the list depends on the journal only through each account's own subsequence -/

theorem group_snoc (a : Nat) (j : List Log) (l : Log) :
    group a (j ++ [l]) = if l.addr = a then group a j ++ [l] else group a j := by
  unfold group
  rw [List.filter_append]
  by_cases h : l.addr = a <;> simp [h]

theorem balSummary_group (a : Nat) : ∀ j : List Log, balSummary (group a j) a = balSummary j a := by
  apply snoc_induction
  · rfl
  · intro j l ih
    rw [group_snoc, balSummary_snoc]
    by_cases h : l.addr = a
    · rw [if_pos h, balSummary_snoc, ih]
    · rw [if_neg h, ih]
      simp [h]

theorem touched_group (a t e : Nat) (j : List Log) : touched (group a j) a t e ↔ touched j a t e := by
  unfold touched group
  constructor
  · rintro ⟨l, hl, h⟩; exact ⟨l, (List.mem_filter.mp hl).1, h⟩
  · rintro ⟨l, hl, h⟩; exact ⟨l, List.mem_filter.mpr ⟨hl, by simpa using h.1⟩, h⟩

theorem Sim_of_groups {j j' : List Log} (h : ∀ a, group a j = group a j') : Sim j j' := by
  refine ⟨fun a => ?_, fun a => ?_, fun a t e => ?_⟩
  · unfold view; rw [h a]
  · rw [← balSummary_group a j, ← balSummary_group a j', h a]
  · rw [← touched_group a t e j, ← touched_group a t e j', h a]

/-- **publish_interleaving_irrelevant**: two journals whose per-account subsequences agree (the same setter calls per
    account, the accounts touched in any relative order) publish the same list. -/
theorem publish_interleaving_irrelevant {srt srt' : List Nat → List Nat} (hs : IsSort srt) (hs' : IsSort srt') (s s' : JS)
    (hc : s.cell = s'.cell) (hm : s.com = s'.com) (hb : s.base = s'.base) (hx : s.next = s'.next)
    (hz : s.rootZero = s'.rootZero)
    (hg : ∀ a, group a s.logs = group a s'.logs)
    {π1 π2 π3 π1' π2' π3' : List Nat}
    (h1 : IsKeyOrder π1 s.logs) (h2 : IsKeyOrder π2 s.logs) (h3 : IsCacheOrder π3 s.logs)
    (h1' : IsKeyOrder π1' s'.logs) (h2' : IsKeyOrder π2' s'.logs) (h3' : IsCacheOrder π3' s'.logs) :
    publish srt π1 π2 π3 s = publish srt' π1' π2' π3' s' :=
  publish_sim hs hs' ⟨hc, hm, hb, hx, hz, Sim_of_groups hg⟩ h1 h2 h3 h1' h2' h3'

/-! ### setters on indistinguishable states -/

@[simp] theorem write_cell (s : JS) (a t e : Nat) (v : Int) (a' t' e' : Nat) :
    (s.write a t e v).cell a' t' e' = if a' = a ∧ t' = t ∧ e' = e then v else s.cell a' t' e' := rfl
@[simp] theorem write_next (s : JS) (a t e : Nat) (v : Int) (a' t' : Nat) :
    (s.write a t e v).next a' t' = if a' = a ∧ t' = t then s.next a t + 1 else s.next a' t' := rfl
@[simp] theorem write_com (s : JS) (a t e : Nat) (v : Int) : (s.write a t e v).com = s.com := rfl
@[simp] theorem write_base (s : JS) (a t e : Nat) (v : Int) : (s.write a t e v).base = s.base := rfl
theorem write_logs (s : JS) (a t e : Nat) (v : Int) :
    (s.write a t e v).logs = s.logs ++ [{ addr := a, ty := t, extra := e, old := s.cell a t e, new := v, ver := s.next a t + 1 }] := rfl

/-- the same setter call on two indistinguishable states -/
theorem SimS.write {s s' : JS} (h : SimS s s') (a t e : Nat) (v : Int) : SimS (s.write a t e v) (s'.write a t e v) := by
  refine ⟨?_, h.com, h.base, ?_, h.rz, ?_⟩
  · show upd3 s.cell a t e v = upd3 s'.cell a t e v
    rw [h.cell]
  · show upd2 s.next a t (s.next a t + 1) = upd2 s'.next a t (s'.next a t + 1)
    rw [h.next]
  · rw [write_logs, write_logs, h.cell, h.next]
    exact h.logs.snoc _

/-- setters on DIFFERENT accounts commute -/
theorem write_comm (s : JS) (a t e : Nat) (v : Int) (b t' e' : Nat) (v' : Int) (hab : a ≠ b) :
    SimS ((s.write a t e v).write b t' e' v') ((s.write b t' e' v').write a t e v) := by
  have hba : b ≠ a := fun h => hab h.symm
  refine ⟨?_, rfl, rfl, ?_, rfl, ?_⟩
  · funext x y z
    simp only [write_cell]
    by_cases h1 : x = a <;> by_cases h2 : x = b <;> simp_all
  · funext x y
    simp only [write_next]
    by_cases h1 : x = a <;> by_cases h2 : x = b <;> simp_all
  · simp only [write_logs, write_cell, write_next, hab, hba, false_and, if_false]
    refine ⟨fun x => ?_, fun x => ?_, fun x y z => ?_⟩
    · simp only [view_snoc]
      by_cases h1 : a = x <;> by_cases h2 : b = x <;> simp_all
    · simp only [balSummary_snoc]
      by_cases h1 : a = x <;> by_cases h2 : b = x <;> simp_all
    · simp only [touched_snoc]
      constructor
      · rintro ((h | h) | h)
        · exact Or.inl (Or.inl h)
        · exact Or.inr h
        · exact Or.inl (Or.inr h)
      · rintro ((h | h) | h)
        · exact Or.inl (Or.inl h)
        · exact Or.inr h
        · exact Or.inl (Or.inr h)

/-! ### a chain of logs on one merged slot collapses -/

theorem map_id_of_forall {α : Type} (f : α → α) : ∀ (l : List α), (∀ x ∈ l, f x = x) → l.map f = l := by
  intro l
  induction l with
  | nil => intro _; rfl
  | cons a l ih =>
    intro h
    simp only [List.map_cons]
    rw [h a List.mem_cons_self, ih (fun x hx => h x (List.mem_cons_of_mem _ hx))]

/-- two consecutive logs of one merged (type, extra) slot merge like ONE log with the first's OldVal / Version and the
    second's NewVal -/
theorem mergeStep_chain (V : List Log) (l1 l2 : Log) (hm : needMerge l1.ty = true) (ht : l2.ty = l1.ty)
    (he : l2.extra = l1.extra) :
    mergeStep (mergeStep V l1) l2 = mergeStep V { l1 with new := l2.new } := by
  have hk : sameKey l2 = sameKey l1 := by funext r; unfold sameKey; rw [ht, he]
  have hk' : sameKey { l1 with new := l2.new } = sameKey l1 := by funext r; rfl
  have hm2 : needMerge l2.ty = true := by rw [ht]; exact hm
  by_cases h : V.any (sameKey l1) = true
  · have hin : mergeStep V l1 = V.map (fun r => if sameKey l1 r then { r with new := l1.new } else r) := by
      unfold mergeStep; simp [hm, h]
    have hany : (V.map (fun r => if sameKey l1 r then { r with new := l1.new } else r)).any (sameKey l1) = true := by
      rw [List.any_map]
      obtain ⟨r, hr, hs⟩ := List.any_eq_true.mp h
      refine List.any_eq_true.mpr ⟨r, hr, ?_⟩
      simp only [Function.comp, hs, if_true]
      exact hs
    rw [hin]
    unfold mergeStep
    simp only [hm2, hk, hany, hk', h, hm, Bool.and_self, if_true, List.map_map]
    apply List.map_congr_left
    intro r _
    simp only [Function.comp]
    by_cases hs : sameKey l1 r = true
    · have hs' : sameKey l1 { r with new := l1.new } = true := hs
      simp [hs, hs']
    · simp [hs]
  · have hin : mergeStep V l1 = V ++ [l1] := by
      unfold mergeStep; simp [h]
    have hself : sameKey l1 l1 = true := by unfold sameKey; simp
    have hany : (V ++ [l1]).any (sameKey l1) = true := by
      rw [List.any_append]; simp [hself]
    rw [hin]
    unfold mergeStep
    simp only [hm2, hk, hany, hk', Bool.and_self, if_true, hm]
    have hV : V.map (fun r => if sameKey l1 r = true then { r with new := l2.new } else r) = V := by
      apply map_id_of_forall
      intro r hr
      have : sameKey l1 r ≠ true := fun hs => h (List.any_eq_true.mpr ⟨r, hr, hs⟩)
      simp [this]
    simp only [List.map_append, hV, List.map_cons, List.map_nil, hself, if_true]
    simp [h]

/-- two consecutive setter calls on one merged cell: the intermediate value does not matter -/
theorem write_chain (s : JS) (a t e : Nat) (v1 v1' v2 : Int) (hm : needMerge t = true) :
    SimS ((s.write a t e v1).write a t e v2) ((s.write a t e v1').write a t e v2) := by
  refine ⟨?_, rfl, rfl, ?_, rfl, ?_⟩
  · funext x y z
    simp only [write_cell]
    split <;> rfl
  · funext x y
    simp only [write_next]
  · simp only [write_logs, write_cell, write_next, and_self, if_true]
    refine ⟨fun x => ?_, fun x => ?_, fun x y z => ?_⟩
    · simp only [view_snoc]
      by_cases h : a = x
      · simp only [h, if_true]
        have e1 := mergeStep_chain (view s.logs x)
          { addr := x, ty := t, extra := e, old := s.cell x t e, new := v1, ver := s.next x t + 1 }
          { addr := x, ty := t, extra := e, old := v1, new := v2, ver := s.next x t + 1 + 1 } hm rfl rfl
        have e2 := mergeStep_chain (view s.logs x)
          { addr := x, ty := t, extra := e, old := s.cell x t e, new := v1', ver := s.next x t + 1 }
          { addr := x, ty := t, extra := e, old := v1', new := v2, ver := s.next x t + 1 + 1 } hm rfl rfl
        rw [e1, e2]
      · simp only [h, if_false]
    · simp only [balSummary_snoc]
      by_cases h : (t == 1 && a == x) = true
      · simp only [h, if_true]
        cases balSummary s.logs x with
        | none => rfl
        | some p => rfl
      · simp only [h]
        rfl
    · simp only [touched_snoc]

/-! ### a fold over a map order, up to a congruence -/

theorem foldl_cong_rel {σ α : Type} (f : σ → α → σ) (R : σ → σ → Prop)
    (hcong : ∀ s s' x, R s s' → R (f s x) (f s' x)) :
    ∀ (l : List α) (s s' : σ), R s s' → R (l.foldl f s) (l.foldl f s') := by
  intro l
  induction l with
  | nil => intro s s' h; exact h
  | cons x l ih => intro s s' h; exact ih _ _ (hcong s s' x h)

/-- if any two iterations for different keys commute up to `R` (a congruence), the fold over a duplicate-free key list
    is the same, up to `R`, for every order of the list -/
theorem foldl_perm_rel {σ α : Type} (f : σ → α → σ) (R : σ → σ → Prop) (P : α → Prop)
    (hrefl : ∀ a, R a a) (htrans : ∀ a b c, R a b → R b c → R a c)
    (hcong : ∀ s s' x, R s s' → R (f s x) (f s' x))
    (hcomm : ∀ s x y, P x → P y → x ≠ y → R (f (f s x) y) (f (f s y) x)) :
    ∀ {l l' : List α}, l.Perm l' → (∀ x ∈ l, P x) → l.Nodup → ∀ s s', R s s' → R (l.foldl f s) (l'.foldl f s') := by
  intro l l' hp
  induction hp with
  | nil => intro _ _ s s' h; exact h
  | cons x _ ih =>
    intro hP hn s s' h
    simp only [List.foldl_cons]
    exact ih (fun y hy => hP y (List.mem_cons_of_mem _ hy)) (List.nodup_cons.mp hn).2 _ _ (hcong s s' x h)
  | swap x y l =>
    intro hP hn s s' h
    simp only [List.foldl_cons]
    apply foldl_cong_rel f R hcong
    have hy : P y := hP y List.mem_cons_self
    have hx : P x := hP x (List.mem_cons_of_mem _ List.mem_cons_self)
    have hne : y ≠ x := by
      intro e
      have := (List.nodup_cons.mp hn).1
      exact this (e ▸ List.mem_cons_self)
    exact htrans _ _ _ (hcomm s y x hy hx hne) (hcong _ _ y (hcong _ _ x h))
  | trans p1 _ ih1 ih2 =>
    intro hP hn s s' h
    exact htrans _ _ _ (ih1 hP hn s s' h)
      (ih2 (fun x hx => hP x (p1.mem_iff.mpr hx)) (p1.nodup_iff.mp hn) s' s' (hrefl s'))

/-! ### phase 1: the deposit refunds -/

theorem refundT_none (pool : Nat) (s : JS) (x : Nat) (hd : depositOf (s.cell x 13 kDeposit) = none) :
    refundT pool s x = s := by
  unfold refundT; rw [hd]

theorem refundT_some (pool : Nat) (s : JS) (x : Nat) (d : Int) (hx : x ≠ pool)
    (hd : depositOf (s.cell x 13 kDeposit) = some d) :
    refundT pool s x =
      ((s.write pool 1 0 (s.cell pool 1 0 - d)).write x 1 0 (s.cell x 1 0 + d)).write x 13 kDeposit 0 := by
  unfold refundT; rw [hd]; simp [hx]

/-- the deposit record of another candidate is not touched -/
theorem refundT_deposit_other (pool : Nat) (s : JS) (x y : Nat) (hxy : y ≠ x) :
    (refundT pool s x).cell y 13 kDeposit = s.cell y 13 kDeposit := by
  unfold refundT
  split
  · rfl
  · simp [hxy]

/-- moving a setter of account `b` in front of two setters of other accounts -/
theorem comm21 (u : JS) (a t e : Nat) (v : Int) (a' t' e' : Nat) (v' : Int) (b tb eb : Nat) (vb : Int)
    (h1 : a ≠ b) (h2 : a' ≠ b) :
    SimS (((u.write a t e v).write a' t' e' v').write b tb eb vb) (((u.write b tb eb vb).write a t e v).write a' t' e' v') :=
  (write_comm (u.write a t e v) a' t' e' v' b tb eb vb h2).trans ((write_comm u a t e v b tb eb vb h1).write a' t' e' v')

/-- two setters of account(s) `a, a'` followed by two setters of `b, b'`, all four pairs different accounts -/
theorem comm22 (u : JS) (a t e : Nat) (v : Int) (a' t' e' : Nat) (v' : Int) (b tb eb : Nat) (vb : Int)
    (b' tb' eb' : Nat) (vb' : Int) (h1 : a ≠ b) (h2 : a' ≠ b) (h3 : a ≠ b') (h4 : a' ≠ b') :
    SimS ((((u.write a t e v).write a' t' e' v').write b tb eb vb).write b' tb' eb' vb')
         ((((u.write b tb eb vb).write b' tb' eb' vb').write a t e v).write a' t' e' v') :=
  ((comm21 u a t e v a' t' e' v' b tb eb vb h1 h2).write b' tb' eb' vb').trans
    (comm21 (u.write b tb eb vb) a t e v a' t' e' v' b' tb' eb' vb' h3 h4)

/-- two refunds commute: the pool's two balance logs carry other intermediate values, and merge to the same log -/
theorem refundT_comm (pool : Nat) (s : JS) (x y : Nat) (hx : x ≠ pool) (hy : y ≠ pool) (hxy : x ≠ y) :
    SimS (refundT pool (refundT pool s x) y) (refundT pool (refundT pool s y) x) := by
  have hyx : y ≠ x := fun h => hxy h.symm
  have hpx : pool ≠ x := fun h => hx h.symm
  have hpy : pool ≠ y := fun h => hy h.symm
  cases hdx : depositOf (s.cell x 13 kDeposit) with
  | none =>
    have h2 : depositOf ((refundT pool s y).cell x 13 kDeposit) = none := by
      rw [refundT_deposit_other pool s y x hxy]; exact hdx
    rw [refundT_none pool s x hdx, refundT_none pool _ x h2]
    exact SimS.refl _
  | some dx =>
    cases hdy : depositOf (s.cell y 13 kDeposit) with
    | none =>
      have h2 : depositOf ((refundT pool s x).cell y 13 kDeposit) = none := by
        rw [refundT_deposit_other pool s x y hyx]; exact hdy
      rw [refundT_none pool s y hdy, refundT_none pool _ y h2]
      exact SimS.refl _
    | some dy =>
      have h2y : depositOf ((refundT pool s x).cell y 13 kDeposit) = some dy := by
        rw [refundT_deposit_other pool s x y hyx]; exact hdy
      have h2x : depositOf ((refundT pool s y).cell x 13 kDeposit) = some dx := by
        rw [refundT_deposit_other pool s y x hxy]; exact hdx
      rw [refundT_some pool _ y dy hy h2y, refundT_some pool _ x dx hx h2x,
          refundT_some pool s x dx hx hdx, refundT_some pool s y dy hy hdy]
      simp only [write_cell, hx, hy, hxy, hyx, hpx, hpy, false_and, if_false, and_self, if_true,
        show (1 : Nat) ≠ 13 by decide]
      have hv : s.cell pool 1 0 - dy - dx = s.cell pool 1 0 - dx - dy := by omega
      rw [hv]
      -- left: P1 X1 X2 P2 Y1 Y2 ≈ P1 P2 X1 X2 Y1 Y2
      have hL := ((comm21 (s.write pool 1 0 (s.cell pool 1 0 - dx)) x 1 0 (s.cell x 1 0 + dx) x 13 kDeposit 0
                    pool 1 0 (s.cell pool 1 0 - dx - dy) hx hx).write y 1 0 (s.cell y 1 0 + dy)).write y 13 kDeposit 0
      -- right: P1' Y1 Y2 P2 X1 X2 ≈ P1' P2 Y1 Y2 X1 X2 ≈ P1 P2 Y1 Y2 X1 X2 ≈ P1 P2 X1 X2 Y1 Y2
      have hR1 := ((comm21 (s.write pool 1 0 (s.cell pool 1 0 - dy)) y 1 0 (s.cell y 1 0 + dy) y 13 kDeposit 0
                    pool 1 0 (s.cell pool 1 0 - dx - dy) hy hy).write x 1 0 (s.cell x 1 0 + dx)).write x 13 kDeposit 0
      have hR2 := ((((write_chain s pool 1 0 (s.cell pool 1 0 - dy) (s.cell pool 1 0 - dx) (s.cell pool 1 0 - dx - dy)
                    (by decide)).write y 1 0 (s.cell y 1 0 + dy)).write y 13 kDeposit 0).write x 1 0 (s.cell x 1 0 + dx)).write
                    x 13 kDeposit 0
      have hR3 := comm22 ((s.write pool 1 0 (s.cell pool 1 0 - dx)).write pool 1 0 (s.cell pool 1 0 - dx - dy))
                    y 1 0 (s.cell y 1 0 + dy) y 13 kDeposit 0 x 1 0 (s.cell x 1 0 + dx) x 13 kDeposit 0 hyx hyx hyx hyx
      exact hL.trans (((hR1.trans hR2).trans hR3).symm)

theorem refundAll_eq_foldl (pool : Nat) : ∀ (r : List Nat) (s t : JS), refundAll pool r s = some t →
    t = r.foldl (refundT pool) s := by
  intro r
  induction r with
  | nil => intro s t h; simp only [refundAll] at h; injection h with h; exact h.symm
  | cons x xs ih =>
    intro s t h
    simp only [refundAll, refund] at h
    split at h
    · cases h
    · rename_i s' hs'
      split at hs'
      · cases hs'
      · injection hs' with hs'
        subst hs'
        simpa using ih _ t h

/-- **refund_order_sim**: every order of the (duplicate-free) refund list leaves indistinguishable journal states -/
theorem refund_order_sim (pool : Nat) {r r' : List Nat} (hp : r.Perm r') (hn : r.Nodup) (hpool : pool ∉ r)
    (s s' : JS) (h : SimS s s') : SimS (r.foldl (refundT pool) s) (r'.foldl (refundT pool) s') := by
  refine foldl_perm_rel (refundT pool) SimS (fun x => x ≠ pool) SimS.refl (fun _ _ _ => SimS.trans) ?_ ?_ hp
    (fun x hx e => hpool (e ▸ hx)) hn s s' h
  · intro u u' x hu
    -- the same refund on indistinguishable states
    unfold refundT
    rw [hu.cell]
    split
    · exact hu
    · simp only
      rw [← hu.cell]
      have e1 : ∀ (d : Int), SimS (u.write pool 1 0 (u.cell pool 1 0 - d)) (u'.write pool 1 0 (u.cell pool 1 0 - d)) :=
        fun d => hu.write pool 1 0 _
      rename_i d _
      have h1 := e1 d
      have hc1 : (u.write pool 1 0 (u.cell pool 1 0 - d)).cell = (u'.write pool 1 0 (u.cell pool 1 0 - d)).cell := h1.cell
      rw [hu.cell] at hc1 h1 ⊢
      rw [← hc1]
      exact (h1.write x 1 0 _).write x 13 kDeposit 0
  · intro u x y hx hy hxy
    exact refundT_comm pool u x y hx hy hxy

/-! ### phase 2: ChangeVotesByBalance -/

/-- whom an entry of the `changes` map credits: reads the voter's VoteFor and the candidate flag only -/
def voteTarget (cell : Nat → Nat → Nat → Int) (p : Nat × Int) : Option Nat :=
  if p.2 = 0 then none else
  if (cell p.1 17 0).toNat = 0 then none
  else if cell (cell p.1 17 0).toNat 13 kIsCand = 1 then some (cell p.1 17 0).toNat else none

theorem voteStep_eq (s : JS) (p : Nat × Int) :
    voteStep s p = match voteTarget s.cell p with
      | none => s
      | some c => s.write c 18 0 (s.cell c 18 0 + p.2) := by
  unfold voteStep voteTarget
  by_cases h1 : p.2 = 0
  · simp [h1]
  · by_cases h2 : (s.cell p.1 17 0).toNat = 0
    · simp [h1, h2]
    · by_cases h3 : s.cell (s.cell p.1 17 0).toNat 13 kIsCand = 1
      · simp [h1, h2, h3]
      · simp [h1, h2, h3]

/-- a vote log does not change whom any entry credits -/
theorem voteTarget_write18 (s : JS) (c : Nat) (v : Int) (p : Nat × Int) :
    voteTarget (s.write c 18 0 v).cell p = voteTarget s.cell p := by
  unfold voteTarget
  simp only [write_cell, show (17 : Nat) ≠ 18 by decide, show (13 : Nat) ≠ 18 by decide, false_and, and_false, if_false]

theorem voteStep_cong {u u' : JS} (hu : SimS u u') (p : Nat × Int) : SimS (voteStep u p) (voteStep u' p) := by
  rw [voteStep_eq, voteStep_eq, ← hu.cell]
  cases voteTarget u.cell p with
  | none => exact hu
  | some c => exact hu.write c 18 0 _

/-- two iterations of the vote pass commute: two credits to one candidate are two vote logs with other intermediate
    values, merged into the same log -/
theorem voteStep_comm (s : JS) (p q : Nat × Int) :
    SimS (voteStep (voteStep s p) q) (voteStep (voteStep s q) p) := by
  rw [voteStep_eq s p, voteStep_eq s q]
  cases hp : voteTarget s.cell p with
  | none =>
    cases hq : voteTarget s.cell q with
    | none => simp only [voteStep_eq, hp, hq]; exact SimS.refl _
    | some cq =>
      simp only
      rw [voteStep_eq s q, voteStep_eq (s.write cq 18 0 _) p, voteTarget_write18, hp, hq]
      exact SimS.refl _
  | some cp =>
    cases hq : voteTarget s.cell q with
    | none =>
      simp only
      rw [voteStep_eq s p, voteStep_eq (s.write cp 18 0 _) q, voteTarget_write18, hp, hq]
      exact SimS.refl _
    | some cq =>
      simp only
      rw [voteStep_eq (s.write cp 18 0 _) q, voteStep_eq (s.write cq 18 0 _) p, voteTarget_write18, voteTarget_write18, hp, hq]
      simp only [write_cell]
      by_cases hc : cp = cq
      · subst hc
        simp only [and_self, if_true]
        have hv : s.cell cp 18 0 + q.2 + p.2 = s.cell cp 18 0 + p.2 + q.2 := by omega
        rw [hv]
        exact write_chain s cp 18 0 _ _ _ (by decide)
      · have hc' : cq ≠ cp := fun h => hc h.symm
        simp only [hc, hc', false_and, if_false]
        exact write_comm s cp 18 0 _ cq 18 0 _ hc

/-- **votePass_order_sim**: every order of the range over the `changes` map leaves indistinguishable journal states -/
theorem votePass_order_sim {π π' : List (Nat × Int)} (hp : π.Perm π') (hn : π.Nodup) (s s' : JS) (h : SimS s s') :
    SimS (π.foldl voteStep s) (π'.foldl voteStep s') :=
  foldl_perm_rel voteStep SimS (fun _ => True) SimS.refl (fun _ _ _ => SimS.trans)
    (fun _ _ x hu => voteStep_cong hu x) (fun u x y _ _ _ => voteStep_comm u x y) hp (fun _ _ => trivial) hn s s' h

/-! ### the `changes` map of the vote pass reads the journal through indistinguishable summaries -/

theorem mem_dedup : ∀ (l : List Nat) (a : Nat), a ∈ dedup l ↔ a ∈ l := by
  intro l
  induction l with
  | nil => intro a; simp [dedup]
  | cons b l ih =>
    intro a
    unfold dedup
    split
    · rename_i hb
      rw [ih a, List.mem_cons]
      constructor
      · exact Or.inr
      · rintro (h | h)
        · rw [h]; exact (ih b).mp hb
        · exact h
    · rw [List.mem_cons, List.mem_cons, ih a]

theorem nodup_dedup : ∀ (l : List Nat), (dedup l).Nodup := by
  intro l
  induction l with
  | nil => simp [dedup]
  | cons b l ih =>
    unfold dedup
    split
    · exact ih
    · rename_i hb; exact List.nodup_cons.mpr ⟨hb, ih⟩

theorem mem_keysOf (j : List Log) (a : Nat) : a ∈ keysOf j ↔ ∃ l ∈ j, l.addr = a := by
  unfold keysOf
  rw [mem_dedup, List.mem_map]

/-- the model's own enumeration of the map keys is one of the admissible orders -/
theorem keysOf_isKeyOrder (j : List Log) : IsKeyOrder (keysOf j) j := ⟨nodup_dedup _, mem_keysOf j⟩

theorem keysOf_isCacheOrder (j : List Log) : IsCacheOrder (keysOf j) j :=
  ⟨nodup_dedup _, fun l hl => (mem_keysOf j l.addr).mpr ⟨l, hl, rfl⟩⟩

theorem voteChanges_sim (rate : Int) {j j' : List Log} (h : Sim j j') (p : Nat × Int) :
    p ∈ voteChanges rate j ↔ p ∈ voteChanges rate j' := by
  unfold voteChanges
  simp only [List.mem_filterMap, mem_keysOf]
  constructor
  · rintro ⟨a, ha, hf⟩; exact ⟨a, (h.hasAddr a).mp ha, by rw [← h.bal a]; exact hf⟩
  · rintro ⟨a, ha, hf⟩; exact ⟨a, (h.hasAddr a).mpr ha, by rw [h.bal a]; exact hf⟩

/-- **finalize_order_independent**: the tail of `BlockAssembler.Finalize` (deposit refunds, ChangeVotesByBalance,
    MergeChangeLogs, Manager.Finalise) publishes the same change-log list for
    * every two orders `r ~ r'` of the refund list (duplicate-free, the pool is not a candidate; both loops complete —
      WHETHER the loop panics is `C01.refund_panic_order_irrelevant`),
    * every two orders of the range over the `changes` map,
    * every orders of the two ranges of MergeChangeLogs and of the range over the account cache (which may hold other
      untouched accounts on the two sides), and every two sorting algorithms.
    Hence the log root, the version records and the version trie content do not depend on Go's map iteration order. -/
theorem finalize_order_independent {srt srt' : List Nat → List Nat} (hs : IsSort srt) (hs' : IsSort srt')
    (pool : Nat) (rate : Int) (s : JS)
    {r r' : List Nat} (hr : r.Perm r') (hn : r.Nodup) (hpool : pool ∉ r)
    {s1 s1' : JS} (h1 : refundAll pool r s = some s1) (h1' : refundAll pool r' s = some s1')
    {πV πV' : List (Nat × Int)} (hV : IsChangeOrder πV rate s1.logs) (hV' : IsChangeOrder πV' rate s1'.logs)
    {π1 π2 π3 π1' π2' π3' : List Nat}
    (k1 : IsKeyOrder π1 (πV.foldl voteStep s1).logs) (k2 : IsKeyOrder π2 (πV.foldl voteStep s1).logs)
    (k3 : IsCacheOrder π3 (πV.foldl voteStep s1).logs)
    (k1' : IsKeyOrder π1' (πV'.foldl voteStep s1').logs) (k2' : IsKeyOrder π2' (πV'.foldl voteStep s1').logs)
    (k3' : IsCacheOrder π3' (πV'.foldl voteStep s1').logs) :
    publish srt π1 π2 π3 (πV.foldl voteStep s1) = publish srt' π1' π2' π3' (πV'.foldl voteStep s1') := by
  have e1 := refundAll_eq_foldl pool r s s1 h1
  have e1' := refundAll_eq_foldl pool r' s s1' h1'
  have hS1 : SimS s1 s1' := by
    rw [e1, e1']; exact refund_order_sim pool hr hn hpool s s (SimS.refl s)
  have hπ : πV.Perm πV' :=
    (List.perm_ext_iff_of_nodup hV.1 hV'.1).mpr (fun p => by rw [hV.2, hV'.2]; exact voteChanges_sim rate hS1.logs p)
  exact publish_sim hs hs' (votePass_order_sim hπ hV.1 s1 s1' hS1) k1 k2 k3 k1' k2' k3'

/-- the same, stated on `finalizeBlock` -/
theorem finalizeBlock_order_independent {srt srt' : List Nat → List Nat} (hs : IsSort srt) (hs' : IsSort srt')
    (pool : Nat) (rate : Int) (s : JS)
    {r r' : List Nat} (hr : r.Perm r') (hn : r.Nodup) (hpool : pool ∉ r)
    {πV πV' : List (Nat × Int)} {π1 π2 π3 π1' π2' π3' : List Nat} {L L' : List Log}
    (hL : finalizeBlock srt pool r πV π1 π2 π3 s = some L) (hL' : finalizeBlock srt' pool r' πV' π1' π2' π3' s = some L')
    (hO : ∀ s1, refundAll pool r s = some s1 → IsChangeOrder πV rate s1.logs ∧
        IsKeyOrder π1 (πV.foldl voteStep s1).logs ∧ IsKeyOrder π2 (πV.foldl voteStep s1).logs ∧
        IsCacheOrder π3 (πV.foldl voteStep s1).logs)
    (hO' : ∀ s1, refundAll pool r' s = some s1 → IsChangeOrder πV' rate s1.logs ∧
        IsKeyOrder π1' (πV'.foldl voteStep s1).logs ∧ IsKeyOrder π2' (πV'.foldl voteStep s1).logs ∧
        IsCacheOrder π3' (πV'.foldl voteStep s1).logs) :
    L = L' := by
  unfold finalizeBlock at hL hL'
  cases h1 : refundAll pool r s with
  | none => rw [h1] at hL; cases hL
  | some s1 =>
    cases h1' : refundAll pool r' s with
    | none => rw [h1'] at hL'; cases hL'
    | some s1' =>
      rw [h1] at hL; rw [h1'] at hL'
      injection hL with hL; injection hL' with hL'
      obtain ⟨a1, a2, a3, a4⟩ := hO s1 h1
      obtain ⟨b1, b2, b3, b4⟩ := hO' s1' h1'
      rw [← hL, ← hL']
      exact finalize_order_independent hs hs' pool rate s hr hn hpool h1 h1' a1 b1 a2 a3 a4 b2 b3 b4

/-! ### the versions Finalise assigns -/

theorem renumberIn_filter_other (a b t : Nat) (h : a ≠ b) : ∀ (L : List Log) (cnt : Nat → Nat),
    (renumberIn b cnt L).filter (fun l => l.addr == a && l.ty == t) = L.filter (fun l => l.addr == a && l.ty == t) := by
  intro L
  induction L with
  | nil => intro cnt; rfl
  | cons l ls ih =>
    intro cnt
    unfold renumberIn
    by_cases hl : l.addr = b
    · have hne : l.addr ≠ a := fun e => h (e.symm.trans hl)
      have hp : ¬ ((l.addr == a && l.ty == t) = true) := by simp [hne]
      rw [if_pos hl, List.filter_cons_of_neg (by exact hp), List.filter_cons_of_neg (by exact hp)]
      exact ih _
    · rw [if_neg hl]
      simp only [List.filter_cons]
      rw [ih]

/-- **renumber_versions**: updateVersion gives the logs of one (account, type) the versions base+1, base+2, … in list
    order — whatever provisional versions the journal carried. -/
theorem renumber_versions (a t : Nat) : ∀ (L : List Log) (cnt : Nat → Nat),
    ((renumberIn a cnt L).filter (fun l => l.addr == a && l.ty == t)).map (·.ver) =
      List.range' (cnt t + 1) (L.filter (fun l => l.addr == a && l.ty == t)).length := by
  intro L
  induction L with
  | nil => intro cnt; rfl
  | cons l ls ih =>
    intro cnt
    unfold renumberIn
    by_cases hl : l.addr = a
    · rw [if_pos hl]
      by_cases ht : l.ty = t
      · have hp : (l.addr == a && l.ty == t) = true := by simp [hl, ht]
        rw [List.filter_cons_of_pos (by exact hp), List.filter_cons_of_pos (by exact hp)]
        simp only [List.map_cons, List.length_cons]
        rw [ih, List.range'_succ]
        simp [ht]
      · have hp : ¬ ((l.addr == a && l.ty == t) = true) := by simp [ht]
        rw [List.filter_cons_of_neg (by exact hp), List.filter_cons_of_neg (by exact hp), ih]
        have : t ≠ l.ty := fun e => ht e.symm
        simp [this]
    · rw [if_neg hl]
      have hp : ¬ ((l.addr == a && l.ty == t) = true) := by simp [hl]
      rw [List.filter_cons_of_neg (by exact hp), List.filter_cons_of_neg (by exact hp)]
      exact ih cnt

theorem foldl_finStep_hasLogs (s : JS) (b : Nat) : ∀ (K : List Nat) (acc : List Log × List Log),
    hasLogs (K.foldl (finStep s) acc).1 b = hasLogs acc.1 b := by
  intro K
  induction K with
  | nil => intro acc; rfl
  | cons a K ih => intro acc; simp only [List.foldl_cons]; rw [ih, finStep_hasLogs]

theorem finStep_filter_other (s : JS) (acc : List Log × List Log) (a b t : Nat) (h : a ≠ b) :
    (finStep s acc b).1.filter (fun l => l.addr == a && l.ty == t) = acc.1.filter (fun l => l.addr == a && l.ty == t) := by
  unfold finStep
  split
  · exact renumberIn_filter_other a b t h _ _
  · rfl

theorem foldl_finStep_filter_other (s : JS) (a t : Nat) : ∀ (K : List Nat) (acc : List Log × List Log), a ∉ K →
    (K.foldl (finStep s) acc).1.filter (fun l => l.addr == a && l.ty == t) =
      acc.1.filter (fun l => l.addr == a && l.ty == t) := by
  intro K
  induction K with
  | nil => intro acc _; rfl
  | cons b K ih =>
    intro acc ha
    simp only [List.foldl_cons]
    have hab : a ≠ b := fun e => ha (e ▸ List.mem_cons_self)
    rw [ih _ (fun h => ha (List.mem_cons_of_mem _ h)), finStep_filter_other s acc a b t hab]

theorem foldl_finStep_versions (s : JS) (a t : Nat) : ∀ (K : List Nat) (acc : List Log × List Log), K.Nodup → a ∈ K →
    hasLogs acc.1 a = true →
    ((K.foldl (finStep s) acc).1.filter (fun l => l.addr == a && l.ty == t)).map (·.ver) =
      List.range' (s.base a t + 1) (acc.1.filter (fun l => l.addr == a && l.ty == t)).length := by
  intro K
  induction K with
  | nil => intro acc _ ha _; cases ha
  | cons b K ih =>
    intro acc hn ha hl
    obtain ⟨hb, hn'⟩ := List.nodup_cons.mp hn
    simp only [List.foldl_cons]
    by_cases hab : a = b
    · subst hab
      rw [foldl_finStep_filter_other s a t K _ hb]
      have : finStep s acc a = (renumberIn a (s.base a) acc.1, acc.2 ++ rootLogs s a) := by
        unfold finStep; unfold hasLogs at hl; simp [hl]
      rw [this]
      exact renumber_versions a t acc.1 (s.base a)
    · have haK : a ∈ K := by
        rcases List.mem_cons.mp ha with h | h
        · exact absurd h hab
        · exact h
      rw [ih _ hn' haK (by rw [finStep_hasLogs]; exact hl), finStep_filter_other s acc a b t hab]

/-- **published_versions_consecutive**: in the list Finalise leaves behind, the (non-root) logs of every (account, type)
    carry the versions record+1, record+2, … of the PARENT's record, in list order: no two of them share
    (address, type, version), and the new record is the parent's record plus their number (`recordAfter`). -/
theorem published_versions_consecutive {srt : List Nat → List Nat} (hs : IsSort srt) (s : JS) (L : List Log) {π3 : List Nat}
    (hn : π3.Nodup) (hc : ∀ l ∈ L, l.addr ∈ π3) (a t : Nat) :
    (((finaliseParts srt π3 s L).1.filter (fun l => l.addr == a && l.ty == t)).map (·.ver)) =
      List.range' (s.base a t + 1) (L.filter (fun l => l.addr == a && l.ty == t)).length := by
  unfold finaliseParts
  by_cases hl : hasLogs L a = true
  · obtain ⟨l, hlL, hla⟩ := (hasLogs_iff L a).mp hl
    have ha : a ∈ srt π3 := (hs π3).1.mem_iff.mpr (hla ▸ hc l hlL)
    exact foldl_finStep_versions s a t (srt π3) (L, []) ((hs π3).1.nodup_iff.mpr hn) ha hl
  · have h0 : ∀ (M : List Log), hasLogs M a ≠ true → M.filter (fun l => l.addr == a && l.ty == t) = [] := by
      intro M hM
      apply List.filter_eq_nil_iff.mpr
      intro l hlM hp
      simp only [Bool.and_eq_true, beq_iff_eq] at hp
      exact hM ((hasLogs_iff M a).mpr ⟨l, hlM, hp.1⟩)
    have h1 : hasLogs (List.foldl (finStep s) (L, []) (srt π3)).1 a ≠ true := by
      rw [foldl_finStep_hasLogs]; exact hl
    rw [h0 _ h1, h0 L hl]
    rfl

/-- the root logs: pushed behind the merged logs, one group per account that has logs, in sorted account order, with the
    version of the PROVISIONAL counter (`rootLogs`) — `updateVersion` never renumbers or records them -/
theorem finaliseParts_roots (s : JS) : ∀ (K : List Nat) (acc : List Log × List Log),
    (K.foldl (finStep s) acc).2 = acc.2 ++ (K.filter (hasLogs acc.1)).flatMap (rootLogs s) := by
  intro K
  induction K with
  | nil => intro acc; simp
  | cons a K ih =>
    intro acc
    have hf : K.filter (hasLogs (finStep s acc a).1) = K.filter (hasLogs acc.1) := by
      congr 1; funext b; exact finStep_hasLogs s acc a b
    simp only [List.foldl_cons]
    rw [ih, hf]
    by_cases h : hasLogs acc.1 a = true
    · have : (finStep s acc a).2 = acc.2 ++ rootLogs s a := by
        unfold finStep; unfold hasLogs at h; simp [h]
      simp [this, h]
    · have : finStep s acc a = acc := by
        unfold finStep; unfold hasLogs at h; simp [h]
      simp [this, h]

/-! ### the hypotheses are satisfiable; a concrete pair of orders -/

/-- the model's executable sort is an admissible `sort.Sort` -/
theorem sortNat_isSort : IsSort sortNat := by
  intro l
  refine ⟨List.mergeSort_perm l _, ?_⟩
  have h := List.pairwise_mergeSort (le := fun a b : Nat => decide (a ≤ b))
    (by intro a b c h1 h2; simp only [decide_eq_true_eq] at *; omega)
    (by intro a b; simp only [Bool.or_eq_true, decide_eq_true_eq]; omega) l
  exact h.imp (by intro a b hab; simpa using hab)

/-- another admissible sort (insertion sort), used to evaluate the examples in the kernel -/
def ins (a : Nat) : List Nat → List Nat
  | [] => [a]
  | b :: l => if a ≤ b then a :: b :: l else b :: ins a l

def isort : List Nat → List Nat
  | [] => []
  | a :: l => ins a (isort l)

theorem ins_perm (a : Nat) : ∀ l, (ins a l).Perm (a :: l) := by
  intro l
  induction l with
  | nil => exact List.Perm.refl _
  | cons b l ih =>
    unfold ins
    split
    · exact List.Perm.refl _
    · exact (List.Perm.cons b ih).trans (List.Perm.swap a b l)

theorem ins_sorted (a : Nat) : ∀ l, l.Pairwise (· ≤ ·) → (ins a l).Pairwise (· ≤ ·) := by
  intro l
  induction l with
  | nil => intro _; simp [ins]
  | cons b l ih =>
    intro h
    unfold ins
    split
    · rename_i hab
      refine List.Pairwise.cons ?_ h
      intro c hc
      rcases List.mem_cons.mp hc with rfl | hc
      · exact hab
      · exact Nat.le_trans hab (List.rel_of_pairwise_cons h hc)
    · rename_i hab
      refine List.Pairwise.cons ?_ (ih h.tail)
      intro c hc
      rcases List.mem_cons.mp ((ins_perm a l).mem_iff.mp hc) with rfl | hc
      · omega
      · exact List.rel_of_pairwise_cons h hc

theorem isort_isSort : IsSort isort := by
  intro l
  induction l with
  | nil => exact ⟨List.Perm.refl _, List.Pairwise.nil⟩
  | cons a l ih =>
    exact ⟨(ins_perm a (isort l)).trans (List.Perm.cons a ih.1), ins_sorted a _ ih.2⟩

theorem nodup_filterMap_key {f : Nat → Option (Nat × Int)} (hf : ∀ a p, f a = some p → p.1 = a) :
    ∀ (l : List Nat), l.Nodup → (l.filterMap f).Nodup := by
  intro l
  induction l with
  | nil => intro _; simp
  | cons a l ih =>
    intro hn
    obtain ⟨ha, hn'⟩ := List.nodup_cons.mp hn
    cases hfa : f a with
    | none => simp only [List.filterMap_cons, hfa]; exact ih hn'
    | some p =>
      simp only [List.filterMap_cons, hfa]
      refine List.nodup_cons.mpr ⟨?_, ih hn'⟩
      intro hp
      obtain ⟨b, hb, hfb⟩ := List.mem_filterMap.mp hp
      have : b = a := by rw [← hf b p hfb, hf a p hfa]
      exact ha (this ▸ hb)

/-- the model's own enumeration of the `changes` map is an admissible order, and so is its reverse -/
theorem voteChanges_isChangeOrder (rate : Int) (j : List Log) : IsChangeOrder (voteChanges rate j) rate j := by
  refine ⟨?_, fun _ => Iff.rfl⟩
  unfold voteChanges
  apply nodup_filterMap_key _ _ (nodup_dedup _)
  intro a p h
  split at h
  · cases h
  · split at h
    · cases h
    · injection h with h; rw [← h]

theorem voteChanges_reverse_isChangeOrder (rate : Int) (j : List Log) :
    IsChangeOrder (voteChanges rate j).reverse rate j :=
  ⟨(List.reverse_perm _).nodup_iff.mpr (voteChanges_isChangeOrder rate j).1, fun _ => List.mem_reverse⟩

/-- pool 7 (balance 100); candidates 3 (deposit 30, balance 5) and 9 (deposit 20) leave; both vote for candidate 5
    (50 votes); 10 units of balance are one vote. -/
def exState : JS :=
  { cell := fun a t e => match a, t, e with
      | 7, 1, 0 => 100 | 3, 1, 0 => 5
      | 3, 13, 2 => 1030 | 9, 13, 2 => 1020
      | 3, 17, 0 => 5 | 9, 17, 0 => 5
      | 5, 13, 1 => 1 | 5, 18, 0 => 50
      | _, _, _ => 0 }

def exAfter (r : List Nat) (v : List (Nat × Int)) : JS := v.foldl voteStep (r.foldl (refundT 7) exState)

/-- the two orders leave DIFFERENT raw journals (the pool's balance logs and the candidate's vote logs carry other
    intermediate values, and the accounts appear in another order) … -/
example : (exAfter [3, 9] [(3, 3), (9, 2)]).logs ≠ (exAfter [9, 3] [(9, 2), (3, 3)]).logs := by decide

/-- … but publish the same list (evaluated with two different orders of every map range as well) -/
example : publish isort [3, 7, 9, 5] [5, 9, 7, 3] [3, 5, 7, 9, 11] (exAfter [3, 9] [(3, 3), (9, 2)]) =
          publish isort [9, 5, 3, 7] [7, 3, 5, 9] [12, 9, 7, 5, 3] (exAfter [9, 3] [(9, 2), (3, 3)]) := by decide

example : publish isort [3, 7, 9, 5] [5, 9, 7, 3] [3, 5, 7, 9, 11] (exAfter [3, 9] [(3, 3), (9, 2)]) =
    [ ⟨3, 1, 0, 5, 35, 1⟩, ⟨3, 13, 2, 1030, 0, 1⟩, ⟨5, 18, 0, 50, 55, 1⟩, ⟨7, 1, 0, 100, 50, 1⟩,
      ⟨9, 1, 0, 0, 20, 1⟩, ⟨9, 13, 2, 1020, 0, 1⟩ ] := by decide

example : refundAll 7 [3, 9] exState = some ([3, 9].foldl (refundT 7) exState) := by
  simp [refundAll, refund, refundPanics, depositOf, exState, refundT, JS.write, upd3, kDeposit]

/-- the root logs as coded: the storage root log of an account takes version `next + 1` of the provisional counter and is
    never recorded: two consecutive blocks that change the same account's storage both publish StorageRootLog version 1,
    while the StorageLog versions continue (2 after 1). -/
example :
    let b1 := (({} : JS).write 4 2 1 7)
    let p1 := finaliseParts isort [4] b1 (mergeChangeLogs isort [4] [4] b1.logs)
    let b2 := (b1.commit p1.1).write 4 2 1 8
    let p2 := finaliseParts isort [4] b2 (mergeChangeLogs isort [4] [4] b2.logs)
    (p1.1 ++ p1.2, p2.1 ++ p2.2) =
      ([⟨4, 2, 1, 0, 7, 1⟩, ⟨4, 3, 0, 0, 0, 1⟩], [⟨4, 2, 1, 7, 8, 2⟩, ⟨4, 3, 0, 0, 0, 1⟩]) := by decide

theorem exRefund (r : List Nat) (h : r = [3, 9] ∨ r = [9, 3]) : refundAll 7 r exState = some (r.foldl (refundT 7) exState) := by
  rcases h with rfl | rfl <;>
    simp [refundAll, refund, refundPanics, depositOf, exState, refundT, JS.write, upd3, kDeposit]

def exA : JS := (voteChanges 10 ([3, 9].foldl (refundT 7) exState).logs).foldl voteStep ([3, 9].foldl (refundT 7) exState)
def exB : JS := (voteChanges 10 ([9, 3].foldl (refundT 7) exState).logs).reverse.foldl voteStep ([9, 3].foldl (refundT 7) exState)

/-- every hypothesis of `finalize_order_independent` is satisfiable together (orders: the model's own enumerations on one
    side; the swapped refund list and the reversed `changes` order on the other; two different sorting algorithms) -/
example : publish sortNat (keysOf exA.logs) (keysOf exA.logs) (keysOf exA.logs) exA =
          publish isort (keysOf exB.logs) (keysOf exB.logs) (keysOf exB.logs) exB :=
  finalize_order_independent sortNat_isSort isort_isSort 7 10 exState (List.Perm.swap 9 3 []) (by decide) (by decide)
    (exRefund [3, 9] (Or.inl rfl)) (exRefund [9, 3] (Or.inr rfl))
    (voteChanges_isChangeOrder _ _) (voteChanges_reverse_isChangeOrder _ _)
    (keysOf_isKeyOrder _) (keysOf_isKeyOrder _) (keysOf_isCacheOrder _)
    (keysOf_isKeyOrder _) (keysOf_isKeyOrder _) (keysOf_isCacheOrder _)

/-- as coded: a setter call that changes nothing (equity nil over nothing: its log is dropped by removeUnchanged) still
    makes the entry dirty; `StorageCache.Update` then opens an empty trie over the ZERO root and returns the EMPTY-TRIE
    hash ≠ zero hash: an EquityRootLog is published for an account whose equity trie has no content (observed on the real
    code by the `mo-publish` lines; deterministic, not an order dependence). -/
example :
    let b := ((({} : JS).write 4 1 0 7).write 4 10 1 0)
    finalise isort [4] b (mergeChangeLogs isort [4] [4] b.logs) = [⟨4, 1, 0, 0, 7, 1⟩, ⟨4, 11, 0, 0, 0, 1⟩] := by decide

end LemoProofs.C01Order

/-
  C01, clause "the block result does not depend on hash-map iteration order" — two more places of LemoModel.MergeOrder:

  * the Index `Manager.updateVersion` writes into the event record of every AddEventLog (`setIdx` / `idxStep` /
    `eventIndices`): `eventIndices_spec` — whatever the order in which the account cache was ranged over and whatever
    sort.Sort does, the Index of an event log is the number of EARLIER event logs of the same account in the published list;
    `eventIndices_order_independent`; `eventIndex_consecutive` — per account the indices are 0, 1, 2, … in list order.
    NOTE: `Event.Index` is NOT consensus data — `rlpEvent{Address, Topics, Data}` (chain/types/event.go:53-57, "not secured by
    consensus" :32-33) does not encode it, so it reaches neither the log root nor a stored record; the Go is trivially
    order-free there (`eventIndex := uint(0)` per account, manager.go:212) and `eventIndices_spec` does not need `π3.Nodup`.
    These three theorems pin a field of the model that the tie prints; they carry no weight for the hash-map-order clause.
  * the one tx handler that turns a Go map into a sequence of journal writes, `ModifyAssetProfileTx` (`modifyProfile`):
    `modifyProfile_order_independent` — with the keys sorted first, the journal (the whole state) after the handler is a
    function of the map's CONTENT: any two visiting orders of the `range`, any two sorting algorithms, the same result.
    Its whole content is `keySorted_unique` ("key-sorted permutations of a list with distinct keys are equal", i.e.
    `srt π = srt' π'`): the proof unfolds `modifyProfile` and rewrites the sorted list, so the statement would hold for ANY
    loop body applied to the sorted list; it proves nothing about WHAT the handler writes (one type-5 log per key, ascending,
    consecutive versions) — that is the `mo-modprof` tie.  `sortKV_isKeySort` shows the hypothesis `IsKeySort` is inhabited.
    `modifyProfileUnsorted_order_dependent` — the refuted alternative (apply the entries in range order): two orders of
    one two-entry map leave two different journals AND two different published lists (AssetCodeStateLogs are never merged
    and always valuable), i.e. two different preimages of Header.LogRoot.
-/
import LemoModel.MergeOrder
import LemoProofs.C01Order
namespace LemoProofs.C01Tx
open LemoModel.MergeOrder LemoProofs.C01Order

/-! ### the event Index -/

def bump (cnt : Nat → Nat) (a : Nat) : Nat → Nat := fun x => if x = a then cnt a + 1 else cnt x

/-- specification, restricted to the accounts `K` already visited: the Index of an event log = how many event logs of
    the same account stand before it (`cnt` = the counts so far) -/
def specK (K : List Nat) : (Nat → Nat) → List Log → List (Option Nat)
  | _, [] => []
  | cnt, l :: ls =>
    (if l.ty = 15 ∧ l.addr ∈ K then some (cnt l.addr) else none) ::
      specK K (if l.ty = 15 then bump cnt l.addr else cnt) ls

/-- the specification for all accounts -/
def specIdx : (Nat → Nat) → List Log → List (Option Nat)
  | _, [] => []
  | cnt, l :: ls =>
    (if l.ty = 15 then some (cnt l.addr) else none) :: specIdx (if l.ty = 15 then bump cnt l.addr else cnt) ls

theorem specK_nil : ∀ (L : List Log) (cnt : Nat → Nat), specK [] cnt L = L.map (fun _ => none) := by
  intro L
  induction L with
  | nil => intro cnt; rfl
  | cons l ls ih => intro cnt; simp [specK, ih]

theorem specK_all (K : List Nat) : ∀ (L : List Log) (cnt : Nat → Nat), (∀ l ∈ L, l.addr ∈ K) →
    specK K cnt L = specIdx cnt L := by
  intro L
  induction L with
  | nil => intro cnt _; rfl
  | cons l ls ih =>
    intro cnt h
    have hl : l.addr ∈ K := h l List.mem_cons_self
    simp only [specK, specIdx, hl, and_true]
    rw [ih _ (fun x hx => h x (List.mem_cons_of_mem _ hx))]

/-- one `updateVersion` pass for account `a` (not visited before) extends the specification from `K` to `a :: K` -/
theorem setIdx_specK (a : Nat) (K : List Nat) : ∀ (L : List Log) (cnt : Nat → Nat),
    setIdx a (cnt a) L (specK K cnt L) = specK (a :: K) cnt L := by
  intro L
  induction L with
  | nil => intro cnt; simp [specK, setIdx]
  | cons l ls ih =>
    intro cnt
    simp only [specK, setIdx]
    by_cases h15 : l.ty = 15
    · by_cases hla : l.addr = a
      · have e := ih (bump cnt a)
        have hb : bump cnt a a = cnt a + 1 := by simp [bump]
        rw [hb] at e
        simp only [h15, hla, and_self, if_true, List.mem_cons, true_or]
        rw [e]
      · have hb : bump cnt l.addr a = cnt a := by
          have : a ≠ l.addr := fun e => hla e.symm
          simp [bump, this]
        have e := ih (bump cnt l.addr)
        rw [hb] at e
        have hm : (l.addr ∈ a :: K) ↔ l.addr ∈ K := by
          simp [List.mem_cons, hla]
        simp only [h15, hla, false_and, if_false, true_and, if_true, hm]
        rw [e]
    · simp only [h15, false_and, and_false, if_false]
      rw [ih cnt]

theorem setIdx_noLogs (a : Nat) : ∀ (L : List Log) (k : Nat) (idx : List (Option Nat)),
    L.any (fun l => l.addr == a) = false → setIdx a k L idx = idx := by
  intro L
  induction L with
  | nil => intro k idx _; cases idx <;> rfl
  | cons l ls ih =>
    intro k idx h
    simp only [List.any_cons, Bool.or_eq_false_iff, beq_eq_false_iff_ne, ne_eq] at h
    cases idx with
    | nil => rfl
    | cons i is =>
      simp only [setIdx, h.1, false_and, if_false]
      rw [ih k is h.2]

/-- an account without logs is skipped by `Finalise` — `updateVersion` would not have written anything -/
theorem idxStep_eq (L : List Log) (idx : List (Option Nat)) (a : Nat) : idxStep L idx a = setIdx a 0 L idx := by
  unfold idxStep
  by_cases h : L.any (fun l => l.addr == a) = true
  · rw [if_pos h]
  · rw [if_neg h, setIdx_noLogs a L 0 idx (by simpa using h)]

theorem foldl_idxStep (L : List Log) : ∀ (K' K : List Nat),
    K'.foldl (idxStep L) (specK K (fun _ => 0) L) = specK (K'.reverse ++ K) (fun _ => 0) L := by
  intro K'
  induction K' with
  | nil => intro K; rfl
  | cons a K'' ih =>
    intro K
    simp only [List.foldl_cons]
    rw [idxStep_eq]
    have e := setIdx_specK a K L (fun _ => 0)
    rw [e, ih (a :: K)]
    simp [List.reverse_cons, List.append_assoc]

/-- **eventIndices_spec**: after `Finalise`, whatever the order `π3` in which the account cache was ranged over (every
    account with a log is in the cache, once) and whatever sort.Sort does, the Index of every event log is the number of
    earlier event logs of the same account in the list. -/
theorem eventIndices_spec {srt : List Nat → List Nat} (hs : IsSort srt) (L : List Log) {π3 : List Nat}
    (hc : ∀ l ∈ L, l.addr ∈ π3) :
    eventIndices srt π3 L = specIdx (fun _ => 0) L := by
  unfold eventIndices
  rw [← specK_nil L (fun _ => 0), foldl_idxStep L (srt π3) []]
  apply specK_all
  intro l hl
  simp only [List.append_nil, List.mem_reverse]
  exact (hs π3).1.mem_iff.mpr (hc l hl)

/-- **eventIndices_order_independent**: two nodes (two cache orders, two sorting algorithms, other untouched accounts in
    the cache) write the same Index into every event record -/
theorem eventIndices_order_independent {srt srt' : List Nat → List Nat} (hs : IsSort srt) (hs' : IsSort srt')
    (L : List Log) {π3 π3' : List Nat} (hc : ∀ l ∈ L, l.addr ∈ π3) (hc' : ∀ l ∈ L, l.addr ∈ π3') :
    eventIndices srt π3 L = eventIndices srt' π3' L := by
  rw [eventIndices_spec hs L hc, eventIndices_spec hs' L hc']

/-- the indices the specification gives to the event logs of account `a`, in list order -/
def idxOf (a : Nat) (L : List Log) (idx : List (Option Nat)) : List Nat :=
  (L.zip idx).filterMap (fun p => if p.1.addr = a then p.2 else none)

theorem specIdx_consecutive (a : Nat) : ∀ (L : List Log) (cnt : Nat → Nat),
    idxOf a L (specIdx cnt L) = List.range' (cnt a) (L.filter (fun l => l.addr == a && l.ty == 15)).length := by
  intro L
  induction L with
  | nil => intro cnt; rfl
  | cons l ls ih =>
    intro cnt
    unfold idxOf at ih ⊢
    simp only [specIdx, List.zip_cons_cons, List.filterMap_cons, List.filter_cons]
    by_cases h15 : l.ty = 15
    · by_cases hla : l.addr = a
      · subst hla
        have hb : bump cnt l.addr l.addr = cnt l.addr + 1 := by simp [bump]
        simp only [h15, if_true, beq_self_eq_true, Bool.and_self, List.length_cons]
        rw [ih (bump cnt l.addr), hb]
        rfl
      · have hb : bump cnt l.addr a = cnt a := by
          have : a ≠ l.addr := fun e => hla e.symm
          simp [bump, this]
        have hf : (l.addr == a) = false := by simpa using hla
        simp only [h15, hla, if_true, if_false, hf, Bool.false_and]
        rw [ih (bump cnt l.addr), hb]
        simp
    · have hf : (l.ty == 15) = false := by simpa using h15
      simp only [h15, if_false, hf, Bool.and_false, ite_self]
      exact ih cnt

/-- **eventIndex_consecutive**: in the published list the event logs of every account carry the indices 0, 1, 2, … in
    list order -/
theorem eventIndex_consecutive {srt : List Nat → List Nat} (hs : IsSort srt) (L : List Log) {π3 : List Nat}
    (hc : ∀ l ∈ L, l.addr ∈ π3) (a : Nat) :
    idxOf a L (eventIndices srt π3 L) = List.range (L.filter (fun l => l.addr == a && l.ty == 15)).length := by
  rw [eventIndices_spec hs L hc, specIdx_consecutive a L (fun _ => 0), List.range_eq_range']

/-- non-vacuity: three events of two accounts, another log in between, two cache orders -/
example : eventIndices isort [9, 4, 7] [⟨4, 15, 0, 0, 1, 1⟩, ⟨4, 1, 0, 0, 5, 1⟩, ⟨4, 15, 0, 0, 2, 2⟩, ⟨7, 15, 0, 0, 3, 1⟩] =
    [some 0, none, some 1, some 0] := by decide
example : eventIndices isort [7, 4] [⟨4, 15, 0, 0, 1, 1⟩, ⟨4, 1, 0, 0, 5, 1⟩, ⟨4, 15, 0, 0, 2, 2⟩, ⟨7, 15, 0, 0, 3, 1⟩] =
    [some 0, none, some 1, some 0] := by decide

/-! ### ModifyAssetProfileTx: sorted keys -/

theorem eq_of_key_eq : ∀ l : List (Nat × Int), (l.map (·.1)).Nodup → ∀ x ∈ l, ∀ y ∈ l, x.1 = y.1 → x = y := by
  intro l
  induction l with
  | nil => intro _ x hx; cases hx
  | cons z l ih =>
    intro hn x hx y hy hxy
    simp only [List.map_cons] at hn
    obtain ⟨hz, hn'⟩ := List.nodup_cons.mp hn
    rcases List.mem_cons.mp hx with hxz | hxl
    · rcases List.mem_cons.mp hy with hyz | hyl
      · rw [hxz, hyz]
      · have h := List.mem_map_of_mem (f := (·.1)) hyl
        rw [← hxy, hxz] at h
        exact absurd h hz
    · rcases List.mem_cons.mp hy with hyz | hyl
      · have h := List.mem_map_of_mem (f := (·.1)) hxl
        rw [hxy, hyz] at h
        exact absurd h hz
      · exact ih hn' x hxl y hyl hxy

/-- a list of map entries (distinct keys) that is ascending by key is determined by its elements -/
theorem keySorted_unique {l l' : List (Nat × Int)} (hp : l.Perm l') (hk : (l.map (·.1)).Nodup)
    (h1 : l.Pairwise (fun x y => x.1 ≤ y.1)) (h2 : l'.Pairwise (fun x y => x.1 ≤ y.1)) : l = l' := by
  apply List.Perm.eq_of_pairwise (le := fun x y => x.1 ≤ y.1) _ h1 h2 hp
  intro x y hx hy hxy hyx
  have hy' : y ∈ l := hp.mem_iff.mpr hy
  have hkey : x.1 = y.1 := Nat.le_antisymm hxy hyx
  exact eq_of_key_eq l hk x hx y hy' hkey

/-- **modifyProfile_order_independent**: the handler as coded (keys collected in range order `π`, sorted, applied): for
    every journal state, any two visiting orders of the same map (`Perm`, distinct keys) and any two sorting algorithms
    leave the SAME state — cells, version counters and the journal, log for log.  (Content: `srt π = srt' π'` by
    `keySorted_unique`; true for any function of the sorted list, nothing specific to SetAssetCodeState is used.) -/
theorem modifyProfile_order_independent {srt srt' : List (Nat × Int) → List (Nat × Int)}
    (hs : IsKeySort srt) (hs' : IsKeySort srt') (s : JS) (a code : Nat) {π π' : List (Nat × Int)}
    (hp : π.Perm π') (hk : (π.map (·.1)).Nodup) :
    modifyProfile srt s a code π = modifyProfile srt' s a code π' := by
  unfold modifyProfile
  have hperm : (srt π).Perm (srt' π') := ((hs π).1.trans hp).trans (hs' π').1.symm
  have hk' : ((srt π).map (·.1)).Nodup := ((hs π).1.map (·.1)).nodup_iff.mpr hk
  rw [keySorted_unique hperm hk' (hs π).2 (hs' π').2]

theorem insKV_perm (x : Nat × Int) : ∀ l, (insKV x l).Perm (x :: l) := by
  intro l
  induction l with
  | nil => exact List.Perm.refl _
  | cons y l ih =>
    unfold insKV
    split
    · exact List.Perm.refl _
    · exact (List.Perm.cons y ih).trans (List.Perm.swap x y l)

theorem insKV_sorted (x : Nat × Int) : ∀ l, l.Pairwise (fun p q => p.1 ≤ q.1) → (insKV x l).Pairwise (fun p q => p.1 ≤ q.1) := by
  intro l
  induction l with
  | nil => intro _; simp [insKV]
  | cons y l ih =>
    intro h
    unfold insKV
    split
    · rename_i hxy
      refine List.Pairwise.cons ?_ h
      intro c hc
      rcases List.mem_cons.mp hc with rfl | hc
      · exact hxy
      · exact Nat.le_trans hxy (List.rel_of_pairwise_cons h hc)
    · rename_i hxy
      refine List.Pairwise.cons ?_ (ih h.tail)
      intro c hc
      rcases List.mem_cons.mp ((insKV_perm x l).mem_iff.mp hc) with rfl | hc
      · omega
      · exact List.rel_of_pairwise_cons h hc

/-- the model's executable sort (what the driver runs) is an admissible `sort.Strings` -/
theorem sortKV_isKeySort : IsKeySort sortKV := by
  intro l
  induction l with
  | nil => exact ⟨List.Perm.refl _, List.Pairwise.nil⟩
  | cons x l ih =>
    exact ⟨(insKV_perm x (sortKV l)).trans (List.Perm.cons x ih.1), insKV_sorted x _ ih.2⟩

/-- account 7 holds asset 1 (id 1, supply 100, empty profile) -/
def exAsset : JS := ({} : JS).setAsset 7 1 1 100 []

/-- non-vacuity: the handler succeeds and writes one log per entry, ascending by key, for both orders -/
example : ((modifyProfile sortKV exAsset 7 1 [(4, 2), (3, 1)]).1.logs.map (fun l => (l.ty, l.extra, l.new)),
           (modifyProfile sortKV exAsset 7 1 [(4, 2), (3, 1)]).2) =
    ([(4, 1, 1000100), (5, 103, 1), (5, 104, 2)], true) := by decide
example : modifyProfile sortKV exAsset 7 1 [(4, 2), (3, 1)] = modifyProfile sortKV exAsset 7 1 [(3, 1), (4, 2)] :=
  modifyProfile_order_independent sortKV_isKeySort sortKV_isKeySort exAsset 7 1 (List.Perm.swap _ _ _) (by decide)

/-- **modifyProfileUnsorted_order_dependent** (refutation of the alternative "apply the entries in range order"): one map
    {3 ↦ 1, 4 ↦ 2}, two visiting orders — two different journals and two different PUBLISHED lists (what Header.LogRoot
    hashes): the miner and the validator would disagree on the log root. -/
theorem modifyProfileUnsorted_order_dependent :
    ∃ (s : JS) (a code : Nat) (π π' : List (Nat × Int)), π.Perm π' ∧ (π.map (·.1)).Nodup ∧
      (modifyProfileUnsorted s a code π).1.logs ≠ (modifyProfileUnsorted s a code π').1.logs ∧
      publish isort [a] [a] [a] (modifyProfileUnsorted s a code π).1 ≠
        publish isort [a] [a] [a] (modifyProfileUnsorted s a code π').1 :=
  ⟨exAsset, 7, 1, [(3, 1), (4, 2)], [(4, 2), (3, 1)], List.Perm.swap _ _ _, by decide, by decide, by decide⟩

end LemoProofs.C01Tx

/-
  C02 — Block acceptance is sound: only valid, in-turn, correctly signed blocks enter;
        a rejection leaves the chain exactly as it was.

  Objects: `LemoModel.Validator` (literal sequence of the checks of DPoVP.InsertBlock →
  isIgnorableBlock → VerifyBeforeTxProcess → RunBlock → VerifyAfterTxProcess → saveNewBlock), with the
  slot arithmetic taken from the GENERATED `LemoGen.Schedule.GetCorrectMiner` through the C13 model
  `LemoModel.Sched.correctMiner`, and the expiry window from the generated `LemoGen.TxWindow`.
  The model is tied to the real engine by `hx c02` (every single-field mutation of a real block, pairs,
  five signer variants; verdict of the real InsertBlock and error class of the real VerifyBeforeTxProcess).

  Hypotheses that are NOT theorems about the code:
    * `HashInjective` — Keccak-256 of the RLP of the hashed tuple is collision free;
    * `recover` is whatever secp256k1 recovery returns (unforgeability is outside the model);
    * `reexec` is TxProcessor.Process + Finalize on the parent's state (properties C01/C04/C05…).

  `accept_total : accept c b ≠ .panic` is a FULL theorem since fix 26f228d in /repo
  (chain/consensus/schedule.go: `GetCorrectMiner` returns ErrSmallerMineTime instead of
  `panic("mineTime should be milliseconds")` for a stamp below 10^10 ms).  Before that commit the statement
  was false: any block with `Header.Time < 10^7`, signed by ANY deputy of the term that names itself as
  miner, with a correct tx root / height and no transactions, crashed every validating node (oracle
  signature `c02/panic/mine-time-not-ms`; `legacy_getCorrectMiner_panics` keeps the witness on a frozen
  copy of the old generated function, `tiny_stamp_rejected` is the same block on the current code).

  What acceptance does NOT constrain (faithful to `BlockAssembler.Seal`, which copies these fields from
  the received header): `GasLimit` at every height and `DeputyRoot` at non-snapshot heights —
  `gasLimit_unconstrained`, `deputyRoot_unconstrained_off_snapshot`
  (oracle signatures `c02/accepted-invalid/GasLimit`, `c02/accepted-invalid/DeputyRoot`).
  Body parts not covered by the header hash (`Confirms`, `ChangeLogs`, `DeputyNodes`) are replaced by
  locally computed values before the block is stored (the stored block is the sealed one).
-/
import LemoProofs.Lemmas.Validator
import Mathlib.Data.Nat.Pairing
namespace LemoProofs.C02
open LemoModel LemoModel.Validator LemoModel.Sched LemoGen.Schedule LemoGen.TxWindow LemoProofs.ValidatorLemmas

/-- collision freedom of the header hash (crypto hypothesis) -/
def HashInjective (c : Ctx) : Prop := ∀ x y : Header, c.hash x = c.hash y → x = y

/-! ### hash_covers -/

/-- **hash_covers**: two headers have the same hashed tuple iff they agree on every field except `signData`
    (the Go side of this — field list of `Header` vs. the literal in `Header.Hash()` — is compared with
    `headerFields` by the op `hashfield` of `hx c02` on every run). -/
theorem hash_covers (h h' : Header) :
    h.hashed = h'.hashed ↔
      (h.parentHash = h'.parentHash ∧ h.miner = h'.miner ∧ h.versionRoot = h'.versionRoot ∧ h.txRoot = h'.txRoot ∧
       h.logRoot = h'.logRoot ∧ h.height = h'.height ∧ h.gasLimit = h'.gasLimit ∧ h.gasUsed = h'.gasUsed ∧
       h.time = h'.time ∧ h.deputyRoot = h'.deputyRoot ∧ h.extra = h'.extra) := by
  cases h; cases h'
  simp [Header.hashed]

/-- the signature is the only header field outside the hash -/
theorem signData_not_hashed (h : Header) (s : Nat) : ({ h with signData := s }).hashed = h.hashed := rfl

/-- the field table the harness compares with the Go AST says the same -/
theorem headerFields_uncovered : (headerFields.filter (fun p => !p.2)).map (·.1) = ["SignData"] := by decide

/-- any corruption of a hashed field changes the hash the signature is checked against -/
theorem corruption_changes_hash (c : Ctx) (hinj : HashInjective c) (h h' : Header) (hne : h.hashed ≠ h'.hashed) :
    c.hash h.hashed ≠ c.hash h'.hashed := fun e => hne (hinj _ _ e)

/-! ### accept_sound -/

/-- **accept_sound**: every clause of the property follows from `accept c b = .ok`.
    `parent.time ≤ b.time` AND `10^7 ≤ b.time` both come out of the schedule's two `ErrSmallerMineTime`
    branches (stamp below 10^10 ms, negative pass time): `GetCorrectMiner = .ok` iff neither fires
    (`gcm_ok_iff` ⇒ `turn_ok`). -/
theorem accept_sound (c : Ctx) (b : Block) (hinj : HashInjective c)
    (hexp : ∀ tx ∈ b.txs, tx.exp < 18446744073709551616)
    (hu32 : ∀ p, c.load b.header.parentHash = some p → p.height + 1 < u32)
    (hok : accept c b = .ok) :
    ∃ (parent : Header) (signer inTurn : Deputy) (r vr lr tr gu ldr : Nat),
      -- parent known, height, time, extra
      c.load b.header.parentHash = some parent ∧
      b.header.height = parent.height + 1 ∧
      parent.time ≤ b.header.time ∧ (b.header.time : Int) ≤ c.now + 1 ∧ 10000000 ≤ b.header.time ∧
      b.header.extra.length ≤ maxExtraDataLen ∧
      -- signer: a deputy of the block's term whose miner address is the header's
      c.recover (c.hash b.header.hashed) b.header.signData = some signer.nodeId ∧
      signer ∈ c.deputies b.header.height ∧ signer.miner = b.header.miner ∧
      -- in turn: the rank the C13 schedule names for b.time is a deputy with the header's miner address
      correctMiner (c.deputies b.header.height).length
        (isSpecial b.header.height c.termDuration c.interimDuration)
        (rankOfMiner (c.deputies b.header.height) parent.miner)
        parent.time parent.height ((b.header.time : Int) * 1000) c.mineTimeout = .ok r ∧
      (c.deputies b.header.height)[r]? = some inTurn ∧ inTurn.miner = b.header.miner ∧
      -- transactions
      c.merkleRoot b.txs = b.header.txRoot ∧
      c.onAncestor b.header.parentHash b.txs = some false ∧
      (c.dupCheck = true → hasDup (blockHashes b.txs) = false) ∧
      (∀ tx ∈ b.txs, b.header.time ≤ tx.exp ∧ tx.exp ≤ b.header.time + 1800 ∧ tx.bodyOk = true) ∧
      -- re-execution reproduces the header
      c.reexec b = .ok vr lr tr gu ldr ∧
      b.header.versionRoot = vr ∧ b.header.logRoot = lr ∧ b.header.txRoot = tr ∧ b.header.gasUsed = gu ∧
      (IsSnapshotBlock (height := b.header.height) (params_TermDuration := c.termDuration) = true →
        b.header.deputyRoot = ldr ∧ b.deputyNodesRoot = ldr) ∧
      (∀ x, b.logsRoot = some x → x = lr) := by
  unfold accept at hok
  split at hok
  · rename_i hb
    obtain ⟨parent, hload, hsig, htxr, hh, hfut, hex, htxs, hvm⟩ := verifyBefore_ok hb
    obtain ⟨signer, hrec, hmem, hminer⟩ := verifySigner_none hsig
    obtain ⟨hdup, hanc, hall⟩ := verifyTxs_ok htxs
    obtain ⟨r, d, hturn, hd, hdm⟩ := verifyMiner_ok hvm
    obtain ⟨h1e7, hpt, _, _, hcm⟩ := turn_ok hturn
    obtain ⟨vr, lr, tr, gu, ldr, hre, hsnap, hlogs, hlr, hhash⟩ := verifyAfter_ok hok
    have hseal := hinj _ _ hhash
    have hheight : b.header.height = parent.height + 1 := by
      rw [← hh, GoSem.uadd_small (hu32 parent hload)]
    rw [hh] at hcm hd
    refine ⟨parent, signer, d, r, vr, lr, tr, gu, ldr, hload, hheight, hpt, hfut, h1e7, hex, hrec, hmem, hminer,
      hcm, hd, hdm, htxr, hanc, hdup, ?_, hre, ?_, hlr.symm, ?_, ?_, ?_, ?_⟩
    · intro tx htx
      exact txOk_bounds (hexp tx htx) (hall tx htx).1
    · have := congrArg Header.versionRoot hseal
      simpa [sealHeader, Header.hashed] using this.symm
    · have := congrArg Header.txRoot hseal
      simpa [sealHeader, Header.hashed] using this.symm
    · have := congrArg Header.gasUsed hseal
      simpa [sealHeader, Header.hashed] using this.symm
    · intro hs
      obtain ⟨h1, h2⟩ := hsnap hs
      exact ⟨h2.symm, by rw [h1, h2]⟩
    · intro x hx
      rw [hlogs x hx, hlr]
  · rename_i hne
    exfalso
    cases hvb : verifyBefore c b with
    | ok => exact hne hvb
    | ignored => rw [hvb] at hok; cases hok
    | reject r => rw [hvb] at hok; cases hok
    | panic => rw [hvb] at hok; cases hok
    | saveFailed => rw [hvb] at hok; cases hok

/-- **accept_signer_is_in_turn** (the clause "signed by the deputy whose slot it is", as an identity):
    `accept_sound` only gives `signer.miner = header.miner = inTurn.miner`. `NewTermRecord` checks ranks and
    votes but NOT that miner addresses (or node ids) are pairwise different, so the identity needs the
    hypothesis `hnodup` (true on the real engine because a deputy list is cut from the candidate ranking,
    which is keyed by the candidate's account address = its miner address). Under it the recovered signer
    IS the deputy at the rank the C13 schedule names. -/
theorem accept_signer_is_in_turn (c : Ctx) (b : Block) (hinj : HashInjective c)
    (hexp : ∀ tx ∈ b.txs, tx.exp < 18446744073709551616)
    (hu32 : ∀ p, c.load b.header.parentHash = some p → p.height + 1 < u32)
    (hnodup : ∀ d1 ∈ c.deputies b.header.height, ∀ d2 ∈ c.deputies b.header.height, d1.miner = d2.miner → d1 = d2)
    (hok : accept c b = .ok) :
    ∃ (parent : Header) (signer : Deputy) (r : Nat),
      c.load b.header.parentHash = some parent ∧
      c.recover (c.hash b.header.hashed) b.header.signData = some signer.nodeId ∧
      correctMiner (c.deputies b.header.height).length
        (isSpecial b.header.height c.termDuration c.interimDuration)
        (rankOfMiner (c.deputies b.header.height) parent.miner)
        parent.time parent.height ((b.header.time : Int) * 1000) c.mineTimeout = .ok r ∧
      (c.deputies b.header.height)[r]? = some signer := by
  obtain ⟨parent, signer, d, r, _, _, _, _, _, hload, _, _, _, _, _, hrec, hmem, hminer, hcm, hd, hdm, _⟩ :=
    accept_sound c b hinj hexp hu32 hok
  have hdmem : d ∈ c.deputies b.header.height := List.mem_of_getElem? hd
  have : signer = d := hnodup signer hmem d hdmem (by rw [hminer, hdm])
  exact ⟨parent, signer, r, hload, hrec, hcm, by rw [this]; exact hd⟩

/-- the accepted block's miner, in closed form (C13 `rotation`): if the block is stamped `k` whole slots
    (+ a remainder `< T`) after its parent, its miner is the deputy of rank `(rank(parent) + k + 1) mod n`
    — rank `k mod n` at height 1 and at the first block of a term. -/
theorem accepted_slot_owner (c : Ctx) (b : Block) (hinj : HashInjective c)
    (hexp : ∀ tx ∈ b.txs, tx.exp < 18446744073709551616)
    (hu32 : ∀ p, c.load b.header.parentHash = some p → p.height + 1 < u32)
    (hT : 0 < c.mineTimeout) (hn' : (c.deputies b.header.height).length < 1000000000)
    (hok : accept c b = .ok) :
    ∃ parent, c.load b.header.parentHash = some parent ∧
      ∀ (k : Nat) (rem : Int), 0 ≤ rem → rem < c.mineTimeout →
        (b.header.time : Int) * 1000 = (parent.time : Int) * 1000 + k * c.mineTimeout + rem →
        ∃ d, d.miner = b.header.miner ∧
          if isSpecial b.header.height c.termDuration c.interimDuration
          then (c.deputies b.header.height)[k % (c.deputies b.header.height).length]? = some d
          else ∃ p, rankOfMiner (c.deputies b.header.height) parent.miner = some p ∧
            (c.deputies b.header.height)[(p + k + 1) % (c.deputies b.header.height).length]? = some d := by
  obtain ⟨parent, signer, d, r, vr, lr, tr, gu, ldr, hload, _, hpt, _, h1e7, _, _, hmem, _, hcm, hd, hdm, _⟩ :=
    accept_sound c b hinj hexp hu32 hok
  refine ⟨parent, hload, fun k rem h0 h1 hmt => ⟨d, hdm, ?_⟩⟩
  have hn : 0 < (c.deputies b.header.height).length := List.length_pos_of_mem hmem
  have hms : (10000000000 : Int) ≤ (b.header.time : Int) * 1000 := by omega
  generalize hprq : rankOfMiner (c.deputies b.header.height) parent.miner = pr at hcm ⊢
  have hprlt : ∀ p, pr = some p → p < (c.deputies b.header.height).length :=
    fun p hp => rankOfMiner_some (hprq.trans hp)
  generalize hsq : isSpecial b.header.height c.termDuration c.interimDuration = special at hcm ⊢
  have hrot := LemoProofs.C13.rotation (c.deputies b.header.height).length special pr c.mineTimeout
    ((b.header.time : Int) * 1000) parent.time parent.height k rem hn hn' hT hms h0 h1 hmt hprlt
  rw [hcm] at hrot
  cases special with
  | true =>
    rw [if_pos rfl] at hrot
    have hrot' := GoRes.ok.inj hrot
    rw [if_pos rfl, ← hrot']; exact hd
  | false =>
    rw [if_neg (by decide)] at hrot
    rw [if_neg (by decide)]
    cases pr with
    | none => cases hrot
    | some p =>
      have hrot' := GoRes.ok.inj hrot
      exact ⟨p, rfl, by rw [← hrot']; exact hd⟩

/-! ### reject_no_effect -/

/-- the verdict of `insertBlock`: `ignored`, or the acceptance decision — refined by the outcome of the save
    when that decision is ok -/
theorem insert_verdict {σ : Type} (view : σ → Ctx) (save : σ → Block → σ × Bool) (e : Engine σ) (b : Block) :
    (insertBlock view save e b).2 =
      if ignorable (view e.durable) b then .ignored
      else match accept (view e.durable) b with
        | .ok => if (save e.durable b).2 then .ok else .saveFailed
        | v => v := by
  unfold insertBlock accept
  simp only
  split
  · rfl
  · cases hvb : verifyBefore (view e.durable) b with
    | ok =>
      simp only
      cases hva : verifyAfter (view e.durable) b <;> rfl
    | ignored => rfl
    | reject r => rfl
    | panic => rfl
    | saveFailed => rfl

/-- **reject_no_effect**: whenever the verdict comes from VERIFICATION — ignored, rejected for any reason,
    or a panic inside a check — the durable engine state (everything `TryConfirm`/`saveNewBlock` may touch:
    store, stable pointer, head, tx guard, tx pool, term table, last signature) is exactly what it was.

    Scope, stated honestly: the checks of the model are pure functions of the node view, so what this
    theorem certifies is the CONTROL FLOW — the only writer, `save`, is reached solely through
    `accept = .ok` (see `ok_saves`, `saveFailed_only_after_accept`). That no verification step of the Go
    code writes durable state is checked on the real engine by the before/after fingerprint oracle of
    `hx c02` (`c02/reject-side-effect/*`), not by this theorem.  The remaining non-ok verdict, `.saveFailed`,
    is NOT covered and is false there: see `save_failure_leaves_state`. -/
theorem reject_no_effect {σ : Type} (view : σ → Ctx) (save : σ → Block → σ × Bool) (e : Engine σ) (b : Block)
    (h : (insertBlock view save e b).2 ≠ .ok) (hs : (insertBlock view save e b).2 ≠ .saveFailed) :
    (insertBlock view save e b).1.durable = e.durable := by
  unfold insertBlock at h hs ⊢
  simp only at h hs ⊢
  by_cases hi : ignorable (view e.durable) b = true
  · simp [hi]
  · cases hvb : verifyBefore (view e.durable) b with
    | ok =>
      cases hva : verifyAfter (view e.durable) b with
      | ok =>
        by_cases hsv : (save e.durable b).2 = true
        · simp [hi, hvb, hva, hsv] at h
        · simp [hi, hvb, hva, hsv] at hs
      | ignored => simp [hi]
      | reject r => simp [hi]
      | panic => simp [hi]
      | saveFailed => simp [hi]
    | ignored => simp [hi]
    | reject r => simp [hi]
    | panic => simp [hi]
    | saveFailed => simp [hi]

/-- the property's clause read on the BLOCK instead of on the verdict: a block that is ignorable or that
    `accept` does not pass can neither change the durable state nor come back as ok / save error -/
theorem invalid_block_no_effect {σ : Type} (view : σ → Ctx) (save : σ → Block → σ × Bool) (e : Engine σ) (b : Block)
    (h : ignorable (view e.durable) b = true ∨ accept (view e.durable) b ≠ .ok) :
    (insertBlock view save e b).1.durable = e.durable ∧ (insertBlock view save e b).2 ≠ .ok ∧
    (insertBlock view save e b).2 ≠ .saveFailed := by
  have hv := insert_verdict view save e b
  have hne : (insertBlock view save e b).2 ≠ .ok ∧ (insertBlock view save e b).2 ≠ .saveFailed := by
    rw [hv]
    by_cases hi : ignorable (view e.durable) b = true
    · simp [hi]
    · have hacc : accept (view e.durable) b ≠ .ok := by
        rcases h with h | h
        · exact absurd h hi
        · exact h
      simp only [hi, Bool.false_eq_true, if_false]
      have hsf : accept (view e.durable) b ≠ .saveFailed := accept_ne_saveFailed _ _
      cases hacc' : accept (view e.durable) b with
      | ok => exact absurd hacc' hacc
      | ignored => simp
      | reject r => simp
      | panic => simp
      | saveFailed => exact absurd hacc' hsf
  exact ⟨reject_no_effect view save e b hne.1 hne.2, hne⟩

/-- a block is saved only when it is not ignorable and `accept` says ok; then exactly `save` is applied
    and it reported success -/
theorem ok_saves {σ : Type} (view : σ → Ctx) (save : σ → Block → σ × Bool) (e : Engine σ) (b : Block)
    (h : (insertBlock view save e b).2 = .ok) :
    ignorable (view e.durable) b = false ∧ accept (view e.durable) b = .ok ∧
    (save e.durable b).2 = true ∧ (insertBlock view save e b).1.durable = (save e.durable b).1 := by
  by_cases hi : ignorable (view e.durable) b = true
  · have := (invalid_block_no_effect view save e b (Or.inl hi)).2.1
    exact absurd h this
  · by_cases hacc : accept (view e.durable) b = .ok
    · have hi' : ignorable (view e.durable) b = false := by simpa using hi
      have hv := insert_verdict view save e b
      rw [h] at hv
      simp only [hi', Bool.false_eq_true, if_false, hacc] at hv
      have hsv : (save e.durable b).2 = true := by
        by_cases hsv : (save e.durable b).2 = true
        · exact hsv
        · simp [hsv] at hv
      refine ⟨hi', hacc, hsv, ?_⟩
      unfold accept at hacc
      unfold insertBlock
      simp only [hi', Bool.false_eq_true, if_false]
      cases hvb : verifyBefore (view e.durable) b with
      | ok =>
        rw [hvb] at hacc
        simp only at hacc ⊢
        rw [hacc]
      | ignored => rw [hvb] at hacc; cases hacc
      | reject r => rw [hvb] at hacc; cases hacc
      | panic => rw [hvb] at hacc; cases hacc
      | saveFailed => rw [hvb] at hacc; cases hacc
    · have := (invalid_block_no_effect view save e b (Or.inr hacc)).2.1
      exact absurd h this

/-- a save error is only ever reported for a block that passed EVERY check (so it is outside the property's
    "any other block is rejected"); the state is then whatever `save` left behind -/
theorem saveFailed_only_after_accept {σ : Type} (view : σ → Ctx) (save : σ → Block → σ × Bool) (e : Engine σ) (b : Block)
    (h : (insertBlock view save e b).2 = .saveFailed) :
    ignorable (view e.durable) b = false ∧ accept (view e.durable) b = .ok ∧ (save e.durable b).2 = false := by
  by_cases hi : ignorable (view e.durable) b = true
  · exact absurd h (invalid_block_no_effect view save e b (Or.inl hi)).2.2
  · by_cases hacc : accept (view e.durable) b = .ok
    · have hi' : ignorable (view e.durable) b = false := by simpa using hi
      have hv := insert_verdict view save e b
      rw [h] at hv
      simp only [hi', Bool.false_eq_true, if_false, hacc] at hv
      refine ⟨hi', hacc, ?_⟩
      by_cases hsv : (save e.durable b).2 = true
      · simp [hsv] at hv
      · simpa using hsv
    · exact absurd h (invalid_block_no_effect view save e b (Or.inr hacc)).2.2

/-! ### accept_total -/

namespace Witness

def deps : List Deputy := [⟨10, 100⟩, ⟨11, 101⟩, ⟨12, 102⟩]

/-- a toy hash: positional encoding of the hashed tuple. NOT injective in general (the digits are unbounded:
    `[0, 2^32]` and `[1, 0]` collide) — good enough for `decide`d witnesses, which never rely on
    `HashInjective`; `ctxInj` below carries a provably injective one. -/
def enc (h : Header) : Nat :=
  ([h.parentHash, h.miner, h.versionRoot, h.txRoot, h.logRoot, h.height, h.gasLimit, h.gasUsed, h.time,
    h.signData, h.deputyRoot, h.extra.length] ++ h.extra).foldl (fun acc x => acc * 4294967296 + x + 1) 1

def parent : Header :=
  { parentHash := 6, miner := 100, versionRoot := 1, txRoot := 2, logRoot := 3, height := 4, gasLimit := 105000000,
    gasUsed := 0, time := 20000000, signData := 10, deputyRoot := 0, extra := [] }

/-- a node whose head is `parent` (hash id 7); a signature is modelled by the signing key's node id;
    re-execution of an empty block returns the roots 1 / 3 / 2 and gas 0. -/
def ctx : Ctx :=
  { stored := fun _ => false, stableHeight := 3
    load := fun x => if x == 7 then some parent else none
    deputies := fun _ => deps
    now := 30000000, mineTimeout := 10000, termDuration := 1000000, interimDuration := 1000
    hash := enc, recover := fun _ s => some s, merkleRoot := fun _ => 2, onAncestor := fun _ _ => some false
    reexec := fun _ => .ok 1 3 2 0 0 }

/-- an honest empty block of deputy 1 (rank 1 follows rank 0), stamped 5 s after its parent -/
def honest : Block :=
  { header := { parentHash := 7, miner := 101, versionRoot := 1, txRoot := 2, logRoot := 3, height := 5,
                gasLimit := 105000000, gasUsed := 0, time := 20000005, signData := 11, deputyRoot := 0, extra := [] }
    txs := [], logsRoot := none, deputyNodesRoot := 0, confirms := [] }

/-- the same block with `Time = 1`, signed by deputy 2 who also names itself as miner (NOT in turn):
    the crash block of the code before fix 26f228d -/
def tiny : Block :=
  { honest with header := { honest.header with time := 1, miner := 102, signData := 12 } }

end Witness

/-- non-vacuity: an honest block is accepted by the witness node -/
example : accept Witness.ctx Witness.honest = .ok := by decide

/-- the block that used to crash every node (`Time = 1`, signed by a deputy that is not even in turn) is
    now an ordinary rejection — through `accept` and through `insertBlock` -/
theorem tiny_stamp_rejected :
    accept Witness.ctx Witness.tiny = .reject .smallerTime ∧
    (insertBlock (σ := Unit) (fun _ => Witness.ctx) (fun u _ => (u, true)) ⟨(), none⟩ Witness.tiny).2 = .reject .smallerTime := by
  decide

/-- frozen copy of the function tools/go2lean generated from schedule.go BEFORE fix 26f228d -/
def GetCorrectMiner_legacy (mineTime : Int) (mineTimeout : Int) (parent_Time : Nat) (nodeCount : Int) (parent_Height : Nat) (parent_MinerAddress : Nat) :=
  (show GoRes _ from
  if (decide (mineTime < (10000000000 : Int))) then
    .panic
  else
    let passTime : Int := (mineTime - ((Int.ofNat parent_Time) * (1000 : Int)))
    if (decide (passTime < (0 : Int))) then
      .err "ErrSmallerMineTime"
    else
      let nodeCount : Int := nodeCount
      let oneLoopTime : Int := (nodeCount * mineTimeout)
      let minerDistance : Int := ((Int.tdiv (Int.tmod passTime oneLoopTime) mineTimeout) + (1 : Int))
      .ok ((GoSem.uadd 4294967296 parent_Height (1 : Nat)), parent_MinerAddress, (GoSem.toU 4294967296 minerDistance)))

/-- legacy refutation (code before 26f228d): the stamp of `Witness.tiny` on `Witness.parent` panicked, and
    the current function differs from the frozen one exactly there -/
theorem legacy_getCorrectMiner_panics :
    GetCorrectMiner_legacy (mineTime := 1000) (mineTimeout := 10000) (parent_Time := 20000000) (nodeCount := 3)
      (parent_Height := 4) (parent_MinerAddress := 0) = .panic ∧
    GetCorrectMiner (mineTime := 1000) (mineTimeout := 10000) (parent_Time := 20000000) (nodeCount := 3)
      (parent_Height := 4) (parent_MinerAddress := 0) = .err "ErrSmallerMineTime" := by
  decide

/-- **accept_total**: `accept` never panics, for every node view and every block, PROVIDED none of the
    abstract inputs that can panic in Go does. The hypotheses name every such input:
    * `hanc` — `TxGuard.ExistTxs` does not panic (`BlockCache.IsAppearedOnFork` panics when a traced block or
      the start block is missing from the guard's cache: property C04's ground);
    * `hbody` — `VerifyTxBody` does not panic on any tx of the block (it did on a nil sub-tx of a box before
      fix d73a53d: the skeleton alone could not see that);
    * `hexec` — re-execution (`TxProcessor.Process` + `Finalize`) does not panic: the execution properties;
    * `recover` and `merkleRoot` are total in Go as well (`crypto.Ecrecover` returns an error, the Merkle
      root is a fold over the list), so they need no hypothesis;
    and the structural ones, none about the block's content:
    * `hT` — the configured slot length is positive (`passTime % (n*T)` divides by it; Config invariant);
    * `hn'` — fewer than 10^9 deputies at the block's height (the uint32 index arithmetic of
      `GetDeputyByDistance`, as in C13; `DeputyCount` is a small config value);
    * `hu32` — the parent's height + 1 fits uint32 (otherwise `GetDeputyByDistance(0, …)` panics). -/
theorem accept_total (c : Ctx) (b : Block)
    (hanc : c.onAncestor b.header.parentHash b.txs ≠ none)
    (hbody : ∀ tx ∈ b.txs, tx.bodyPanics = false)
    (hT : 0 < c.mineTimeout)
    (hexec : c.reexec b ≠ .panic)
    (hn' : (c.deputies b.header.height).length < 1000000000)
    (hu32 : ∀ p, c.load b.header.parentHash = some p → p.height + 1 < u32) :
    accept c b ≠ .panic := by
  intro hp
  unfold accept at hp
  split at hp
  · exact hexec (verifyAfter_panic hp)
  · rcases verifyBefore_panic hp with htx | ⟨parent, hload, hsig, hh, hvm⟩
    · rcases verifyTxs_panic htx with h | ⟨tx, htx, hpn⟩
      · exact hanc h
      · rw [hbody tx htx] at hpn; cases hpn
    obtain ⟨signer, _, hmem, _⟩ := verifySigner_none hsig
    have hn : 0 < (c.deputies b.header.height).length := List.length_pos_of_mem hmem
    have htarget : GoSem.uadd u32 parent.height 1 = parent.height + 1 := GoSem.uadd_small (hu32 parent hload)
    unfold verifyMiner at hvm
    rw [hh] at hvm
    have hcases : ∀ (hms : (10000000000 : Int) ≤ (b.header.time : Int) * 1000)
        (hpt : (parent.time : Int) * 1000 ≤ (b.header.time : Int) * 1000), _ :=
      fun hms hpt => correctMiner_cases (c.deputies b.header.height).length
        (isSpecial b.header.height c.termDuration c.interimDuration)
        (rankOfMiner (c.deputies b.header.height) parent.miner) c.mineTimeout ((b.header.time : Int) * 1000)
        parent.time parent.height hn hn' hT hms hpt (fun p hp => rankOfMiner_some hp)
    rcases verifyMinerCore_panic hvm with ht | ⟨r, ht, hnone⟩
    · unfold turn at ht
      simp only at ht
      rw [hh] at ht
      rcases turnCore_panic ht with hg | hz | h0 | hcm
      · exact gcm_not_panic _ _ _ _ _ _ hg
      · have : (0 : Int) < ((c.deputies b.header.height).length : Int) * c.mineTimeout :=
          Int.mul_pos (by exact_mod_cast hn) hT
        omega
      · rw [← hh, htarget] at h0; omega
      · by_cases hgood : (10000000000 : Int) ≤ (b.header.time : Int) * 1000 ∧
            (parent.time : Int) * 1000 ≤ (b.header.time : Int) * 1000
        · rcases hcases hgood.1 hgood.2 with ⟨r, _, hok⟩ | ⟨e, he⟩
          · rw [hok] at hcm; cases hcm
          · rw [he] at hcm; cases hcm
        · -- the generated arithmetic already returned ErrSmallerMineTime: correctMiner is an error too
          obtain ⟨e, he⟩ := (gcm_err_iff ((b.header.time : Int) * 1000) c.mineTimeout parent.time
            ((c.deputies b.header.height).length : Int) parent.height 0).mpr (by omega)
          rw [correctMiner_of_gcm_err he] at hcm
          cases hcm
    · obtain ⟨h1e7, hpt, _, _, hcm⟩ := turn_ok ht
      rw [hh] at hcm
      rcases hcases (by omega) (by omega) with ⟨r', hr', hok⟩ | ⟨e, he⟩
      · rw [hok] at hcm
        have hcm' := GoRes.ok.inj hcm
        subst hcm'
        rw [List.getElem?_eq_none_iff] at hnone
        omega
      · rw [he] at hcm; cases hcm

/-! ### non-vacuity of `HashInjective ∧ accept = .ok` -/

/-- Cantor-pairing encoding of a list -/
def encL : List Nat → Nat
  | [] => 0
  | x :: xs => Nat.pair x (encL xs) + 1

theorem encL_inj : ∀ a b : List Nat, encL a = encL b → a = b
  | [], [], _ => rfl
  | [], _ :: _, h => by simp [encL] at h
  | _ :: _, [], h => by simp [encL] at h
  | x :: xs, y :: ys, h => by
    simp only [encL, Nat.add_right_cancel_iff, Nat.pair_eq_pair] at h
    rw [h.1, encL_inj xs ys h.2]

/-- a provably injective header hash -/
def encH (h : Header) : Nat :=
  Nat.pair h.parentHash (Nat.pair h.miner (Nat.pair h.versionRoot (Nat.pair h.txRoot (Nat.pair h.logRoot
    (Nat.pair h.height (Nat.pair h.gasLimit (Nat.pair h.gasUsed (Nat.pair h.time (Nat.pair h.signData
      (Nat.pair h.deputyRoot (encL h.extra)))))))))))

theorem encH_inj : ∀ x y : Header, encH x = encH y → x = y := by
  intro x y h
  cases x; cases y
  simp only [encH, Nat.pair_eq_pair] at h
  obtain ⟨h1, h2, h3, h4, h5, h6, h7, h8, h9, h10, h11, h12⟩ := h
  simp only [Header.mk.injEq]
  exact ⟨h1, h2, h3, h4, h5, h6, h7, h8, h9, h10, h11, encL_inj _ _ h12⟩

attribute [irreducible] encH

/-- the witness node with the injective hash -/
def ctxInj : Ctx :=
  { stored := fun _ => false, stableHeight := 3
    load := fun x => if x == 7 then some Witness.parent else none
    deputies := fun _ => Witness.deps
    now := 30000000, mineTimeout := 10000, termDuration := 1000000, interimDuration := 1000
    hash := encH, recover := fun _ s => some s, merkleRoot := fun _ => 2, onAncestor := fun _ _ => some false
    reexec := fun _ => .ok 1 3 2 0 0 }

/-- **hypotheses_satisfiable**: the hypotheses of `accept_sound` / `accept_signer_is_in_turn` hold TOGETHER
    with `accept = .ok` on a concrete node: injective hash, pairwise different miner addresses, accepted block. -/
theorem hypotheses_satisfiable :
    HashInjective ctxInj ∧ accept ctxInj Witness.honest = .ok ∧
    (∀ d1 ∈ ctxInj.deputies Witness.honest.header.height, ∀ d2 ∈ ctxInj.deputies Witness.honest.header.height,
      d1.miner = d2.miner → d1 = d2) := by
  refine ⟨fun x y h => encH_inj x y h, ?_, by decide⟩
  have h1 : verifyBefore ctxInj Witness.honest = .ok := by decide
  have h2 : verifyAfter ctxInj Witness.honest = .ok := by
    simp [verifyAfter, ctxInj, Witness.honest, bodyLogsBad, sealHeader, LemoGen.Schedule.IsSnapshotBlock, Header.hashed]
  unfold accept
  rw [h1]
  exact h2

/-! ### witnesses for the honest restatements -/

/-- **save_failure_leaves_state** (refutes "every non-ok return leaves the state as it was"): with a `save`
    that fails after its first write — on the real engine: ErrSaveAccount after `SetBlock`, reproduced by the
    fault-injection probe of `hx c02`, oracle `c02/save-error-leaves-state` — the verdict is a save error
    and the durable state has changed. -/
theorem save_failure_leaves_state :
    let r := insertBlock (σ := Nat) (fun _ => Witness.ctx) (fun s _ => (s + 1, false)) ⟨0, none⟩ Witness.honest
    r.2 = .saveFailed ∧ r.1.durable ≠ 0 := by decide

/-- the two panic hypotheses of `accept_total` are needed: each input alone makes `accept` panic -/
theorem accept_panics_through_inputs :
    accept { Witness.ctx with onAncestor := fun _ _ => none } Witness.honest = .panic ∧
    accept Witness.ctx { Witness.honest with txs := [⟨1, 20000010, true, [], [], true⟩] } = .panic := by decide

/-- two deputies with the same miner address: the signer (node id 13, rank 3) is NOT the deputy at the rank in
    turn (rank 1), yet the block is accepted — why `accept_signer_is_in_turn` needs `hnodup` -/
theorem duplicate_miner_address_breaks_identity :
    let c : Ctx := { Witness.ctx with deputies := fun _ => Witness.deps ++ [⟨13, 101⟩] }
    let b : Block := { Witness.honest with header := { Witness.honest.header with signData := 13 } }
    accept c b = .ok ∧ c.recover 0 b.header.signData = some 13 ∧ (c.deputies 5)[1]? = some ⟨11, 101⟩ := by decide

/-- **duplicate_node_id_shadows_deputy** (witness; real engine: probe G of `hx c02`, oracle
    `c02/deputy-identity/duplicate-node-id`): node ids are free text of the register transaction and nothing
    checks them for uniqueness. With a squatter ⟨node id 11, miner 200⟩ ranked above the genuine deputy
    ⟨11, 101⟩, `GetDeputyByNodeID` finds the squatter first: the genuine deputy's own honest block is rejected
    (`minerMismatch`), while the SAME signature over a block naming the squatter's address passes the signer check. -/
theorem duplicate_node_id_shadows_deputy :
    let c : Ctx := { Witness.ctx with deputies := fun _ => [⟨11, 200⟩, ⟨10, 100⟩, ⟨11, 101⟩, ⟨12, 102⟩] }
    verifySigner c Witness.honest = some .minerMismatch ∧
    verifySigner c { Witness.honest with header := { Witness.honest.header with miner := 200 } } = none := by decide

/-! ### what acceptance leaves unconstrained -/

/-- `Seal` copies these header fields from the received block: they cannot make the hash comparison fail -/
theorem seal_copies (c : Ctx) (h : Header) (vr lr tr gu ldr : Nat) :
    (sealHeader c h vr lr tr gu ldr).gasLimit = h.gasLimit ∧ (sealHeader c h vr lr tr gu ldr).time = h.time ∧
    (sealHeader c h vr lr tr gu ldr).extra = h.extra ∧ (sealHeader c h vr lr tr gu ldr).parentHash = h.parentHash ∧
    (sealHeader c h vr lr tr gu ldr).miner = h.miner ∧ (sealHeader c h vr lr tr gu ldr).height = h.height ∧
    (IsSnapshotBlock (height := h.height) (params_TermDuration := c.termDuration) = false →
      (sealHeader c h vr lr tr gu ldr).deputyRoot = h.deputyRoot) := by
  refine ⟨rfl, rfl, rfl, rfl, rfl, rfl, ?_⟩
  intro hs
  simp [sealHeader, hs]

/-- block `b` with another gas limit and deputy root, re-signed (`s'`) -/
def restamp (b : Block) (g dr s' : Nat) : Block :=
  { b with header := { b.header with gasLimit := g, deputyRoot := dr, signData := s' } }

theorem restamp_verifyBefore (c : Ctx) (b : Block) (g dr s' : Nat)
    (hrec : c.recover (c.hash (restamp b g dr s').header.hashed) s' = c.recover (c.hash b.header.hashed) b.header.signData) :
    verifyBefore c (restamp b g dr s') = verifyBefore c b := by
  have hs : verifySigner c (restamp b g dr s') = verifySigner c b := by
    unfold verifySigner
    have : (restamp b g dr s').header.signData = s' := rfl
    rw [this, hrec]
    rfl
  unfold verifyBefore
  rw [hs]
  rfl

theorem restamp_verifyAfter (c : Ctx) (b : Block) (g dr s' : Nat) (hinj : HashInjective c)
    (hsnap : IsSnapshotBlock (height := b.header.height) (params_TermDuration := c.termDuration) = false)
    (hexec : c.reexec (restamp b g dr s') = c.reexec b)
    (hok : verifyAfter c b = .ok) : verifyAfter c (restamp b g dr s') = .ok := by
  obtain ⟨vr, lr, tr, gu, ldr, hre, _, hlogs, hlr, hhash⟩ := verifyAfter_ok hok
  have hseal := hinj _ _ hhash
  have e1 : vr = b.header.versionRoot := by
    have := congrArg Header.versionRoot hseal
    simpa [sealHeader, Header.hashed] using this
  have e2 : tr = b.header.txRoot := by
    have := congrArg Header.txRoot hseal
    simpa [sealHeader, Header.hashed] using this
  have e3 : gu = b.header.gasUsed := by
    have := congrArg Header.gasUsed hseal
    simpa [sealHeader, Header.hashed] using this
  have hbl : bodyLogsBad (restamp b g dr s') = false := by
    unfold bodyLogsBad
    cases hl : b.logsRoot with
    | none => simp [restamp, hl]
    | some r => simp [restamp, hl, hlogs r hl]
  unfold verifyAfter
  simp only [hexec, hre]
  have hs' : IsSnapshotBlock (height := (restamp b g dr s').header.height) (params_TermDuration := c.termDuration) = false := hsnap
  simp only [hs', hbl, Bool.false_and, Bool.false_eq_true, if_false]
  have h4 : (lr != (restamp b g dr s').header.logRoot) = false := by
    simp [restamp, hlr]
  simp only [h4, Bool.false_eq_true, if_false]
  have h5 : (sealHeader c (restamp b g dr s').header vr lr tr gu ldr).hashed = (restamp b g dr s').header.hashed := by
    simp [sealHeader, Header.hashed, restamp, hsnap, e1, e2, e3, hlr]
  rw [h5]
  simp

/-- **seal_copied_fields_unconstrained** (general form of the two witnesses below): take ANY accepted block
    at a non-snapshot height, replace its `GasLimit` and `DeputyRoot` by arbitrary values and re-sign it
    with the same key (`hrec`); if re-execution is insensitive to the change (`hexec`: e.g. the gas actually
    used fits both limits), the result is accepted too. No clause of the validator relates these two
    header fields to the parent or to the re-execution. -/
theorem seal_copied_fields_unconstrained (c : Ctx) (b : Block) (g dr s' : Nat) (hinj : HashInjective c)
    (hsnap : IsSnapshotBlock (height := b.header.height) (params_TermDuration := c.termDuration) = false)
    (hrec : c.recover (c.hash (restamp b g dr s').header.hashed) s' = c.recover (c.hash b.header.hashed) b.header.signData)
    (hexec : c.reexec (restamp b g dr s') = c.reexec b)
    (hok : accept c b = .ok) : accept c (restamp b g dr s') = .ok := by
  unfold accept at hok ⊢
  rw [restamp_verifyBefore c b g dr s' hrec]
  cases hvb : verifyBefore c b with
  | ok =>
    rw [hvb] at hok
    exact restamp_verifyAfter c b g dr s' hinj hsnap hexec hok
  | ignored => rw [hvb] at hok; cases hok
  | reject r => rw [hvb] at hok; cases hok
  | panic => rw [hvb] at hok; cases hok
  | saveFailed => rw [hvb] at hok; cases hok

/-- **gasLimit_unconstrained** (witnesses): the witness node accepts the honest block re-stamped with gas
    limit 0, 1 or 2^64-1 (re-signed by the same in-turn deputy) on a parent whose limit is 105000000 —
    no check relates `GasLimit` to the parent or to anything else (`seal_copies` is the reason). -/
theorem gasLimit_unconstrained :
    ∀ g ∈ [0, 1, 18446744073709551615],
      accept Witness.ctx { Witness.honest with header := { Witness.honest.header with gasLimit := g } } = .ok := by
  decide

/-- **deputyRoot_unconstrained_off_snapshot** (witnesses): likewise a non-empty `DeputyRoot` at a
    non-snapshot height -/
theorem deputyRoot_unconstrained_off_snapshot :
    ∀ d ∈ [1, 99],
      accept Witness.ctx { Witness.honest with header := { Witness.honest.header with deputyRoot := d } } = .ok := by
  decide

/-- **duplicate_in_block_rejected**: for every node and every block, a tx hash or box sub-tx hash that occurs twice
    inside the block makes `verifyTxs` fail (current code, fix 828f704). -/
theorem duplicate_in_block_rejected (c : Ctx) (b : Block) (hc : c.dupCheck = true)
    (hd : hasDup (blockHashes b.txs) = true) : verifyTxs c b = .reject .txReplay := by
  unfold verifyTxs; simp [hc, hd]

/-- **box_sub_tx_inside_window**: in an accepted block the transactions INSIDE every box are inside the lifetime
    window of the block time as well (`checkBoxTx` passes the block time on, not the box's expiration). -/
theorem box_sub_tx_inside_window (c : Ctx) (b : Block) (h : verifyTxs c b = .ok) :
    ∀ tx ∈ b.txs, ∀ e ∈ tx.subExps, e < 18446744073709551616 → b.header.time ≤ e ∧ e ≤ b.header.time + 1800 := by
  intro tx htx
  exact txOk_sub_bounds ((verifyTxs_ok h).2.2 tx htx).1

/-- witness: a box inside the window whose sub-tx expires 1801 s after the block time is rejected -/
example : accept Witness.ctx { Witness.honest with txs := [⟨2, 20000010, true, [5], [20000005 + 1801], false⟩] } = .reject .txBody := by
  decide

/-- **duplicate_tx_in_block_accepted** (witness, code BEFORE fix 828f704 = `dupCheck := false`): nothing in the
    check sequence looked for the same transaction twice INSIDE one block (`ExistTxs` only walks the
    ancestors); when re-execution of such a block succeeded — it did on the real engine, oracle
    `c02/accepted-invalid/tx-duplicate-in-block` — the block was accepted.  The current code rejects it. -/
theorem duplicate_tx_in_block_accepted :
    let b : Block := { Witness.honest with txs := [⟨1, 20000010, true, [], [], false⟩, ⟨1, 20000010, true, [], [], false⟩] }
    accept { Witness.ctx with dupCheck := false } b = .ok ∧ accept Witness.ctx b = .reject .txReplay ∧
    accept Witness.ctx { Witness.honest with txs := [⟨1, 20000010, true, [], [], false⟩, ⟨2, 20000010, true, [5, 1], [20000010, 20000010], false⟩] } = .reject .txReplay := by
  decide

/-- the scratch account manager IS touched by a rejected block that reaches re-execution (the only
    non-durable trace; `reject_no_effect` is about the durable part) -/
example :
    let bad : Block := { Witness.honest with header := { Witness.honest.header with versionRoot := 9 } }
    let r := insertBlock (σ := Unit) (fun _ => Witness.ctx) (fun u _ => (u, true)) ⟨(), none⟩ bad
    r.2 = .reject .hashMismatch ∧ r.1.scratch = some 7 := by decide

end LemoProofs.C02

/-
  C03 — Finality: stable needs 2/3 DISTINCT deputies incl. the miner; stable only moves forward
  along one chain; head always descends from stable; any arrival order.

  Model: `LemoModel.Stable` (hand model of StableManager / DPoVP.InsertBlock / InsertConfirms /
  ForkManager / ChainDatabase.SetStableBlock, tied to the real engine by `hx c03`: every op line is
  run by the real engine and by the model and the canonical state lines are diffed).

  All structural theorems are invariants over ALL operation sequences (`run`, induction on the op
  list) from the initial state, for every deputy count, every fork shape, every confirmation
  multiset, and for ANY confirm verifier `V` (so they hold for the code as it is and for the repair).

  FULL statement of the quorum part — it now HOLDS and is `quorum_distinct_fixed`:

      ∀ dc n g ops op,  n ≤ dc →
        let s  := run verifyNewConfirmsFixed (init dc n g) ops
        let s' := (step verifyNewConfirmsFixed s op).1
        s'.stable.id ≠ s.stable.id → twoThirds n ≤ distinctCount n s'.stable

  `verifyNewConfirmsFixed` is the live model of `Validator.VerifyNewConfirms` since /repo commit
  d34eb0a ("fix: count each deputy once when verifying block confirmations"); the harness ties it to
  the real engine, and its oracle `c03/quorum-not-distinct/*` is silent.

  History. On the code BEFORE commit d34eb0a (model `verifyNewConfirms`) the statement was false:
  `VerifyNewConfirms` / `IsConfirmExist` compared signature BYTES while the quorum test counts
  signatures. The kernel-checked witnesses `quorum_distinct_refuted*` are kept (they are what a revert
  of the commit brings back: `VERIF_REPO=<reverted tree> ./check C03` reports
  `c03/quorum-not-distinct/malleated-sig`), together with `quorum_distinct_partial`, the theorem the
  old code satisfied under the exact guard.
-/
import LemoModel.Stable
import LemoProofs.Lemmas.Stable
namespace LemoProofs.C03
open LemoModel LemoModel.Stable LemoProofs.StableLemmas

/-! ## invariants -/

/-- the head is the stable block or a block of the unconfirmed tree. -/
def HeadOK (s : St) : Prop := s.headId = s.stable.id ∨ ∃ x ∈ s.tree, x.id = s.headId

structure TInv (s : St) : Prop where
  wf : WF s.stable.id s.stable.height s.tree
  top : ∃ c rest, s.committed = c :: rest ∧ c.id = s.stable.id ∧ c.height = s.stable.height
  linked : Linked s.committed

structure Inv (s : St) : Prop extends TInv s where
  head : HeadOK s

/-- hashes of the committed (stable) blocks, newest first. -/
def ids (s : St) : List Nat := s.committed.map (fun b => b.id)

/-- `Ext s s'`: the stable side of `s'` extends the one of `s`: committed blocks are only ever
    prepended, and the stable pointer either stays or moves strictly up. -/
def Ext (s s' : St) : Prop :=
  (∃ l, ids s' = l ++ ids s) ∧
  ((s'.stable.id = s.stable.id ∧ s'.stable.height = s.stable.height) ∨ s.stable.height < s'.stable.height)

theorem Ext.refl (s : St) : Ext s s := ⟨⟨[], rfl⟩, Or.inl ⟨rfl, rfl⟩⟩

theorem Ext.trans {a b c : St} (h1 : Ext a b) (h2 : Ext b c) : Ext a c := by
  obtain ⟨⟨l1, e1⟩, m1⟩ := h1
  obtain ⟨⟨l2, e2⟩, m2⟩ := h2
  refine ⟨⟨l2 ++ l1, by rw [e2, e1, List.append_assoc]⟩, ?_⟩
  rcases m1 with ⟨i1, g1⟩ | g1 <;> rcases m2 with ⟨i2, g2⟩ | g2
  · exact Or.inl ⟨i2.trans i1, g2.trans g1⟩
  · right; omega
  · right; omega
  · right; omega

/-! ## the store operations keep the tree invariant -/

theorem setBlock_spec {s s1 : St} {b : Blk} (h : TInv s) (e : setBlock s b = some s1) :
    s1 = { s with tree := b :: s.tree } ∧ TInv s1 := by
  unfold setBlock at e
  split at e
  · cases e
  rename_i hex
  split at e
  · cases e
  split at e
  · cases e
  have hex' : (getBlock s b.id).isSome = false := by simpa using hex
  obtain ⟨hnt, hnc⟩ := getBlock_none hex'
  obtain ⟨c, rest, hcm, hcid, hch⟩ := h.top
  have hroot : b.id ≠ s.stable.id := by
    intro hb
    exact hnc c (by rw [hcm]; exact List.mem_cons_self) (hcid.trans hb.symm)
  split at e
  · split at e
    · cases e
    rename_i hpar
    split at e
    · cases e
    rename_i hh
    cases e
    refine ⟨rfl, ⟨⟨h.wf, hroot, fun y hy => hnt y hy, Or.inl ⟨?_, ?_⟩⟩, h.top, h.linked⟩⟩
    · exact (Decidable.not_not.1 hpar).symm
    · exact (Decidable.not_not.1 hh).symm
  · rename_i p hp
    split at e
    · cases e
    rename_i hh
    cases e
    obtain ⟨hpm, hpid⟩ := findBlk_some hp
    refine ⟨rfl, ⟨⟨h.wf, hroot, fun y hy => hnt y hy, Or.inr ⟨p, hpm, hpid, ?_⟩⟩, h.top, h.linked⟩⟩
    exact (Decidable.not_not.1 hh).symm

/-- the function `replaceBlk` maps over the list. -/
def replFn (nb x : Blk) : Blk := if x.id = nb.id then { x with confirms := nb.confirms } else x

theorem replaceBlk_eq (l : List Blk) (nb : Blk) : replaceBlk l nb = l.map (replFn nb) := rfl

theorem replaceBlk_shape (nb x : Blk) :
    (replFn nb x).id = x.id ∧ (replFn nb x).parent = x.parent ∧ (replFn nb x).height = x.height := by
  unfold replFn
  split <;> exact ⟨rfl, rfl, rfl⟩

theorem replaceBlk_ids (l : List Blk) (nb : Blk) :
    (replaceBlk l nb).map (fun b => b.id) = l.map (fun b => b.id) := by
  rw [replaceBlk_eq, List.map_map]
  apply List.map_congr_left
  intro x _
  exact (replaceBlk_shape nb x).1

theorem saveConfirm_spec {s : St} (b : Blk) (valid : List Sig) (h : TInv s) :
    TInv (saveConfirm s b valid).1 ∧ (saveConfirm s b valid).1.stable = s.stable ∧
    (saveConfirm s b valid).1.headId = s.headId ∧ (saveConfirm s b valid).1.headHeight = s.headHeight ∧
    ids (saveConfirm s b valid).1 = ids s ∧
    (saveConfirm s b valid).1.tree.map (fun b => b.id) = s.tree.map (fun b => b.id) := by
  unfold saveConfirm
  split
  · refine ⟨⟨?_, h.top, h.linked⟩, rfl, rfl, rfl, rfl, replaceBlk_ids _ _⟩
    show WF _ _ (replaceBlk s.tree _)
    rw [replaceBlk_eq]
    exact WF.map _ (fun x _ => replaceBlk_shape _ x) h.wf
  · refine ⟨⟨h.wf, ?_, ?_⟩, rfl, rfl, rfl, replaceBlk_ids _ _, rfl⟩
    · obtain ⟨c, rest, hcm, hcid, hch⟩ := h.top
      refine ⟨replFn _ c, rest.map (replFn _), by show replaceBlk s.committed _ = _; rw [hcm, replaceBlk_eq]; rfl, ?_, ?_⟩
      · rw [(replaceBlk_shape _ c).1]; exact hcid
      · rw [(replaceBlk_shape _ c).2.2]; exact hch
    · show Linked (replaceBlk s.committed _)
      rw [replaceBlk_eq]
      exact Linked.map _ (fun x _ => replaceBlk_shape _ x) h.linked

theorem setStable_spec {s : St} {c : Blk} (h : TInv s) (hc : c ∈ s.tree) :
    TInv (setStable s c) ∧ Ext s (setStable s c) := by
  have hne : c.id ≠ s.stable.id := WF.ids_ne_root h.wf c hc
  obtain ⟨p, hp⟩ := pathUp_head h.wf c hc
  have htr := pathUp_toRoot h.wf c hc
  obtain ⟨c0, rest, hcm, hcid, hch⟩ := h.top
  refine ⟨⟨?_, ?_, ?_⟩, ?_, ?_⟩
  · exact WF.descOf hne h.wf (fun y hy hyc => by rw [WF.unique h.wf y hy c hc hyc]; rfl)
  · exact ⟨c, p ++ s.committed, by show pathUp s.tree c.id ++ s.committed = _; rw [hp]; rfl, rfl, rfl⟩
  · show Linked (pathUp s.tree c.id ++ s.committed)
    rw [hcm]
    have hl := h.linked
    rw [hcm] at hl
    exact Linked.append_toRoot hl hcid hch htr
  · exact ⟨(pathUp s.tree c.id).map (fun b => b.id), by simp [ids, setStable]⟩
  · right
    exact WF.height_gt h.wf c hc

/-- `UpdateStable` either leaves the state alone or commits a block of the tree with the id asked for. -/
theorem updateStable_cases (s : St) (b : Blk) :
    (updateStable s b).1 = s ∧ (updateStable s b).2.1 = false ∨
    ∃ c ∈ s.tree, c.id = b.id ∧ isConfirmEnough s.dc s.n b = true ∧ s.stable.height < b.height ∧
      updateStable s b = (setStable s c, true, false) := by
  unfold updateStable
  split
  · exact Or.inl ⟨rfl, rfl⟩
  rename_i hgt
  split
  · exact Or.inl ⟨rfl, rfl⟩
  rename_i hen
  split
  · exact Or.inl ⟨rfl, rfl⟩
  · rename_i c hc
    obtain ⟨hcm, hcid⟩ := findBlk_some hc
    exact Or.inr ⟨c, hcm, hcid, by simpa using hen, by omega, rfl⟩

theorem updateStable_spec {s : St} (b : Blk) (h : TInv s) :
    TInv (updateStable s b).1 ∧ Ext s (updateStable s b).1 := by
  rcases updateStable_cases s b with ⟨e, _⟩ | ⟨c, hc, _, _, _, e⟩
  · rw [e]; exact ⟨h, Ext.refl s⟩
  · rw [e]; exact setStable_spec h hc

/-! ## fork choice re-establishes `HeadOK` whatever the head was -/

theorem headOK_of_not_cut {s : St} (h : isCut s = false) : HeadOK s := by
  unfold isCut at h
  have h2 : (findBlk s.tree s.headId).isNone = false := by
    cases hb : (findBlk s.tree s.headId).isNone
    · rfl
    · rw [hb] at h; simp at h
  cases hf : findBlk s.tree s.headId with
  | none => rw [hf] at h2; simp at h2
  | some x => exact Or.inr ⟨x, (findBlk_some hf).1, (findBlk_some hf).2⟩

theorem headOK_setHead_choose (s : St) : HeadOK (setHead s (some (chooseNewFork s.stable s.tree))) := by
  unfold setHead
  simp only
  have hm := chooseNewFork_mem s.stable s.tree
  split
  · rcases hm with e | hm
    · exact Or.inl (by show (chooseNewFork s.stable s.tree).id = s.stable.id; rw [e])
    · exact Or.inr ⟨_, hm, rfl⟩
  · rename_i hid
    have hid' : (chooseNewFork s.stable s.tree).id = s.headId := Decidable.not_not.1 hid
    rcases hm with e | hm
    · exact Or.inl (by rw [← hid', e])
    · exact Or.inr ⟨_, hm, hid'⟩

theorem setHead_fields (s : St) (h : Option Blk) :
    (setHead s h).tree = s.tree ∧ (setHead s h).stable = s.stable ∧ (setHead s h).committed = s.committed ∧
    (setHead s h).n = s.n ∧ (setHead s h).dc = s.dc := by
  unfold setHead
  split
  · split <;> exact ⟨rfl, rfl, rfl, rfl, rfl⟩
  · exact ⟨rfl, rfl, rfl, rfl, rfl⟩

theorem setHead_tinv {s : St} (h : Option Blk) (hi : TInv s) : TInv (setHead s h) := by
  obtain ⟨e1, e2, e3, _, _⟩ := setHead_fields s h
  exact ⟨by rw [e1, e2]; exact hi.wf, by rw [e2, e3]; exact hi.top, by rw [e3]; exact hi.linked⟩

theorem setHead_ext (s : St) (h : Option Blk) : Ext s (setHead s h) := by
  obtain ⟨_, e2, e3, _, _⟩ := setHead_fields s h
  exact ⟨⟨[], by simp [ids, e3]⟩, Or.inl ⟨by rw [e2], by rw [e2]⟩⟩

theorem updateForkForConfirm_spec {s : St} (hi : TInv s) :
    Inv (updateForkForConfirm s) ∧ Ext s (updateForkForConfirm s) := by
  unfold updateForkForConfirm
  cases hc : isCut s
  · simp only [Bool.false_eq_true, if_false]
    exact ⟨⟨hi, headOK_of_not_cut hc⟩, Ext.refl s⟩
  · simp only [if_true]
    exact ⟨⟨setHead_tinv _ hi, headOK_setHead_choose s⟩, setHead_ext _ _⟩

/-- `UpdateFork`: given that the new block is the stable block or in the tree, the head chosen is too. -/
theorem forkDecision_spec {s : St} {nb : Blk} (hnb : nb.id = s.stable.id ∨ ∃ x ∈ s.tree, x.id = nb.id) :
    (forkDecision s nb = none → HeadOK s) ∧ (∀ h, forkDecision s nb = some h → HeadOK (setHead s h)) := by
  unfold forkDecision
  cases hc : isCut s
  · simp only [Bool.false_eq_true, if_false]
    have hok := headOK_of_not_cut hc
    split
    · refine ⟨fun e => (by cases e), fun h e => ?_⟩
      cases e
      unfold setHead
      simp only
      split
      · exact hnb
      · exact hok
    · split
      · exact ⟨fun _ => hok, fun h e => (by cases e)⟩
      · refine ⟨fun e => (by cases e), fun h e => ?_⟩
        cases e
        exact headOK_setHead_choose s
      · refine ⟨fun e => (by cases e), fun h e => ?_⟩
        cases e
        exact hok
  · simp only [if_true]
    refine ⟨fun e => (by cases e), fun h e => ?_⟩
    cases e
    exact headOK_setHead_choose s

/-! ## every engine operation keeps `Inv` and extends the stable side -/

theorem saveNewBlock_spec {s : St} (b : Blk) (hi : Inv s) :
    Inv (saveNewBlock s b).1 ∧ Ext s (saveNewBlock s b).1 := by
  unfold saveNewBlock
  split
  · exact ⟨hi, Ext.refl s⟩
  · rename_i s1 hs1
    obtain ⟨e1, t1⟩ := setBlock_spec hi.toTInv hs1
    have hx1 : Ext s s1 := by rw [e1]; exact ⟨⟨[], rfl⟩, Or.inl ⟨rfl, rfl⟩⟩
    have hh1 : HeadOK s1 := by
      rw [e1]
      rcases hi.head with h | ⟨x, hx, hxid⟩
      · exact Or.inl h
      · exact Or.inr ⟨x, List.mem_cons_of_mem _ hx, hxid⟩
    have hb1 : b ∈ s1.tree := by rw [e1]; exact List.mem_cons_self
    obtain ⟨t2, x2⟩ := updateStable_spec b t1
    -- where is the new block after UpdateStable?
    have hnb : b.id = (updateStable s1 b).1.stable.id ∨ ∃ x ∈ (updateStable s1 b).1.tree, x.id = b.id := by
      rcases updateStable_cases s1 b with ⟨e, _⟩ | ⟨c, _, hcid, _, _, e⟩
      · rw [e]; exact Or.inr ⟨b, hb1, rfl⟩
      · rw [e]; exact Or.inl hcid.symm
    split
    · -- SetStableBlock failed: state is s1
      rename_i s2 ch hus
      have e2 : (updateStable s1 b).1 = s2 := by rw [hus]
      rcases updateStable_cases s1 b with ⟨e, _⟩ | ⟨c, _, _, _, _, e⟩
      · rw [← e2, e]; exact ⟨⟨t1, hh1⟩, hx1⟩
      · rw [e] at hus; cases hus
    · rename_i s2 ch hus
      have e2 : (updateStable s1 b).1 = s2 := by rw [hus]
      rw [e2] at t2 x2 hnb
      obtain ⟨fp, fs⟩ := forkDecision_spec hnb
      split
      · rename_i hfd
        exact ⟨⟨t2, fp hfd⟩, hx1.trans x2⟩
      · rename_i h hfd
        exact ⟨⟨setHead_tinv _ t2, fs h hfd⟩, (hx1.trans x2).trans (setHead_ext _ _)⟩

theorem insertBlock_spec (V : Verifier) {s : St} (b : Blk) (valid : Bool) (hi : Inv s) :
    Inv (insertBlock V s b valid).1 ∧ Ext s (insertBlock V s b valid).1 := by
  unfold insertBlock
  split
  · exact ⟨hi, Ext.refl s⟩
  split
  · exact ⟨hi, Ext.refl s⟩
  split
  · exact ⟨hi, Ext.refl s⟩
  split
  · exact ⟨hi, Ext.refl s⟩
  split
  · exact ⟨hi, Ext.refl s⟩
  split
  · exact ⟨hi, Ext.refl s⟩
  exact saveNewBlock_spec _ hi

theorem afterConfirm_spec {s1 : St} (nb : Blk) (height : Nat) (hi : Inv s1) :
    Inv (afterConfirm s1 nb height).1 ∧ Ext s1 (afterConfirm s1 nb height).1 := by
  unfold afterConfirm
  split
  · obtain ⟨t2, x2⟩ := updateStable_spec nb hi.toTInv
    split
    · rename_i s2 ch hus
      have e2 : (updateStable s1 nb).1 = s2 := by rw [hus]
      rcases updateStable_cases s1 nb with ⟨e, _⟩ | ⟨c, _, _, _, _, e⟩
      · rw [← e2, e]; exact ⟨hi, Ext.refl s1⟩
      · rw [e] at hus; cases hus
    · rename_i s2 ch hus
      have e2 : (updateStable s1 nb).1 = s2 := by rw [hus]
      rw [e2] at t2 x2
      obtain ⟨i3, x3⟩ := updateForkForConfirm_spec t2
      exact ⟨i3, x2.trans x3⟩
  · exact ⟨hi, Ext.refl s1⟩

theorem saveConfirm_inv {s : St} (b : Blk) (valid : List Sig) (hi : Inv s) :
    Inv (saveConfirm s b valid).1 ∧ Ext s (saveConfirm s b valid).1 := by
  obtain ⟨t, est, ehd, _, eids, etree⟩ := saveConfirm_spec b valid hi.toTInv
  refine ⟨⟨t, ?_⟩, ⟨[], by rw [eids]; rfl⟩, Or.inl ⟨by rw [est], by rw [est]⟩⟩
  unfold HeadOK
  rw [est, ehd]
  rcases hi.head with h | ⟨x, hx, hxid⟩
  · exact Or.inl h
  · right
    have : s.headId ∈ s.tree.map (fun b => b.id) := List.mem_map.2 ⟨x, hx, hxid⟩
    rw [← etree] at this
    rcases List.mem_map.1 this with ⟨y, hy, hyid⟩
    exact ⟨y, hy, hyid⟩

theorem insertConfirms_spec (V : Verifier) {s : St} (id height : Nat) (sigs : List Sig) (hi : Inv s) :
    Inv (insertConfirms V s id height sigs).1 ∧ Ext s (insertConfirms V s id height sigs).1 := by
  unfold insertConfirms
  split
  · exact ⟨hi, Ext.refl s⟩
  split
  · exact ⟨hi, Ext.refl s⟩
  split
  · exact ⟨hi, Ext.refl s⟩
  split
  · exact ⟨hi, Ext.refl s⟩
  simp only
  split
  · exact ⟨hi, Ext.refl s⟩
  rename_i b _ _ _ _
  obtain ⟨i1, x1⟩ := saveConfirm_inv b (V s.n b sigs).1 hi
  obtain ⟨i2, x2⟩ := afterConfirm_spec (saveConfirm s b (V s.n b sigs).1).2 height i1
  exact ⟨i2, x1.trans x2⟩

theorem step_spec (V : Verifier) {s : St} (op : Op) (hi : Inv s) :
    Inv (step V s op).1 ∧ Ext s (step V s op).1 := by
  cases op with
  | block b valid => exact insertBlock_spec V b valid hi
  | confirms id h sigs => exact insertConfirms_spec V id h sigs hi

theorem inv_init (dc n g : Nat) : Inv (init dc n g) :=
  ⟨⟨trivial, ⟨genesis g, [], rfl, rfl, rfl⟩, trivial⟩, Or.inl rfl⟩

theorem run_spec (V : Verifier) : ∀ (ops : List Op) {s : St}, Inv s → Inv (run V s ops) ∧ Ext s (run V s ops)
  | [], s, hi => ⟨hi, Ext.refl s⟩
  | op :: ops, s, hi => by
    obtain ⟨i1, x1⟩ := step_spec V op hi
    obtain ⟨i2, x2⟩ := run_spec V ops i1
    exact ⟨i2, x1.trans x2⟩

/-- every state the engine can reach satisfies the invariant. -/
theorem inv_reachable (V : Verifier) (dc n g : Nat) (ops : List Op) : Inv (run V (init dc n g) ops) :=
  (run_spec V ops (inv_init dc n g)).1

/-! ## the structural theorems -/

/-- The stable height never decreases — one operation, any reachable state. -/
theorem stable_monotone (V : Verifier) (dc n g : Nat) (ops : List Op) (op : Op) :
    (run V (init dc n g) ops).stable.height ≤ (step V (run V (init dc n g) ops) op).1.stable.height := by
  rcases (step_spec V op (inv_reachable V dc n g ops)).2.2 with ⟨_, h⟩ | h <;> omega

/-- … and over any further sequence of operations. -/
theorem stable_monotone_run (V : Verifier) (dc n g : Nat) (ops more : List Op) :
    (run V (init dc n g) ops).stable.height ≤ (run V (run V (init dc n g) ops) more).stable.height := by
  rcases (run_spec V more (inv_reachable V dc n g ops)).2.2 with ⟨_, h⟩ | h <;> omega

/-- The committed (stable) blocks form ONE parent-linked chain, heights consecutive, whose top is the
    stable block: each new stable block is a descendant of the previous one and its ancestors became
    stable with it. -/
theorem stable_chain (V : Verifier) (dc n g : Nat) (ops : List Op) :
    let s := run V (init dc n g) ops
    Linked s.committed ∧ ∃ c rest, s.committed = c :: rest ∧ c.id = s.stable.id ∧ c.height = s.stable.height :=
  let hi := inv_reachable V dc n g ops
  ⟨hi.linked, hi.top⟩

/-- Stable blocks are never replaced: whatever happens later, the list of committed hashes only grows
    at the top (so the block at every stable height stays the same, and the old stable block stays an
    ancestor-or-self of the new one). -/
theorem stable_never_replaced (V : Verifier) (dc n g : Nat) (ops more : List Op) :
    ∃ l, ids (run V (run V (init dc n g) ops) more) = l ++ ids (run V (init dc n g) ops) :=
  (run_spec V more (inv_reachable V dc n g ops)).2.1

/-- a stable pointer that moved moved strictly up (same-height replacement is impossible). -/
theorem stable_moves_up (V : Verifier) (dc n g : Nat) (ops : List Op) (op : Op) :
    let s := run V (init dc n g) ops
    (step V s op).1.stable.id ≠ s.stable.id → s.stable.height < (step V s op).1.stable.height := by
  intro s hne
  rcases (step_spec V op (inv_reachable V dc n g ops)).2.2 with ⟨h, _⟩ | h
  · exact absurd h hne
  · exact h

/-- The head is the stable block or one of its descendants, in every reachable state. -/
theorem head_descends_from_stable (V : Verifier) (dc n g : Nat) (ops : List Op) :
    let s := run V (init dc n g) ops
    s.headId = s.stable.id ∨ ∃ x ∈ s.tree, x.id = s.headId ∧ Desc s.tree s.stable.id x := by
  intro s
  have hi := inv_reachable V dc n g ops
  rcases hi.head with h | ⟨x, hx, hxid⟩
  · exact Or.inl h
  · exact Or.inr ⟨x, hx, hxid, WF.desc hi.wf x hx⟩

/-- every unconfirmed block descends from the stable block, and is above it. -/
theorem tree_descends_from_stable (V : Verifier) (dc n g : Nat) (ops : List Op) :
    let s := run V (init dc n g) ops
    ∀ x ∈ s.tree, Desc s.tree s.stable.id x ∧ s.stable.height < x.height := by
  intro s x hx
  have hi := inv_reachable V dc n g ops
  exact ⟨WF.desc hi.wf x hx, WF.height_gt hi.wf x hx⟩

/-- `SetStableBlock(c)` removes exactly the blocks that are not proper descendants of `c`:
    the survivors are the blocks of the old tree that descend from `c`. -/
theorem prune_exact (V : Verifier) (dc n g : Nat) (ops : List Op) (c : Blk) :
    let s := run V (init dc n g) ops
    c ∈ s.tree → ∀ x, x ∈ (setStable s c).tree ↔ (x ∈ s.tree ∧ x.id ≠ c.id ∧ Desc s.tree c.id x) := by
  intro s _ x
  have hi := inv_reachable V dc n g ops
  show x ∈ (descOf c.id s.tree).filter (fun x => x.id != c.id) ↔ _
  rw [List.mem_filter]
  constructor
  · rintro ⟨hm, hne⟩
    exact ⟨descOf_sub _ _ x hm, by simpa using hne, mem_descOf_desc hm⟩
  · rintro ⟨_, hne, hd⟩
    exact ⟨desc_mem_descOf hi.wf hd, by simpa using hne⟩

/-- and the stable pointer only ever changes through `SetStableBlock` of a tree block
    (so `prune_exact` describes every pruning the engine does). -/
theorem stable_change_is_setStable (s : St) (b : Blk) :
    (updateStable s b).1 = s ∨ ∃ c ∈ s.tree, c.id = b.id ∧ (updateStable s b).1 = setStable s c := by
  rcases updateStable_cases s b with ⟨e, _⟩ | ⟨c, hc, hcid, _, _, e⟩
  · exact Or.inl e
  · exact Or.inr ⟨c, hc, hcid, by rw [e]⟩


/-! ## the quorum arithmetic -/

/-- `(2n+2)/3` IS the ceiling of 2n/3 (the harness sweeps the float expression
    `uint32(math.Ceil(float64(n)*2.0/3.0))` against it for every n < 65536, lines `tt n`). -/
theorem two_thirds_arith (n : Nat) : 2 * n ≤ 3 * twoThirds n ∧ 3 * twoThirds n < 2 * n + 3 := by
  unfold twoThirds; omega

theorem twoThirds_mono {a b : Nat} (h : a ≤ b) : twoThirds a ≤ twoThirds b := by
  unfold twoThirds; omega

/-- quorum intersection: two quorums out of `n` deputies share more than a third of them
    (`|A ∩ B| ≥ 2⌈2n/3⌉ − n ≥ n/3`, and `> 0` when there are deputies at all). -/
theorem quorum_intersection_arith (n : Nat) : n ≤ 3 * (2 * twoThirds n - n) ∧ (0 < n → n < 2 * twoThirds n) := by
  unfold twoThirds; omega

/-- … as a statement about sets of deputies: two duplicate-free lists of deputies (`< n`) that each
    reach the quorum have a common member. -/
theorem quorum_intersection {n : Nat} {A B : List Nat} (hn : 0 < n) (hA : A.Nodup) (hB : B.Nodup)
    (hAn : ∀ d ∈ A, d < n) (hBn : ∀ d ∈ B, d < n) (qA : twoThirds n ≤ A.length) (qB : twoThirds n ≤ B.length) :
    ∃ d, d ∈ A ∧ d ∈ B := by
  apply Classical.byContradiction
  intro hno
  have hdis : ∀ a ∈ A, ∀ b ∈ B, a ≠ b := fun a ha b hb hab => hno ⟨a, ha, hab ▸ hb⟩
  have hnd : (A ++ B).Nodup := List.nodup_append.2 ⟨hA, hB, hdis⟩
  have hsub : A ++ B ⊆ List.range n := by
    intro d hd
    rcases List.mem_append.1 hd with h | h
    · exact List.mem_range.2 (hAn d h)
    · exact List.mem_range.2 (hBn d h)
  have hlen := List.Nodup.length_le_of_subset hnd hsub
  rw [List.length_append, List.length_range] at hlen
  have := (quorum_intersection_arith n).2 hn
  omega

/-- counting distinct deputies: a duplicate-free signer list of deputies counts in full. -/
theorem length_le_distinctCount {n : Nat} {b : Blk} (hnd : (signersOf b).Nodup) (hlt : ∀ d ∈ signersOf b, d < n) :
    (signersOf b).length ≤ distinctCount n b := by
  unfold distinctCount
  apply List.Nodup.length_le_of_subset hnd
  intro d hd
  exact List.mem_filter.2 ⟨List.mem_range.2 (hlt d hd), by simpa using hd⟩

theorem filterMap_recover_length : ∀ {l : List Sig}, (∀ s ∈ l, ∃ d, recover s = some d) →
    (l.filterMap recover).length = l.length
  | [], _ => rfl
  | s :: rest, h => by
    obtain ⟨d, hd⟩ := h s List.mem_cons_self
    rw [List.filterMap_cons_some hd, List.length_cons, List.length_cons,
      filterMap_recover_length (fun x hx => h x (List.mem_cons_of_mem _ hx))]

/-! ## what the engine guarantees about the signatures it stores

  Generic part: `P n b` is any property of a stored block that the verifier `V` establishes for a
  fresh block and keeps when confirms are appended. Then every block of the tree has it, and the block
  the stable pointer moves to has it and passed `IsConfirmEnough`. -/

structure VOK (V : Verifier) (P : Nat → Blk → Prop) : Prop where
  fresh : ∀ n (b : Blk), recover b.hdr = some b.miner → b.miner < n →
    P n { b with confirms := (V n { b with confirms := [] } b.confirms).1 }
  append : ∀ n (b : Blk) sigs, P n b → P n (appendConfirm b (V n b sigs).1)

def PInv (P : Nat → Blk → Prop) (s : St) : Prop := ∀ b ∈ s.tree, P s.n b

/-- one-step relation for the quorum part. -/
def Trans (P : Nat → Blk → Prop) (s s' : St) : Prop :=
  s'.n = s.n ∧ s'.dc = s.dc ∧
  (s'.stable = s.stable ∨ (P s.n s'.stable ∧ isConfirmEnough s.dc s.n s'.stable = true))

theorem Trans.refl (P : Nat → Blk → Prop) (s : St) : Trans P s s := ⟨rfl, rfl, Or.inl rfl⟩

theorem blk_ext {a b : Blk} (h1 : a.id = b.id) (h2 : a.parent = b.parent) (h3 : a.height = b.height)
    (h4 : a.miner = b.miner) (h5 : a.rank = b.rank) (h6 : a.hdr = b.hdr) (h7 : a.confirms = b.confirms) : a = b := by
  cases a; cases b; simp_all

theorem appendConfirm_rank : ∀ (valid : List Sig) (b : Blk), (appendConfirm b valid).rank = b.rank
  | [], _ => rfl
  | s :: rest, b => by
    simp only [appendConfirm]
    split
    · exact appendConfirm_rank rest b
    · exact appendConfirm_rank rest _

theorem getBlock_some {s : St} {id : Nat} {b : Blk} (h : getBlock s id = some b) :
    findBlk s.tree id = some b ∨ (findBlk s.tree id = none ∧ findBlk s.committed id = some b) := by
  unfold getBlock at h
  split at h
  · rename_i x hx; cases h; exact Or.inl hx
  · rename_i hx; exact Or.inr ⟨hx, h⟩

theorem updateStable_trans {P : Nat → Blk → Prop} {s : St} {b : Blk} (_hi : TInv s) (hp : PInv P s)
    (hb : ∀ c ∈ s.tree, c.id = b.id → c = b) :
    PInv P (updateStable s b).1 ∧ Trans P s (updateStable s b).1 := by
  rcases updateStable_cases s b with ⟨e, _⟩ | ⟨c, hc, hcid, hen, _, e⟩
  · rw [e]; exact ⟨hp, Trans.refl P s⟩
  · rw [e]
    have hcb : c = b := hb c hc hcid
    refine ⟨?_, rfl, rfl, Or.inr ⟨?_, ?_⟩⟩
    · intro x hx
      have hx' : x ∈ s.tree := descOf_sub _ _ x (List.mem_filter.1 hx).1
      exact hp x hx'
    · exact hp c hc
    · show isConfirmEnough s.dc s.n c = true
      rw [hcb]; exact hen

theorem setHead_pinv {P : Nat → Blk → Prop} {s : St} (h : Option Blk) (hp : PInv P s) : PInv P (setHead s h) := by
  obtain ⟨e1, _, _, e4, _⟩ := setHead_fields s h
  intro b hb
  rw [e1] at hb; rw [e4]; exact hp b hb

theorem setHead_trans (P : Nat → Blk → Prop) (s : St) (h : Option Blk) : Trans P s (setHead s h) := by
  obtain ⟨_, e2, _, e4, e5⟩ := setHead_fields s h
  exact ⟨e4, e5, Or.inl e2⟩

theorem Trans.trans_same {P : Nat → Blk → Prop} {a b c : St} (h1 : Trans P a b) (h2 : Trans P b c)
    (hs : b.stable = a.stable ∨ c.stable = b.stable) : Trans P a c := by
  obtain ⟨n1, d1, m1⟩ := h1
  obtain ⟨n2, d2, m2⟩ := h2
  refine ⟨n2.trans n1, d2.trans d1, ?_⟩
  rcases hs with hs | hs
  · rcases m2 with m2 | m2
    · exact Or.inl (m2.trans hs)
    · rw [n1, d1] at m2; exact Or.inr m2
  · rcases m1 with m1 | m1
    · exact Or.inl (hs.trans m1)
    · rw [hs]; exact Or.inr m1

theorem saveNewBlock_trans {P : Nat → Blk → Prop} {s : St} (b : Blk) (hi : Inv s) (hp : PInv P s) (hb : P s.n b) :
    PInv P (saveNewBlock s b).1 ∧ Trans P s (saveNewBlock s b).1 := by
  unfold saveNewBlock
  split
  · exact ⟨hp, Trans.refl P s⟩
  · rename_i s1 hs1
    obtain ⟨e1, t1⟩ := setBlock_spec hi.toTInv hs1
    have hp1 : PInv P s1 := by
      rw [e1]; intro x hx
      rcases List.mem_cons.1 hx with rfl | hx
      · exact hb
      · exact hp x hx
    have hb1 : b ∈ s1.tree := by rw [e1]; exact List.mem_cons_self
    have tr1 : Trans P s s1 := by rw [e1]; exact ⟨rfl, rfl, Or.inl rfl⟩
    have st1 : s1.stable = s.stable := by rw [e1]
    obtain ⟨hp2, tr2⟩ := updateStable_trans t1 hp1 (fun c hc hcid => WF.unique t1.wf c hc b hb1 hcid)
    split
    · rename_i s2 ch hus
      have e2 : (updateStable s1 b).1 = s2 := by rw [hus]
      rw [e2] at hp2 tr2
      exact ⟨hp2, tr1.trans_same tr2 (Or.inl st1)⟩
    · rename_i s2 ch hus
      have e2 : (updateStable s1 b).1 = s2 := by rw [hus]
      rw [e2] at hp2 tr2
      have tr12 := tr1.trans_same tr2 (Or.inl st1)
      split
      · exact ⟨hp2, tr12⟩
      · rename_i h _
        exact ⟨setHead_pinv h hp2, tr12.trans_same (setHead_trans P s2 h) (Or.inr (setHead_fields s2 h).2.1)⟩

theorem insertBlock_trans {V : Verifier} {P : Nat → Blk → Prop} (hv : VOK V P) {s : St} (b : Blk) (valid : Bool)
    (hi : Inv s) (hp : PInv P s) :
    PInv P (insertBlock V s b valid).1 ∧ Trans P s (insertBlock V s b valid).1 := by
  unfold insertBlock
  split
  · exact ⟨hp, Trans.refl P s⟩
  split
  · exact ⟨hp, Trans.refl P s⟩
  split
  · exact ⟨hp, Trans.refl P s⟩
  split
  · exact ⟨hp, Trans.refl P s⟩
  rename_i hsig
  split
  · exact ⟨hp, Trans.refl P s⟩
  split
  · exact ⟨hp, Trans.refl P s⟩
  have h1 : recover b.hdr = some b.miner := by
    apply Classical.byContradiction; intro h; exact hsig (Or.inl h)
  have h2 : b.miner < s.n := by
    apply Classical.byContradiction; intro h; exact hsig (Or.inr h)
  exact saveNewBlock_trans _ hi hp (hv.fresh s.n b h1 h2)

theorem updateForkForConfirm_fields (s : St) :
    (updateForkForConfirm s).tree = s.tree ∧ (updateForkForConfirm s).stable = s.stable ∧
    (updateForkForConfirm s).n = s.n ∧ (updateForkForConfirm s).dc = s.dc := by
  unfold updateForkForConfirm
  split
  · obtain ⟨e1, e2, _, e4, e5⟩ := setHead_fields s (some (chooseNewFork s.stable s.tree))
    exact ⟨e1, e2, e4, e5⟩
  · exact ⟨rfl, rfl, rfl, rfl⟩

theorem afterConfirm_trans {P : Nat → Blk → Prop} {s1 : St} (nb : Blk) (height : Nat) (hi : Inv s1) (hp : PInv P s1)
    (hb : ∀ c ∈ s1.tree, c.id = nb.id → c = nb) :
    PInv P (afterConfirm s1 nb height).1 ∧ Trans P s1 (afterConfirm s1 nb height).1 := by
  unfold afterConfirm
  split
  · obtain ⟨hp2, tr2⟩ := updateStable_trans hi.toTInv hp hb
    split
    · rename_i s2 ch hus
      have e2 : (updateStable s1 nb).1 = s2 := by rw [hus]
      rw [e2] at hp2 tr2
      exact ⟨hp2, tr2⟩
    · rename_i s2 ch hus
      have e2 : (updateStable s1 nb).1 = s2 := by rw [hus]
      rw [e2] at hp2 tr2
      obtain ⟨f1, f2, f3, f4⟩ := updateForkForConfirm_fields s2
      refine ⟨?_, ?_⟩
      · intro x hx; rw [f1] at hx; rw [f3]; exact hp2 x hx
      · exact tr2.trans_same ⟨f3, f4, Or.inl f2⟩ (Or.inr f2)
  · exact ⟨hp, Trans.refl P s1⟩

theorem saveConfirm_pinv {P : Nat → Blk → Prop} {s : St} {id : Nat} {b : Blk} (valid : List Sig) (hi : TInv s)
    (hp : PInv P s) (hg : getBlock s id = some b) (hnb : b ∈ s.tree → P s.n (appendConfirm b valid)) :
    PInv P (saveConfirm s b valid).1 ∧ (saveConfirm s b valid).1.n = s.n ∧ (saveConfirm s b valid).1.dc = s.dc ∧
    (∀ c ∈ (saveConfirm s b valid).1.tree, c.id = (saveConfirm s b valid).2.id → c = (saveConfirm s b valid).2) := by
  have hshape := appendConfirm_shape valid b
  rcases getBlock_some hg with h1 | ⟨h1, h2⟩
  · obtain ⟨hbm, hbid⟩ := findBlk_some h1
    have hf : findBlk s.tree b.id = some b := by rw [hbid]; exact h1
    unfold saveConfirm
    simp only [hf]
    -- every entry with the id of `b` IS `b`, so it becomes `appendConfirm b valid`
    have key : ∀ x ∈ s.tree, x.id = (appendConfirm b valid).id → replFn (appendConfirm b valid) x = appendConfirm b valid := by
      intro x hx hxid
      have hxb : x = b := WF.unique hi.wf x hx b hbm (hxid.trans hshape.1)
      unfold replFn
      rw [if_pos hxid, hxb]
      exact blk_ext hshape.1.symm hshape.2.1.symm hshape.2.2.1.symm hshape.2.2.2.1.symm
        (appendConfirm_rank valid b).symm hshape.2.2.2.2.symm rfl
    refine ⟨?_, trivial, trivial, ?_⟩
    · intro c hc
      have hc' : c ∈ replaceBlk s.tree (appendConfirm b valid) := hc
      rw [replaceBlk_eq] at hc'
      rcases List.mem_map.1 hc' with ⟨x, hx, rfl⟩
      by_cases hxid : x.id = (appendConfirm b valid).id
      · rw [key x hx hxid]; exact hnb hbm
      · have : replFn (appendConfirm b valid) x = x := by unfold replFn; rw [if_neg hxid]
        rw [this]; exact hp x hx
    · intro c hc hcid
      have hc' : c ∈ replaceBlk s.tree (appendConfirm b valid) := hc
      rw [replaceBlk_eq] at hc'
      rcases List.mem_map.1 hc' with ⟨x, hx, rfl⟩
      have hxid : x.id = (appendConfirm b valid).id := (replaceBlk_shape _ x).1.symm.trans hcid
      exact key x hx hxid
  · have hbid : b.id = id := (findBlk_some h2).2
    have hf : findBlk s.tree b.id = none := by rw [hbid]; exact h1
    unfold saveConfirm
    simp only [hf]
    refine ⟨hp, trivial, trivial, ?_⟩
    intro c hc hcid
    exact absurd (hcid.trans hshape.1) (findBlk_none hf c hc)

theorem insertConfirms_trans {V : Verifier} {P : Nat → Blk → Prop} (hv : VOK V P) {s : St} (id height : Nat)
    (sigs : List Sig) (hi : Inv s) (hp : PInv P s) :
    PInv P (insertConfirms V s id height sigs).1 ∧ Trans P s (insertConfirms V s id height sigs).1 := by
  unfold insertConfirms
  split
  · exact ⟨hp, Trans.refl P s⟩
  split
  · exact ⟨hp, Trans.refl P s⟩
  rename_i b hg
  split
  · exact ⟨hp, Trans.refl P s⟩
  split
  · exact ⟨hp, Trans.refl P s⟩
  simp only
  split
  · exact ⟨hp, Trans.refl P s⟩
  obtain ⟨hp1, n1, d1, hu⟩ := saveConfirm_pinv (V s.n b sigs).1 hi.toTInv hp hg
    (fun hbm => hv.append s.n b sigs (hp b hbm))
  obtain ⟨i1, _⟩ := saveConfirm_inv b (V s.n b sigs).1 hi
  obtain ⟨hp2, tr2⟩ := afterConfirm_trans (saveConfirm s b (V s.n b sigs).1).2 height i1 hp1 hu
  have st1 := (saveConfirm_spec b (V s.n b sigs).1 hi.toTInv).2.1
  exact ⟨hp2, Trans.trans_same ⟨n1, d1, Or.inl st1⟩ tr2 (Or.inl st1)⟩

theorem step_trans {V : Verifier} {P : Nat → Blk → Prop} (hv : VOK V P) {s : St} (op : Op) (hi : Inv s) (hp : PInv P s) :
    PInv P (step V s op).1 ∧ Trans P s (step V s op).1 := by
  cases op with
  | block b valid => exact insertBlock_trans hv b valid hi hp
  | confirms id h sigs => exact insertConfirms_trans hv id h sigs hi hp

theorem run_pinv {V : Verifier} {P : Nat → Blk → Prop} (hv : VOK V P) :
    ∀ (ops : List Op) {s : St}, Inv s → PInv P s →
      PInv P (run V s ops) ∧ (run V s ops).n = s.n ∧ (run V s ops).dc = s.dc
  | [], _, _, hp => ⟨hp, rfl, rfl⟩
  | op :: ops, s, hi, hp => by
    obtain ⟨hp1, n1, d1, _⟩ := step_trans hv op hi hp
    obtain ⟨hp2, n2, d2⟩ := run_pinv hv ops (step_spec V op hi).1 hp1
    exact ⟨hp2, n2.trans n1, d2.trans d1⟩

/-- whenever the stable pointer moves, the block it moves to has the stored-signature property `P`
    and passed `IsConfirmEnough`. -/
theorem stable_change_has {V : Verifier} {P : Nat → Blk → Prop} (hv : VOK V P) (dc n g : Nat) (ops : List Op) (op : Op) :
    let s := run V (init dc n g) ops
    (step V s op).1.stable.id ≠ s.stable.id →
      P n (step V s op).1.stable ∧ isConfirmEnough dc n (step V s op).1.stable = true := by
  intro s hne
  have hi := inv_reachable V dc n g ops
  obtain ⟨hp, hn, hd⟩ := run_pinv (P := P) hv ops (inv_init dc n g) (fun b hb => by cases hb)
  obtain ⟨_, _, _, m⟩ := step_trans hv op hi hp
  rcases m with m | m
  · exact absurd (by rw [m]) hne
  · have hn' : s.n = n := hn
    have hd' : s.dc = dc := hd
    rw [hn', hd'] at m
    exact m


/-! ## the code BEFORE /repo commit d34eb0a: signatures are distinct as BYTE STRINGS only -/

/-- what `VerifyNewConfirms` (before commit d34eb0a) + `IsConfirmExist` + `appendConfirm` guaranteed for a stored block:
    header signature and confirms are pairwise different byte strings, every confirm recovers to a
    deputy, the header signature recovers to the miner. Nothing about distinct SIGNERS. -/
structure SigsOK (n : Nat) (b : Blk) : Prop where
  nodup : (b.hdr :: b.confirms).Nodup
  deputies : ∀ s ∈ b.confirms, ∃ d, recover s = some d ∧ d < n
  hdr : recover b.hdr = some b.miner ∧ b.miner < n

def AccOK (n : Nat) (b : Blk) (valid : List Sig) : Prop :=
  valid.Nodup ∧ ∀ s ∈ valid, (∃ d, recover s = some d ∧ d < n) ∧ isConfirmExist b s = false

theorem verifyLoop_acc (n : Nat) (b : Blk) : ∀ (sigs valid : List Sig) (e : CErr),
    AccOK n b valid → AccOK n b (verifyLoop n b sigs valid e).1
  | [], _, _, h => h
  | s :: rest, valid, e, h => by
    simp only [verifyLoop]
    split
    · exact verifyLoop_acc n b rest valid _ h
    · rename_i hnot
      split
      · exact verifyLoop_acc n b rest valid _ h
      · rename_i d hd
        split
        · exact verifyLoop_acc n b rest valid _ h
        · rename_i hdn
          split
          · exact verifyLoop_acc n b rest valid _ h
          · rename_i hex
            apply verifyLoop_acc n b rest (valid ++ [s]) e
            refine ⟨List.nodup_append.2 ⟨h.1, List.nodup_cons.2 ⟨by simp, List.nodup_nil⟩, ?_⟩, ?_⟩
            · intro a ha c hc hac
              rw [List.mem_singleton] at hc
              exact hnot (hc ▸ hac ▸ ha)
            · intro x hx
              rcases List.mem_append.1 hx with hx | hx
              · exact h.2 x hx
              · rw [List.mem_singleton] at hx
                subst hx
                exact ⟨⟨d, hd, Decidable.not_not.1 hdn⟩, by simpa using hex⟩

theorem isConfirmExist_false {b : Blk} {s : Sig} (h : isConfirmExist b s = false) : b.hdr ≠ s ∧ s ∉ b.confirms := by
  unfold isConfirmExist at h
  simp only [Bool.or_eq_false_iff, decide_eq_false_iff_not] at h
  exact h

theorem appendConfirm_sigsOK (n : Nat) : ∀ (valid : List Sig) (b : Blk), SigsOK n b →
    (∀ s ∈ valid, ∃ d, recover s = some d ∧ d < n) → SigsOK n (appendConfirm b valid)
  | [], _, h, _ => h
  | s :: rest, b, h, hv => by
    simp only [appendConfirm]
    have hrest : ∀ x ∈ rest, ∃ d, recover x = some d ∧ d < n := fun x hx => hv x (List.mem_cons_of_mem _ hx)
    split
    · exact appendConfirm_sigsOK n rest b h hrest
    · rename_i hex
      obtain ⟨h1, h2⟩ := isConfirmExist_false (by simpa using hex)
      apply appendConfirm_sigsOK n rest _ _ hrest
      have hnd := List.nodup_cons.1 h.nodup
      refine ⟨?_, ?_, h.hdr⟩
      · show (b.hdr :: (b.confirms ++ [s])).Nodup
        refine List.nodup_cons.2 ⟨?_, List.nodup_append.2 ⟨hnd.2, List.nodup_cons.2 ⟨by simp, List.nodup_nil⟩, ?_⟩⟩
        · intro hm
          rcases List.mem_append.1 hm with hm | hm
          · exact hnd.1 hm
          · rw [List.mem_singleton] at hm; exact h1 hm
        · intro a ha c hc hac
          rw [List.mem_singleton] at hc
          exact h2 (hc ▸ hac ▸ ha)
      · intro x hx
        have hx' : x ∈ b.confirms ++ [s] := hx
        rcases List.mem_append.1 hx' with hx' | hx'
        · exact h.deputies x hx'
        · rw [List.mem_singleton] at hx'; subst hx'; exact hv x List.mem_cons_self

theorem accOK_nil (n : Nat) (b : Blk) : AccOK n b [] := ⟨List.nodup_nil, fun _ h => by cases h⟩

theorem vok_faithful : VOK verifyNewConfirms SigsOK where
  fresh := by
    intro n b h1 h2
    have hacc := verifyLoop_acc n { b with confirms := [] } b.confirms [] .none (accOK_nil n _)
    refine ⟨?_, ?_, ⟨h1, h2⟩⟩
    · show (b.hdr :: (verifyNewConfirms n { b with confirms := [] } b.confirms).1).Nodup
      refine List.nodup_cons.2 ⟨?_, hacc.1⟩
      intro hm
      exact (isConfirmExist_false (hacc.2 _ hm).2).1 rfl
    · intro s hs
      exact (hacc.2 s hs).1
  append := by
    intro n b sigs h
    have hacc := verifyLoop_acc n b sigs [] .none (accOK_nil n b)
    exact appendConfirm_sigsOK n _ b h (fun s hs => (hacc.2 s hs).1)

/-- REFUTATION of the full quorum statement on the model of THE CODE BEFORE /repo COMMIT d34eb0a
    (`verifyNewConfirms`, bytes-only de-duplication), 3 deputies:
    block 1 (miner = deputy 0, canonical header signature `⟨0,0⟩`) arrives, then ONE confirmation
    packet holding the re-encoding `⟨0,1⟩` of the miner's own signature. The stable pointer moves to
    block 1 although one deputy out of three signed it (need 2). Anybody can forge that packet. -/
theorem quorum_distinct_refuted :
    ∃ (dc n g : Nat) (ops : List Op) (op : Op),
      let s := run verifyNewConfirms (init dc n g) ops
      let s' := (step verifyNewConfirms s op).1
      s'.stable.id ≠ s.stable.id ∧ distinctCount n s'.stable < twoThirds n :=
  ⟨3, 3, 0, [.block ⟨1, 0, 1, 0, 1, ⟨some 0, 0⟩, []⟩ true], .confirms 1 1 [⟨some 0, 1⟩], by decide⟩

/-- (code before commit d34eb0a) the same through a block that CARRIES the forged confirmation:
    one operation. -/
theorem quorum_distinct_refuted_carried :
    let s := init 3 3 0
    let s' := (step verifyNewConfirms s (.block ⟨1, 0, 1, 0, 1, ⟨some 0, 0⟩, [⟨some 0, 1⟩]⟩ true)).1
    s'.stable.id = 1 ∧ distinctCount 3 s'.stable = 1 ∧ twoThirds 3 = 2 := by decide

/-- (code before commit d34eb0a) a deputy other than the miner doubling its own vote (needs that
    deputy's key: another nonce). -/
theorem quorum_distinct_refuted_resigned :
    let s := run verifyNewConfirms (init 4 4 0) [.block ⟨1, 0, 1, 0, 1, ⟨some 0, 0⟩, []⟩ true]
    let s' := (step verifyNewConfirms s (.confirms 1 1 [⟨some 2, 0⟩, ⟨some 2, 7⟩])).1
    s'.stable.id = 1 ∧ distinctCount 4 s'.stable = 2 ∧ twoThirds 4 = 3 := by decide

theorem signersOf_nodup_of_inj {n : Nat} {b : Blk} (h : SigsOK n b)
    (hinj : ∀ a ∈ b.hdr :: b.confirms, ∀ c ∈ b.hdr :: b.confirms, recover a = recover c → a = c) :
    (signersOf b).Nodup ∧ (∀ d ∈ signersOf b, d < n) ∧ (signersOf b).length = b.confirms.length + 1 := by
  have hall : ∀ s ∈ b.hdr :: b.confirms, ∃ d, recover s = some d ∧ d < n := by
    intro s hs
    rcases List.mem_cons.1 hs with rfl | hs
    · exact ⟨b.miner, h.hdr.1, h.hdr.2⟩
    · exact h.deputies s hs
  -- signersOf b is the image of the signature list under `recover`
  have himg : ∀ (l : List Sig), l.Nodup → (∀ s ∈ l, ∃ d, recover s = some d ∧ d < n) →
      (∀ a ∈ l, ∀ c ∈ l, recover a = recover c → a = c) →
      (l.filterMap recover).Nodup ∧ (∀ d ∈ l.filterMap recover, d < n) := by
    intro l
    induction l with
    | nil => intro _ _ _; exact ⟨List.nodup_nil, fun _ hd => by cases hd⟩
    | cons s rest ih =>
      intro hnd hdep hi
      obtain ⟨d, hd, hdn⟩ := hdep s List.mem_cons_self
      have hnd' := List.nodup_cons.1 hnd
      obtain ⟨ih1, ih2⟩ := ih hnd'.2 (fun x hx => hdep x (List.mem_cons_of_mem _ hx))
        (fun a ha c hc => hi a (List.mem_cons_of_mem _ ha) c (List.mem_cons_of_mem _ hc))
      rw [List.filterMap_cons_some hd]
      refine ⟨List.nodup_cons.2 ⟨?_, ih1⟩, ?_⟩
      · intro hm
        rcases List.mem_filterMap.1 hm with ⟨x, hx, hxd⟩
        have : s = x := hi s List.mem_cons_self x (List.mem_cons_of_mem _ hx) (hd.trans hxd.symm)
        exact hnd'.1 (this ▸ hx)
      · intro e he
        rcases List.mem_cons.1 he with rfl | he
        · exact hdn
        · exact ih2 e he
  have h0 := himg (b.hdr :: b.confirms) h.nodup hall hinj
  have e : (b.hdr :: b.confirms).filterMap recover = signersOf b := by
    rw [List.filterMap_cons_some h.hdr.1]; rfl
  rw [e] at h0
  refine ⟨h0.1, h0.2, ?_⟩
  unfold signersOf
  rw [List.length_cons, filterMap_recover_length (fun s hs => (h.deputies s hs).imp fun _ hd => hd.1)]

theorem enough_le {dc n : Nat} {b : Blk} (hn : n ≤ dc) (h : isConfirmEnough dc n b = true) :
    twoThirds n ≤ b.confirms.length + 1 := by
  unfold isConfirmEnough at h
  simp only [Bool.or_eq_true, decide_eq_true_eq] at h
  have := twoThirds_mono hn
  omega

/-- PARTIAL theorem the code before commit d34eb0a satisfied (superseded by `quorum_distinct_fixed` for
    the current code). Whenever the stable pointer moves to a block `b`, IF the
    signatures stored for `b` (header + confirms) recover to pairwise different nodes — the exact
    guard: no node, the miner included, is represented by two different byte strings — THEN at least
    ⌈2n/3⌉ distinct deputies, miner included, signed `b`.
    (`n ≤ dc`: a term never has more deputies than the configured maximum, `TermRecord.GetDeputies`.) -/
theorem quorum_distinct_partial (dc n g : Nat) (hn : n ≤ dc) (ops : List Op) (op : Op) :
    let s := run verifyNewConfirms (init dc n g) ops
    let s' := (step verifyNewConfirms s op).1
    s'.stable.id ≠ s.stable.id →
    (∀ a ∈ s'.stable.hdr :: s'.stable.confirms, ∀ c ∈ s'.stable.hdr :: s'.stable.confirms, recover a = recover c → a = c) →
    twoThirds n ≤ distinctCount n s'.stable := by
  intro s s' hne hinj
  obtain ⟨hs, hen⟩ := stable_change_has vok_faithful dc n g ops op hne
  obtain ⟨h1, h2, h3⟩ := signersOf_nodup_of_inj hs hinj
  have h4 := length_le_distinctCount h1 h2
  have h5 := enough_le hn hen
  exact Nat.le_trans h5 (by rw [← h3]; exact h4)

/-- what held on the code before commit d34eb0a: the quorum is a quorum of distinct SIGNATURES by deputies. -/
theorem quorum_signatures (dc n g : Nat) (hn : n ≤ dc) (ops : List Op) (op : Op) :
    let s := run verifyNewConfirms (init dc n g) ops
    let s' := (step verifyNewConfirms s op).1
    s'.stable.id ≠ s.stable.id →
    SigsOK n s'.stable ∧ twoThirds n ≤ (s'.stable.hdr :: s'.stable.confirms).length := by
  intro s s' hne
  obtain ⟨hs, hen⟩ := stable_change_has vok_faithful dc n g ops op hne
  exact ⟨hs, by rw [List.length_cons]; exact enough_le hn hen⟩

/-! ## the code as it is now (commit d34eb0a): de-duplicate by recovered node, the miner included -/

structure NodeOK (n : Nat) (b : Blk) : Prop where
  nodup : (signersOf b).Nodup
  deputies : ∀ s ∈ b.confirms, ∃ d, recover s = some d ∧ d < n
  hdr : recover b.hdr = some b.miner ∧ b.miner < n

def AccF (n : Nat) (b : Blk) (valid : List Sig) : Prop :=
  (signersOf b ++ valid.filterMap recover).Nodup ∧ ∀ s ∈ valid, ∃ d, recover s = some d ∧ d < n

theorem filterMap_append_singleton {l : List Sig} {s : Sig} {d : Nat} (hd : recover s = some d) :
    (l ++ [s]).filterMap recover = l.filterMap recover ++ [d] := by
  rw [List.filterMap_append, List.filterMap_cons_some hd, List.filterMap_nil]

theorem verifyLoopFixed_acc (n : Nat) (b : Blk) (hh : recover b.hdr = some b.miner) :
    ∀ (sigs valid : List Sig) (e : CErr), AccF n b valid → AccF n b (verifyLoopFixed n b sigs valid e).1
  | [], _, _, h => h
  | s :: rest, valid, e, h => by
    simp only [verifyLoopFixed]
    split
    · exact verifyLoopFixed_acc n b hh rest valid _ h
    · split
      · exact verifyLoopFixed_acc n b hh rest valid _ h
      · rename_i d hd
        split
        · exact verifyLoopFixed_acc n b hh rest valid _ h
        · rename_i hdn
          split
          · exact verifyLoopFixed_acc n b hh rest valid _ h
          · split
            · exact verifyLoopFixed_acc n b hh rest valid _ h
            · rename_i hnew
              apply verifyLoopFixed_acc n b hh rest (valid ++ [s]) e
              have hn1 : ¬ recover b.hdr = some d := fun x => hnew (Or.inl x)
              have hn2 : d ∉ b.confirms.filterMap recover := fun x => hnew (Or.inr (Or.inl x))
              have hn3 : d ∉ valid.filterMap recover := fun x => hnew (Or.inr (Or.inr x))
              refine ⟨?_, ?_⟩
              · rw [filterMap_append_singleton hd, ← List.append_assoc]
                refine List.nodup_append.2 ⟨h.1, List.nodup_cons.2 ⟨by simp, List.nodup_nil⟩, ?_⟩
                intro a ha c hc hac
                rw [List.mem_singleton] at hc
                subst hc; subst hac
                rcases List.mem_append.1 ha with ha | ha
                · rcases List.mem_cons.1 ha with ha | ha
                  · exact hn1 (by rw [hh, ha])
                  · exact hn2 ha
                · exact hn3 ha
              · intro x hx
                rcases List.mem_append.1 hx with hx | hx
                · exact h.2 x hx
                · rw [List.mem_singleton] at hx; subst hx; exact ⟨d, hd, Decidable.not_not.1 hdn⟩

theorem appendConfirm_nodeOK (n : Nat) : ∀ (valid : List Sig) (b : Blk), NodeOK n b →
    (signersOf b ++ valid.filterMap recover).Nodup → (∀ s ∈ valid, ∃ d, recover s = some d ∧ d < n) →
    NodeOK n (appendConfirm b valid)
  | [], _, h, _, _ => h
  | s :: rest, b, h, hnd, hv => by
    simp only [appendConfirm]
    obtain ⟨d, hd, hdn⟩ := hv s List.mem_cons_self
    have hrest : ∀ x ∈ rest, ∃ d, recover x = some d ∧ d < n := fun x hx => hv x (List.mem_cons_of_mem _ hx)
    rw [List.filterMap_cons_some hd] at hnd
    split
    · apply appendConfirm_nodeOK n rest b h _ hrest
      exact hnd.sublist (List.Sublist.append_left (List.sublist_cons_self _ _) _)
    · have e1 : signersOf { b with confirms := b.confirms ++ [s] } = signersOf b ++ [d] := by
        unfold signersOf
        show b.miner :: (b.confirms ++ [s]).filterMap recover = _
        rw [filterMap_append_singleton hd]; rfl
      have hnd' : ((signersOf b ++ [d]) ++ rest.filterMap recover).Nodup := by
        rw [List.append_assoc]; exact hnd
      apply appendConfirm_nodeOK n rest _ _ (by rw [e1]; exact hnd') hrest
      refine ⟨?_, ?_, h.hdr⟩
      · rw [e1]; exact hnd'.sublist (List.sublist_append_left _ _)
      · intro x hx
        have hx' : x ∈ b.confirms ++ [s] := hx
        rcases List.mem_append.1 hx' with hx' | hx'
        · exact h.deputies x hx'
        · rw [List.mem_singleton] at hx'; subst hx'; exact ⟨d, hd, hdn⟩

theorem vok_fixed : VOK verifyNewConfirmsFixed NodeOK where
  fresh := by
    intro n b h1 h2
    have h0 : AccF n { b with confirms := [] } [] := by
      refine ⟨?_, fun _ h => by cases h⟩
      show ([b.miner] ++ []).Nodup
      simp
    have hacc := verifyLoopFixed_acc n { b with confirms := [] } h1 b.confirms [] .none h0
    refine ⟨?_, hacc.2, ⟨h1, h2⟩⟩
    have := hacc.1
    exact this
  append := by
    intro n b sigs h
    have h0 : AccF n b [] := ⟨by rw [List.filterMap_nil, List.append_nil]; exact h.nodup, fun _ hx => by cases hx⟩
    have hacc := verifyLoopFixed_acc n b h.hdr.1 sigs [] .none h0
    exact appendConfirm_nodeOK n _ b h hacc.1 hacc.2

/-- HEADLINE — the FULL quorum theorem, for the code as it is (`verifyNewConfirmsFixed` = validator.go
    since commit d34eb0a: a confirmation is new only if its RECOVERED NODE is neither the miner nor the
    signer of a confirmation already held): whenever
    the stable pointer moves to a block, at least ⌈2n/3⌉ DISTINCT deputies, miner included, signed it —
    for every deputy count, block tree, confirmation multiset (re-encodings and re-signings included)
    and arrival order. -/
theorem quorum_distinct_fixed (dc n g : Nat) (hn : n ≤ dc) (ops : List Op) (op : Op) :
    let s := run verifyNewConfirmsFixed (init dc n g) ops
    let s' := (step verifyNewConfirmsFixed s op).1
    s'.stable.id ≠ s.stable.id → twoThirds n ≤ distinctCount n s'.stable := by
  intro s s' hne
  obtain ⟨hs, hen⟩ := stable_change_has vok_fixed dc n g ops op hne
  have hlt : ∀ d ∈ signersOf s'.stable, d < n := by
    intro d hd
    rcases List.mem_cons.1 hd with rfl | hd
    · exact hs.hdr.2
    · rcases List.mem_filterMap.1 hd with ⟨x, hx, hxd⟩
      obtain ⟨d', hd', hlt'⟩ := hs.deputies x hx
      rw [hd'] at hxd; cases hxd; exact hlt'
  have h1 := length_le_distinctCount hs.nodup hlt
  have h3 : (signersOf s'.stable).length = s'.stable.confirms.length + 1 := by
    unfold signersOf
    rw [List.length_cons, filterMap_recover_length (fun s hs' => (hs.deputies s hs').imp fun _ hd => hd.1)]
  have h5 := enough_le hn hen
  exact Nat.le_trans h5 (by rw [← h3]; exact h1)

/-- the current verifier refuses the forged packet of `quorum_distinct_refuted`. -/
example :
    let s := run verifyNewConfirmsFixed (init 3 3 0) [.block ⟨1, 0, 1, 0, 1, ⟨some 0, 0⟩, []⟩ true]
    (step verifyNewConfirmsFixed s (.confirms 1 1 [⟨some 0, 1⟩])).2 = "ErrNoNewConfirm" ∧
    (step verifyNewConfirmsFixed s (.confirms 1 1 [⟨some 0, 1⟩])).1.stable.id = 0 := by decide

/-- non-vacuity of `quorum_distinct_fixed` (current code): with honest signatures the stable pointer
    does move (2 of 3 deputies), a sibling fork is pruned and the head moves over. -/
example :
    let s := run verifyNewConfirmsFixed (init 3 3 0)
      [.block ⟨1, 0, 1, 0, 5, ⟨some 0, 0⟩, []⟩ true, .block ⟨2, 0, 1, 1, 3, ⟨some 1, 0⟩, []⟩ true,
       .block ⟨3, 1, 2, 1, 4, ⟨some 1, 0⟩, []⟩ true]
    let s' := (step verifyNewConfirmsFixed s (.confirms 2 1 [⟨some 2, 0⟩, ⟨some 2, 1⟩])).1
    s.headId = 3 ∧ s'.stable.id = 2 ∧ s'.headId = 2 ∧ s'.tree = [] ∧ distinctCount 3 s'.stable = 2 := by decide

/-- non-vacuity: with honest signatures the stable pointer does move (2 of 3 deputies), the head
    follows, and the guard of `quorum_distinct_partial` is satisfiable. -/
example :
    let s := run verifyNewConfirms (init 3 3 0) [.block ⟨1, 0, 1, 0, 1, ⟨some 0, 0⟩, []⟩ true]
    let s' := (step verifyNewConfirms s (.confirms 1 1 [⟨some 1, 0⟩])).1
    s'.stable.id = 1 ∧ s'.headId = 1 ∧ distinctCount 3 s'.stable = 2 := by decide

/-- non-vacuity of the fork machinery: a fork is pruned when its sibling becomes stable and the head
    moves over to the surviving branch. -/
example :
    let s := run verifyNewConfirms (init 3 3 0)
      [.block ⟨1, 0, 1, 0, 5, ⟨some 0, 0⟩, []⟩ true, .block ⟨2, 0, 1, 1, 3, ⟨some 1, 0⟩, []⟩ true,
       .block ⟨3, 1, 2, 1, 4, ⟨some 1, 0⟩, []⟩ true]
    let s' := (step verifyNewConfirms s (.confirms 2 1 [⟨some 2, 0⟩])).1
    s.headId = 3 ∧ s'.stable.id = 2 ∧ s'.headId = 2 ∧ s'.tree = [] := by decide


/-! ## the one Go panic in reach (`needSwitchFork`: `% TwoThirdDeputyCount` with an empty term) never fires:
    a block is only stored after `verifySigner` found its miner among the deputies, so `n ≥ 1`. -/

theorem forkDecision_ne_none {s : St} {nb : Blk} (hn : 0 < s.n) : forkDecision s nb ≠ none := by
  have hns : needSwitchFork s (chooseNewFork s.stable s.tree) ≠ none := by
    unfold needSwitchFork
    split
    · simp only
      split
      · rename_i h; unfold twoThirds at h; omega
      · simp
    · simp
  unfold forkDecision
  split
  · simp
  split
  · simp
  simp only
  split
  · rename_i h; exact absurd h hns
  · simp
  · simp

theorem saveNewBlock_no_panic {s : St} {b : Blk} (hi : TInv s) (hn : 0 < s.n) : (saveNewBlock s b).2 ≠ "panic" := by
  unfold saveNewBlock
  split
  · simp
  rename_i s1 hs1
  obtain ⟨e1, _⟩ := setBlock_spec hi hs1
  split
  · simp
  rename_i s2 ch hus
  have e2 : (updateStable s1 b).1 = s2 := by rw [hus]
  have hn2 : 0 < s2.n := by
    rcases updateStable_cases s1 b with ⟨e, _⟩ | ⟨c, _, _, _, _, e⟩
    · rw [← e2, e, e1]; exact hn
    · rw [← e2, e, e1]; exact hn
  split
  · rename_i hfd; exact absurd hfd (forkDecision_ne_none hn2)
  · simp

theorem afterConfirm_no_panic (s1 : St) (nb : Blk) (h : Nat) : (afterConfirm s1 nb h).2 ≠ "panic" := by
  unfold afterConfirm
  split
  · split <;> simp
  · simp

/-- no operation on a reachable state ends in the Go panic. -/
theorem no_panic (V : Verifier) (dc n g : Nat) (ops : List Op) (op : Op) :
    (step V (run V (init dc n g) ops) op).2 ≠ "panic" := by
  have hi := inv_reachable V dc n g ops
  generalize run V (init dc n g) ops = s at hi
  cases op with
  | block b valid =>
    show (insertBlock V s b valid).2 ≠ "panic"
    unfold insertBlock
    split
    · simp
    split
    · simp
    split
    · simp
    split
    · simp
    rename_i hsig
    split
    · simp
    split
    · simp
    have h2 : b.miner < s.n := by
      apply Classical.byContradiction; intro h; exact hsig (Or.inr h)
    exact saveNewBlock_no_panic hi.toTInv (by omega)
  | confirms id h sigs =>
    show (insertConfirms V s id h sigs).2 ≠ "panic"
    unfold insertConfirms
    split
    · simp
    split
    · simp
    split
    · simp
    split
    · simp
    simp only
    split
    · split
      · simp
      · cases (V s.n _ sigs).2 <;> simp [CErr.name]
    · exact afterConfirm_no_panic _ _ _

end LemoProofs.C03

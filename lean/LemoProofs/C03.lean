/-
  C03 — Finality: stable needs 2/3 DISTINCT deputies of the block's term incl. the miner; stable only
  moves forward along one chain; head always descends from stable; any arrival order.

  Model: `LemoModel.Stable` — StableManager / DPoVP.InsertBlock / MineBlock / InsertConfirms / UpdateStable
  (saveSnapshot, batchConfirmStable) / Confirmer (TryConfirm, needConfirm, lastSig, tryConfirmStable) /
  ForkManager / ChainDatabase.SetStableBlock / deputynode.Manager terms / restart.  Tied to the real
  engine by `hx c03`: every op line is run by the real engine (receiver = outsider or deputy, it
  mines and restarts, chains cross a term boundary) and by the model; the canonical state lines
  (result, stable, head, tree and committed blocks with the signatures stored, terms, lastSig) are diffed.

  The theorems are invariants over ALL operation sequences that did not end in a Go panic (`runP`,
  induction on the op list) from the initial state: every deputy set and term schedule, every fork
  shape, every confirmation multiset, every receiver identity, and — the structural ones — ANY pair
  `Cfg` of "is this signature new?" tests (so they hold for the code as it is and as it was).

  HEADLINE, the full quorum statement, for the live model `cfgSigner` (= /repo since commits d34eb0a
  [VerifyNewConfirms] and 262c027 [TryConfirm / tryConfirmStable]): `quorum_distinct`.
  History: before d34eb0a and before 262c027 the statement was false (signatures were compared as
  BYTES, the quorum test counts signatures): kernel-checked witnesses `quorum_distinct_refuted*`
  (outsider receiver, code before d34eb0a) and `quorum_own_confirm_twice_refuted` (deputy receiver,
  code before 262c027).

  What a Go panic on the stable-advance path does (`DPoVP.UpdateStable → saveSnapshot → NewTermRecord`,
  C10's finding `c10/snapshot-deputies-not-loadable`): the panic comes AFTER `SetStableBlock` has
  committed and BEFORE the head is re-picked — `head_not_descendant_after_snapshot_panic` is the
  witness (harness: `c03/panic-after-stable-commit/head-not-descendant`); hence the `runP` guard.
-/
import LemoModel.Stable
import LemoProofs.Lemmas.Stable
import LemoProofs.Lemmas.StableTerms
namespace LemoProofs.C03
open LemoModel LemoModel.Stable LemoProofs.StableLemmas

/-! ## invariants -/

/-- the head is the stable block or a block of the unconfirmed tree. -/
def HeadOK (s : St) : Prop := s.headId = s.stable.id ∨ ∃ x ∈ s.tree, x.id = s.headId

/-- store invariant: shape of the unconfirmed tree above the stable block; the committed blocks are
    one parent-linked chain from the stable block down to genesis. -/
structure TInv (s : St) : Prop where
  wf : WF s.stable.id s.stable.height s.tree
  top : ∃ c rest, s.committed = c :: rest ∧ c.id = s.stable.id ∧ c.height = s.stable.height
  linked : Linked s.committed
  bottom : ∃ g, s.committed.getLast? = some g ∧ g.height = 0
  tpos : 0 < s.termDur

/-- the node knows exactly the terms whose snapshot block is stable. -/
def TermsOK (s : St) : Prop := s.terms.length = s.stable.height / s.termDur + 1

structure Inv (s : St) : Prop extends TInv s where
  head : HeadOK s
  terms : TermsOK s

/-- hashes of the committed (stable) blocks, newest first. -/
def ids (s : St) : List Nat := s.committed.map (fun b => b.id)

def Consts (s s' : St) : Prop :=
  s'.dc = s.dc ∧ s'.termDur = s.termDur ∧ s'.interim = s.interim ∧ s'.self = s.self

/-- `Ext s s'`: the stable side of `s'` extends the one of `s`: committed blocks are only ever
    prepended, and the stable pointer either stays or moves strictly up. -/
def Ext (s s' : St) : Prop :=
  (∃ l, ids s' = l ++ ids s) ∧
  ((s'.stable.id = s.stable.id ∧ s'.stable.height = s.stable.height) ∨ s.stable.height < s'.stable.height) ∧
  Consts s s'

theorem Consts.refl (s : St) : Consts s s := ⟨rfl, rfl, rfl, rfl⟩

theorem Consts.trans {a b c : St} (h1 : Consts a b) (h2 : Consts b c) : Consts a c :=
  ⟨h2.1.trans h1.1, h2.2.1.trans h1.2.1, h2.2.2.1.trans h1.2.2.1, h2.2.2.2.trans h1.2.2.2⟩

theorem Ext.refl (s : St) : Ext s s := ⟨⟨[], rfl⟩, Or.inl ⟨rfl, rfl⟩, Consts.refl s⟩

theorem Ext.trans {a b c : St} (h1 : Ext a b) (h2 : Ext b c) : Ext a c := by
  obtain ⟨⟨l1, e1⟩, m1, c1⟩ := h1
  obtain ⟨⟨l2, e2⟩, m2, c2⟩ := h2
  refine ⟨⟨l2 ++ l1, by rw [e2, e1, List.append_assoc]⟩, ?_, c1.trans c2⟩
  rcases m1 with ⟨i1, g1⟩ | g1 <;> rcases m2 with ⟨i2, g2⟩ | g2
  · exact Or.inl ⟨i2.trans i1, g2.trans g1⟩
  · right; omega
  · right; omega
  · right; omega

/-- an update that touches neither the store nor the constants. -/
theorem Ext.of_same {s s' : St} (hc : s'.committed = s.committed) (hs : s'.stable = s.stable) (hk : Consts s s') :
    Ext s s' :=
  ⟨⟨[], by simp [ids, hc]⟩, Or.inl ⟨by rw [hs], by rw [hs]⟩, hk⟩

theorem TInv.of_same {s s' : St} (h : TInv s) (ht : s'.tree = s.tree) (hc : s'.committed = s.committed)
    (hs : s'.stable = s.stable) (hd : s'.termDur = s.termDur) : TInv s' :=
  ⟨by rw [ht, hs]; exact h.wf, by rw [hc, hs]; exact h.top, by rw [hc]; exact h.linked,
   by rw [hc]; exact h.bottom, by rw [hd]; exact h.tpos⟩

/-! ## the store operations keep the store invariant -/

theorem setBlock_spec {s s1 : St} {b : Blk} (h : TInv s) (e : setBlock s b = some s1) :
    s1 = { s with tree := b :: s.tree } ∧ TInv s1 := by
  unfold setBlock at e
  split at e
  · cases e
  rename_i hex
  split at e
  · cases e
  split at e
  · cases e
  have hex' : (getBlock s b.id).isSome = false := by simpa using hex
  obtain ⟨hnt, hnc⟩ := getBlock_none hex'
  obtain ⟨c, rest, hcm, hcid, hch⟩ := h.top
  have hroot : b.id ≠ s.stable.id := by
    intro hb
    exact hnc c (by rw [hcm]; exact List.mem_cons_self) (hcid.trans hb.symm)
  split at e
  · split at e
    · cases e
    rename_i hpar
    split at e
    · cases e
    rename_i hh
    cases e
    refine ⟨rfl, ⟨⟨h.wf, hroot, fun y hy => hnt y hy, Or.inl ⟨?_, ?_⟩⟩, h.top, h.linked, h.bottom, h.tpos⟩⟩
    · exact (Decidable.not_not.1 hpar).symm
    · exact (Decidable.not_not.1 hh).symm
  · rename_i p hp
    split at e
    · cases e
    rename_i hh
    cases e
    obtain ⟨hpm, hpid⟩ := findBlk_some hp
    refine ⟨rfl, ⟨⟨h.wf, hroot, fun y hy => hnt y hy, Or.inr ⟨p, hpm, hpid, ?_⟩⟩, h.top, h.linked, h.bottom, h.tpos⟩⟩
    exact (Decidable.not_not.1 hh).symm

/-- the function `replaceBlk` maps over the list. -/
def replFn (nb x : Blk) : Blk := if x.id = nb.id then { x with confirms := nb.confirms } else x

theorem replaceBlk_eq (l : List Blk) (nb : Blk) : replaceBlk l nb = l.map (replFn nb) := rfl

theorem replaceBlk_shape (nb x : Blk) :
    (replFn nb x).id = x.id ∧ (replFn nb x).parent = x.parent ∧ (replFn nb x).height = x.height := by
  unfold replFn
  split <;> exact ⟨rfl, rfl, rfl⟩

theorem replaceBlk_ids (l : List Blk) (nb : Blk) :
    (replaceBlk l nb).map (fun b => b.id) = l.map (fun b => b.id) := by
  rw [replaceBlk_eq, List.map_map]
  apply List.map_congr_left
  intro x _
  exact (replaceBlk_shape nb x).1

/-- rewriting the confirm list of a committed block keeps the committed chain. -/
theorem committed_replace {s : St} (nb : Blk) (h : TInv s) :
    TInv { s with committed := replaceBlk s.committed nb } := by
  refine ⟨h.wf, ?_, ?_, ?_, h.tpos⟩
  · obtain ⟨c, rest, hcm, hcid, hch⟩ := h.top
    refine ⟨replFn nb c, rest.map (replFn nb), by show replaceBlk s.committed _ = _; rw [hcm, replaceBlk_eq]; rfl, ?_, ?_⟩
    · rw [(replaceBlk_shape _ c).1]; exact hcid
    · rw [(replaceBlk_shape _ c).2.2]; exact hch
  · show Linked (replaceBlk s.committed _)
    rw [replaceBlk_eq]
    exact Linked.map _ (fun x _ => replaceBlk_shape _ x) h.linked
  · obtain ⟨g, hg, hh⟩ := h.bottom
    refine ⟨replFn nb g, ?_, by rw [(replaceBlk_shape nb g).2.2]; exact hh⟩
    show (replaceBlk s.committed nb).getLast? = _
    rw [replaceBlk_eq, List.getLast?_map, hg]; rfl

theorem saveConfirm_spec {s : St} (b : Blk) (valid : List Sig) (h : TInv s) :
    TInv (saveConfirm s b valid).1 ∧ (saveConfirm s b valid).1.stable = s.stable ∧
    (saveConfirm s b valid).1.headId = s.headId ∧ (saveConfirm s b valid).1.headHeight = s.headHeight ∧
    ids (saveConfirm s b valid).1 = ids s ∧
    (saveConfirm s b valid).1.tree.map (fun b => b.id) = s.tree.map (fun b => b.id) ∧
    (saveConfirm s b valid).1.terms = s.terms ∧ Consts s (saveConfirm s b valid).1 := by
  unfold saveConfirm
  split
  · refine ⟨⟨?_, h.top, h.linked, h.bottom, h.tpos⟩, rfl, rfl, rfl, rfl, replaceBlk_ids _ _, rfl, Consts.refl s⟩
    show WF _ _ (replaceBlk s.tree _)
    rw [replaceBlk_eq]
    exact WF.map _ (fun x _ => replaceBlk_shape _ x) h.wf
  · exact ⟨committed_replace _ h, rfl, rfl, rfl, replaceBlk_ids _ _, rfl, rfl, Consts.refl s⟩

theorem getLast?_append_cons {α : Type} : ∀ (p : List α) (c : α) (rest : List α),
    (p ++ c :: rest).getLast? = (c :: rest).getLast?
  | [], _, _ => rfl
  | [x], c, rest => by simp [List.getLast?_cons_cons]
  | x :: y :: p, c, rest => by
    have := getLast?_append_cons (y :: p) c rest
    simp only [List.cons_append] at this ⊢
    rw [List.getLast?_cons_cons]; exact this

theorem setStable_spec {s : St} {c : Blk} (h : TInv s) (hc : c ∈ s.tree) :
    TInv (setStable s c) ∧ Ext s (setStable s c) := by
  have hne : c.id ≠ s.stable.id := WF.ids_ne_root h.wf c hc
  obtain ⟨p, hp⟩ := pathUp_head h.wf c hc
  have htr := pathUp_toRoot h.wf c hc
  obtain ⟨c0, rest, hcm, hcid, hch⟩ := h.top
  refine ⟨⟨?_, ?_, ?_, ?_, h.tpos⟩, ?_, ?_, Consts.refl s⟩
  · exact WF.descOf hne h.wf (fun y hy hyc => by rw [WF.unique h.wf y hy c hc hyc]; rfl)
  · exact ⟨c, p ++ s.committed, by show pathUp s.tree c.id ++ s.committed = _; rw [hp]; rfl, rfl, rfl⟩
  · show Linked (pathUp s.tree c.id ++ s.committed)
    rw [hcm]
    have hl := h.linked
    rw [hcm] at hl
    exact Linked.append_toRoot hl hcid hch htr
  · obtain ⟨g, hg, hh⟩ := h.bottom
    refine ⟨g, ?_, hh⟩
    show (pathUp s.tree c.id ++ s.committed).getLast? = _
    rw [hcm, getLast?_append_cons, ← hcm]; exact hg
  · exact ⟨(pathUp s.tree c.id).map (fun b => b.id), by simp [ids, setStable]⟩
  · right
    exact WF.height_gt h.wf c hc

/-- `StableManager.UpdateStable` either leaves the state alone or commits a block of the tree with the
    id asked for. -/
theorem updateStable_cases (s : St) (b : Blk) :
    ((updateStable s b).1 = s ∧ (updateStable s b).2.1 = false) ∨
    ∃ c ∈ s.tree, c.id = b.id ∧ isConfirmEnough s.dc (depsAt s b.height) b = true ∧ s.stable.height < b.height ∧
      updateStable s b = (setStable s c, true, false) := by
  unfold updateStable
  split
  · exact Or.inl ⟨rfl, rfl⟩
  rename_i hgt
  split
  · exact Or.inl ⟨rfl, rfl⟩
  rename_i hen
  split
  · exact Or.inl ⟨rfl, rfl⟩
  · rename_i c hc
    obtain ⟨hcm, hcid⟩ := findBlk_some hc
    exact Or.inr ⟨c, hcm, hcid, by simpa using hen, by omega, rfl⟩

/-! ## the node's own confirmations only touch confirm lists and `lastSig` -/

theorem setLastSig_fields (s : St) (b : Blk) :
    (setLastSig s b).tree = s.tree ∧ (setLastSig s b).stable = s.stable ∧ (setLastSig s b).committed = s.committed ∧
    (setLastSig s b).terms = s.terms ∧ (setLastSig s b).headId = s.headId ∧ (setLastSig s b).headHeight = s.headHeight ∧
    Consts s (setLastSig s b) := by
  unfold setLastSig
  split <;> exact ⟨rfl, rfl, rfl, rfl, rfl, rfl, Consts.refl s⟩

/-- what `tryConfirmStable` / `batchConfirmStable` leave alone. -/
def SameButConfirms (s s' : St) : Prop :=
  s'.tree = s.tree ∧ s'.stable = s.stable ∧ s'.terms = s.terms ∧ s'.headId = s.headId ∧
  s'.headHeight = s.headHeight ∧ Consts s s' ∧ ids s' = ids s

theorem SameButConfirms.refl (s : St) : SameButConfirms s s := ⟨rfl, rfl, rfl, rfl, rfl, Consts.refl s, rfl⟩

theorem SameButConfirms.trans {a b c : St} (h1 : SameButConfirms a b) (h2 : SameButConfirms b c) :
    SameButConfirms a c :=
  ⟨h2.1.trans h1.1, h2.2.1.trans h1.2.1, h2.2.2.1.trans h1.2.2.1, h2.2.2.2.1.trans h1.2.2.2.1,
   h2.2.2.2.2.1.trans h1.2.2.2.2.1, h1.2.2.2.2.2.1.trans h2.2.2.2.2.2.1, h2.2.2.2.2.2.2.trans h1.2.2.2.2.2.2⟩

theorem tryConfirmStable_spec (C : Cfg) {s : St} (b : Blk) (h : TInv s) :
    TInv (tryConfirmStable C s b) ∧ SameButConfirms s (tryConfirmStable C s b) := by
  obtain ⟨f1, f2, f3, f4, f5, f6, f7⟩ := setLastSig_fields s b
  have h1 : TInv (setLastSig s b) := h.of_same f1 f3 f2 f7.2.1
  have s1 : SameButConfirms s (setLastSig s b) := ⟨f1, f2, f4, f5, f6, f7, by simp [ids, f3]⟩
  unfold tryConfirmStable
  simp only
  split
  · exact ⟨h, SameButConfirms.refl s⟩
  split
  · exact ⟨h, SameButConfirms.refl s⟩
  split
  · exact ⟨h1, s1⟩
  · refine ⟨committed_replace _ h1, s1.trans ⟨rfl, rfl, rfl, rfl, rfl, Consts.refl _, ?_⟩⟩
    exact replaceBlk_ids _ _

theorem batchConfirm_spec (C : Cfg) : ∀ (l : List Blk) {s : St}, TInv s →
    TInv (batchConfirm C s l) ∧ SameButConfirms s (batchConfirm C s l)
  | [], s, h => ⟨h, SameButConfirms.refl s⟩
  | b :: older, s, h => by
    obtain ⟨h1, s1⟩ := batchConfirm_spec C older h
    simp only [batchConfirm]
    split
    · rename_i cb _
      obtain ⟨h2, s2⟩ := tryConfirmStable_spec C cb h1
      exact ⟨h2, s1.trans s2⟩
    · exact ⟨h1, s1⟩

/-! ## `DPoVP.UpdateStable`: commit, term snapshots, own confirmations -/

/-- the four outcomes. In the last two the stable pointer moved to a block `c` of the tree with the id
    asked for; a panic leaves exactly the committed state (nothing after `SetStableBlock` ran). -/
theorem updateStableFull_cases (C : Cfg) (s : St) (b : Blk) (hi : TInv s) (ht : TermsOK s) :
    ((updateStableFull C s b).1 = s ∧ ((updateStableFull C s b).2 = .same ∨ (updateStableFull C s b).2 = .err)) ∨
    ∃ c ∈ s.tree, c.id = b.id ∧ isConfirmEnough s.dc (depsAt s b.height) b = true ∧ s.stable.height < b.height ∧
      (((updateStableFull C s b).2 = .panic ∧ (updateStableFull C s b).1 = setStable s c) ∨
       ((updateStableFull C s b).2 = .changed ∧ TInv (updateStableFull C s b).1 ∧ TermsOK (updateStableFull C s b).1 ∧
          ∃ t, (∃ ext, t = s.terms ++ ext) ∧
            SameButConfirms { setStable s c with terms := t } (updateStableFull C s b).1)) := by
  unfold updateStableFull
  rcases updateStable_cases s b with ⟨e, e2⟩ | ⟨c, hc, hcid, hen, hgt, e⟩
  · left
    simp only
    split
    · refine ⟨e, ?_⟩; simp
    · rw [e2]; simp only [Bool.not_false, if_true]
      refine ⟨e, ?_⟩; simp
  · right
    refine ⟨c, hc, hcid, hen, hgt, ?_⟩
    rw [e]
    simp only [Bool.false_eq_true, if_false, Bool.not_true]
    obtain ⟨t1, _⟩ := setStable_spec hi hc
    have hpath : ToRoot s.stable.id s.stable.height (pathUp s.tree b.id) := by
      rw [← hcid]; exact pathUp_toRoot hi.wf c hc
    have hterms : (setStable s c).terms = s.terms := rfl
    split
    · exact Or.inl ⟨rfl, rfl⟩
    · rename_i t hst
      right
      rw [hterms] at hst
      obtain ⟨hext, x, rest, hp, hlen⟩ := saveSnapshots_path hi.tpos ht hpath hst
      have hx : x = c := by
        obtain ⟨p', hp'⟩ := pathUp_head hi.wf c hc
        rw [hcid] at hp'
        rw [hp'] at hp
        cases hp; rfl
      have t2 : TInv { setStable s c with terms := t } := t1.of_same rfl rfl rfl rfl
      obtain ⟨t3, s3⟩ := batchConfirm_spec C (pathUp s.tree b.id) t2
      refine ⟨rfl, t3, ?_, t, hext, s3⟩
      show (batchConfirm C _ _).terms.length = (batchConfirm C _ _).stable.height / (batchConfirm C _ _).termDur + 1
      rw [s3.2.2.1, s3.2.1, s3.2.2.2.2.2.1.2.1]
      show t.length = c.height / s.termDur + 1
      rw [← hx]; exact hlen

theorem updateStableFull_spec (C : Cfg) {s : St} (b : Blk) (hi : TInv s) (ht : TermsOK s) :
    TInv (updateStableFull C s b).1 ∧ Ext s (updateStableFull C s b).1 ∧
    ((updateStableFull C s b).2 ≠ .panic → TermsOK (updateStableFull C s b).1) := by
  rcases updateStableFull_cases C s b hi ht with ⟨e, _⟩ | ⟨c, hc, _, _, _, ⟨ep, e⟩ | ⟨_, t3, tk, t, _, s3⟩⟩
  · rw [e]; exact ⟨hi, Ext.refl s, fun _ => ht⟩
  · rw [e]
    obtain ⟨t1, x1⟩ := setStable_spec hi hc
    exact ⟨t1, x1, fun h => absurd ep h⟩
  · obtain ⟨_, x1⟩ := setStable_spec hi hc
    refine ⟨t3, ?_, fun _ => tk⟩
    obtain ⟨⟨l, el⟩, m, k⟩ := x1
    refine ⟨⟨l, by rw [s3.2.2.2.2.2.2]; exact el⟩, ?_, k.trans s3.2.2.2.2.2.1⟩
    rw [s3.2.1]; exact m

/-! ## fork choice re-establishes `HeadOK` whatever the head was -/

theorem headOK_of_not_cut {s : St} (h : isCut s = false) : HeadOK s := by
  unfold isCut at h
  have h2 : (findBlk s.tree s.headId).isNone = false := by
    cases hb : (findBlk s.tree s.headId).isNone
    · rfl
    · rw [hb] at h; simp at h
  cases hf : findBlk s.tree s.headId with
  | none => rw [hf] at h2; simp at h2
  | some x => exact Or.inr ⟨x, (findBlk_some hf).1, (findBlk_some hf).2⟩

theorem headOK_setHead_choose (s : St) : HeadOK (setHead s (some (chooseNewFork s.stable s.tree))) := by
  unfold setHead
  simp only
  have hm := chooseNewFork_mem s.stable s.tree
  split
  · rcases hm with e | hm
    · exact Or.inl (by show (chooseNewFork s.stable s.tree).id = s.stable.id; rw [e])
    · exact Or.inr ⟨_, hm, rfl⟩
  · rename_i hid
    have hid' : (chooseNewFork s.stable s.tree).id = s.headId := Decidable.not_not.1 hid
    rcases hm with e | hm
    · exact Or.inl (by rw [← hid', e])
    · exact Or.inr ⟨_, hm, hid'⟩

theorem setHead_fields (s : St) (h : Option Blk) :
    (setHead s h).tree = s.tree ∧ (setHead s h).stable = s.stable ∧ (setHead s h).committed = s.committed ∧
    (setHead s h).terms = s.terms ∧ Consts s (setHead s h) := by
  unfold setHead
  split
  · split <;> exact ⟨rfl, rfl, rfl, rfl, Consts.refl s⟩
  · exact ⟨rfl, rfl, rfl, rfl, Consts.refl s⟩

theorem setHead_tinv {s : St} (h : Option Blk) (hi : TInv s) : TInv (setHead s h) := by
  obtain ⟨e1, e2, e3, _, k⟩ := setHead_fields s h
  exact hi.of_same e1 e3 e2 k.2.1

theorem setHead_terms {s : St} (h : Option Blk) (ht : TermsOK s) : TermsOK (setHead s h) := by
  obtain ⟨_, e2, _, e4, k⟩ := setHead_fields s h
  unfold TermsOK
  rw [e4, e2, k.2.1]; exact ht

theorem setHead_ext (s : St) (h : Option Blk) : Ext s (setHead s h) := by
  obtain ⟨_, e2, e3, _, k⟩ := setHead_fields s h
  exact Ext.of_same e3 e2 k

theorem updateForkForConfirm_spec {s : St} (hi : TInv s) (ht : TermsOK s) :
    Inv (updateForkForConfirm s) ∧ Ext s (updateForkForConfirm s) := by
  unfold updateForkForConfirm
  cases hc : isCut s
  · simp only [Bool.false_eq_true, if_false]
    exact ⟨⟨hi, headOK_of_not_cut hc, ht⟩, Ext.refl s⟩
  · simp only [if_true]
    exact ⟨⟨setHead_tinv _ hi, headOK_setHead_choose s, setHead_terms _ ht⟩, setHead_ext _ _⟩

/-- `UpdateFork`: given that the new block is the stable block or in the tree, the head chosen is too. -/
theorem forkDecision_spec {s : St} {nb : Blk} (hnb : nb.id = s.stable.id ∨ ∃ x ∈ s.tree, x.id = nb.id) :
    (forkDecision s nb = none → HeadOK s) ∧ (∀ h, forkDecision s nb = some h → HeadOK (setHead s h)) := by
  unfold forkDecision
  cases hc : isCut s
  · simp only [Bool.false_eq_true, if_false]
    have hok := headOK_of_not_cut hc
    split
    · refine ⟨fun e => (by cases e), fun h e => ?_⟩
      cases e
      unfold setHead
      simp only
      split
      · exact hnb
      · exact hok
    · split
      · exact ⟨fun _ => hok, fun h e => (by cases e)⟩
      · refine ⟨fun e => (by cases e), fun h e => ?_⟩
        cases e
        exact headOK_setHead_choose s
      · refine ⟨fun e => (by cases e), fun h e => ?_⟩
        cases e
        exact hok
  · simp only [if_true]
    refine ⟨fun e => (by cases e), fun h e => ?_⟩
    cases e
    exact headOK_setHead_choose s

/-! ## every engine operation keeps the store invariant and extends the stable side; unless it ends in a
    Go panic it keeps the whole invariant -/

/-- the post-condition of every operation. -/
def Post (s : St) (r : St × String) : Prop :=
  TInv r.1 ∧ Ext s r.1 ∧ (r.2 ≠ "panic" → Inv r.1)

theorem Post.keep {s : St} (hi : Inv s) (msg : String) : Post s (s, msg) := ⟨hi.toTInv, Ext.refl s, fun _ => hi⟩

theorem saveNewBlock_spec (C : Cfg) {s : St} (b : Blk) (hi : Inv s) : Post s (saveNewBlock C s b) := by
  unfold saveNewBlock
  split
  · exact Post.keep hi _
  · rename_i s1 hs1
    obtain ⟨e1, t1⟩ := setBlock_spec hi.toTInv hs1
    -- IsMinedByself → SetLastSig
    have key : ∀ s1' : St, s1'.tree = s1.tree → s1'.stable = s1.stable → s1'.committed = s1.committed →
        s1'.terms = s1.terms → s1'.headId = s1.headId → Consts s1 s1' →
        Post s (let r := updateStableFull C s1' b
                if r.2 = .err then (r.1, "ErrSaveBlock")
                else if r.2 = .panic then (r.1, "panic")
                else match forkDecision r.1 b with
                  | none => (r.1, "panic")
                  | some h => (setHead r.1 h, "ok")) := by
      intro s1' g1 g2 g3 g4 g5 g6
      have t1' : TInv s1' := t1.of_same g1 g3 g2 g6.2.1
      have tk1 : TermsOK s1' := by
        unfold TermsOK; rw [g4, g2, g6.2.1, e1]; exact hi.terms
      have hx1 : Ext s s1' := Ext.of_same (by rw [g3, e1]) (by rw [g2, e1]) (by rw [e1] at g6; exact g6)
      have hh1 : HeadOK s1' := by
        unfold HeadOK
        rw [g5, g2, g1, e1]
        rcases hi.head with h | ⟨x, hx, hxid⟩
        · exact Or.inl h
        · exact Or.inr ⟨x, List.mem_cons_of_mem _ hx, hxid⟩
      have hb1 : b ∈ s1'.tree := by rw [g1, e1]; exact List.mem_cons_self
      obtain ⟨t2, x2, k2⟩ := updateStableFull_spec C b t1' tk1
      simp only
      split
      · -- SetStableBlock failed: nothing happened
        rename_i herr
        rcases updateStableFull_cases C s1' b t1' tk1 with ⟨e, _⟩ | ⟨c, _, _, _, _, ⟨ep, _⟩ | ⟨ec, _⟩⟩
        · rw [e]; exact ⟨t1', hx1, fun _ => ⟨t1', hh1, tk1⟩⟩
        · rw [ep] at herr; cases herr
        · rw [ec] at herr; cases herr
      · split
        · exact ⟨t2, hx1.trans x2, fun h => absurd rfl h⟩
        · rename_i hne herr
          have tk2 := k2 herr
          -- where is the new block after UpdateStable?
          have hnb : b.id = (updateStableFull C s1' b).1.stable.id ∨
              ∃ x ∈ (updateStableFull C s1' b).1.tree, x.id = b.id := by
            rcases updateStableFull_cases C s1' b t1' tk1 with ⟨e, _⟩ | ⟨c, _, hcid, _, _, ⟨ep, _⟩ | ⟨_, _, _, t, _, s3⟩⟩
            · rw [e]; exact Or.inr ⟨b, hb1, rfl⟩
            · exact absurd ep herr
            · left; rw [s3.2.1]; exact hcid.symm
          obtain ⟨fp, fs⟩ := forkDecision_spec hnb
          split
          · exact ⟨t2, hx1.trans x2, fun h => absurd rfl h⟩
          · rename_i h hfd
            exact ⟨setHead_tinv _ t2, (hx1.trans x2).trans (setHead_ext _ _),
              fun _ => ⟨setHead_tinv _ t2, fs h hfd, setHead_terms _ tk2⟩⟩
    simp only
    split
    · obtain ⟨f1, f2, f3, f4, f5, _, f7⟩ := setLastSig_fields s1 b
      exact key _ f1 f2 f3 f4 f5 f7
    · exact key _ rfl rfl rfl rfl rfl (Consts.refl s1)

theorem tryConfirm_spec (C : Cfg) {s : St} (b : Blk) (hi : Inv s) :
    Inv (tryConfirm C s b).1 ∧ Ext s (tryConfirm C s b).1 ∧
    (tryConfirm C s b).1.tree = s.tree ∧ (tryConfirm C s b).1.terms = s.terms ∧ Consts s (tryConfirm C s b).1 ∧
    (tryConfirm C s b).1.stable = s.stable := by
  obtain ⟨f1, f2, f3, f4, f5, _, f7⟩ := setLastSig_fields s b
  have h1 : Inv (setLastSig s b) := by
    refine ⟨hi.toTInv.of_same f1 f3 f2 f7.2.1, ?_, ?_⟩
    · unfold HeadOK; rw [f5, f2, f1]; exact hi.head
    · unfold TermsOK; rw [f4, f2, f7.2.1]; exact hi.terms
  have x1 : Ext s (setLastSig s b) := Ext.of_same f3 f2 f7
  unfold tryConfirm
  split
  · simp only
    split
    · exact ⟨h1, x1, f1, f4, f7, f2⟩
    · exact ⟨h1, x1, f1, f4, f7, f2⟩
  · exact ⟨hi, Ext.refl s, rfl, rfl, Consts.refl s, rfl⟩

theorem Post.trans {s s1 : St} {r : St × String} (hx : Ext s s1) (hp : Post s1 r) : Post s r :=
  ⟨hp.1, hx.trans hp.2.1, hp.2.2⟩

theorem insertBlock_spec (C : Cfg) {s : St} (b : Blk) (valid : Bool) (hi : Inv s) :
    Post s (insertBlock C s b valid) := by
  unfold insertBlock
  split
  · exact Post.keep hi _
  split
  · exact Post.keep hi _
  split
  · exact Post.keep hi _
  split
  · exact Post.keep hi _
  split
  · exact Post.keep hi _
  split
  · exact Post.keep hi _
  simp only
  obtain ⟨i1, x1, _⟩ := tryConfirm_spec C
    { b with confirms := (C.V (depsAt s b.height) { b with confirms := [] } b.confirms).1 } hi
  exact Post.trans x1 (saveNewBlock_spec C _ i1)

theorem mineBlock_spec (C : Cfg) {s : St} (b : Blk) (hi : Inv s) : Post s (mineBlock C s b) := by
  unfold mineBlock
  split
  · exact Post.keep hi _
  · exact saveNewBlock_spec C _ hi

theorem afterConfirm_spec (C : Cfg) {s1 : St} (nb : Blk) (height : Nat) (hi : Inv s1) :
    Post s1 (afterConfirm C s1 nb height) := by
  unfold afterConfirm
  split
  · obtain ⟨t2, x2, k2⟩ := updateStableFull_spec C nb hi.toTInv hi.terms
    simp only
    split
    · rename_i herr
      rcases updateStableFull_cases C s1 nb hi.toTInv hi.terms with ⟨e, _⟩ | ⟨c, _, _, _, _, ⟨ep, _⟩ | ⟨ec, _⟩⟩
      · rw [e]; exact Post.keep hi _
      · rw [ep] at herr; cases herr
      · rw [ec] at herr; cases herr
    · split
      · exact ⟨t2, x2, fun h => absurd rfl h⟩
      · rename_i _ herr
        obtain ⟨i3, x3⟩ := updateForkForConfirm_spec t2 (k2 herr)
        exact ⟨i3.toTInv, x2.trans x3, fun _ => i3⟩
  · exact Post.keep hi _

theorem saveConfirm_inv {s : St} (b : Blk) (valid : List Sig) (hi : Inv s) :
    Inv (saveConfirm s b valid).1 ∧ Ext s (saveConfirm s b valid).1 := by
  obtain ⟨t, est, ehd, _, eids, etree, eterms, k⟩ := saveConfirm_spec b valid hi.toTInv
  refine ⟨⟨t, ?_, ?_⟩, ⟨[], by rw [eids]; rfl⟩, Or.inl ⟨by rw [est], by rw [est]⟩, k⟩
  · unfold HeadOK
    rw [est, ehd]
    rcases hi.head with h | ⟨x, hx, hxid⟩
    · exact Or.inl h
    · right
      have : s.headId ∈ s.tree.map (fun b => b.id) := List.mem_map.2 ⟨x, hx, hxid⟩
      rw [← etree] at this
      rcases List.mem_map.1 this with ⟨y, hy, hyid⟩
      exact ⟨y, hy, hyid⟩
  · unfold TermsOK
    rw [eterms, est, k.2.1]; exact hi.terms

theorem insertConfirms_spec (C : Cfg) {s : St} (id height : Nat) (sigs : List Sig) (hi : Inv s) :
    Post s (insertConfirms C s id height sigs) := by
  unfold insertConfirms
  split
  · exact Post.keep hi _
  split
  · exact Post.keep hi _
  split
  · exact Post.keep hi _
  split
  · exact Post.keep hi _
  simp only
  split
  · exact Post.keep hi _
  rename_i b _ _ _ _
  obtain ⟨i1, x1⟩ := saveConfirm_inv b (C.V (depsAt s b.height) b sigs).1 hi
  exact Post.trans x1 (afterConfirm_spec C _ height i1)

theorem reopen_spec {s : St} (hi : Inv s) : Post s (reopen s) := by
  unfold reopen
  split
  · exact Post.keep hi _
  · rename_i t ht
    obtain ⟨c, rest, hcm, hcid, hch⟩ := hi.top
    have hlen : t.length = c.height / s.termDur + 1 := by
      obtain ⟨x, r, hx, hl⟩ := saveSnapshots_chain hi.tpos hi.linked hi.bottom ht
      rw [hcm] at hx; cases hx; exact hl
    split
    · rename_i hnil; rw [hcm] at hnil; cases hnil
    · rename_i top rest' htop
      have htc : top = c := by rw [hcm] at htop; cases htop; rfl
      subst htc
      have ti : TInv { s with terms := t, tree := [], stable := top, headId := top.id, headHeight := top.height,
                              lastSigH := top.height, lastSigId := top.id } :=
        ⟨trivial, ⟨top, rest, hcm, rfl, rfl⟩, hi.linked, hi.bottom, hi.tpos⟩
      exact ⟨ti, ⟨⟨[], rfl⟩, Or.inl ⟨hcid, hch⟩, Consts.refl s⟩, fun _ => ⟨ti, Or.inl rfl, hlen⟩⟩

theorem step_spec (C : Cfg) {s : St} (op : Op) (hi : Inv s) : Post s (step C s op) := by
  cases op with
  | block b valid => exact insertBlock_spec C b valid hi
  | mine b => exact mineBlock_spec C b hi
  | confirms id h sigs => exact insertConfirms_spec C id h sigs hi
  | reopen => exact reopen_spec hi

theorem inv_init (dc T I self g : Nat) (term0 : List Nat) (hT : 0 < T) : Inv (init dc T I self g term0) :=
  ⟨⟨trivial, ⟨genesis g term0, [], rfl, rfl, rfl⟩, trivial, ⟨genesis g term0, rfl, rfl⟩, hT⟩, Or.inl rfl,
   by show 1 = 0 / T + 1; rw [Nat.zero_div]⟩

theorem runP_spec (C : Cfg) : ∀ (ops : List Op) {s s' : St}, Inv s → runP C s ops = some s' → Inv s' ∧ Ext s s'
  | [], s, s', hi, e => by cases e; exact ⟨hi, Ext.refl s⟩
  | op :: ops, s, s', hi, e => by
    rw [runP] at e
    split at e
    · cases e
    · rename_i hp
      obtain ⟨_, x1, i1⟩ := step_spec C op hi
      obtain ⟨i2, x2⟩ := runP_spec C ops (i1 hp) e
      exact ⟨i2, x1.trans x2⟩


/-! ## reachable states -/

/-- `s` is reached from the initial state of a node (`dc` seats, term length `T > 0`, interim `I`,
    identity `self`, genesis deputies `term0`) by a run in which no operation ended in a Go panic. -/
def Reach (C : Cfg) (s : St) : Prop :=
  ∃ (dc T I self g : Nat) (term0 : List Nat) (ops : List Op), 0 < T ∧ runP C (init dc T I self g term0) ops = some s

/-- every state the engine can reach satisfies the invariant. -/
theorem inv_reachable {C : Cfg} {s : St} (h : Reach C s) : Inv s := by
  obtain ⟨dc, T, I, self, g, term0, ops, hT, e⟩ := h
  exact (runP_spec C ops (inv_init dc T I self g term0 hT) e).1

theorem Reach.next {C : Cfg} {s : St} (h : Reach C s) (op : Op) (hp : (step C s op).2 ≠ "panic") :
    Reach C (step C s op).1 := by
  obtain ⟨dc, T, I, self, g, term0, ops, hT, e⟩ := h
  refine ⟨dc, T, I, self, g, term0, ops ++ [op], hT, ?_⟩
  have key : ∀ (ops : List Op) (s0 : St), runP C s0 ops = some s → runP C s0 (ops ++ [op]) = some (step C s op).1 := by
    intro ops
    induction ops with
    | nil => intro s0 e0; cases e0; simp [runP, hp]
    | cons o os ih =>
      intro s0 e0
      rw [runP] at e0
      split at e0
      · cases e0
      · rename_i hq
        show runP C s0 (o :: (os ++ [op])) = _
        rw [runP, if_neg hq]; exact ih _ e0
  exact key ops _ e

/-! ## the structural theorems -/

/-- The stable height never decreases — one operation (even one that panics), any reachable state. -/
theorem stable_monotone {C : Cfg} {s : St} (h : Reach C s) (op : Op) :
    s.stable.height ≤ (step C s op).1.stable.height := by
  rcases (step_spec C op (inv_reachable h)).2.1.2.1 with ⟨_, e⟩ | e <;> omega

/-- … and over any further panic-free sequence of operations. -/
theorem stable_monotone_run {C : Cfg} {s s' : St} (h : Reach C s) (more : List Op) (e : runP C s more = some s') :
    s.stable.height ≤ s'.stable.height := by
  rcases (runP_spec C more (inv_reachable h) e).2.2.1 with ⟨_, e⟩ | e <;> omega

/-- The committed (stable) blocks form ONE parent-linked chain, heights consecutive, from the stable
    block down to genesis: each new stable block is a descendant of the previous one and its ancestors
    became stable with it. -/
theorem stable_chain {C : Cfg} {s : St} (h : Reach C s) :
    Linked s.committed ∧ (∃ c rest, s.committed = c :: rest ∧ c.id = s.stable.id ∧ c.height = s.stable.height) ∧
    ∃ g, s.committed.getLast? = some g ∧ g.height = 0 :=
  let hi := inv_reachable h
  ⟨hi.linked, hi.top, hi.bottom⟩

/-- Stable blocks are never replaced: whatever the next operation does (even if it panics half way),
    the list of committed hashes only grows at the top — the block at every stable height stays the
    same, and the old stable block stays an ancestor-or-self of the new one. -/
theorem stable_never_replaced {C : Cfg} {s : St} (h : Reach C s) (op : Op) :
    ∃ l, ids (step C s op).1 = l ++ ids s :=
  (step_spec C op (inv_reachable h)).2.1.1

theorem stable_never_replaced_run {C : Cfg} {s s' : St} (h : Reach C s) (more : List Op) (e : runP C s more = some s') :
    ∃ l, ids s' = l ++ ids s :=
  (runP_spec C more (inv_reachable h) e).2.1

/-- a stable pointer that moved moved strictly up (same-height replacement is impossible). -/
theorem stable_moves_up {C : Cfg} {s : St} (h : Reach C s) (op : Op)
    (hne : (step C s op).1.stable.id ≠ s.stable.id) : s.stable.height < (step C s op).1.stable.height := by
  rcases (step_spec C op (inv_reachable h)).2.1.2.1 with ⟨e, _⟩ | e
  · exact absurd e hne
  · exact e

/-- The head is the stable block or one of its descendants, in every reachable state. -/
theorem head_descends_from_stable {C : Cfg} {s : St} (h : Reach C s) :
    s.headId = s.stable.id ∨ ∃ x ∈ s.tree, x.id = s.headId ∧ Desc s.tree s.stable.id x := by
  have hi := inv_reachable h
  rcases hi.head with e | ⟨x, hx, hxid⟩
  · exact Or.inl e
  · exact Or.inr ⟨x, hx, hxid, WF.desc hi.wf x hx⟩

/-- WITHOUT the "no Go panic" guard of `Reach` the previous theorem is false: 1 deputy, every height a
    snapshot height; block 1 carries a deputy list `NewTermRecord` refuses (`snapBad`, C10's finding).
    It becomes stable at once, `saveSnapshot` panics after `SetStableBlock` committed: the stable block
    is 1, the head is still genesis and the tree is empty. -/
theorem head_not_descendant_after_snapshot_panic :
    let s := init 1 1 0 1000 0 [0]
    let r := step cfgSigner s (.block ⟨1, 0, 1, 0, 1, ⟨some 0, 0⟩, [], [0], true⟩ true)
    r.2 = "panic" ∧ r.1.stable.id = 1 ∧ r.1.headId = 0 ∧ r.1.tree = [] := by decide

/-- every unconfirmed block descends from the stable block, and is above it. -/
theorem tree_descends_from_stable {C : Cfg} {s : St} (h : Reach C s) :
    ∀ x ∈ s.tree, Desc s.tree s.stable.id x ∧ s.stable.height < x.height := by
  intro x hx
  have hi := inv_reachable h
  exact ⟨WF.desc hi.wf x hx, WF.height_gt hi.wf x hx⟩

/-- `SetStableBlock(c)` removes exactly the blocks that are not proper descendants of `c`:
    the survivors are the blocks of the old tree that descend from `c`. -/
theorem prune_exact {C : Cfg} {s : St} (h : Reach C s) (c : Blk) (_hc : c ∈ s.tree) :
    ∀ x, x ∈ (setStable s c).tree ↔ (x ∈ s.tree ∧ x.id ≠ c.id ∧ Desc s.tree c.id x) := by
  intro x
  have hi := inv_reachable h
  show x ∈ (descOf c.id s.tree).filter (fun x => x.id != c.id) ↔ _
  rw [List.mem_filter]
  constructor
  · rintro ⟨hm, hne⟩
    exact ⟨descOf_sub _ _ x hm, by simpa using hne, mem_descOf_desc hm⟩
  · rintro ⟨_, hne, hd⟩
    exact ⟨desc_mem_descOf hi.wf hd, by simpa using hne⟩

/-- and the stable pointer only ever changes through `SetStableBlock` of a tree block
    (so `prune_exact` describes every pruning the engine does). -/
theorem stable_change_is_setStable (s : St) (b : Blk) :
    (updateStable s b).1 = s ∨ ∃ c ∈ s.tree, c.id = b.id ∧ (updateStable s b).1 = setStable s c := by
  rcases updateStable_cases s b with ⟨e, _⟩ | ⟨c, hc, hcid, _, _, e⟩
  · exact Or.inl e
  · exact Or.inr ⟨c, hc, hcid, by rw [e]⟩

/-- a restart keeps the stable block and forgets the unconfirmed tree; the head restarts there. -/
theorem reopen_keeps_stable {C : Cfg} {s : St} (h : Reach C s) :
    (reopen s).1.stable.id = s.stable.id ∧ (reopen s).1.stable.height = s.stable.height ∧
    ((reopen s).2 = "ok" → (reopen s).1.tree = [] ∧ (reopen s).1.headId = s.stable.id) := by
  have hi := inv_reachable h
  obtain ⟨c, rest, hcm, hcid, hch⟩ := hi.top
  unfold reopen
  split
  · exact ⟨rfl, rfl, fun e => absurd e (by simp)⟩
  · split
    · rename_i hnil; rw [hcm] at hnil; cases hnil
    · rename_i top rest' htop
      have htc : top = c := by rw [hcm] at htop; cases htop; rfl
      subst htc
      exact ⟨hcid, hch, fun _ => ⟨rfl, hcid⟩⟩

/-! ## the quorum arithmetic -/

/-- `(2n+2)/3` IS the ceiling of 2n/3 (the harness sweeps the float expression
    `uint32(math.Ceil(float64(n)*2.0/3.0))` against it for every n < 65536, lines `tt n`). -/
theorem two_thirds_arith (n : Nat) : 2 * n ≤ 3 * twoThirds n ∧ 3 * twoThirds n < 2 * n + 3 := by
  unfold twoThirds; omega

theorem twoThirds_mono {a b : Nat} (h : a ≤ b) : twoThirds a ≤ twoThirds b := by
  unfold twoThirds; omega

/-- quorum intersection: two quorums out of `n` deputies share more than a third of them
    (`|A ∩ B| ≥ 2⌈2n/3⌉ − n ≥ n/3`, and `> 0` when there are deputies at all). -/
theorem quorum_intersection_arith (n : Nat) : n ≤ 3 * (2 * twoThirds n - n) ∧ (0 < n → n < 2 * twoThirds n) := by
  unfold twoThirds; omega

/-- … as a statement about sets of deputies: two duplicate-free lists of deputies (`< n`) that each
    reach the quorum have a common member. -/
theorem quorum_intersection {n : Nat} {A B : List Nat} (hn : 0 < n) (hA : A.Nodup) (hB : B.Nodup)
    (hAn : ∀ d ∈ A, d < n) (hBn : ∀ d ∈ B, d < n) (qA : twoThirds n ≤ A.length) (qB : twoThirds n ≤ B.length) :
    ∃ d, d ∈ A ∧ d ∈ B := by
  apply Classical.byContradiction
  intro hno
  have hdis : ∀ a ∈ A, ∀ b ∈ B, a ≠ b := fun a ha b hb hab => hno ⟨a, ha, hab ▸ hb⟩
  have hnd : (A ++ B).Nodup := List.nodup_append.2 ⟨hA, hB, hdis⟩
  have hsub : A ++ B ⊆ List.range n := by
    intro d hd
    rcases List.mem_append.1 hd with h | h
    · exact List.mem_range.2 (hAn d h)
    · exact List.mem_range.2 (hBn d h)
  have hlen := List.Nodup.length_le_of_subset hnd hsub
  rw [List.length_append, List.length_range] at hlen
  have := (quorum_intersection_arith n).2 hn
  omega

/-- with an unknown term (`TwoThirdDeputyCount = 0`) `IsConfirmEnough` is true for a block that nobody
    confirmed … -/
theorem enough_with_unknown_term (dc : Nat) (b : Blk) : isConfirmEnough dc [] b = true := by
  unfold isConfirmEnough twoThirds; simp

/-- … and what keeps such a block out is `verifySigner` alone: a block whose term the node does not
    know is never stored (the state does not change, the result is not "ok"). -/
theorem unknown_term_block_rejected (C : Cfg) (s : St) (b : Blk) (valid : Bool) (h : depsAt s b.height = []) :
    (insertBlock C s b valid).1 = s ∧ (insertBlock C s b valid).2 ≠ "ok" := by
  unfold insertBlock
  split
  · exact ⟨rfl, by simp⟩
  split
  · exact ⟨rfl, by simp⟩
  split
  · exact ⟨rfl, by simp⟩
  split
  · exact ⟨rfl, by simp⟩
  · rename_i hsig
    exfalso; apply hsig; right; rw [h]; simp

theorem dedup_of_nodup : ∀ {l : List Nat}, l.Nodup → dedup l = l
  | [], _ => rfl
  | x :: xs, h => by
    have h' := List.nodup_cons.1 h
    simp only [dedup]
    rw [dedup_of_nodup h'.2, if_neg h'.1]

/-- counting distinct deputies: a duplicate-free signer list of deputies counts in full. -/
theorem length_eq_distinctCount {deps : List Nat} {b : Blk} (hnd : (signersOf b).Nodup)
    (hin : ∀ d ∈ signersOf b, d ∈ deps) : distinctCount deps b = (signersOf b).length := by
  unfold distinctCount
  rw [dedup_of_nodup hnd, List.filter_eq_self.2]
  intro d hd
  simpa using hin d hd

theorem filterMap_recover_length : ∀ {l : List Sig}, (∀ s ∈ l, ∃ d, recover s = some d) →
    (l.filterMap recover).length = l.length
  | [], _ => rfl
  | s :: rest, h => by
    obtain ⟨d, hd⟩ := h s List.mem_cons_self
    rw [List.filterMap_cons_some hd, List.length_cons, List.length_cons,
      filterMap_recover_length (fun x hx => h x (List.mem_cons_of_mem _ hx))]


/-! ## the deputies of a height do not change when the node learns later terms -/

def Grow (s s' : St) : Prop := Consts s s' ∧ ∃ ext, s'.terms = s.terms ++ ext

theorem Grow.of_same {s s' : St} (k : Consts s s') (e : s'.terms = s.terms) : Grow s s' :=
  ⟨k, [], by rw [e, List.append_nil]⟩

theorem Grow.trans {a b c : St} (h1 : Grow a b) (h2 : Grow b c) : Grow a c := by
  obtain ⟨k1, e1, g1⟩ := h1
  obtain ⟨k2, e2, g2⟩ := h2
  exact ⟨k1.trans k2, e1 ++ e2, by rw [g2, g1, List.append_assoc]⟩

theorem getElem?_append_some {α : Type} {l ext : List α} {i : Nat} {x : α} (h : l[i]? = some x) :
    (l ++ ext)[i]? = some x := by
  have hi : i < l.length := by
    rcases Nat.lt_or_ge i l.length with h' | h'
    · exact h'
    · rw [List.getElem?_eq_none h'] at h; cases h
  rw [List.getElem?_append_left hi]; exact h

theorem depsAt_congr' {s s' : St} (k : Consts s s') (e : s'.terms = s.terms) (h : Nat) :
    depsAt s' h = depsAt s h := by
  unfold depsAt
  rw [k.1, k.2.1, k.2.2.1, e]

theorem depsAt_grow {s s' : St} (g : Grow s s') {h d : Nat} (hd : d ∈ depsAt s h) : depsAt s' h = depsAt s h := by
  obtain ⟨k, ext, e⟩ := g
  unfold depsAt at hd ⊢
  rw [k.1, k.2.1, k.2.2.1, e]
  split at hd
  · rename_i l hl
    rw [getElem?_append_some hl]
  · cases hd

/-! ## what the engine guarantees about the signatures it stores

  Generic part: `P deps b` is any property of a stored block (relative to the deputies of its term)
  that the two tests of `Cfg` establish for a fresh block and keep when confirms are appended. Then
  every block of the tree has it, and the block the stable pointer moves to has it, passed
  `IsConfirmEnough`, and its term is known. -/

structure VOK (C : Cfg) (P : List Nat → Blk → Prop) : Prop where
  fresh : ∀ deps (b : Blk), recover b.hdr = some b.miner → b.miner ∈ deps →
    P deps { b with confirms := (C.V deps { b with confirms := [] } b.confirms).1 }
  append : ∀ deps (b : Blk) sigs, P deps b → P deps (appendConfirm b (C.V deps b sigs).1)
  self : ∀ deps (b : Blk) d, P deps b → d ∈ deps → C.T b ⟨some d, 0⟩ d = false →
    P deps { b with confirms := b.confirms ++ [⟨some d, 0⟩] }
  mined : ∀ deps (b : Blk), recover b.hdr = some b.miner → b.miner ∈ deps → b.confirms = [] → P deps b

/-- every stored block was signed by a deputy of its term (so that term is known), and has `P`. -/
def PInv (P : List Nat → Blk → Prop) (s : St) : Prop :=
  ∀ b ∈ s.tree, b.miner ∈ depsAt s b.height ∧ P (depsAt s b.height) b

/-- the stable block: its term is known, it has `P` and it passed `IsConfirmEnough`. -/
def Q (P : List Nat → Blk → Prop) (s : St) : Prop :=
  s.stable.miner ∈ depsAt s s.stable.height ∧ P (depsAt s s.stable.height) s.stable ∧
  isConfirmEnough s.dc (depsAt s s.stable.height) s.stable = true

theorem pq_of_same {P : List Nat → Blk → Prop} {s s' : St} (ht : s'.tree = s.tree) (hs : s'.stable = s.stable)
    (he : s'.terms = s.terms) (k : Consts s s') : (PInv P s → PInv P s') ∧ (Q P s → Q P s') := by
  have hd : ∀ h, depsAt s' h = depsAt s h := depsAt_congr' k he
  constructor
  · intro hp b hb
    rw [ht] at hb
    rw [hd]; exact hp b hb
  · intro hq
    unfold Q
    rw [hs, hd, k.1]; exact hq

theorem blk_ext {a b : Blk} (h1 : a.id = b.id) (h2 : a.parent = b.parent) (h3 : a.height = b.height)
    (h4 : a.miner = b.miner) (h5 : a.rank = b.rank) (h6 : a.hdr = b.hdr) (h7 : a.confirms = b.confirms)
    (h8 : a.nextDeps = b.nextDeps) (h9 : a.snapBad = b.snapBad) : a = b := by
  cases a; cases b; simp_all

theorem getBlock_some {s : St} {id : Nat} {b : Blk} (h : getBlock s id = some b) :
    findBlk s.tree id = some b ∨ (findBlk s.tree id = none ∧ findBlk s.committed id = some b) := by
  unfold getBlock at h
  split at h
  · rename_i x hx; cases h; exact Or.inl hx
  · rename_i hx; exact Or.inr ⟨hx, h⟩

/-- `DPoVP.UpdateStable`, quorum part: unless it panics, the stored blocks keep `P` and a moved stable
    pointer points to a block with `Q`. -/
theorem updateStableFull_quorum {P : List Nat → Blk → Prop} (C : Cfg) {s : St} {b : Blk} (hi : TInv s)
    (ht : TermsOK s) (hp : PInv P s) (hb : ∀ c ∈ s.tree, c.id = b.id → c = b)
    (hnp : (updateStableFull C s b).2 ≠ .panic) :
    PInv P (updateStableFull C s b).1 ∧
    ((updateStableFull C s b).1.stable.id = s.stable.id ∨ Q P (updateStableFull C s b).1) ∧
    Grow s (updateStableFull C s b).1 := by
  rcases updateStableFull_cases C s b hi ht with ⟨e, _⟩ | ⟨c, hc, hcid, hen, _, ⟨ep, _⟩ | ⟨_, _, _, t, ⟨ext, het⟩, s3⟩⟩
  · rw [e]; exact ⟨hp, Or.inl rfl, Grow.of_same (Consts.refl s) rfl⟩
  · exact absurd ep hnp
  · have hcb : c = b := hb c hc hcid
    obtain ⟨g1, g2, g3, _, _, g6, _⟩ := s3
    have hg : Grow s (updateStableFull C s b).1 := ⟨g6, ext, by rw [g3]; exact het⟩
    refine ⟨?_, Or.inr ?_, hg⟩
    · intro x hx
      rw [g1] at hx
      have hx' : x ∈ s.tree := descOf_sub _ _ x (List.mem_filter.1 hx).1
      obtain ⟨m, px⟩ := hp x hx'
      rw [depsAt_grow hg m]; exact ⟨m, px⟩
    · obtain ⟨m, pc⟩ := hp c hc
      unfold Q
      rw [g2]
      show c.miner ∈ depsAt _ c.height ∧ P (depsAt _ c.height) c ∧ isConfirmEnough _ (depsAt _ c.height) c = true
      rw [depsAt_grow hg m, g6.1]
      refine ⟨m, pc, ?_⟩
      rw [hcb]; exact hen

theorem saveNewBlock_quorum {P : List Nat → Blk → Prop} (C : Cfg) {s : St} (b : Blk) (hi : Inv s) (hp : PInv P s)
    (hm : b.miner ∈ depsAt s b.height) (hb : P (depsAt s b.height) b) (hnp : (saveNewBlock C s b).2 ≠ "panic") :
    PInv P (saveNewBlock C s b).1 ∧
    ((saveNewBlock C s b).1.stable.id = s.stable.id ∨ Q P (saveNewBlock C s b).1) := by
  unfold saveNewBlock at hnp ⊢
  split
  · exact ⟨hp, Or.inl rfl⟩
  · rename_i s1 hs1
    rw [hs1] at hnp
    obtain ⟨e1, t1⟩ := setBlock_spec hi.toTInv hs1
    have key : ∀ s1' : St, s1'.tree = s1.tree → s1'.stable = s1.stable → s1'.committed = s1.committed →
        s1'.terms = s1.terms → Consts s1 s1' →
        ((let r := updateStableFull C s1' b
          if r.2 = .err then (r.1, "ErrSaveBlock")
          else if r.2 = .panic then (r.1, "panic")
          else match forkDecision r.1 b with
            | none => (r.1, "panic")
            | some h => (setHead r.1 h, "ok")).2 ≠ "panic") →
        PInv P (let r := updateStableFull C s1' b
                if r.2 = .err then (r.1, "ErrSaveBlock")
                else if r.2 = .panic then (r.1, "panic")
                else match forkDecision r.1 b with
                  | none => (r.1, "panic")
                  | some h => (setHead r.1 h, "ok")).1 ∧
        ((let r := updateStableFull C s1' b
          if r.2 = .err then (r.1, "ErrSaveBlock")
          else if r.2 = .panic then (r.1, "panic")
          else match forkDecision r.1 b with
            | none => (r.1, "panic")
            | some h => (setHead r.1 h, "ok")).1.stable.id = s.stable.id ∨
         Q P (let r := updateStableFull C s1' b
              if r.2 = .err then (r.1, "ErrSaveBlock")
              else if r.2 = .panic then (r.1, "panic")
              else match forkDecision r.1 b with
                | none => (r.1, "panic")
                | some h => (setHead r.1 h, "ok")).1) := by
      intro s1' g1 g2 g3 g4 g6 hnp'
      have t1' : TInv s1' := t1.of_same g1 g3 g2 g6.2.1
      have tk1 : TermsOK s1' := by
        unfold TermsOK; rw [g4, g2, g6.2.1, e1]; exact hi.terms
      have ks : Consts s s1' := by rw [e1] at g6; exact g6
      have hts : s1'.terms = s.terms := by rw [g4, e1]
      have hd : ∀ h, depsAt s1' h = depsAt s h := depsAt_congr' ks hts
      have hp1 : PInv P s1' := by
        intro x hx
        rw [g1, e1] at hx
        rw [hd]
        rcases List.mem_cons.1 hx with rfl | hx
        · exact ⟨hm, hb⟩
        · exact hp x hx
      have hb1 : b ∈ s1'.tree := by rw [g1, e1]; exact List.mem_cons_self
      have hst : s1'.stable.id = s.stable.id := by rw [g2, e1]
      simp only at hnp' ⊢
      split
      · rename_i herr
        rcases updateStableFull_cases C s1' b t1' tk1 with ⟨e, _⟩ | ⟨c, _, _, _, _, ⟨ep, _⟩ | ⟨ec, _⟩⟩
        · rw [e]; exact ⟨hp1, Or.inl hst⟩
        · rw [ep] at herr; cases herr
        · rw [ec] at herr; cases herr
      · rename_i herr
        rw [if_neg herr] at hnp'
        split
        · rename_i hpan; rw [if_pos hpan] at hnp'; exact absurd rfl hnp'
        · rename_i hpan
          rw [if_neg hpan] at hnp'
          obtain ⟨hp2, hq2, _⟩ := updateStableFull_quorum C t1' tk1 hp1
            (fun c hc hcid => WF.unique t1'.wf c hc b hb1 hcid) hpan
          split
          · rename_i hfd; rw [hfd] at hnp'; exact absurd rfl hnp'
          · rename_i h hfd
            obtain ⟨f1, f2, _, f4, k⟩ := setHead_fields (updateStableFull C s1' b).1 h
            obtain ⟨pp, qq⟩ := pq_of_same (P := P) f1 f2 f4 k
            refine ⟨pp hp2, ?_⟩
            rcases hq2 with e | q
            · left; rw [f2, e]; exact hst
            · right; exact qq q
    simp only at hnp ⊢
    split
    · rename_i hmined
      rw [if_pos hmined] at hnp
      obtain ⟨f1, f2, f3, f4, _, _, f7⟩ := setLastSig_fields s1 b
      exact key _ f1 f2 f3 f4 f7 hnp
    · rename_i hmined
      rw [if_neg hmined] at hnp
      exact key _ rfl rfl rfl rfl (Consts.refl s1) hnp


theorem tryConfirm_quorum {P : List Nat → Blk → Prop} {C : Cfg} (hv : VOK C P) {s : St} (b : Blk)
    (hb : P (depsAt s b.height) b) :
    P (depsAt s b.height) (tryConfirm C s b).2 ∧ (tryConfirm C s b).2.id = b.id ∧
    (tryConfirm C s b).2.height = b.height ∧ (tryConfirm C s b).2.miner = b.miner := by
  unfold tryConfirm
  split
  · rename_i hneed
    simp only
    split
    · exact ⟨hb, rfl, rfl, rfl⟩
    · rename_i hT
      refine ⟨?_, rfl, rfl, rfl⟩
      have hself : s.self ∈ depsAt s b.height := by
        unfold needConfirm at hneed
        simp only at hneed
        split at hneed
        · cases hneed
        · rename_i hc
          simpa using hc
      exact hv.self _ b s.self hb hself (by simpa [selfSig] using hT)
  · exact ⟨hb, rfl, rfl, rfl⟩

/-- `InsertBlock` either refuses the block (state unchanged, an error that is not a panic) or hands the
    verified block — signed by a deputy of its term — to `TryConfirm` and `saveNewBlock`. -/
theorem insertBlock_cases (C : Cfg) (s : St) (b : Blk) (valid : Bool) :
    (∃ msg, insertBlock C s b valid = (s, msg) ∧ msg ≠ "panic") ∨
    (recover b.hdr = some b.miner ∧ b.miner ∈ depsAt s b.height ∧
      insertBlock C s b valid =
        saveNewBlock C
          (tryConfirm C s { b with confirms := (C.V (depsAt s b.height) { b with confirms := [] } b.confirms).1 }).1
          (tryConfirm C s { b with confirms := (C.V (depsAt s b.height) { b with confirms := [] } b.confirms).1 }).2) := by
  unfold insertBlock
  split
  · exact Or.inl ⟨_, rfl, by decide⟩
  split
  · exact Or.inl ⟨_, rfl, by decide⟩
  split
  · exact Or.inl ⟨_, rfl, by decide⟩
  split
  · exact Or.inl ⟨_, rfl, by decide⟩
  rename_i hsig
  split
  · exact Or.inl ⟨_, rfl, by decide⟩
  split
  · exact Or.inl ⟨_, rfl, by decide⟩
  right
  refine ⟨?_, ?_, rfl⟩
  · apply Classical.byContradiction; intro h; exact hsig (Or.inl h)
  · apply Classical.byContradiction; intro h; exact hsig (Or.inr h)

theorem insertBlock_quorum {P : List Nat → Blk → Prop} {C : Cfg} (hv : VOK C P) {s : St} (b : Blk) (valid : Bool)
    (hi : Inv s) (hp : PInv P s) (hnp : (insertBlock C s b valid).2 ≠ "panic") :
    PInv P (insertBlock C s b valid).1 ∧
    ((insertBlock C s b valid).1.stable.id = s.stable.id ∨ Q P (insertBlock C s b valid).1) := by
  rcases insertBlock_cases C s b valid with ⟨msg, e, _⟩ | ⟨h1, h2, e⟩
  · rw [e]; exact ⟨hp, Or.inl rfl⟩
  rw [e] at hnp ⊢
  have hfresh := hv.fresh (depsAt s b.height) b h1 h2
  obtain ⟨pt, tid, thh, tm⟩ := tryConfirm_quorum hv
    { b with confirms := (C.V (depsAt s b.height) { b with confirms := [] } b.confirms).1 } hfresh
  obtain ⟨i1, _, e1, e2, k, e3⟩ := tryConfirm_spec C
    { b with confirms := (C.V (depsAt s b.height) { b with confirms := [] } b.confirms).1 } hi
  obtain ⟨pp, _⟩ := pq_of_same (P := P) e1 e3 e2 k
  have hd : ∀ h, depsAt (tryConfirm C s
      { b with confirms := (C.V (depsAt s b.height) { b with confirms := [] } b.confirms).1 }).1 h = depsAt s h :=
    depsAt_congr' k e2
  have r := saveNewBlock_quorum (P := P) C (tryConfirm C s
      { b with confirms := (C.V (depsAt s b.height) { b with confirms := [] } b.confirms).1 }).2 i1 (pp hp)
    (by rw [hd, thh, tm]; exact h2) (by rw [hd, thh]; exact pt) hnp
  refine ⟨r.1, ?_⟩
  rcases r.2 with e | q
  · left; rw [e, e3]
  · exact Or.inr q

theorem mineBlock_quorum {P : List Nat → Blk → Prop} {C : Cfg} (hv : VOK C P) {s : St} (b : Blk)
    (hi : Inv s) (hp : PInv P s) (hnp : (mineBlock C s b).2 ≠ "panic") :
    PInv P (mineBlock C s b).1 ∧ ((mineBlock C s b).1.stable.id = s.stable.id ∨ Q P (mineBlock C s b).1) := by
  unfold mineBlock at hnp ⊢
  split
  · exact ⟨hp, Or.inl rfl⟩
  · rename_i hself
    rw [if_neg hself] at hnp
    have hs : s.self ∈ depsAt s (s.headHeight + 1) := Decidable.not_not.1 hself
    exact saveNewBlock_quorum C _ hi hp hs (hv.mined _ _ rfl hs rfl) hnp

theorem updateForkForConfirm_fields (s : St) :
    (updateForkForConfirm s).tree = s.tree ∧ (updateForkForConfirm s).stable = s.stable ∧
    (updateForkForConfirm s).terms = s.terms ∧ Consts s (updateForkForConfirm s) := by
  unfold updateForkForConfirm
  split
  · obtain ⟨e1, e2, _, e4, k⟩ := setHead_fields s (some (chooseNewFork s.stable s.tree))
    exact ⟨e1, e2, e4, k⟩
  · exact ⟨rfl, rfl, rfl, Consts.refl s⟩

theorem afterConfirm_quorum {P : List Nat → Blk → Prop} (C : Cfg) {s1 : St} (nb : Blk) (height : Nat) (hi : Inv s1)
    (hp : PInv P s1) (hb : ∀ c ∈ s1.tree, c.id = nb.id → c = nb) (hnp : (afterConfirm C s1 nb height).2 ≠ "panic") :
    PInv P (afterConfirm C s1 nb height).1 ∧
    ((afterConfirm C s1 nb height).1.stable.id = s1.stable.id ∨ Q P (afterConfirm C s1 nb height).1) := by
  unfold afterConfirm at hnp ⊢
  split
  · rename_i hgt
    rw [if_pos hgt] at hnp
    simp only at hnp ⊢
    split
    · rename_i herr
      rcases updateStableFull_cases C s1 nb hi.toTInv hi.terms with ⟨e, _⟩ | ⟨c, _, _, _, _, ⟨ep, _⟩ | ⟨ec, _⟩⟩
      · rw [e]; exact ⟨hp, Or.inl rfl⟩
      · rw [ep] at herr; cases herr
      · rw [ec] at herr; cases herr
    · rename_i herr
      rw [if_neg herr] at hnp
      split
      · rename_i hpan; rw [if_pos hpan] at hnp; exact absurd rfl hnp
      · rename_i hpan
        obtain ⟨hp2, hq2, _⟩ := updateStableFull_quorum C hi.toTInv hi.terms hp hb hpan
        obtain ⟨f1, f2, f3, k⟩ := updateForkForConfirm_fields (updateStableFull C s1 nb).1
        obtain ⟨pp, qq⟩ := pq_of_same (P := P) f1 f2 f3 k
        refine ⟨pp hp2, ?_⟩
        rcases hq2 with e | q
        · left; rw [f2, e]
        · exact Or.inr (qq q)
  · exact ⟨hp, Or.inl rfl⟩

theorem saveConfirm_pinv {P : List Nat → Blk → Prop} {s : St} {id : Nat} {b : Blk} (valid : List Sig) (hi : TInv s)
    (hp : PInv P s) (hg : getBlock s id = some b)
    (hnb : b ∈ s.tree → P (depsAt s b.height) (appendConfirm b valid)) :
    PInv P (saveConfirm s b valid).1 ∧
    (∀ c ∈ (saveConfirm s b valid).1.tree, c.id = (saveConfirm s b valid).2.id → c = (saveConfirm s b valid).2) := by
  have hshape := appendConfirm_shape valid b
  have hrest := appendConfirm_rest valid b
  obtain ⟨_, _, _, _, _, _, eterms, k⟩ := saveConfirm_spec b valid hi
  have hd : ∀ h, depsAt (saveConfirm s b valid).1 h = depsAt s h := depsAt_congr' k eterms
  rcases getBlock_some hg with h1 | ⟨h1, h2⟩
  · obtain ⟨hbm, hbid⟩ := findBlk_some h1
    have hf : findBlk s.tree b.id = some b := by rw [hbid]; exact h1
    have htree : (saveConfirm s b valid).1.tree = replaceBlk s.tree (appendConfirm b valid) := by
      unfold saveConfirm; simp only [hf]
    have hnbv : (saveConfirm s b valid).2 = appendConfirm b valid := by
      unfold saveConfirm; simp only [hf]
    -- every entry with the id of `b` IS `b`, so it becomes `appendConfirm b valid`
    have key : ∀ x ∈ s.tree, x.id = (appendConfirm b valid).id → replFn (appendConfirm b valid) x = appendConfirm b valid := by
      intro x hx hxid
      have hxb : x = b := WF.unique hi.wf x hx b hbm (hxid.trans hshape.1)
      unfold replFn
      rw [if_pos hxid, hxb]
      exact blk_ext hshape.1.symm hshape.2.1.symm hshape.2.2.1.symm hshape.2.2.2.1.symm
        hrest.1.symm hshape.2.2.2.2.symm rfl hrest.2.1.symm hrest.2.2.symm
    refine ⟨?_, ?_⟩
    · intro c hc
      rw [htree, replaceBlk_eq] at hc
      rw [hd]
      rcases List.mem_map.1 hc with ⟨x, hx, rfl⟩
      by_cases hxid : x.id = (appendConfirm b valid).id
      · rw [key x hx hxid, hshape.2.2.1, hshape.2.2.2.1]
        exact ⟨(hp b hbm).1, hnb hbm⟩
      · have : replFn (appendConfirm b valid) x = x := by unfold replFn; rw [if_neg hxid]
        rw [this]; exact hp x hx
    · intro c hc hcid
      rw [htree, replaceBlk_eq] at hc
      rw [hnbv] at hcid ⊢
      rcases List.mem_map.1 hc with ⟨x, hx, rfl⟩
      have hxid : x.id = (appendConfirm b valid).id := (replaceBlk_shape _ x).1.symm.trans hcid
      exact key x hx hxid
  · have hbid : b.id = id := (findBlk_some h2).2
    have hf : findBlk s.tree b.id = none := by rw [hbid]; exact h1
    have htree : (saveConfirm s b valid).1.tree = s.tree := by
      unfold saveConfirm; simp only [hf]
    have hnbv : (saveConfirm s b valid).2 = appendConfirm b valid := by
      unfold saveConfirm; simp only [hf]
    refine ⟨?_, ?_⟩
    · intro c hc
      rw [htree] at hc
      rw [hd]; exact hp c hc
    · intro c hc hcid
      rw [htree] at hc
      rw [hnbv] at hcid
      exact absurd (hcid.trans hshape.1) (findBlk_none hf c hc)

theorem insertConfirms_quorum {P : List Nat → Blk → Prop} {C : Cfg} (hv : VOK C P) {s : St} (id height : Nat)
    (sigs : List Sig) (hi : Inv s) (hp : PInv P s) (hnp : (insertConfirms C s id height sigs).2 ≠ "panic") :
    PInv P (insertConfirms C s id height sigs).1 ∧
    ((insertConfirms C s id height sigs).1.stable.id = s.stable.id ∨ Q P (insertConfirms C s id height sigs).1) := by
  unfold insertConfirms at hnp ⊢
  split
  · exact ⟨hp, Or.inl rfl⟩
  split
  · exact ⟨hp, Or.inl rfl⟩
  rename_i b hg
  split
  · exact ⟨hp, Or.inl rfl⟩
  split
  · exact ⟨hp, Or.inl rfl⟩
  simp only at hnp ⊢
  split
  · exact ⟨hp, Or.inl rfl⟩
  rename_i hx1 _ hx3 hx4 hx5
  simp only [hx1, hg, hx3, hx4, hx5] at hnp
  obtain ⟨hp1, hu⟩ := saveConfirm_pinv (C.V (depsAt s b.height) b sigs).1 hi.toTInv hp hg
    (fun hbm => hv.append _ b sigs (hp b hbm).2)
  obtain ⟨i1, _⟩ := saveConfirm_inv b (C.V (depsAt s b.height) b sigs).1 hi
  have r := afterConfirm_quorum (P := P) C (saveConfirm s b (C.V (depsAt s b.height) b sigs).1).2 height i1 hp1 hu hnp
  have st1 := (saveConfirm_spec b (C.V (depsAt s b.height) b sigs).1 hi.toTInv).2.1
  refine ⟨r.1, ?_⟩
  rcases r.2 with e | q
  · left; rw [e, st1]
  · exact Or.inr q

theorem reopen_quorum {P : List Nat → Blk → Prop} {s : St} (hi : Inv s) (hp : PInv P s) :
    PInv P (reopen s).1 ∧ (reopen s).1.stable.id = s.stable.id := by
  obtain ⟨c, rest, hcm, hcid, _⟩ := hi.top
  unfold reopen
  split
  · exact ⟨hp, rfl⟩
  · split
    · exact ⟨hp, rfl⟩
    · rename_i top rest' htop
      have htc : top = c := by rw [hcm] at htop; cases htop; rfl
      subst htc
      exact ⟨fun b hb => (by cases hb), hcid⟩

theorem step_quorum {P : List Nat → Blk → Prop} {C : Cfg} (hv : VOK C P) {s : St} (op : Op) (hi : Inv s)
    (hp : PInv P s) (hnp : (step C s op).2 ≠ "panic") :
    PInv P (step C s op).1 ∧ ((step C s op).1.stable.id = s.stable.id ∨ Q P (step C s op).1) := by
  cases op with
  | block b valid => exact insertBlock_quorum hv b valid hi hp hnp
  | mine b => exact mineBlock_quorum hv b hi hp hnp
  | confirms id h sigs => exact insertConfirms_quorum hv id h sigs hi hp hnp
  | reopen => exact ⟨(reopen_quorum hi hp).1, Or.inl (reopen_quorum hi hp).2⟩

theorem runP_pinv {P : List Nat → Blk → Prop} {C : Cfg} (hv : VOK C P) :
    ∀ (ops : List Op) {s s' : St}, Inv s → PInv P s → runP C s ops = some s' → PInv P s'
  | [], _, _, _, hp, e => by cases e; exact hp
  | op :: ops, s, s', hi, hp, e => by
    rw [runP] at e
    split at e
    · cases e
    · rename_i hq
      exact runP_pinv hv ops ((step_spec C op hi).2.2 hq) (step_quorum hv op hi hp hq).1 e

theorem pinv_reachable {P : List Nat → Blk → Prop} {C : Cfg} (hv : VOK C P) {s : St} (h : Reach C s) : PInv P s := by
  obtain ⟨dc, T, I, self, g, term0, ops, hT, e⟩ := h
  exact runP_pinv hv ops (inv_init dc T I self g term0 hT) (fun b hb => by cases hb) e

/-- whenever the stable pointer moves (and the operation did not panic), the block it moves to has the
    stored-signature property `P`, passed `IsConfirmEnough`, and its term is known. -/
theorem stable_change_has {P : List Nat → Blk → Prop} {C : Cfg} (hv : VOK C P) {s : St} (h : Reach C s) (op : Op)
    (hnp : (step C s op).2 ≠ "panic") (hne : (step C s op).1.stable.id ≠ s.stable.id) : Q P (step C s op).1 := by
  rcases (step_quorum hv op (inv_reachable h) (pinv_reachable hv h) hnp).2 with e | q
  · exact absurd e hne
  · exact q


/-! ## blocks of an unknown term are never stored; the stable pointer never moves to one -/

theorem vok_trivial (C : Cfg) : VOK C (fun _ _ => True) :=
  ⟨fun _ _ _ _ => trivial, fun _ _ _ _ => trivial, fun _ _ _ _ _ _ => trivial, fun _ _ _ _ _ => trivial⟩

/-- every block of the unconfirmed tree was signed by a deputy of its term: the term is known to the
    node and `TwoThirdDeputyCount` of its height is at least 1 — the degenerate
    `IsConfirmEnough` of `enough_with_unknown_term` is never evaluated on a stored block. -/
theorem stored_blocks_term_known {C : Cfg} {s : St} (h : Reach C s) :
    ∀ b ∈ s.tree, b.miner ∈ depsAt s b.height ∧ 0 < twoThirds (depsAt s b.height).length := by
  intro b hb
  have hm := (pinv_reachable (vok_trivial C) h b hb).1
  refine ⟨hm, ?_⟩
  have : 0 < (depsAt s b.height).length := List.length_pos_of_mem hm
  unfold twoThirds; omega

/-- and a block that becomes stable (the operation did not panic) belongs to a known term. -/
theorem stable_term_known {C : Cfg} {s : St} (h : Reach C s) (op : Op) (hnp : (step C s op).2 ≠ "panic")
    (hne : (step C s op).1.stable.id ≠ s.stable.id) :
    (step C s op).1.stable.miner ∈ depsAt (step C s op).1 (step C s op).1.stable.height :=
  (stable_change_has (vok_trivial C) h op hnp hne).1

/-! ## the code as it is now (commits d34eb0a and 262c027): both tests compare SIGNERS -/

/-- the signers of a stored block (miner + confirms) are pairwise different deputies of its term. -/
structure NodeOK (deps : List Nat) (b : Blk) : Prop where
  nodup : (signersOf b).Nodup
  deputies : ∀ s ∈ b.confirms, ∃ d, recover s = some d ∧ d ∈ deps
  hdr : recover b.hdr = some b.miner ∧ b.miner ∈ deps

def AccF (deps : List Nat) (b : Blk) (valid : List Sig) : Prop :=
  (signersOf b ++ valid.filterMap recover).Nodup ∧ ∀ s ∈ valid, ∃ d, recover s = some d ∧ d ∈ deps

theorem filterMap_append_singleton {l : List Sig} {s : Sig} {d : Nat} (hd : recover s = some d) :
    (l ++ [s]).filterMap recover = l.filterMap recover ++ [d] := by
  rw [List.filterMap_append, List.filterMap_cons_some hd, List.filterMap_nil]

theorem verifyLoopFixed_acc (deps : List Nat) (b : Blk) (hh : recover b.hdr = some b.miner) :
    ∀ (sigs valid : List Sig) (e : CErr), AccF deps b valid → AccF deps b (verifyLoopFixed deps b sigs valid e).1
  | [], _, _, h => h
  | s :: rest, valid, e, h => by
    simp only [verifyLoopFixed]
    split
    · exact verifyLoopFixed_acc deps b hh rest valid _ h
    · split
      · exact verifyLoopFixed_acc deps b hh rest valid _ h
      · rename_i d hd
        split
        · exact verifyLoopFixed_acc deps b hh rest valid _ h
        · rename_i hdn
          split
          · exact verifyLoopFixed_acc deps b hh rest valid _ h
          · split
            · exact verifyLoopFixed_acc deps b hh rest valid _ h
            · rename_i hnew
              apply verifyLoopFixed_acc deps b hh rest (valid ++ [s]) e
              have hn1 : ¬ recover b.hdr = some d := fun x => hnew (Or.inl x)
              have hn2 : d ∉ b.confirms.filterMap recover := fun x => hnew (Or.inr (Or.inl x))
              have hn3 : d ∉ valid.filterMap recover := fun x => hnew (Or.inr (Or.inr x))
              refine ⟨?_, ?_⟩
              · rw [filterMap_append_singleton hd, ← List.append_assoc]
                refine List.nodup_append.2 ⟨h.1, List.nodup_cons.2 ⟨by simp, List.nodup_nil⟩, ?_⟩
                intro a ha c hc hac
                rw [List.mem_singleton] at hc
                subst hc; subst hac
                rcases List.mem_append.1 ha with ha | ha
                · rcases List.mem_cons.1 ha with ha | ha
                  · exact hn1 (by rw [hh, ha])
                  · exact hn2 ha
                · exact hn3 ha
              · intro x hx
                rcases List.mem_append.1 hx with hx | hx
                · exact h.2 x hx
                · rw [List.mem_singleton] at hx; subst hx; exact ⟨d, hd, Decidable.not_not.1 hdn⟩

theorem appendConfirm_nodeOK (deps : List Nat) : ∀ (valid : List Sig) (b : Blk), NodeOK deps b →
    (signersOf b ++ valid.filterMap recover).Nodup → (∀ s ∈ valid, ∃ d, recover s = some d ∧ d ∈ deps) →
    NodeOK deps (appendConfirm b valid)
  | [], _, h, _, _ => h
  | s :: rest, b, h, hnd, hv => by
    simp only [appendConfirm]
    obtain ⟨d, hd, hdn⟩ := hv s List.mem_cons_self
    have hrest : ∀ x ∈ rest, ∃ d, recover x = some d ∧ d ∈ deps := fun x hx => hv x (List.mem_cons_of_mem _ hx)
    rw [List.filterMap_cons_some hd] at hnd
    split
    · apply appendConfirm_nodeOK deps rest b h _ hrest
      exact hnd.sublist (List.Sublist.append_left (List.sublist_cons_self _ _) _)
    · have e1 : signersOf { b with confirms := b.confirms ++ [s] } = signersOf b ++ [d] := by
        unfold signersOf
        show b.miner :: (b.confirms ++ [s]).filterMap recover = _
        rw [filterMap_append_singleton hd]; rfl
      have hnd' : ((signersOf b ++ [d]) ++ rest.filterMap recover).Nodup := by
        rw [List.append_assoc]; exact hnd
      apply appendConfirm_nodeOK deps rest _ _ (by rw [e1]; exact hnd') hrest
      refine ⟨?_, ?_, h.hdr⟩
      · rw [e1]; exact hnd'.sublist (List.sublist_append_left _ _)
      · intro x hx
        have hx' : x ∈ b.confirms ++ [s] := hx
        rcases List.mem_append.1 hx' with hx' | hx'
        · exact h.deputies x hx'
        · rw [List.mem_singleton] at hx'; subst hx'; exact ⟨d, hd, hdn⟩

/-- the live pair of tests keeps the signers of every stored block pairwise different. -/
theorem vok_signer : VOK cfgSigner NodeOK where
  fresh := by
    intro deps b h1 h2
    have h0 : AccF deps { b with confirms := [] } [] := by
      refine ⟨?_, fun _ h => by cases h⟩
      show ([b.miner] ++ []).Nodup
      simp
    have hacc := verifyLoopFixed_acc deps { b with confirms := [] } h1 b.confirms [] .none h0
    refine ⟨?_, hacc.2, ⟨h1, h2⟩⟩
    have := hacc.1
    exact this
  append := by
    intro deps b sigs h
    have h0 : AccF deps b [] := ⟨by rw [List.filterMap_nil, List.append_nil]; exact h.nodup, fun _ hx => by cases hx⟩
    have hacc := verifyLoopFixed_acc deps b h.hdr.1 sigs [] .none h0
    exact appendConfirm_nodeOK deps _ b h hacc.1 hacc.2
  self := by
    intro deps b d h hd hT
    have hT' : selfTestSigner b ⟨some d, 0⟩ d = false := hT
    unfold selfTestSigner at hT'
    simp only [Bool.or_eq_false_iff, decide_eq_false_iff_not] at hT'
    obtain ⟨⟨_, h2⟩, h3⟩ := hT'
    have e1 : signersOf { b with confirms := b.confirms ++ [⟨some d, 0⟩] } = signersOf b ++ [d] := by
      unfold signersOf
      show b.miner :: (b.confirms ++ [(⟨some d, 0⟩ : Sig)]).filterMap recover = _
      rw [filterMap_append_singleton (s := (⟨some d, 0⟩ : Sig)) (d := d) rfl]; rfl
    refine ⟨?_, ?_, h.hdr⟩
    · rw [e1]
      refine List.nodup_append.2 ⟨h.nodup, List.nodup_cons.2 ⟨by simp, List.nodup_nil⟩, ?_⟩
      intro a ha c hc hac
      rw [List.mem_singleton] at hc
      subst hc; subst hac
      rcases List.mem_cons.1 ha with ha | ha
      · exact h2 (by rw [h.hdr.1, ha])
      · exact h3 ha
    · intro x hx
      have hx' : x ∈ b.confirms ++ [⟨some d, 0⟩] := hx
      rcases List.mem_append.1 hx' with hx' | hx'
      · exact h.deputies x hx'
      · rw [List.mem_singleton] at hx'; subst hx'; exact ⟨d, rfl, hd⟩
  mined := by
    intro deps b h1 h2 hc
    refine ⟨?_, ?_, ⟨h1, h2⟩⟩
    · unfold signersOf; rw [hc]; simp
    · intro s hs; rw [hc] at hs; cases hs

theorem depsAt_length_le (s : St) (h : Nat) : (depsAt s h).length ≤ s.dc := by
  unfold depsAt
  split
  · rw [List.length_take]; exact Nat.min_le_left _ _
  · exact Nat.zero_le _

theorem enough_le {dc : Nat} {deps : List Nat} {b : Blk} (hn : deps.length ≤ dc) (h : isConfirmEnough dc deps b = true) :
    twoThirds deps.length ≤ b.confirms.length + 1 := by
  unfold isConfirmEnough at h
  simp only [Bool.or_eq_true, decide_eq_true_eq] at h
  have := twoThirds_mono hn
  omega

/-- HEADLINE — the FULL quorum theorem, for the code as it is (`cfgSigner`: `VerifyNewConfirms` since
    commit d34eb0a and `TryConfirm` / `tryConfirmStable` since commit 262c027 compare signers).
    Whenever the stable pointer moves to a block `b`, at least ⌈2n/3⌉ DISTINCT deputies of the term in
    charge of `b`'s height (n of them), the miner included, signed `b` — for every deputy set and
    term schedule (term boundaries included), block tree, confirmation multiset (re-encodings,
    re-signings, non-deputies, unknown blocks), arrival order, and for a receiver that is an outsider
    or a deputy, confirms and mines itself and is restarted. (Guard: no operation of the history ended
    in a Go panic — see `head_not_descendant_after_snapshot_panic`.) -/
theorem quorum_distinct {s : St} (h : Reach cfgSigner s) (op : Op) (hnp : (step cfgSigner s op).2 ≠ "panic")
    (hne : (step cfgSigner s op).1.stable.id ≠ s.stable.id) :
    let s' := (step cfgSigner s op).1
    twoThirds (depsAt s' s'.stable.height).length ≤ distinctCount (depsAt s' s'.stable.height) s'.stable := by
  intro s'
  obtain ⟨_, hs, hen⟩ := stable_change_has vok_signer h op hnp hne
  have hin : ∀ d ∈ signersOf s'.stable, d ∈ depsAt s' s'.stable.height := by
    intro d hd
    rcases List.mem_cons.1 hd with rfl | hd
    · exact hs.hdr.2
    · rcases List.mem_filterMap.1 hd with ⟨x, hx, hxd⟩
      obtain ⟨d', hd', hlt'⟩ := hs.deputies x hx
      rw [hd'] at hxd; cases hxd; exact hlt'
  rw [length_eq_distinctCount hs.nodup hin]
  have h3 : (signersOf s'.stable).length = s'.stable.confirms.length + 1 := by
    unfold signersOf
    rw [List.length_cons, filterMap_recover_length (fun x hx => (hs.deputies x hx).imp fun _ hd => hd.1)]
  rw [h3]
  exact enough_le (depsAt_length_le s' _) hen

/-! ## the code as it was: refutations (kernel-checked witnesses on the old model variants) -/

/-- REFUTATION of the quorum statement on the model of THE CODE BEFORE /repo COMMIT d34eb0a
    (`cfgBytes`: bytes-only de-duplication), 3 deputies, receiver an outsider (node 1000):
    block 1 (miner = node 0, canonical header signature `⟨0,0⟩`) arrives, then ONE confirmation packet
    holding the re-encoding `⟨0,1⟩` of the miner's own signature. The stable pointer moves to block 1
    although one deputy out of three signed it (need 2). Anybody can forge that packet. -/
theorem quorum_distinct_refuted :
    let s := run cfgBytes (init 3 1000000 1000 1000 0 [0, 1, 2]) [.block ⟨1, 0, 1, 0, 1, ⟨some 0, 0⟩, [], [], false⟩ true]
    let s' := (step cfgBytes s (.confirms 1 1 [⟨some 0, 1⟩])).1
    s'.stable.id = 1 ∧ distinctCount (depsAt s' 1) s'.stable = 1 ∧ twoThirds (depsAt s' 1).length = 2 := by decide

/-- (code before commit d34eb0a) the same through a block that CARRIES the forged confirmation. -/
theorem quorum_distinct_refuted_carried :
    let s := init 3 1000000 1000 1000 0 [0, 1, 2]
    let s' := (step cfgBytes s (.block ⟨1, 0, 1, 0, 1, ⟨some 0, 0⟩, [⟨some 0, 1⟩], [], false⟩ true)).1
    s'.stable.id = 1 ∧ distinctCount (depsAt s' 1) s'.stable = 1 ∧ twoThirds (depsAt s' 1).length = 2 := by decide

/-- (code before commit d34eb0a) a deputy other than the miner doubling its own vote (another nonce). -/
theorem quorum_distinct_refuted_resigned :
    let s := run cfgBytes (init 4 1000000 1000 1000 0 [0, 1, 2, 3]) [.block ⟨1, 0, 1, 0, 1, ⟨some 0, 0⟩, [], [], false⟩ true]
    let s' := (step cfgBytes s (.confirms 1 1 [⟨some 2, 0⟩, ⟨some 2, 7⟩])).1
    s'.stable.id = 1 ∧ distinctCount (depsAt s' 1) s'.stable = 2 ∧ twoThirds (depsAt s' 1).length = 3 := by decide

/-- REFUTATION on the model of THE CODE BETWEEN COMMITS d34eb0a AND 262c027 (`cfgVerifierFixed`:
    VerifyNewConfirms by signer, TryConfirm still by bytes), 4 deputies, the receiver IS deputy 1:
    block 1 (miner 0) comes carrying the receiver's own confirmation re-encoded by a peer `⟨1,1⟩` (the
    node had signed the block and crashed before storing it). VerifyNewConfirms keeps it, TryConfirm
    appends the canonical `⟨1,0⟩`: 3 signatures, 2 distinct deputies of 4 (need 3), the block is stable. -/
theorem quorum_own_confirm_twice_refuted :
    let s := init 4 1000000 1000 1 0 [0, 1, 2, 3]
    let s' := (step cfgVerifierFixed s (.block ⟨1, 0, 1, 0, 1, ⟨some 0, 0⟩, [⟨some 1, 1⟩], [], false⟩ true)).1
    s'.stable.id = 1 ∧ s'.stable.confirms = [⟨some 1, 1⟩, ⟨some 1, 0⟩] ∧
    distinctCount (depsAt s' 1) s'.stable = 2 ∧ twoThirds (depsAt s' 1).length = 3 := by decide

/-- the current code refuses both forgeries: the stable pointer stays at genesis. -/
example :
    let s := run cfgSigner (init 3 1000000 1000 1000 0 [0, 1, 2]) [.block ⟨1, 0, 1, 0, 1, ⟨some 0, 0⟩, [], [], false⟩ true]
    (step cfgSigner s (.confirms 1 1 [⟨some 0, 1⟩])).2 = "ErrNoNewConfirm" ∧
    (step cfgSigner s (.confirms 1 1 [⟨some 0, 1⟩])).1.stable.id = 0 := by decide

example :
    let s := init 4 1000000 1000 1 0 [0, 1, 2, 3]
    let s' := (step cfgSigner s (.block ⟨1, 0, 1, 0, 1, ⟨some 0, 0⟩, [⟨some 1, 1⟩], [], false⟩ true)).1
    s'.stable.id = 0 ∧ s'.tree.map (fun b => b.confirms) = [[⟨some 1, 1⟩]] ∧ s'.lastSigId = 1 := by decide

/-- non-vacuity of `quorum_distinct` and of the structural theorems (current code, the receiver is
    deputy 2 of 4 and confirms what it stores): blocks 1 and 3 form the head fork, each with the node's
    own confirmation; block 2, a sibling of 1, arrives with the confirmations of deputies 0 (twice, the
    re-encoding is dropped) and 3: with its miner that is a quorum of 3 distinct deputies, the node does
    not sign it (it signed the other fork), the fork 1–3 is pruned and the head moves over. -/
example :
    let ops := [Op.block ⟨1, 0, 1, 0, 5, ⟨some 0, 0⟩, [], [], false⟩ true, Op.block ⟨3, 1, 2, 1, 4, ⟨some 1, 0⟩, [], [], false⟩ true]
    let s := run cfgSigner (init 4 1000000 1000 2 0 [0, 1, 2, 3]) ops
    let r := step cfgSigner s (.block ⟨2, 0, 1, 1, 3, ⟨some 1, 0⟩, [⟨some 0, 0⟩, ⟨some 0, 1⟩, ⟨some 3, 0⟩], [], false⟩ true)
    (runP cfgSigner (init 4 1000000 1000 2 0 [0, 1, 2, 3]) ops).isSome = true ∧
    s.headId = 3 ∧ s.tree.map (fun b => b.confirms) = [[⟨some 2, 0⟩], [⟨some 2, 0⟩]] ∧ s.lastSigId = 3 ∧
    r.2 = "ok" ∧ r.1.stable.id = 2 ∧ r.1.stable.confirms = [⟨some 0, 0⟩, ⟨some 3, 0⟩] ∧ r.1.headId = 2 ∧ r.1.tree = [] ∧
    distinctCount (depsAt r.1 1) r.1.stable = 3 ∧ twoThirds (depsAt r.1 1).length = 3 := by decide

/-- non-vacuity across a term boundary (term length 2, interim 0, 2 seats, candidates 0,1,2): block 2 is
    the snapshot block and names the next term [2,0]; when it is stable the node knows two terms, and
    height 3 is signed by the deputies [2,0]: node 1 is not a deputy any more, node 2 is. -/
example :
    let s := run cfgSigner (init 2 2 0 1000 0 [0, 1, 2])
      [.block ⟨1, 0, 1, 0, 5, ⟨some 0, 0⟩, [⟨some 1, 0⟩], [], false⟩ true,
       .block ⟨2, 1, 2, 1, 4, ⟨some 1, 0⟩, [⟨some 0, 0⟩], [2, 0], false⟩ true]
    s.stable.id = 2 ∧ s.terms = [[0, 1, 2], [2, 0]] ∧ depsAt s 2 = [0, 1] ∧ depsAt s 3 = [2, 0] ∧
    (step cfgSigner s (.block ⟨3, 2, 3, 1, 3, ⟨some 1, 0⟩, [], [], false⟩ true)).2 = "ErrVerifyBlockFailed" ∧
    (step cfgSigner s (.block ⟨4, 2, 3, 2, 3, ⟨some 2, 0⟩, [⟨some 1, 0⟩, ⟨some 0, 0⟩], [], false⟩ true)).1.stable.id = 4 := by
  decide


/-! ## Go panics on the stable-advance path

  Two panic sites are modelled: `needSwitchFork` (`% TwoThirdDeputyCount(head height)`, integer divide
  by zero for an unknown term) and `saveSnapshot → NewTermRecord / SaveSnapshot` (bad deputy list of a
  snapshot block, C10's finding). The first never fires; the second is the `Reach` guard. The panics of
  `blockCommit` (nil item / stale LastConfirm) are not modelled. -/

/-- `needSwitchFork` never divides by zero: it is only evaluated for a candidate head that is a stored
    block (whose term is known, `stored_blocks_term_known`) — when the candidate is the stable block
    itself the head is higher and the modulo is not reached. -/
theorem needSwitchFork_no_panic {s : St} (hp : PInv (fun _ _ => True) s) (nb : Blk) : forkDecision s nb ≠ none := by
  unfold forkDecision
  cases hc : isCut s
  · simp only [Bool.false_eq_true, if_false]
    have hh : s.stable.height < s.headHeight := by
      unfold isCut at hc
      simp only [Bool.or_eq_false_iff, decide_eq_false_iff_not] at hc
      omega
    split
    · simp
    · have hns : needSwitchFork s (chooseNewFork s.stable s.tree) ≠ none := by
        unfold needSwitchFork
        split
        · rename_i hgt
          simp only
          split
          · rename_i hz
            exfalso
            rcases chooseNewFork_mem s.stable s.tree with e | hm
            · rw [e] at hgt; omega
            · have := (hp _ hm).1
              have hl : 0 < (depsAt s (chooseNewFork s.stable s.tree).height).length := List.length_pos_of_mem this
              unfold twoThirds at hz; omega
          · simp
        · simp
      split
      · rename_i h; exact absurd h hns
      · simp
      · simp
  · simp

/-- … in every state the engine reaches, for every block. -/
theorem needSwitchFork_no_panic_reachable {C : Cfg} {s : St} (h : Reach C s) (nb : Blk) : forkDecision s nb ≠ none :=
  needSwitchFork_no_panic (pinv_reachable (vok_trivial C) h) nb


/-! ## no Go panic at all, if every snapshot block carries a loadable deputy list

  This discharges the guard of `Reach` from a condition on the INPUTS: if the deputy list of every
  snapshot block the node is given (or mines) is one `NewTermRecord` accepts — exactly what C10's
  finding `c10/snapshot-deputies-not-loadable` says the miner path does not guarantee — then no
  operation panics, `runP` never stops, and all theorems above hold along the whole history. -/

/-- `NewTermRecord(b.height, b.DeputyNodes)` does not panic if `b` is a snapshot block. -/
def Loadable (T : Nat) (b : Blk) : Prop := b.snapBad = false ∧ (b.height % T = 0 → b.nextDeps ≠ [])

def GInv (s : St) : Prop := (∀ b ∈ s.tree, Loadable s.termDur b) ∧ (∀ b ∈ s.committed, Loadable s.termDur b)

/-- the condition on one operation. -/
def OpLoadable (s : St) : Op → Prop
  | .block b _ => Loadable s.termDur b
  | .mine b => b.snapBad = false ∧ ((s.headHeight + 1) % s.termDur = 0 → b.nextDeps ≠ [])
  | _ => True

theorem snap_step_some {T h : Nat} (hT : 0 < T) {terms : List (List Nat)} {x : Blk} (hg : Loadable T x)
    (hx : x.height = h + 1) (hl : terms.length = h / T + 1) :
    (if LemoGen.Schedule.IsSnapshotBlock x.height T then saveSnapshot T terms x else some terms) ≠ none := by
  unfold LemoGen.Schedule.IsSnapshotBlock
  by_cases hs : x.height % T = 0
  · have hs' : ((x.height % T) == (0 : Nat)) = true := by simp [hs]
    rw [if_pos hs']
    unfold saveSnapshot
    have hbad : (x.snapBad || x.nextDeps.isEmpty) = false := by
      rw [hg.1]
      have := hg.2 hs
      cases hnd : x.nextDeps with
      | nil => exact absurd hnd this
      | cons _ _ => rfl
    rw [hbad]
    simp only [Bool.false_eq_true, if_false]
    have hidx : LemoGen.Schedule.GetDeputyTermIndexByHeight x.height T = h / T + 1 := by
      unfold LemoGen.Schedule.GetDeputyTermIndexByHeight
      rw [hx]; exact succ_div_of_dvd hT (hx ▸ hs)
    rw [hidx]
    have hne : terms.isEmpty = false := by
      cases terms with
      | nil => simp at hl
      | cons _ _ => rfl
    rw [hne]
    simp only [Bool.false_eq_true, if_false]
    rw [if_neg (by omega), if_pos hl]
    simp
  · have hs' : ¬ (((x.height % T) == (0 : Nat)) = true) := by simp [hs]
    rw [if_neg hs']
    simp

theorem saveSnapshots_path_some {T root rh : Nat} (hT : 0 < T) {terms : List (List Nat)} (hl : terms.length = rh / T + 1) :
    ∀ {p : List Blk}, ToRoot root rh p → (∀ x ∈ p, Loadable T x) → saveSnapshots T terms p ≠ none
  | [x], h, hg => by
    simp only [ToRoot] at h
    simp only [saveSnapshots]
    exact snap_step_some hT (hg x List.mem_cons_self) h.2 hl
  | x :: y :: rest, h, hg => by
    simp only [ToRoot] at h
    have ih := saveSnapshots_path_some hT hl h.2.2 (fun z hz => hg z (List.mem_cons_of_mem _ hz))
    rw [saveSnapshots]
    split
    · rename_i hn; exact absurd hn ih
    · rename_i t' ht'
      obtain ⟨_, x', r', hp, hl'⟩ := saveSnapshots_path hT hl h.2.2 ht'
      cases hp
      exact snap_step_some hT (hg x List.mem_cons_self) h.2.1 hl'

theorem saveSnapshots_chain_some {T : Nat} (hT : 0 < T) :
    ∀ {l : List Blk}, Linked l → (∃ g, l.getLast? = some g ∧ g.height = 0) → (∀ x ∈ l, Loadable T x) →
      saveSnapshots T [] l ≠ none
  | [], _, hb, _ => by obtain ⟨g, hg, _⟩ := hb; simp at hg
  | [g], _, hb, hg => by
    obtain ⟨g', hg', hh⟩ := hb
    simp at hg'; subst hg'
    have hgl := hg g List.mem_cons_self
    simp only [saveSnapshots]
    unfold LemoGen.Schedule.IsSnapshotBlock
    have hs' : ((g.height % T) == (0 : Nat)) = true := by simp [hh]
    rw [if_pos hs']
    unfold saveSnapshot
    have hbad : (g.snapBad || g.nextDeps.isEmpty) = false := by
      rw [hgl.1]
      have := hgl.2 (by simp [hh])
      cases hnd : g.nextDeps with
      | nil => exact absurd hnd this
      | cons _ _ => rfl
    rw [hbad]
    simp
  | x :: y :: rest, hlk, hb, hg => by
    simp only [Linked] at hlk
    have hb' : ∃ g, (y :: rest).getLast? = some g ∧ g.height = 0 := by
      obtain ⟨g, hg', hh⟩ := hb
      exact ⟨g, by rw [List.getLast?_cons_cons] at hg'; exact hg', hh⟩
    have ih := saveSnapshots_chain_some hT hlk.2.2 hb' (fun z hz => hg z (List.mem_cons_of_mem _ hz))
    rw [saveSnapshots]
    split
    · rename_i hn; exact absurd hn ih
    · rename_i t' ht'
      obtain ⟨x', r', hp, hl'⟩ := saveSnapshots_chain hT hlk.2.2 hb' ht'
      cases hp
      exact snap_step_some hT (hg x List.mem_cons_self) hlk.2.1 hl'

theorem pathUp_sub : ∀ (t : List Blk) (w : Nat), ∀ x ∈ pathUp t w, x ∈ t
  | [], _, x, hx => by cases hx
  | y :: rest, w, x, hx => by
    simp only [pathUp] at hx
    split at hx
    · rcases List.mem_cons.1 hx with rfl | hx
      · exact List.mem_cons_self
      · exact List.mem_cons_of_mem _ (pathUp_sub rest _ x hx)
    · exact List.mem_cons_of_mem _ (pathUp_sub rest _ x hx)

theorem replFn_loadable {T : Nat} (nb x : Blk) (h : Loadable T x) : Loadable T (replFn nb x) := by
  unfold replFn
  split
  · exact h
  · exact h

theorem replaceBlk_loadable {T : Nat} (l : List Blk) (nb : Blk) (h : ∀ b ∈ l, Loadable T b) :
    ∀ b ∈ replaceBlk l nb, Loadable T b := by
  intro b hb
  rw [replaceBlk_eq] at hb
  rcases List.mem_map.1 hb with ⟨x, hx, rfl⟩
  exact replFn_loadable nb x (h x hx)

theorem tryConfirmStable_ginv (C : Cfg) {s : St} (b : Blk) (h : GInv s) : GInv (tryConfirmStable C s b) := by
  obtain ⟨f1, _, f3, _, _, _, f7⟩ := setLastSig_fields s b
  have h1 : GInv (setLastSig s b) := by
    unfold GInv; rw [f1, f3, f7.2.1]; exact h
  unfold tryConfirmStable
  simp only
  split
  · exact h
  split
  · exact h
  split
  · exact h1
  · exact ⟨h1.1, replaceBlk_loadable _ _ h1.2⟩

theorem batchConfirm_ginv (C : Cfg) : ∀ (l : List Blk) {s : St}, GInv s → GInv (batchConfirm C s l)
  | [], _, h => h
  | b :: older, s, h => by
    have h1 := batchConfirm_ginv C older h
    simp only [batchConfirm]
    split
    · exact tryConfirmStable_ginv C _ h1
    · exact h1

theorem updateStableFull_no_panic (C : Cfg) {s : St} (b : Blk) (hi : TInv s) (ht : TermsOK s) (hg : GInv s) :
    (updateStableFull C s b).2 ≠ .panic ∧ GInv (updateStableFull C s b).1 := by
  rcases updateStable_cases s b with ⟨e, e2⟩ | ⟨c, hc, hcid, _, _, e⟩
  · unfold updateStableFull
    simp only
    split
    · rw [e]; exact ⟨by simp, hg⟩
    · rw [e2]; simp only [Bool.not_false, if_true]
      rw [e]; exact ⟨by simp, hg⟩
  · have hpath : ToRoot s.stable.id s.stable.height (pathUp s.tree b.id) := by
      rw [← hcid]; exact pathUp_toRoot hi.wf c hc
    have hgood : ∀ x ∈ pathUp s.tree b.id, Loadable s.termDur x := fun x hx => hg.1 x (pathUp_sub _ _ x hx)
    have hsome := saveSnapshots_path_some hi.tpos ht hpath hgood
    have gs : GInv (setStable s c) := by
      refine ⟨?_, ?_⟩
      · intro x hx
        exact hg.1 x (descOf_sub _ _ x (List.mem_filter.1 hx).1)
      · intro x hx
        have hx' : x ∈ pathUp s.tree c.id ++ s.committed := hx
        rcases List.mem_append.1 hx' with hx' | hx'
        · exact hg.1 x (pathUp_sub _ _ x hx')
        · exact hg.2 x hx'
    unfold updateStableFull
    rw [e]
    simp only [Bool.false_eq_true, if_false, Bool.not_true]
    have hterms : (setStable s c).terms = s.terms := rfl
    rw [hterms]
    split
    · rename_i hn; exact absurd hn hsome
    · rename_i t _
      refine ⟨by simp, ?_⟩
      exact batchConfirm_ginv C _ (s := { setStable s c with terms := t }) gs


theorem ginv_of_same {s s' : St} (ht : s'.tree = s.tree) (hc : s'.committed = s.committed) (hd : s'.termDur = s.termDur)
    (h : GInv s) : GInv s' := by
  unfold GInv; rw [ht, hc, hd]; exact h

theorem saveNewBlock_no_panic (C : Cfg) {s : St} (b : Blk) (hi : Inv s) (hg : GInv s)
    (hp : PInv (fun _ _ => True) s) (hb : Loadable s.termDur b) (hm : b.miner ∈ depsAt s b.height) :
    (saveNewBlock C s b).2 ≠ "panic" ∧ GInv (saveNewBlock C s b).1 := by
  unfold saveNewBlock
  split
  · exact ⟨by simp, hg⟩
  · rename_i s1 hs1
    obtain ⟨e1, t1⟩ := setBlock_spec hi.toTInv hs1
    have key : ∀ s1' : St, s1'.tree = s1.tree → s1'.stable = s1.stable → s1'.committed = s1.committed →
        s1'.terms = s1.terms → Consts s1 s1' →
        (let r := updateStableFull C s1' b
         if r.2 = .err then (r.1, "ErrSaveBlock")
         else if r.2 = .panic then (r.1, "panic")
         else match forkDecision r.1 b with
           | none => (r.1, "panic")
           | some h => (setHead r.1 h, "ok")).2 ≠ "panic" ∧
        GInv (let r := updateStableFull C s1' b
              if r.2 = .err then (r.1, "ErrSaveBlock")
              else if r.2 = .panic then (r.1, "panic")
              else match forkDecision r.1 b with
                | none => (r.1, "panic")
                | some h => (setHead r.1 h, "ok")).1 := by
      intro s1' g1 g2 g3 g4 g6
      have t1' : TInv s1' := t1.of_same g1 g3 g2 g6.2.1
      have tk1 : TermsOK s1' := by
        unfold TermsOK; rw [g4, g2, g6.2.1, e1]; exact hi.terms
      have ks : Consts s s1' := by rw [e1] at g6; exact g6
      have hts : s1'.terms = s.terms := by rw [g4, e1]
      have hd : ∀ h, depsAt s1' h = depsAt s h := depsAt_congr' ks hts
      have hp1 : PInv (fun _ _ => True) s1' := by
        intro x hx
        rw [g1, e1] at hx
        rw [hd]
        rcases List.mem_cons.1 hx with rfl | hx
        · exact ⟨hm, trivial⟩
        · exact hp x hx
      have hg1 : GInv s1' := by
        unfold GInv
        rw [g1, g3, ks.2.1, e1]
        refine ⟨?_, hg.2⟩
        intro x hx
        rcases List.mem_cons.1 hx with rfl | hx
        · exact hb
        · exact hg.1 x hx
      have hb1 : b ∈ s1'.tree := by rw [g1, e1]; exact List.mem_cons_self
      obtain ⟨hnp, hg2⟩ := updateStableFull_no_panic C b t1' tk1 hg1
      obtain ⟨hp2, _, _⟩ := updateStableFull_quorum (P := fun _ _ => True) C t1' tk1 hp1
        (fun c hc hcid => WF.unique t1'.wf c hc b hb1 hcid) hnp
      simp only
      split
      · exact ⟨by simp, hg2⟩
      · try rw [if_neg hnp]
        split
        · rename_i hfd; exact absurd hfd (needSwitchFork_no_panic hp2 b)
        · rename_i h _
          obtain ⟨f1, _, f3, _, k⟩ := setHead_fields (updateStableFull C s1' b).1 h
          exact ⟨by simp, ginv_of_same f1 f3 k.2.1 hg2⟩
    simp only
    split
    · obtain ⟨f1, f2, f3, f4, _, _, f7⟩ := setLastSig_fields s1 b
      exact key _ f1 f2 f3 f4 f7
    · exact key _ rfl rfl rfl rfl (Consts.refl s1)

theorem tryConfirm_blk_fields (C : Cfg) (s : St) (b : Blk) :
    (tryConfirm C s b).2.height = b.height ∧ (tryConfirm C s b).2.miner = b.miner ∧
    (tryConfirm C s b).2.snapBad = b.snapBad ∧ (tryConfirm C s b).2.nextDeps = b.nextDeps := by
  unfold tryConfirm
  split
  · simp only
    split <;> exact ⟨rfl, rfl, rfl, rfl⟩
  · exact ⟨rfl, rfl, rfl, rfl⟩

theorem insertBlock_no_panic (C : Cfg) {s : St} (b : Blk) (valid : Bool) (hi : Inv s) (hg : GInv s)
    (hp : PInv (fun _ _ => True) s) (hb : Loadable s.termDur b) :
    (insertBlock C s b valid).2 ≠ "panic" ∧ GInv (insertBlock C s b valid).1 := by
  rcases insertBlock_cases C s b valid with ⟨msg, e, hmsg⟩ | ⟨_, h2, e⟩
  · rw [e]; exact ⟨hmsg, hg⟩
  rw [e]
  obtain ⟨i1, _, e1, e2, k, e3⟩ := tryConfirm_spec C
    { b with confirms := (C.V (depsAt s b.height) { b with confirms := [] } b.confirms).1 } hi
  obtain ⟨fh, fm, fb, fn⟩ := tryConfirm_blk_fields C s
    { b with confirms := (C.V (depsAt s b.height) { b with confirms := [] } b.confirms).1 }
  obtain ⟨pp, _⟩ := pq_of_same (P := fun _ _ => True) e1 e3 e2 k
  have hd : ∀ h, depsAt (tryConfirm C s
      { b with confirms := (C.V (depsAt s b.height) { b with confirms := [] } b.confirms).1 }).1 h = depsAt s h :=
    depsAt_congr' k e2
  have hcm : (tryConfirm C s
      { b with confirms := (C.V (depsAt s b.height) { b with confirms := [] } b.confirms).1 }).1.committed = s.committed := by
    unfold tryConfirm
    split
    · simp only
      split <;> exact (setLastSig_fields s _).2.2.1
    · rfl
  apply saveNewBlock_no_panic C _ i1 (ginv_of_same e1 hcm k.2.1 hg) (pp hp)
  · unfold Loadable; rw [fb, fn, fh, k.2.1]; exact hb
  · rw [hd, fh, fm]; exact h2

theorem mineBlock_no_panic (C : Cfg) {s : St} (b : Blk) (hi : Inv s) (hg : GInv s)
    (hp : PInv (fun _ _ => True) s) (hb : b.snapBad = false ∧ ((s.headHeight + 1) % s.termDur = 0 → b.nextDeps ≠ [])) :
    (mineBlock C s b).2 ≠ "panic" ∧ GInv (mineBlock C s b).1 := by
  unfold mineBlock
  split
  · exact ⟨by simp, hg⟩
  · rename_i hself
    exact saveNewBlock_no_panic C _ hi hg hp hb (Decidable.not_not.1 hself)

theorem afterConfirm_no_panic (C : Cfg) {s1 : St} (nb : Blk) (height : Nat) (hi : Inv s1) (hg : GInv s1) :
    (afterConfirm C s1 nb height).2 ≠ "panic" ∧ GInv (afterConfirm C s1 nb height).1 := by
  unfold afterConfirm
  split
  · obtain ⟨hnp, hg2⟩ := updateStableFull_no_panic C nb hi.toTInv hi.terms hg
    simp only
    split
    · exact ⟨by simp, hg2⟩
    · try rw [if_neg hnp]
      refine ⟨by simp, ?_⟩
      have hcm : (updateForkForConfirm (updateStableFull C s1 nb).1).committed = (updateStableFull C s1 nb).1.committed := by
        unfold updateForkForConfirm
        split
        · exact (setHead_fields _ _).2.2.1
        · rfl
      obtain ⟨f1, _, _, k⟩ := updateForkForConfirm_fields (updateStableFull C s1 nb).1
      exact ginv_of_same f1 hcm k.2.1 hg2
  · exact ⟨by simp, hg⟩

theorem saveConfirm_ginv {s : St} (b : Blk) (valid : List Sig) (hg : GInv s) : GInv (saveConfirm s b valid).1 := by
  unfold saveConfirm
  split
  · exact ⟨replaceBlk_loadable _ _ hg.1, hg.2⟩
  · exact ⟨hg.1, replaceBlk_loadable _ _ hg.2⟩

theorem insertConfirms_no_panic (C : Cfg) {s : St} (id height : Nat) (sigs : List Sig) (hi : Inv s) (hg : GInv s) :
    (insertConfirms C s id height sigs).2 ≠ "panic" ∧ GInv (insertConfirms C s id height sigs).1 := by
  unfold insertConfirms
  split
  · exact ⟨by simp, hg⟩
  split
  · exact ⟨by simp, hg⟩
  rename_i b _
  split
  · exact ⟨by simp, hg⟩
  split
  · exact ⟨by simp, hg⟩
  simp only
  split
  · refine ⟨?_, hg⟩
    split
    · simp
    · cases (C.V (depsAt s b.height) b sigs).2 <;> simp [CErr.name]
  · obtain ⟨i1, _⟩ := saveConfirm_inv b (C.V (depsAt s b.height) b sigs).1 hi
    exact afterConfirm_no_panic C _ height i1 (saveConfirm_ginv b _ hg)

theorem reopen_no_panic {s : St} (hi : Inv s) (hg : GInv s) : (reopen s).2 ≠ "panic" ∧ GInv (reopen s).1 := by
  obtain ⟨c, rest, hcm, _, _⟩ := hi.top
  have hsome := saveSnapshots_chain_some hi.tpos hi.linked hi.bottom hg.2
  unfold reopen
  split
  · rename_i hn; exact absurd hn hsome
  · split
    · rename_i hnil; rw [hcm] at hnil; cases hnil
    · exact ⟨by simp, ⟨fun b hb => (by cases hb), hg.2⟩⟩

theorem step_no_panic (C : Cfg) {s : St} (op : Op) (hi : Inv s) (hg : GInv s) (hp : PInv (fun _ _ => True) s)
    (ho : OpLoadable s op) : (step C s op).2 ≠ "panic" ∧ GInv (step C s op).1 := by
  cases op with
  | block b valid => exact insertBlock_no_panic C b valid hi hg hp ho
  | mine b => exact mineBlock_no_panic C b hi hg hp ho
  | confirms id h sigs => exact insertConfirms_no_panic C id h sigs hi hg
  | reopen => exact reopen_no_panic hi hg

/-- every operation of the history satisfies `OpLoadable` in the state it is applied to. -/
def RunLoadable (C : Cfg) : St → List Op → Prop
  | _, [] => True
  | s, op :: ops => OpLoadable s op ∧ RunLoadable C (step C s op).1 ops

theorem runP_total (C : Cfg) : ∀ (ops : List Op) {s : St}, Inv s → GInv s → PInv (fun _ _ => True) s →
    RunLoadable C s ops → runP C s ops = some (run C s ops)
  | [], _, _, _, _, _ => rfl
  | op :: ops, s, hi, hg, hp, hl => by
    obtain ⟨hnp, hg1⟩ := step_no_panic C op hi hg hp hl.1
    rw [runP, if_neg hnp]
    exact runP_total C ops ((step_spec C op hi).2.2 hnp) hg1 (step_quorum (vok_trivial C) op hi hp hnp).1 hl.2

/-- NO GO PANIC on the modelled paths, whatever arrives in whatever order, as long as the deputy list
    of every snapshot block given to the node (genesis included) is loadable: then the panic-free
    run `runP` IS the run, i.e. every state of the history is `Reach`able and all theorems apply. -/
theorem no_panic_of_loadable_snapshots (C : Cfg) (dc T I self g : Nat) (term0 : List Nat) (ops : List Op)
    (hT : 0 < T) (h0 : term0 ≠ []) (hl : RunLoadable C (init dc T I self g term0) ops) :
    runP C (init dc T I self g term0) ops = some (run C (init dc T I self g term0) ops) ∧
    Reach C (run C (init dc T I self g term0) ops) := by
  have hg : GInv (init dc T I self g term0) := by
    refine ⟨fun b hb => (by cases hb), ?_⟩
    intro b hb
    have hb' : b ∈ [genesis g term0] := hb
    rw [List.mem_singleton] at hb'
    subst hb'
    exact ⟨rfl, fun _ => h0⟩
  have e := runP_total C ops (inv_init dc T I self g term0 hT) hg (fun b hb => by cases hb) hl
  exact ⟨e, dc, T, I, self, g, term0, ops, hT, e⟩

end LemoProofs.C03

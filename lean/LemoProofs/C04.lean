/-
  C04 — replay protection: a signed transaction takes effect at most once per chain branch.

  Model: LemoModel/TxGuard.lean (TxGuard, verifyTxs, initTxPool as coded; bucket index and the
  VerifyTxBody comparisons GENERATED from the Go source).

  FULL STATEMENT (`at_most_once_by_content`): on any single branch accepted by `verifyTxs` every
  signed CONTENT (signing hash) is executed at most once — across blocks, inside one block,
  standalone or as a box sub-tx, under any signature re-encoding — and never outside its window.
  It is FALSE for the code as it stands; see the refutation witnesses at the end
  (`replay_malleated_signature`, `replay_surplus_signature`, `replay_duplicate_in_block`,
  `replay_box_and_standalone_in_block`, `miner_builds_block_its_validator_rejects`) and the theorem
  `at_most_once_by_content_partial` for the exact guard under which it holds.
-/
import LemoProofs.Lemmas.TxGuardWalk
namespace LemoProofs.C04
open LemoModel LemoModel.TxGuard LemoGen.TxWindow LemoProofs.TxGuardLemmas

/-- every saved block passed `VerifyTxBody` at its own time (saveNewBlock runs after verifyTxs;
    the miner's `GetTxs` drops timed-out txs), and expirations are uint64 -/
def Admissible (U : List Block) : Prop :=
  ∀ b ∈ U, ∀ tx ∈ b.txs, tx.validAt b.time = true ∧ ∀ c ∈ tx.cores, c.exp < 2 ^ 64

/-- tx hashes are collision free: equal `txId` ⇒ same transaction (same expiration, same content) -/
def IdFun (cs : List Core) : Prop := ∀ c1 ∈ cs, ∀ c2 ∈ cs, c1.txId = c2.txId → c1 = c2

theorem validAt_core {tx : Tx} {t : Nat} (hv : tx.validAt t = true) {c : Core} (hc : c ∈ tx.cores) :
    windowOk t c.exp = true := by
  unfold Tx.validAt at hv
  rw [Bool.and_eq_true] at hv
  rcases List.mem_cons.1 hc with h | h
  · rw [h]; exact hv.1
  · have := List.all_eq_true.1 hv.2 c h
    rw [Bool.and_eq_true] at this
    exact this.2

theorem adm_core {U : List Block} (adm : Admissible U) {b : Block} (hb : b ∈ U) {c : Core} (hc : c ∈ b.cores) :
    b.time ≤ c.exp ∧ c.exp ≤ b.time + 1800 := by
  unfold Block.cores at hc
  obtain ⟨tx, htx, hctx⟩ := List.mem_flatMap.1 hc
  obtain ⟨hv, he⟩ := adm b hb tx htx
  exact (windowOk_iff (he c hctx)).1 (validAt_core hv hctx)

/-! ## window_safe -/

/-- a block leaves the cache at `DelOldBlocks(T)` only if its bucket is before the bucket of `T-1800` -/
theorem dropped_old {g g' : Guard} {U : List Block} {K : List Nat} {T0 T : Nat} (hr : Reach g U K T0)
    (hd : g.delOldBlocks T = .ok g') {b : Block} (hb : b ∈ g.cache) (hdrop : b ∉ g'.cache) :
    1800 ≤ T ∧ b.time / 60 < (T - 1800) / 60 := by
  have inv := reach_inv hr
  have inv' := inv_del inv hd
  obtain ⟨hT, hg'⟩ := delOldBlocks_eq hd
  refine ⟨hT, ?_⟩
  by_cases hmove : g.tb.timeBase / 60 < (T - 1800) / 60
  · have e1 := (expire_move hmove).1
    have htb : g'.tb = (g.tb.expire (T - 1800)).2 := by rw [hg', drop_tb]
    have hbU := ((inv.cacheIff b).1 hb).1
    apply Nat.lt_of_not_le
    intro hle
    apply hdrop
    apply (inv'.cacheIff b).2
    exact ⟨hbU, by rw [htb, e1]; exact hle⟩
  · have hno := expire_noop (Nat.le_of_not_lt hmove)
    rw [hno] at hg'
    have : g' = g := by rw [hg']; rfl
    rw [this] at hdrop
    exact absurd hb hdrop

/-- **window_safe** (all times): if a block is dropped from the guard when the stable block of time `T`
    arrives, then every transaction (and box sub-tx) it validly contained is EXPIRED (`ErrTxExpired`
    in VerifyTxBody) at every block time `tn ≥ T`, i.e. in every descendant of the stable block.
    Forgetting the block — and, with `DelTrace`, the whole trace entry of its txs — is harmless. -/
theorem window_safe {g g' : Guard} {U : List Block} {K : List Nat} {T0 T : Nat} (hr : Reach g U K T0)
    (hd : g.delOldBlocks T = .ok g') {b : Block} (hb : b ∈ g.cache) (hdrop : b ∉ g'.cache)
    {tx : Tx} (_htx : tx ∈ b.txs) (hvalid : tx.validAt b.time = true) {c : Core} (hc : c ∈ tx.cores)
    (hexp : c.exp < 2 ^ 64) {tn : Nat} (htn : T ≤ tn) : txExpiredCond tn c.exp = true := by
  obtain ⟨hT, hold⟩ := dropped_old hr hd hb hdrop
  have hw := (windowOk_iff hexp).1 (validAt_core hvalid hc)
  unfold txExpiredCond
  simp only [decide_eq_true_eq]
  omega

/-- the pure arithmetic behind it, on the generated definitions -/
theorem window_safe_arith {tb exp T tn base : Nat} (he : exp < 2 ^ 64) (hvalid : windowOk tb exp = true)
    (hdrop : getBucketIndex tb base < getBucketIndex (T - lifeTime) base) (hT : lifeTime ≤ T) (htn : T ≤ tn) :
    txExpiredCond tn exp = true := window_arith he hvalid hdrop hT htn

/-- "still in the window": the cache holds exactly the saved blocks whose 60-s bucket is not before the
    base bucket, and the base is at most 30 min before the latest stable time -/
theorem cache_is_window {g : Guard} {U : List Block} {K : List Nat} {T : Nat} (hr : Reach g U K T) (b : Block) :
    (b ∈ g.cache ↔ b ∈ U ∧ g.tb.timeBase / 60 ≤ b.time / 60) ∧ g.tb.timeBase ≤ T - 1800 :=
  ⟨(reach_inv hr).cacheIff b, (reach_inv hr).baseT⟩

/-! ## guard_refines_ancestors -/

/-- **guard_refines_ancestors**: in every reachable guard state (any sequence of SaveBlock /
    DelOldBlocks / restarts), for a start block held by the guard and txs none of whose hashes was in a
    dropped block, `ExistTxs` never panics and answers true exactly when some ancestor-or-self of the
    start block that is still in the window contains one of the tx / sub-tx hashes.
    (`SliceOnFork`'s clipping to the traces' height range and its early exits lose nothing.) -/
theorem guard_refines_ancestors {g : Guard} {U : List Block} {K : List Nat} {T : Nat} (hr : Reach g U K T)
    (tree : TreeOK U) {pb : Block} (hpb : pb ∈ g.cache) (txs : List Tx) (hlive : ∀ id ∈ idsOf txs, id ∉ K) :
    ∃ r, g.existTxs pb.hash txs = .ok r ∧
      (r = true ↔ ∃ a, Anc U pb.hash a ∧ a ∈ g.cache ∧ ∃ id ∈ idsOf txs, id ∈ a.ids) := by
  have inv := reach_inv hr
  obtain ⟨r, hr1, hs, hc⟩ := exist_spec inv tree hpb txs
  refine ⟨r, hr1, ?_, ?_⟩
  · intro h
    obtain ⟨a, hca, id, hid, hida⟩ := hs h
    exact ⟨a, canc_to_anc inv hca hpb, canc_mem hca hpb, id, hid, hida⟩
  · rintro ⟨a, hanc, hac, id, hid, hida⟩
    exact hc ⟨a, anc_to_canc inv tree hanc hac pb hpb rfl, id, hid, hida, hlive id hid⟩

/-- soundness needs no hypothesis on the txs: a `true` always points at a cached ancestor -/
theorem guard_sound {g : Guard} {U : List Block} {K : List Nat} {T : Nat} (hr : Reach g U K T)
    (tree : TreeOK U) {pb : Block} (hpb : pb ∈ g.cache) (txs : List Tx)
    (h : g.existTxs pb.hash txs = .ok true) :
    ∃ a, Anc U pb.hash a ∧ a ∈ g.cache ∧ ∃ id ∈ idsOf txs, id ∈ a.ids := by
  have inv := reach_inv hr
  obtain ⟨r, hr1, hs, _⟩ := exist_spec inv tree hpb txs
  rw [hr1] at h
  cases h
  obtain ⟨a, hca, id, hid, hida⟩ := hs rfl
  exact ⟨a, canc_to_anc inv hca hpb, canc_mem hca hpb, id, hid, hida⟩

/-- The `hlive` hypothesis cannot be dropped: `DelTrace` deletes the WHOLE entry of a tx hash when ONE
    block containing it expires.  Witness: tx 7 sits in block 2 (time 100000) and in block 3 on another
    fork (time 100070, next bucket); the stable time 101865 expires only block 2's bucket; the guard
    then denies that tx 7 is in block 3 although block 3 is still cached.  (Harmless for valid blocks
    by `window_safe`: tx 7 is expired by then — see `guard_exact_for_valid_blocks`.) -/
theorem guard_refines_ancestors_needs_live :
    let tx7 : Tx := { txId := 7, content := 7, exp := 100100 }
    let b1 : Block := ⟨1, 0, 0, 100000, []⟩
    let b2 : Block := ⟨2, 1, 1, 100000, [tx7]⟩
    let b3 : Block := ⟨3, 1, 1, 100070, [tx7]⟩
    ∃ g, (do
        let g1 ← (match (newTxGuard 100000).saveBlock b1 with | .ok g => some g | _ => none)
        let g2 ← (match g1.saveBlock b2 with | .ok g => some g | _ => none)
        let g3 ← (match g2.saveBlock b3 with | .ok g => some g | _ => none)
        match g3.delOldBlocks 101865 with | .ok g => some g | _ => none) = some g ∧
      b3 ∈ g.cache ∧ b2 ∉ g.cache ∧ g.existTxs 3 [tx7] = .ok false := by
  decide

/-! ## the guard is exact for every block that can be valid -/

/-- For a new block `b` on a cached parent, not older than the latest stable time, whose txs all pass
    VerifyTxBody's window at `b.time`: `ExistTxs` is true iff ANY ancestor at all (cached or long
    forgotten) contains one of its tx / sub-tx hashes. -/
theorem guard_exact_for_valid_blocks {g : Guard} {U : List Block} {K : List Nat} {T : Nat}
    (hr : Reach g U K T) (tree : TreeOK U) (adm : Admissible U) {b : Block}
    (hpar : ∃ pb ∈ g.cache, pb.hash = b.parent) (hT : T ≤ b.time)
    (hvalid : ∀ tx ∈ b.txs, tx.validAt b.time = true) (hbexp : ∀ c ∈ b.cores, c.exp < 2 ^ 64)
    (hid : IdFun (U.flatMap Block.cores ++ b.cores)) :
    ∃ r, g.existTxs b.parent b.txs = .ok r ∧
      (r = true ↔ ∃ a, Anc U b.parent a ∧ ∃ id ∈ a.ids, id ∈ b.ids) := by
  have inv := reach_inv hr
  obtain ⟨pb, hpb, hpbh⟩ := hpar
  obtain ⟨r, hr1, hs, hc⟩ := exist_spec inv tree hpb b.txs
  rw [hpbh] at hr1
  -- a core of b is inside b's window
  have hbcore : ∀ c ∈ b.cores, b.time ≤ c.exp := by
    intro c hc
    unfold Block.cores at hc
    obtain ⟨tx, htx, hctx⟩ := List.mem_flatMap.1 hc
    have hc' : c ∈ b.cores := List.mem_flatMap.2 ⟨tx, htx, hctx⟩
    exact ((windowOk_iff (hbexp c hc')).1 (validAt_core (hvalid tx htx) hctx)).1
  -- equal ids in a saved block and in b: same core
  have hsame : ∀ x ∈ U, ∀ cx ∈ x.cores, ∀ cb ∈ b.cores, cx.txId = cb.txId → cx = cb := by
    intro x hx cx hcx cb hcb he
    exact hid cx (List.mem_append.2 (Or.inl (List.mem_flatMap.2 ⟨x, hx, hcx⟩))) cb
      (List.mem_append.2 (Or.inr hcb)) he
  refine ⟨r, hr1, ?_, ?_⟩
  · intro h
    obtain ⟨a, hca, id, hidb, hida⟩ := hs h
    have := canc_to_anc inv hca hpb
    rw [hpbh] at this
    exact ⟨a, this, id, hida, hidb⟩
  · rintro ⟨a, hanc, id, hida, hidb⟩
    have haU := anc_mem hanc
    obtain ⟨ca, hca, hcaid⟩ := (ids_iff_cores a id).1 hida
    obtain ⟨cb, hcb, hcbid⟩ := (ids_iff_cores b id).1 hidb
    have hcc : ca = cb := hsame a haU ca hca cb hcb (by rw [hcaid, hcbid])
    have hwa := adm_core adm haU hca
    have hwb := hbcore cb hcb
    rw [hcc] at hwa
    have hbase := inv.baseT
    -- a is still cached
    have hac : a ∈ g.cache := (inv.cacheIff a).2 ⟨haU, by omega⟩
    -- id was never killed
    have hk : id ∉ K := by
      intro hk
      obtain ⟨x, hxU, hxid, hxt⟩ := inv.killed id hk
      obtain ⟨cx, hcx, hcxid⟩ := (ids_iff_cores x id).1 hxid
      have hcxb : cx = cb := hsame x hxU cx hcx cb hcb (by rw [hcxid, hcbid])
      have hwx := adm_core adm hxU hcx
      rw [hcxb] at hwx
      omega
    apply hc
    refine ⟨a, anc_to_canc inv tree hanc hac pb hpb hpbh, id, hidb, hida, hk⟩

/-! ## at_most_once_by_id -/

/-- **at_most_once_by_id**: on one branch, a block accepted by `verifyTxs` shares no tx hash (own or
    box sub-tx) with ANY of its ancestors — a given `txId` is executed at most once across the blocks
    of a branch, for all histories of saves, prunes and restarts and all times. -/
theorem at_most_once_by_id {fixed : Bool} {g : Guard} {U : List Block} {K : List Nat} {T : Nat}
    (hr : Reach g U K T) (tree : TreeOK U) (adm : Admissible U) {b : Block}
    (hpar : ∃ pb ∈ g.cache, pb.hash = b.parent) (hT : T ≤ b.time)
    (hbexp : ∀ c ∈ b.cores, c.exp < 2 ^ 64) (hid : IdFun (U.flatMap Block.cores ++ b.cores))
    (hacc : verifyTxs fixed g b = .ok true) {a : Block} (ha : Anc U b.parent a) :
    ∀ id ∈ a.ids, id ∉ b.ids := by
  intro id hida hidb
  unfold verifyTxs at hacc
  split at hacc
  · cases hacc
  · cases hex : g.existTxs b.parent b.txs with
    | ok r =>
      rw [hex] at hacc
      cases r with
      | true => cases hacc
      | false =>
        simp only at hacc
        have hvalid : ∀ tx ∈ b.txs, tx.validAt b.time = true := by
          have : (b.txs.all fun tx => tx.validAt b.time) = true := by
            cases hall : (b.txs.all fun tx => tx.validAt b.time) with
            | true => rfl
            | false => rw [hall] at hacc; cases hacc
          exact List.all_eq_true.1 this
        obtain ⟨r, hr1, hiff⟩ := guard_exact_for_valid_blocks hr tree adm hpar hT hvalid hbexp hid
        rw [hex] at hr1
        cases hr1
        have := hiff.2 ⟨a, ha, id, hida, hidb⟩
        cases this
    | panic => rw [hex] at hacc; cases hacc
    | hang => rw [hex] at hacc; cases hacc

/-- an accepted block lies inside the window of each of its txs (never executed outside the window) -/
theorem accepted_inside_window {fixed : Bool} {g : Guard} {b : Block} (hacc : verifyTxs fixed g b = .ok true)
    {tx : Tx} (htx : tx ∈ b.txs) {c : Core} (hc : c ∈ tx.cores) (hexp : c.exp < 2 ^ 64) :
    b.time ≤ c.exp ∧ c.exp ≤ b.time + 1800 := by
  unfold verifyTxs at hacc
  split at hacc
  · cases hacc
  · split at hacc
    · cases hacc
    · cases hall : (b.txs.all fun tx => tx.validAt b.time) with
      | true => exact (windowOk_iff hexp).1 (validAt_core (List.all_eq_true.1 hall tx htx) hc)
      | false => rw [hall] at hacc; cases hacc
    · cases hacc
    · cases hacc

/-! ## restart_equiv -/

/-- **restart_equiv**: let `gC` be the guard of a node that kept running and `gR` a guard rebuilt after
    a restart (`NewTxGuard` + the `SaveBlock`s of `initTxPool`, possibly followed by more saves/prunes):
    both reachable, both hold the new block's parent, both with stable time `≤ b.time`.  If the two
    histories contain the same ancestors of the new block among those younger than `b.time - 1800`
    (initTxPool reloads exactly the stable blocks with `stableTime - time ≤ 1800`), then `verifyTxs`
    gives the same verdict for the new block on both nodes. -/
theorem restart_equiv {fixed : Bool} {gC gR : Guard} {UC UR : List Block} {KC KR : List Nat} {TC TR : Nat}
    (hC : Reach gC UC KC TC) (hR : Reach gR UR KR TR) (treeC : TreeOK UC) (treeR : TreeOK UR)
    (admC : Admissible UC) (admR : Admissible UR) {b : Block}
    (hparC : ∃ pb ∈ gC.cache, pb.hash = b.parent) (hparR : ∃ pb ∈ gR.cache, pb.hash = b.parent)
    (hTC : TC ≤ b.time) (hTR : TR ≤ b.time) (hbexp : ∀ c ∈ b.cores, c.exp < 2 ^ 64)
    (hidC : IdFun (UC.flatMap Block.cores ++ b.cores)) (hidR : IdFun (UR.flatMap Block.cores ++ b.cores))
    (hagree : ∀ a, b.time ≤ a.time + 1800 → (Anc UC b.parent a ↔ Anc UR b.parent a)) :
    verifyTxs fixed gC b = verifyTxs fixed gR b := by
  unfold verifyTxs
  split
  · rfl
  · by_cases hvalid : ∀ tx ∈ b.txs, tx.validAt b.time = true
    · obtain ⟨rC, hrC, hiffC⟩ := guard_exact_for_valid_blocks hC treeC admC hparC hTC hvalid hbexp hidC
      obtain ⟨rR, hrR, hiffR⟩ := guard_exact_for_valid_blocks hR treeR admR hparR hTR hvalid hbexp hidR
      rw [hrC, hrR]
      have hbcore : ∀ c ∈ b.cores, b.time ≤ c.exp := by
        intro c hc
        unfold Block.cores at hc
        obtain ⟨tx, htx, hctx⟩ := List.mem_flatMap.1 hc
        have hc' : c ∈ b.cores := List.mem_flatMap.2 ⟨tx, htx, hctx⟩
        exact ((windowOk_iff (hbexp c hc')).1 (validAt_core (hvalid tx htx) hctx)).1
      -- an ancestor sharing an id with b is younger than b.time - 1800
      have hyoung : ∀ (U : List Block), Admissible U → IdFun (U.flatMap Block.cores ++ b.cores) →
          ∀ a ∈ U, ∀ id ∈ a.ids, id ∈ b.ids → b.time ≤ a.time + 1800 := by
        intro U adm hid a haU id hida hidb
        obtain ⟨ca, hca, hcaid⟩ := (ids_iff_cores a id).1 hida
        obtain ⟨cb, hcb, hcbid⟩ := (ids_iff_cores b id).1 hidb
        have hcc : ca = cb := hid ca (List.mem_append.2 (Or.inl (List.mem_flatMap.2 ⟨a, haU, hca⟩))) cb
          (List.mem_append.2 (Or.inr hcb)) (by rw [hcaid, hcbid])
        have hwa := adm_core adm haU hca
        have hwb := hbcore cb hcb
        rw [hcc] at hwa
        omega
      have : rC = rR := by
        have h1 : rC = true ↔ rR = true := by
          rw [hiffC, hiffR]
          constructor
          · rintro ⟨a, hanc, id, hida, hidb⟩
            exact ⟨a, (hagree a (hyoung UC admC hidC a (anc_mem hanc) id hida hidb)).1 hanc, id, hida, hidb⟩
          · rintro ⟨a, hanc, id, hida, hidb⟩
            exact ⟨a, (hagree a (hyoung UR admR hidR a (anc_mem hanc) id hida hidb)).2 hanc, id, hida, hidb⟩
        cases rC <;> cases rR <;> simp_all
      rw [this]
    · -- some tx is outside its window: both reject (or both fail the same way)
      have hall : (b.txs.all fun tx => tx.validAt b.time) = false := by
        cases h : (b.txs.all fun tx => tx.validAt b.time) with
        | false => rfl
        | true => exact absurd (List.all_eq_true.1 h) hvalid
      have inv1 := reach_inv hC
      have inv2 := reach_inv hR
      obtain ⟨pbC, hpbC, hpbhC⟩ := hparC
      obtain ⟨pbR, hpbR, hpbhR⟩ := hparR
      obtain ⟨rC, hrC, _, _⟩ := exist_spec inv1 treeC hpbC b.txs
      obtain ⟨rR, hrR, _, _⟩ := exist_spec inv2 treeR hpbR b.txs
      rw [hpbhC] at hrC
      rw [hpbhR] at hrR
      rw [hrC, hrR, hall]
      cases rC <;> cases rR <;> rfl

/-- the rebuilt guard IS a reachable guard: `initTxPool` = `NewTxGuard(stable.time)` + `SaveBlock`s of
    the blocks `GetBlockByHeight` returns while `stableTime - time ≤ 1800` (uint32 subtraction) -/
theorem initLoop_reach (byHeight : Nat → Option Block) (stableTime : Nat)
    (hfun : ∀ h1 h2 b1 b2, byHeight h1 = some b1 → byHeight h2 = some b2 → b1.hash = b2.hash → b1 = b2) :
    ∀ (fuel height : Nat) (iter : Block) (g : Guard) (U : List Block) (T : Nat) (g' : Guard),
      Reach g U [] T → byHeight height = some iter → (∀ x ∈ U, ∃ h, byHeight h = some x) →
      initLoop byHeight stableTime fuel height iter g = .ok g' →
      ∃ U', Reach g' U' [] T ∧ (∀ x ∈ U', ∃ h, byHeight h = some x) := by
  intro fuel
  induction fuel with
  | zero => intro height iter g U T g' _ _ _ h; cases h
  | succ fuel ih =>
    intro height iter g U T g' hr hit hU h
    unfold initLoop at h
    split at h
    · cases hs : g.saveBlock iter with
      | ok g1 =>
        rw [hs] at h
        simp only at h
        have hr1 : Reach g1 (iter :: U) [] T := by
          refine Reach.save iter hr ?_ hs
          intro a ha he
          obtain ⟨ha', hha'⟩ := hU a ha
          exact hfun _ _ _ _ hha' hit he
        have hU1 : ∀ x ∈ iter :: U, ∃ h, byHeight h = some x := by
          intro x hx
          rcases List.mem_cons.1 hx with h1 | h1
          · exact ⟨height, by rw [h1]; exact hit⟩
          · exact hU x h1
        split at h
        · cases h; exact ⟨_, hr1, hU1⟩
        · cases hn : byHeight (height - 1) with
          | none => rw [hn] at h; cases h
          | some it =>
            rw [hn] at h
            exact ih (height - 1) it g1 (iter :: U) T g' hr1 hn hU1 h
      | panic => rw [hs] at h; cases h
      | hang => rw [hs] at h; cases h
    · cases h; exact ⟨U, hr, hU⟩

/-- so the guard after a restart is a reachable guard with nothing killed and stable time `stable.time`:
    `restart_equiv`, `guard_refines_ancestors`, `at_most_once_by_id` apply to it and to everything that
    follows it -/
theorem initTxPool_reach (byHeight : Nat → Option Block) (stable : Block)
    (hfun : ∀ h1 h2 b1 b2, byHeight h1 = some b1 → byHeight h2 = some b2 → b1.hash = b2.hash → b1 = b2)
    (hst : byHeight stable.height = some stable) {g : Guard} (h : initTxPool byHeight stable = .ok g) :
    ∃ U, Reach g U [] stable.time ∧ ∀ x ∈ U, ∃ h, byHeight h = some x :=
  initLoop_reach byHeight stable.time hfun _ _ _ _ [] _ _ (Reach.init _) hst (fun x hx => by cases hx) h

/-! ## at_most_once_by_content: partial theorem -/

theorem nodup_map_of_inj {α β γ : Type} (f : α → β) (k : α → γ) :
    ∀ (l : List α), (l.map f).Nodup → (∀ x ∈ l, ∀ y ∈ l, k x = k y → f x = f y) → (l.map k).Nodup := by
  intro l
  induction l with
  | nil => intro _ _; exact List.nodup_nil
  | cons x rest ih =>
    intro hnd hinj
    rw [List.map_cons, List.nodup_cons] at hnd ⊢
    refine ⟨?_, ih hnd.2 (fun a ha c hc => hinj a (List.mem_cons_of_mem _ ha) c (List.mem_cons_of_mem _ hc))⟩
    intro hm
    obtain ⟨y, hy, hky⟩ := List.mem_map.1 hm
    apply hnd.1
    have := hinj x (List.mem_cons_self ..) y (List.mem_cons_of_mem _ hy) hky.symm
    rw [this]
    exact List.mem_map.2 ⟨y, hy, rfl⟩

theorem ids_eq_map (b : Block) : b.ids = b.cores.map (·.txId) := by
  unfold Block.ids Block.cores
  induction b.txs with
  | nil => rfl
  | cons tx rest ih =>
    simp only [List.flatMap_cons, List.map_append, ih]
    rfl

/-- one encoding per signed content: canonical (low-s) signatures and exactly the required signature
    count make the full hash a function of the signed content -/
def Canonical (cs : List Core) : Prop := ∀ c1 ∈ cs, ∀ c2 ∈ cs, c1.content = c2.content → c1.txId = c2.txId

/-- **at_most_once_by_content_partial**: WITH the repair (`fixed = true`: no tx hash twice inside a
    block) and under `Canonical` (distinct tx hashes ⇒ distinct signed contents), an accepted block
    executes no signed content that any ancestor executed, and none twice itself. -/
theorem at_most_once_by_content_partial {g : Guard} {U : List Block} {K : List Nat} {T : Nat}
    (hr : Reach g U K T) (tree : TreeOK U) (adm : Admissible U) {b : Block}
    (hpar : ∃ pb ∈ g.cache, pb.hash = b.parent) (hT : T ≤ b.time)
    (hbexp : ∀ c ∈ b.cores, c.exp < 2 ^ 64) (hid : IdFun (U.flatMap Block.cores ++ b.cores))
    (hcan : Canonical (U.flatMap Block.cores ++ b.cores))
    (hacc : verifyTxs true g b = .ok true) :
    (∀ a, Anc U b.parent a → ∀ ca ∈ a.cores, ∀ cb ∈ b.cores, ca.content ≠ cb.content) ∧
    (b.cores.map (·.content)).Nodup := by
  constructor
  · intro a ha ca hca cb hcb hcont
    have haU := anc_mem ha
    have hidEq : ca.txId = cb.txId :=
      hcan ca (List.mem_append.2 (Or.inl (List.mem_flatMap.2 ⟨a, haU, hca⟩))) cb (List.mem_append.2 (Or.inr hcb)) hcont
    have h1 : ca.txId ∈ a.ids := (ids_iff_cores a _).2 ⟨ca, hca, rfl⟩
    have h2 : ca.txId ∈ b.ids := (ids_iff_cores b _).2 ⟨cb, hcb, hidEq.symm⟩
    exact at_most_once_by_id hr tree adm hpar hT hbexp hid hacc ha _ h1 h2
  · have hnd : b.ids.Nodup := by
      unfold verifyTxs at hacc
      by_cases h : b.ids.Nodup
      · exact h
      · simp [h] at hacc
    rw [ids_eq_map] at hnd
    apply nodup_map_of_inj (·.txId) (·.content) b.cores hnd
    intro x hx y hy hxy
    exact hcan x (List.mem_append.2 (Or.inr hx)) y (List.mem_append.2 (Or.inr hy)) hxy

/-! ## refutations of the full statement on the code as it stands -/

section Refutations

/-- a branch G(1) – B(2) – C(3); block times 100000.. ; user tx: content 50, expiration 100900 -/
def gen : Block := ⟨1, 0, 0, 100000, []⟩

def guardAfter (blocks : List Block) : Option Guard :=
  blocks.foldl (fun og b => og.bind (fun g => match g.saveBlock b with | .ok g' => some g' | _ => none))
    (some (newTxGuard 100000))

/-- (a)/(b) the same signed content under a second encoding.  On the real code the second encoding is
    (a) the malleated signature `(r, n−s, v⊕1)` — same signer recovered — or (b) the original signature
    followed by a surplus foreign signature (a plain account's check looks at `signers[0]` only).
    Either way `Transaction.Hash()` differs, so the model sees txId 1 vs txId 2 with content 50.
    `verifyTxs` accepts the child block, with or without the duplicate-in-block repair: the content is
    executed twice on one branch. -/
def t1 : Tx := { txId := 1, content := 50, exp := 100900 }
def t1' : Tx := { txId := 2, content := 50, exp := 100900 }
def blkB : Block := ⟨2, 1, 1, 100010, [t1]⟩
def blkC : Block := ⟨3, 2, 2, 100020, [t1']⟩

theorem replay_malleated_signature :
    ∃ g, guardAfter [gen, blkB] = some g ∧ verifyTxs false g blkC = .ok true ∧ verifyTxs true g blkC = .ok true ∧
      execCount [gen, blkB, blkC] 50 = 2 := by
  decide

/-- signatures as the processor sees them: who they recover to and which of the two equivalent
    encodings `(r,s,v)` / `(r,n−s,v⊕1)` is used -/
structure SigEnc where
  signer : Nat
  highS : Bool
  deriving DecidableEq, Repr

/-- `checkSignersWeight` for a plain (non-multisig) account: at least one signature and the FIRST
    recovered signer is the sender — surplus signatures are ignored, either encoding recovers -/
def authorisedPlain (sender : Nat) (sigs : List SigEnc) : Bool :=
  match sigs with
  | [] => false
  | s :: _ => s.signer == sender

/-- (a) the malleated encoding and (b) an appended foreign signature are both authorised for the same
    sender, and both are byte-different from the original signature list (so the full hash differs) -/
theorem replay_surplus_signature :
    let orig := [SigEnc.mk 7 false]
    let malleated := [SigEnc.mk 7 true]
    let surplus := [SigEnc.mk 7 false, SigEnc.mk 99 false]
    authorisedPlain 7 orig = true ∧ authorisedPlain 7 malleated = true ∧ authorisedPlain 7 surplus = true ∧
      orig ≠ malleated ∧ orig ≠ surplus ∧
      -- and the chain-level consequence is the same as in (a)
      (∃ g, guardAfter [gen, blkB] = some g ∧ verifyTxs true g blkC = .ok true ∧ execCount [gen, blkB, blkC] 50 = 2) := by
  decide

/-- (c) the SAME tx twice in ONE block: `verifyTxs` (before the repair) only looks at ancestors.
    The repaired `verifyTxs` rejects the block. -/
def blkDup : Block := ⟨2, 1, 1, 100010, [t1, t1]⟩

theorem replay_duplicate_in_block :
    ∃ g, guardAfter [gen] = some g ∧ verifyTxs false g blkDup = .ok true ∧ execCount [gen, blkDup] 50 = 2 ∧
      verifyTxs true g blkDup = .ok false := by
  decide

/-- (d) standalone and inside a box in the same block (both orders) -/
def box1 : Tx := { txId := 9, content := 90, exp := 100900, subs := [t1.core] }
def blkBoxA : Block := ⟨2, 1, 1, 100010, [t1, box1]⟩
def blkBoxB : Block := ⟨2, 1, 1, 100010, [box1, t1]⟩

theorem replay_box_and_standalone_in_block :
    ∃ g, guardAfter [gen] = some g ∧
      verifyTxs false g blkBoxA = .ok true ∧ execCount [gen, blkBoxA] 50 = 2 ∧
      verifyTxs false g blkBoxB = .ok true ∧ execCount [gen, blkBoxB] 50 = 2 ∧
      verifyTxs true g blkBoxA = .ok false ∧ verifyTxs true g blkBoxB = .ok false := by
  decide

/-- (e) `saveNewBlock` puts the txs of a side-branch block into the pool even when they are already on
    the current branch; `MineBlock` takes `GetTxs` (only the expiry filter) and never asks the guard:
    current branch G–B(t1); side block S(t1) on G arrives ⇒ pool = [t1]; the block the honest miner
    builds on B contains t1 again and is rejected by every validator's `verifyTxs` (its own included,
    had it asked) — while the miner itself stores it without verification (replay on its own chain). -/
def blkS : Block := ⟨4, 1, 1, 100012, [t1]⟩

theorem miner_builds_block_its_validator_rejects :
    let pool := blkS.txs            -- dp.txPool.AddTxs(block.Txs) for the side-branch block
    let mined : Block := ⟨5, 2, 2, 100030, minerPick pool 100030⟩
    ∃ g, guardAfter [gen, blkB, blkS] = some g ∧ mined.txs = [t1] ∧
      verifyTxs false g mined = .ok false ∧ execCount [gen, blkB, mined] 50 = 2 := by
  decide

end Refutations

/-! ## non-vacuity -/

/-- the hypotheses of the main theorems are satisfiable: a reachable guard after two saves and a prune,
    a well-formed tree, admissible blocks, and an accepted third block -/
example :
    let a : Tx := { txId := 1, content := 50, exp := 100900 }
    let c : Tx := { txId := 3, content := 51, exp := 100950 }
    let b1 : Block := ⟨1, 0, 0, 100000, []⟩
    let b2 : Block := ⟨2, 1, 1, 100010, [a]⟩
    let b3 : Block := ⟨3, 2, 2, 100020, [c]⟩
    ∃ g3, (do
        let g1 ← (match (newTxGuard 100000).saveBlock b1 with | .ok g => some g | _ => none)
        let g2 ← (match g1.saveBlock b2 with | .ok g => some g | _ => none)
        match g2.delOldBlocks 100010 with | .ok g => some g | _ => none) = some g3 ∧
      b2 ∈ g3.cache ∧ verifyTxs true g3 b3 = .ok true ∧
      b2.txs.all (fun tx => tx.validAt b2.time) = true := by
  decide

end LemoProofs.C04

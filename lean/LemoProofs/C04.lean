/-
  C04 — replay protection: a signed transaction takes effect at most once per chain branch.

  Model: LemoModel/TxGuard.lean (TxGuard, verifyTxs, initTxPool as coded; bucket index and the
  VerifyTxBody comparisons GENERATED from the Go source).

  What is PROVED (all op sequences, all times): the replay key is the TX HASH, and by tx hash the
  protection is exact (`at_most_once_by_id`, `guard_exact_for_valid_blocks`, `accepted_inside_window`,
  `window_safe`, `restart_equiv_initTxPool`).

  FULL STATEMENT (`at_most_once_by_content`): on any single branch accepted by `verifyTxs` every
  signed CONTENT (what a user's signature covers) is executed at most once — across blocks, inside one
  block, standalone or as a box sub-tx, under any re-encoding.  It is FALSE for the code, for ONE
  root cause: the tx hash covers more than any signature covers (the signature LISTS themselves and,
  for a reimbursement tx, the gas terms from the sender's point of view), while authorisation
  (`checkSignersWeight`) accepts many lists.  Re-encodings that need NO key of the victim:
    * surplus foreign signature on a plain account's tx        (`reencode_surplus`, OPEN)
    * gas payer re-wraps the same sender signature at another gas price / limit
                                                               (`reencode_payer_rewrap`, OPEN)
    * multisig list re-ordered / with a repeated entry / with a foreign entry / with a dispensable
      signature dropped                                        (`reencode_multisig`, OPEN)
    * the high-s twin `(r, n−s, v⊕1)`    (`reencode_malleated`: closed by fix 04be1c5 in recoverSigners,
      i.e. OUTSIDE verifyTxs — the guard model is unchanged by that fix)
  Chain-level consequence of any of them: `replay_reencoded`, `replay_payer_rewrap`.
  Inside one block (closed by fix 828f704, `fixed = true`): `replay_duplicate_in_block`,
  `replay_box_and_standalone_in_block`.  Miner side: `miner_builds_block_its_validator_rejects`
  (pool content before fix 40527b6), `miner_packs_too_far_tx` (candidates before fix 2e18e3d); positive:
  `miner_block_passes_verify`.
  `at_most_once_by_content_partial` holds under `Canonical` — see there for what that REALLY requires.
-/
import LemoProofs.Lemmas.TxGuardRestart
namespace LemoProofs.C04
open LemoModel LemoModel.TxGuard LemoGen.TxWindow LemoProofs.TxGuardLemmas

/-- every saved block passed `VerifyTxBody` at its own time (saveNewBlock runs after verifyTxs;
    the miner's `GetTxs` drops timed-out txs), and expirations are uint64 -/
def Admissible (U : List Block) : Prop :=
  ∀ b ∈ U, ∀ tx ∈ b.txs, tx.validAt b.time = true ∧ ∀ c ∈ tx.cores, c.exp < 2 ^ 64

/-- tx hashes are collision free: equal `txId` ⇒ same transaction (same expiration, same content) -/
def IdFun (cs : List Core) : Prop := ∀ c1 ∈ cs, ∀ c2 ∈ cs, c1.txId = c2.txId → c1 = c2

theorem validAt_core {tx : Tx} {t : Nat} (hv : tx.validAt t = true) {c : Core} (hc : c ∈ tx.cores) :
    windowOk t c.exp = true := by
  unfold Tx.validAt at hv
  rw [Bool.and_eq_true] at hv
  rcases List.mem_cons.1 hc with h | h
  · rw [h]; exact hv.1
  · have := List.all_eq_true.1 hv.2 c h
    rw [Bool.and_eq_true] at this
    exact this.2

theorem adm_core {U : List Block} (adm : Admissible U) {b : Block} (hb : b ∈ U) {c : Core} (hc : c ∈ b.cores) :
    b.time ≤ c.exp ∧ c.exp ≤ b.time + 1800 := by
  unfold Block.cores at hc
  obtain ⟨tx, htx, hctx⟩ := List.mem_flatMap.1 hc
  obtain ⟨hv, he⟩ := adm b hb tx htx
  exact (windowOk_iff (he c hctx)).1 (validAt_core hv hctx)

/-! ## window_safe -/

/-- a block leaves the cache at `DelOldBlocks(T)` only if its bucket is before the bucket of `T-1800` -/
theorem dropped_old {g g' : Guard} {U : List Block} {K : List Nat} {T0 T : Nat} (hr : Reach g U K T0)
    (hd : g.delOldBlocks T = .ok g') {b : Block} (hb : b ∈ g.cache) (hdrop : b ∉ g'.cache) :
    1800 ≤ T ∧ b.time / 60 < (T - 1800) / 60 := by
  have inv := reach_inv hr
  have inv' := inv_del inv hd
  obtain ⟨hT, hg'⟩ := delOldBlocks_eq hd
  refine ⟨hT, ?_⟩
  by_cases hmove : g.tb.timeBase / 60 < (T - 1800) / 60
  · have e1 := (expire_move hmove).1
    have htb : g'.tb = (g.tb.expire (T - 1800)).2 := by rw [hg', drop_tb]
    have hbU := ((inv.cacheIff b).1 hb).1
    apply Nat.lt_of_not_le
    intro hle
    apply hdrop
    apply (inv'.cacheIff b).2
    exact ⟨hbU, by rw [htb, e1]; exact hle⟩
  · have hno := expire_noop (Nat.le_of_not_lt hmove)
    rw [hno] at hg'
    have : g' = g := by rw [hg']; rfl
    rw [this] at hdrop
    exact absurd hb hdrop

/-- **window_safe** (all times): if a block is dropped from the guard when the stable block of time `T`
    arrives, then every transaction (and box sub-tx) it validly contained is EXPIRED (`ErrTxExpired`
    in VerifyTxBody) at every block time `tn ≥ T`, i.e. in every descendant of the stable block.
    Forgetting the block — and, with `DelTrace`, the whole trace entry of its txs — is harmless. -/
theorem window_safe {g g' : Guard} {U : List Block} {K : List Nat} {T0 T : Nat} (hr : Reach g U K T0)
    (hd : g.delOldBlocks T = .ok g') {b : Block} (hb : b ∈ g.cache) (hdrop : b ∉ g'.cache)
    {tx : Tx} (_htx : tx ∈ b.txs) (hvalid : tx.validAt b.time = true) {c : Core} (hc : c ∈ tx.cores)
    (hexp : c.exp < 2 ^ 64) {tn : Nat} (htn : T ≤ tn) : txExpiredCond tn c.exp = true := by
  obtain ⟨hT, hold⟩ := dropped_old hr hd hb hdrop
  have hw := (windowOk_iff hexp).1 (validAt_core hvalid hc)
  unfold txExpiredCond
  simp only [decide_eq_true_eq]
  omega

/-- the pure arithmetic behind it, on the generated definitions -/
theorem window_safe_arith {tb exp T tn base : Nat} (he : exp < 2 ^ 64) (hvalid : windowOk tb exp = true)
    (hdrop : getBucketIndex tb base < getBucketIndex (T - lifeTime) base) (hT : lifeTime ≤ T) (htn : T ≤ tn) :
    txExpiredCond tn exp = true := window_arith he hvalid hdrop hT htn

/-- "still in the window": the cache holds exactly the saved blocks whose 60-s bucket is not before the
    base bucket, and the base is at most 30 min before the latest stable time -/
theorem cache_is_window {g : Guard} {U : List Block} {K : List Nat} {T : Nat} (hr : Reach g U K T) (b : Block) :
    (b ∈ g.cache ↔ b ∈ U ∧ g.tb.timeBase / 60 ≤ b.time / 60) ∧ g.tb.timeBase ≤ T - 1800 :=
  ⟨(reach_inv hr).cacheIff b, (reach_inv hr).baseT⟩

/-! ## guard_refines_ancestors -/

/-- **guard_refines_ancestors**: in every reachable guard state (any sequence of SaveBlock /
    DelOldBlocks / restarts), for a start block held by the guard and txs none of whose hashes was in a
    dropped block, `ExistTxs` never panics and answers true exactly when some ancestor-or-self of the
    start block that is still in the window contains one of the tx / sub-tx hashes.
    (`SliceOnFork`'s clipping to the traces' height range and its early exits lose nothing.) -/
theorem guard_refines_ancestors {g : Guard} {U : List Block} {K : List Nat} {T : Nat} (hr : Reach g U K T)
    (tree : TreeOK U) {pb : Block} (hpb : pb ∈ g.cache) (txs : List Tx) (hlive : ∀ id ∈ idsOf txs, id ∉ K) :
    ∃ r, g.existTxs pb.hash txs = .ok r ∧
      (r = true ↔ ∃ a, Anc U pb.hash a ∧ a ∈ g.cache ∧ ∃ id ∈ idsOf txs, id ∈ a.ids) := by
  have inv := reach_inv hr
  obtain ⟨r, hr1, hs, hc⟩ := exist_spec inv tree hpb txs
  refine ⟨r, hr1, ?_, ?_⟩
  · intro h
    obtain ⟨a, hca, id, hid, hida⟩ := hs h
    exact ⟨a, canc_to_anc inv hca hpb, canc_mem hca hpb, id, hid, hida⟩
  · rintro ⟨a, hanc, hac, id, hid, hida⟩
    exact hc ⟨a, anc_to_canc inv tree hanc hac pb hpb rfl, id, hid, hida, hlive id hid⟩

/-- soundness needs no hypothesis on the txs: a `true` always points at a cached ancestor -/
theorem guard_sound {g : Guard} {U : List Block} {K : List Nat} {T : Nat} (hr : Reach g U K T)
    (tree : TreeOK U) {pb : Block} (hpb : pb ∈ g.cache) (txs : List Tx)
    (h : g.existTxs pb.hash txs = .ok true) :
    ∃ a, Anc U pb.hash a ∧ a ∈ g.cache ∧ ∃ id ∈ idsOf txs, id ∈ a.ids := by
  have inv := reach_inv hr
  obtain ⟨r, hr1, hs, _⟩ := exist_spec inv tree hpb txs
  rw [hr1] at h
  cases h
  obtain ⟨a, hca, id, hid, hida⟩ := hs rfl
  exact ⟨a, canc_to_anc inv hca hpb, canc_mem hca hpb, id, hid, hida⟩

/-- The `hlive` hypothesis cannot be dropped: `DelTrace` deletes the WHOLE entry of a tx hash when ONE
    block containing it expires.  Witness: tx 7 sits in block 2 (time 100000) and in block 3 on another
    fork (time 100070, next bucket); the stable time 101865 expires only block 2's bucket; the guard
    then denies that tx 7 is in block 3 although block 3 is still cached.  (Harmless for valid blocks
    by `window_safe`: tx 7 is expired by then — see `guard_exact_for_valid_blocks`.) -/
theorem guard_refines_ancestors_needs_live :
    let tx7 : Tx := { txId := 7, content := 7, exp := 100100 }
    let b1 : Block := ⟨1, 0, 0, 100000, []⟩
    let b2 : Block := ⟨2, 1, 1, 100000, [tx7]⟩
    let b3 : Block := ⟨3, 1, 1, 100070, [tx7]⟩
    ∃ g, (do
        let g1 ← (match (newTxGuard 100000).saveBlock b1 with | .ok g => some g | _ => none)
        let g2 ← (match g1.saveBlock b2 with | .ok g => some g | _ => none)
        let g3 ← (match g2.saveBlock b3 with | .ok g => some g | _ => none)
        match g3.delOldBlocks 101865 with | .ok g => some g | _ => none) = some g ∧
      b3 ∈ g.cache ∧ b2 ∉ g.cache ∧ g.existTxs 3 [tx7] = .ok false := by
  decide

/-! ## the guard is exact for every block that can be valid -/

/-- For a new block `b` on a cached parent, not older than the latest stable time, whose txs all pass
    VerifyTxBody's window at `b.time`: `ExistTxs` is true iff ANY ancestor at all (cached or long
    forgotten) contains one of its tx / sub-tx hashes. -/
theorem guard_exact_for_valid_blocks {g : Guard} {U : List Block} {K : List Nat} {T : Nat}
    (hr : Reach g U K T) (tree : TreeOK U) (adm : Admissible U) {b : Block}
    (hpar : ∃ pb ∈ g.cache, pb.hash = b.parent) (hT : T ≤ b.time)
    (hvalid : ∀ tx ∈ b.txs, tx.validAt b.time = true) (hbexp : ∀ c ∈ b.cores, c.exp < 2 ^ 64)
    (hid : IdFun (U.flatMap Block.cores ++ b.cores)) :
    ∃ r, g.existTxs b.parent b.txs = .ok r ∧
      (r = true ↔ ∃ a, Anc U b.parent a ∧ ∃ id ∈ a.ids, id ∈ b.ids) := by
  have inv := reach_inv hr
  obtain ⟨pb, hpb, hpbh⟩ := hpar
  obtain ⟨r, hr1, hs, hc⟩ := exist_spec inv tree hpb b.txs
  rw [hpbh] at hr1
  -- a core of b is inside b's window
  have hbcore : ∀ c ∈ b.cores, b.time ≤ c.exp := by
    intro c hc
    unfold Block.cores at hc
    obtain ⟨tx, htx, hctx⟩ := List.mem_flatMap.1 hc
    have hc' : c ∈ b.cores := List.mem_flatMap.2 ⟨tx, htx, hctx⟩
    exact ((windowOk_iff (hbexp c hc')).1 (validAt_core (hvalid tx htx) hctx)).1
  -- equal ids in a saved block and in b: same core
  have hsame : ∀ x ∈ U, ∀ cx ∈ x.cores, ∀ cb ∈ b.cores, cx.txId = cb.txId → cx = cb := by
    intro x hx cx hcx cb hcb he
    exact hid cx (List.mem_append.2 (Or.inl (List.mem_flatMap.2 ⟨x, hx, hcx⟩))) cb
      (List.mem_append.2 (Or.inr hcb)) he
  refine ⟨r, hr1, ?_, ?_⟩
  · intro h
    obtain ⟨a, hca, id, hidb, hida⟩ := hs h
    have := canc_to_anc inv hca hpb
    rw [hpbh] at this
    exact ⟨a, this, id, hida, hidb⟩
  · rintro ⟨a, hanc, id, hida, hidb⟩
    have haU := anc_mem hanc
    obtain ⟨ca, hca, hcaid⟩ := (ids_iff_cores a id).1 hida
    obtain ⟨cb, hcb, hcbid⟩ := (ids_iff_cores b id).1 hidb
    have hcc : ca = cb := hsame a haU ca hca cb hcb (by rw [hcaid, hcbid])
    have hwa := adm_core adm haU hca
    have hwb := hbcore cb hcb
    rw [hcc] at hwa
    have hbase := inv.baseT
    -- a is still cached
    have hac : a ∈ g.cache := (inv.cacheIff a).2 ⟨haU, by omega⟩
    -- id was never killed
    have hk : id ∉ K := by
      intro hk
      obtain ⟨x, hxU, hxid, hxt⟩ := inv.killed id hk
      obtain ⟨cx, hcx, hcxid⟩ := (ids_iff_cores x id).1 hxid
      have hcxb : cx = cb := hsame x hxU cx hcx cb hcb (by rw [hcxid, hcbid])
      have hwx := adm_core adm hxU hcx
      rw [hcxb] at hwx
      omega
    apply hc
    refine ⟨a, anc_to_canc inv tree hanc hac pb hpb hpbh, id, hidb, hida, hk⟩

/-! ## at_most_once_by_id -/

/-- **at_most_once_by_id**: on one branch, a block accepted by `verifyTxs` shares no tx hash (own or
    box sub-tx) with ANY of its ancestors — a given `txId` is executed at most once across the blocks
    of a branch, for all histories of saves, prunes and restarts and all times. -/
theorem at_most_once_by_id {fixed : Bool} {g : Guard} {U : List Block} {K : List Nat} {T : Nat}
    (hr : Reach g U K T) (tree : TreeOK U) (adm : Admissible U) {b : Block}
    (hpar : ∃ pb ∈ g.cache, pb.hash = b.parent) (hT : T ≤ b.time)
    (hbexp : ∀ c ∈ b.cores, c.exp < 2 ^ 64) (hid : IdFun (U.flatMap Block.cores ++ b.cores))
    (hacc : verifyTxs fixed g b = .ok true) {a : Block} (ha : Anc U b.parent a) :
    ∀ id ∈ a.ids, id ∉ b.ids := by
  intro id hida hidb
  unfold verifyTxs at hacc
  split at hacc
  · cases hacc
  · cases hex : g.existTxs b.parent b.txs with
    | ok r =>
      rw [hex] at hacc
      cases r with
      | true => cases hacc
      | false =>
        simp only at hacc
        have hvalid : ∀ tx ∈ b.txs, tx.validAt b.time = true := by
          have : (b.txs.all fun tx => tx.validAt b.time) = true := by
            cases hall : (b.txs.all fun tx => tx.validAt b.time) with
            | true => rfl
            | false => rw [hall] at hacc; cases hacc
          exact List.all_eq_true.1 this
        obtain ⟨r, hr1, hiff⟩ := guard_exact_for_valid_blocks hr tree adm hpar hT hvalid hbexp hid
        rw [hex] at hr1
        cases hr1
        have := hiff.2 ⟨a, ha, id, hida, hidb⟩
        cases this
    | panic => rw [hex] at hacc; cases hacc
    | hang => rw [hex] at hacc; cases hacc

/-- an accepted block lies inside the window of each of its txs (never executed outside the window) -/
theorem accepted_inside_window {fixed : Bool} {g : Guard} {b : Block} (hacc : verifyTxs fixed g b = .ok true)
    {tx : Tx} (htx : tx ∈ b.txs) {c : Core} (hc : c ∈ tx.cores) (hexp : c.exp < 2 ^ 64) :
    b.time ≤ c.exp ∧ c.exp ≤ b.time + 1800 := by
  unfold verifyTxs at hacc
  split at hacc
  · cases hacc
  · split at hacc
    · cases hacc
    · cases hall : (b.txs.all fun tx => tx.validAt b.time) with
      | true => exact (windowOk_iff hexp).1 (validAt_core (List.all_eq_true.1 hall tx htx) hc)
      | false => rw [hall] at hacc; cases hacc
    · cases hacc
    · cases hacc

/-! ## restart_equiv -/

/-- **restart_equiv**: let `gC` be the guard of a node that kept running and `gR` a guard rebuilt after
    a restart (`NewTxGuard` + the `SaveBlock`s of `initTxPool`, possibly followed by more saves/prunes):
    both reachable, both hold the new block's parent, both with stable time `≤ b.time`.  If the two
    histories contain the same ancestors of the new block among those younger than `b.time - 1800`
    (initTxPool reloads exactly the stable blocks with `stableTime - time ≤ 1800`), then `verifyTxs`
    gives the same verdict for the new block on both nodes. -/
theorem restart_equiv {fixed : Bool} {gC gR : Guard} {UC UR : List Block} {KC KR : List Nat} {TC TR : Nat}
    (hC : Reach gC UC KC TC) (hR : Reach gR UR KR TR) (treeC : TreeOK UC) (treeR : TreeOK UR)
    (admC : Admissible UC) (admR : Admissible UR) {b : Block}
    (hparC : ∃ pb ∈ gC.cache, pb.hash = b.parent) (hparR : ∃ pb ∈ gR.cache, pb.hash = b.parent)
    (hTC : TC ≤ b.time) (hTR : TR ≤ b.time) (hbexp : ∀ c ∈ b.cores, c.exp < 2 ^ 64)
    (hidC : IdFun (UC.flatMap Block.cores ++ b.cores)) (hidR : IdFun (UR.flatMap Block.cores ++ b.cores))
    (hagree : ∀ a, b.time ≤ a.time + 1800 → (Anc UC b.parent a ↔ Anc UR b.parent a)) :
    verifyTxs fixed gC b = verifyTxs fixed gR b := by
  unfold verifyTxs
  split
  · rfl
  · by_cases hvalid : ∀ tx ∈ b.txs, tx.validAt b.time = true
    · obtain ⟨rC, hrC, hiffC⟩ := guard_exact_for_valid_blocks hC treeC admC hparC hTC hvalid hbexp hidC
      obtain ⟨rR, hrR, hiffR⟩ := guard_exact_for_valid_blocks hR treeR admR hparR hTR hvalid hbexp hidR
      rw [hrC, hrR]
      have hbcore : ∀ c ∈ b.cores, b.time ≤ c.exp := by
        intro c hc
        unfold Block.cores at hc
        obtain ⟨tx, htx, hctx⟩ := List.mem_flatMap.1 hc
        have hc' : c ∈ b.cores := List.mem_flatMap.2 ⟨tx, htx, hctx⟩
        exact ((windowOk_iff (hbexp c hc')).1 (validAt_core (hvalid tx htx) hctx)).1
      -- an ancestor sharing an id with b is younger than b.time - 1800
      have hyoung : ∀ (U : List Block), Admissible U → IdFun (U.flatMap Block.cores ++ b.cores) →
          ∀ a ∈ U, ∀ id ∈ a.ids, id ∈ b.ids → b.time ≤ a.time + 1800 := by
        intro U adm hid a haU id hida hidb
        obtain ⟨ca, hca, hcaid⟩ := (ids_iff_cores a id).1 hida
        obtain ⟨cb, hcb, hcbid⟩ := (ids_iff_cores b id).1 hidb
        have hcc : ca = cb := hid ca (List.mem_append.2 (Or.inl (List.mem_flatMap.2 ⟨a, haU, hca⟩))) cb
          (List.mem_append.2 (Or.inr hcb)) (by rw [hcaid, hcbid])
        have hwa := adm_core adm haU hca
        have hwb := hbcore cb hcb
        rw [hcc] at hwa
        omega
      have : rC = rR := by
        have h1 : rC = true ↔ rR = true := by
          rw [hiffC, hiffR]
          constructor
          · rintro ⟨a, hanc, id, hida, hidb⟩
            exact ⟨a, (hagree a (hyoung UC admC hidC a (anc_mem hanc) id hida hidb)).1 hanc, id, hida, hidb⟩
          · rintro ⟨a, hanc, id, hida, hidb⟩
            exact ⟨a, (hagree a (hyoung UR admR hidR a (anc_mem hanc) id hida hidb)).2 hanc, id, hida, hidb⟩
        cases rC <;> cases rR <;> simp_all
      rw [this]
    · -- some tx is outside its window: both reject (or both fail the same way)
      have hall : (b.txs.all fun tx => tx.validAt b.time) = false := by
        cases h : (b.txs.all fun tx => tx.validAt b.time) with
        | false => rfl
        | true => exact absurd (List.all_eq_true.1 h) hvalid
      have inv1 := reach_inv hC
      have inv2 := reach_inv hR
      obtain ⟨pbC, hpbC, hpbhC⟩ := hparC
      obtain ⟨pbR, hpbR, hpbhR⟩ := hparR
      obtain ⟨rC, hrC, _, _⟩ := exist_spec inv1 treeC hpbC b.txs
      obtain ⟨rR, hrR, _, _⟩ := exist_spec inv2 treeR hpbR b.txs
      rw [hpbhC] at hrC
      rw [hpbhR] at hrR
      rw [hrC, hrR, hall]
      cases rC <;> cases rR <;> rfl

/-- the rebuilt guard IS a reachable guard: `initTxPool` = `NewTxGuard(stable.time)` + `SaveBlock`s of
    the blocks `GetBlockByHeight` returns while `stableTime - time ≤ 1800` (uint32 subtraction) -/
theorem initLoop_reach (byHeight : Nat → Option Block) (stableTime : Nat)
    (hfun : ∀ h1 h2 b1 b2, byHeight h1 = some b1 → byHeight h2 = some b2 → b1.hash = b2.hash → b1 = b2) :
    ∀ (fuel height : Nat) (iter : Block) (g : Guard) (U : List Block) (T : Nat) (g' : Guard),
      Reach g U [] T → byHeight height = some iter → (∀ x ∈ U, ∃ h, byHeight h = some x) →
      initLoop byHeight stableTime fuel height iter g = .ok g' →
      ∃ U', Reach g' U' [] T ∧ (∀ x ∈ U', ∃ h, byHeight h = some x) := by
  intro fuel
  induction fuel with
  | zero => intro height iter g U T g' _ _ _ h; cases h
  | succ fuel ih =>
    intro height iter g U T g' hr hit hU h
    unfold initLoop at h
    split at h
    · cases hs : g.saveBlock iter with
      | ok g1 =>
        rw [hs] at h
        simp only at h
        have hr1 : Reach g1 (iter :: U) [] T := by
          refine Reach.save iter hr ?_ hs
          intro a ha he
          obtain ⟨ha', hha'⟩ := hU a ha
          exact hfun _ _ _ _ hha' hit he
        have hU1 : ∀ x ∈ iter :: U, ∃ h, byHeight h = some x := by
          intro x hx
          rcases List.mem_cons.1 hx with h1 | h1
          · exact ⟨height, by rw [h1]; exact hit⟩
          · exact hU x h1
        split at h
        · cases h; exact ⟨_, hr1, hU1⟩
        · cases hn : byHeight (height - 1) with
          | none => rw [hn] at h; cases h
          | some it =>
            rw [hn] at h
            exact ih (height - 1) it g1 (iter :: U) T g' hr1 hn hU1 h
      | panic => rw [hs] at h; cases h
      | hang => rw [hs] at h; cases h
    · cases h; exact ⟨U, hr, hU⟩

/-- so the guard after a restart is a reachable guard with nothing killed and stable time `stable.time`:
    `restart_equiv`, `guard_refines_ancestors`, `at_most_once_by_id` apply to it and to everything that
    follows it -/
theorem initTxPool_reach (byHeight : Nat → Option Block) (stable : Block)
    (hfun : ∀ h1 h2 b1 b2, byHeight h1 = some b1 → byHeight h2 = some b2 → b1.hash = b2.hash → b1 = b2)
    (hst : byHeight stable.height = some stable) {g : Guard} (h : initTxPool byHeight stable = .ok g) :
    ∃ U, Reach g U [] stable.time ∧ ∀ x ∈ U, ∃ h, byHeight h = some x :=
  initLoop_reach byHeight stable.time hfun _ _ _ _ [] _ _ (Reach.init _) hst (fun x hx => by cases hx) h

theorem TreeOK_sub {U V : List Block} (h : TreeOK V) (hs : ∀ x ∈ U, x ∈ V) : TreeOK U :=
  ⟨fun b hb => h.parentLt b (hs b hb), fun b hb p hp => h.height b (hs b hb) p (hs p hp),
   fun b hb p hp => h.time b (hs b hb) p (hs p hp)⟩

/-- **what initTxPool loads**: on the stable chain `stable :: l` (parent-linked down to genesis, times
    monotone, uint32) the rebuilt guard is reachable with `U` = EXACTLY the chain blocks with
    `stable.time ≤ time + 1800` — the model's loop test `stableTime - iter.Time() <= MaxTxLifeTime`.
    (With `<` instead of `<=`, or a shorter window, this statement is false.) -/
theorem initTxPool_loads (byHeight : Nat → Option Block) (stable : Block) (l : List Block)
    (hch : ChainOK (stable :: l)) (hby : ∀ y ∈ stable :: l, byHeight y.height = some y)
    (hfun : ∀ h1 h2 b1 b2, byHeight h1 = some b1 → byHeight h2 = some b2 → b1.hash = b2.hash → b1 = b2)
    (hsT : stable.time < 2 ^ 32) {g : Guard} (h : initTxPool byHeight stable = .ok g) :
    ∃ U, Reach g U [] stable.time ∧ ∀ a, a ∈ U ↔ (a ∈ stable :: l ∧ stable.time ≤ a.time + 1800) := by
  obtain ⟨U, hr, _, hmem⟩ := initLoop_loads byHeight stable.time hsT hfun l stable hch hby (chain_time_le hch)
    (stable.height + 1) (newTxGuard stable.time) [] stable.time g (Reach.init _) (fun x hx => by cases hx) h
  refine ⟨U, hr, fun a => ?_⟩
  rw [hmem]
  constructor
  · rintro (h1 | h1)
    · cases h1
    · exact h1
  · exact Or.inr

/-- `initTxPool` returns on every stable chain that reaches genesis: no `ErrLoadBlock` panic, no hang -/
theorem initTxPool_total (byHeight : Nat → Option Block) (stable : Block) (l : List Block)
    (hch : ChainOK (stable :: l)) (hby : ∀ y ∈ stable :: l, byHeight y.height = some y)
    (hfun : ∀ h1 h2 b1 b2, byHeight h1 = some b1 → byHeight h2 = some b2 → b1.hash = b2.hash → b1 = b2) :
    ∃ g, initTxPool byHeight stable = .ok g :=
  initLoop_total byHeight stable.time hfun l stable hch hby (stable.height + 1) (newTxGuard stable.time) []
    stable.time (Nat.lt_succ_self _) (Reach.init _) (fun x hx => by cases hx)

/-- **restart_equiv_initTxPool**: `restart_equiv` with its crux PROVED for the guard that `initTxPool`
    rebuilds.  A node that kept running (`gC`, any reachable state whose ancestors of the stable block
    are the database's stable chain) and the same node after a restart (`gR = initTxPool …`) give the
    same `verifyTxs` verdict for every new block on top of the stable block. -/
theorem restart_equiv_initTxPool {fixed : Bool} {gC : Guard} {UC : List Block} {KC : List Nat} {TC : Nat}
    (hC : Reach gC UC KC TC) (treeC : TreeOK UC) (admC : Admissible UC)
    (byHeight : Nat → Option Block) (stable : Block) (l : List Block)
    (hch : ChainOK (stable :: l)) (hby : ∀ y ∈ stable :: l, byHeight y.height = some y)
    (hfun : ∀ h1 h2 b1 b2, byHeight h1 = some b1 → byHeight h2 = some b2 → b1.hash = b2.hash → b1 = b2)
    (hsT : stable.time < 2 ^ 32) (treeL : TreeOK (stable :: l)) (admL : Admissible (stable :: l))
    {gR : Guard} (hinit : initTxPool byHeight stable = .ok gR)
    (hchainC : ∀ a, Anc UC stable.hash a ↔ a ∈ stable :: l)
    {b : Block} (hpar : b.parent = stable.hash) (hparC : ∃ pb ∈ gC.cache, pb.hash = b.parent)
    (hTC : TC ≤ b.time) (hTb : stable.time ≤ b.time) (hbexp : ∀ c ∈ b.cores, c.exp < 2 ^ 64)
    (hidC : IdFun (UC.flatMap Block.cores ++ b.cores))
    (hidL : IdFun ((stable :: l).flatMap Block.cores ++ b.cores)) :
    verifyTxs fixed gC b = verifyTxs fixed gR b := by
  obtain ⟨UR, hR, hmem⟩ := initTxPool_loads byHeight stable l hch hby hfun hsT hinit
  have hsub : ∀ x ∈ UR, x ∈ stable :: l := fun x hx => ((hmem x).1 hx).1
  have treeR : TreeOK UR := TreeOK_sub treeL hsub
  have admR : Admissible UR := fun x hx => admL x (hsub x hx)
  have hidR : IdFun (UR.flatMap Block.cores ++ b.cores) := by
    have hin : ∀ c, c ∈ UR.flatMap Block.cores ++ b.cores → c ∈ (stable :: l).flatMap Block.cores ++ b.cores := by
      intro c hc
      rcases List.mem_append.1 hc with h1 | h1
      · obtain ⟨x, hx, hcx⟩ := List.mem_flatMap.1 h1
        exact List.mem_append.2 (Or.inl (List.mem_flatMap.2 ⟨x, hsub x hx, hcx⟩))
      · exact List.mem_append.2 (Or.inr h1)
    exact fun c1 h1 c2 h2 he => hidL c1 (hin c1 h1) c2 (hin c2 h2) he
  have hstR : stable ∈ UR := (hmem stable).2 ⟨List.mem_cons_self .., by omega⟩
  have invR := reach_inv hR
  have hparR : ∃ pb ∈ gR.cache, pb.hash = b.parent := by
    refine ⟨stable, (invR.cacheIff stable).2 ⟨hstR, ?_⟩, hpar.symm⟩
    have := invR.baseT
    have : gR.tb.timeBase ≤ stable.time := by omega
    exact Nat.div_le_div_right this
  refine restart_equiv hC hR treeC treeR admC admR hparC hparR hTC hTb hbexp hidC hidR ?_
  intro a hyoung
  rw [hpar]
  constructor
  · intro hanc
    have hach := (hchainC a).1 hanc
    exact anc_of_chain l stable hch (fun y hy hw => (hmem y).2 ⟨hy, hw⟩) a hach (by omega)
  · intro hanc
    exact (hchainC a).2 (hsub a (anc_mem hanc))

/-! ## queries on the head, and the miner path -/

/-- every saved block that is not older than the latest stable time is still cached, and `ExistTxs`
    started there returns (no panic, no hang): the entry points that ask `ExistTx(currentBlock, tx)`
    (api.go SendTx, protocol_manager.go handleTxsMsg, dpovp.go saveNewBlock) are total, because the
    current block is a saved descendant-or-self of the stable block. -/
theorem head_query_total {g : Guard} {U : List Block} {K : List Nat} {T : Nat} (hr : Reach g U K T)
    (tree : TreeOK U) {hb : Block} (hbU : hb ∈ U) (hT : T ≤ hb.time) (txs : List Tx) :
    hb ∈ g.cache ∧ ∃ r, g.existTxs hb.hash txs = .ok r := by
  have inv := reach_inv hr
  have hc : hb ∈ g.cache := (inv.cacheIff hb).2 ⟨hbU, by
    have := inv.baseT
    have : g.tb.timeBase ≤ hb.time := by omega
    exact Nat.div_le_div_right this⟩
  obtain ⟨r, h, _⟩ := exist_tracer inv tree hc txs
  exact ⟨hc, r, h⟩

/-- `GetTxsByBranch` (called by `onCurrentChanged` on a fork switch) cannot fail when the old and the new
    head are saved blocks with a common ancestor that is still cached — in the engine that ancestor is
    the stable block or younger, and `head_query_total` says it is cached.  The error branch of
    `onCurrentChanged` (pool update skipped) is therefore unreachable from reachable guard states. -/
theorem getTxsByBranch_total {g : Guard} {U : List Block} {K : List Nat} {T : Nat} (hr : Reach g U K T)
    (tree : TreeOK U) {c b1 b2 : Block} (hc : c ∈ g.cache) (h1 : b1 ∈ U) (h2 : b2 ∈ U)
    (han1 : Anc U b1.hash c) (han2 : Anc U b2.hash c) :
    ∃ t1 t2, g.getTxsByBranch b1.hash b1.height b2.hash b2.height = .ok t1 t2 := by
  obtain ⟨r1, r2, h⟩ := branchLoop_total (reach_inv hr) tree hc (b1.height + b2.height + 1) b1 b2 [] [] h1 h2
    han1 han2 (Nat.lt_succ_self _)
  unfold Guard.getTxsByBranch
  rw [h]
  exact ⟨_, _, rfl⟩

/-- `ExistTxs` on a list is the disjunction of `ExistTx` on its elements (the common height range of
    the merged traces changes nothing): what the pool's entry paths check tx by tx is what `verifyTxs`
    checks on the whole block -/
theorem existTxs_any {g : Guard} {U : List Block} {K : List Nat} {T : Nat} (hr : Reach g U K T)
    (tree : TreeOK U) {pb : Block} (hpb : pb ∈ g.cache) (txs : List Tx) :
    ∃ r, g.existTxs pb.hash txs = .ok r ∧ (r = true ↔ ∃ tx ∈ txs, g.existTxs pb.hash [tx] = .ok true) := by
  have inv := reach_inv hr
  obtain ⟨r, h, hiff⟩ := exist_tracer inv tree hpb txs
  refine ⟨r, h, ?_⟩
  rw [hiff]
  constructor
  · rintro ⟨a, hca, id, hid, hp⟩
    obtain ⟨tx, htx, hidtx⟩ := List.mem_flatMap.1 hid
    refine ⟨tx, htx, ?_⟩
    obtain ⟨r1, h1, hiff1⟩ := exist_tracer inv tree hpb [tx]
    have : r1 = true := hiff1.2 ⟨a, hca, id, by simpa [idsOf] using hidtx, hp⟩
    rw [h1, this]
  · rintro ⟨tx, htx, h1⟩
    obtain ⟨r1, h1', hiff1⟩ := exist_tracer inv tree hpb [tx]
    rw [h1'] at h1
    cases h1
    obtain ⟨a, hca, id, hid, hp⟩ := hiff1.1 rfl
    exact ⟨a, hca, id, List.mem_flatMap.2 ⟨tx, htx, by simpa [idsOf] using hid⟩, hp⟩

theorem idsOf_filter_sublist (p : Tx → Bool) (pool : List Tx) : (idsOf (pool.filter p)).Sublist (idsOf pool) := by
  unfold idsOf
  induction pool with
  | nil => exact List.Sublist.refl _
  | cons tx rest ih =>
    rw [List.filter_cons]
    split
    · simp only [List.flatMap_cons]
      exact List.Sublist.append (List.Sublist.refl _) ih
    · simp only [List.flatMap_cons]
      exact List.Sublist.trans ih (List.sublist_append_right _ _)

/-- **miner_block_passes_verify** (positive theorem for the miner path): if, when the node mines on its
    head `pb`, (1) no pooled tx is on the head's branch — what ALL entry paths of the pool ask the guard,
    tx by tx (since fix 40527b6 also the side-branch path) — and (2) the pool holds no tx / sub-tx hash
    twice (`isTxExist`), then the block that `MineBlock` assembles (since fix 2e18e3d: `GetTxs(time)`
    filtered by `VerifyTxBody` at the block time) and stores WITHOUT running `verifyTxs` would pass it.
    (1) at mining time — rather than at entry time — is the pool's bookkeeping on head changes
    (`onCurrentChanged`: property C18 and the engine scenarios), not proved here. -/
theorem miner_block_passes_verify {fixed : Bool} {g : Guard} {U : List Block} {K : List Nat} {T : Nat}
    (hr : Reach g U K T) (tree : TreeOK U) {pb : Block} (hpb : pb ∈ g.cache) (pool : List Tx)
    (hash height time : Nat)
    (hclean : ∀ tx ∈ pool, g.existTxs pb.hash [tx] = .ok false)
    (hnodup : (idsOf pool).Nodup) :
    verifyTxs fixed g ⟨hash, pb.hash, height, time, minePack pool time⟩ = .ok true := by
  have hpick : ∀ tx, tx ∈ minePack pool time → tx ∈ pool ∧ tx.validAt time = true := by
    intro tx htx
    unfold minePack minerPick at htx
    rw [List.mem_filter, List.mem_filter] at htx
    exact ⟨htx.1.1, htx.2⟩
  unfold verifyTxs
  have hnd : (Block.ids ⟨hash, pb.hash, height, time, minePack pool time⟩).Nodup :=
    List.Nodup.sublist (List.Sublist.trans (idsOf_filter_sublist _ _) (idsOf_filter_sublist _ pool)) hnodup
  rw [if_neg (by simp [hnd])]
  obtain ⟨r, hrr, hiff⟩ := existTxs_any hr tree hpb (minePack pool time)
  show (match g.existTxs pb.hash (minePack pool time) with
    | .ok true => Out.ok false
    | .ok false => Out.ok ((minePack pool time).all fun tx => tx.validAt time)
    | .panic => Out.panic
    | .hang => Out.hang) = Out.ok true
  rw [hrr]
  have hrf : r = false := by
    cases r with
    | false => rfl
    | true =>
      obtain ⟨tx, htx, h1⟩ := hiff.1 rfl
      rw [hclean tx (hpick tx htx).1] at h1
      cases h1
  rw [hrf]
  simp only
  congr 1
  exact List.all_eq_true.2 (fun tx htx => (hpick tx htx).2)

/-! ## at_most_once_by_content: partial theorem -/

theorem nodup_map_of_inj {α β γ : Type} (f : α → β) (k : α → γ) :
    ∀ (l : List α), (l.map f).Nodup → (∀ x ∈ l, ∀ y ∈ l, k x = k y → f x = f y) → (l.map k).Nodup := by
  intro l
  induction l with
  | nil => intro _ _; exact List.nodup_nil
  | cons x rest ih =>
    intro hnd hinj
    rw [List.map_cons, List.nodup_cons] at hnd ⊢
    refine ⟨?_, ih hnd.2 (fun a ha c hc => hinj a (List.mem_cons_of_mem _ ha) c (List.mem_cons_of_mem _ hc))⟩
    intro hm
    obtain ⟨y, hy, hky⟩ := List.mem_map.1 hm
    apply hnd.1
    have := hinj x (List.mem_cons_self ..) y (List.mem_cons_of_mem _ hy) hky.symm
    rw [this]
    exact List.mem_map.2 ⟨y, hy, rfl⟩

theorem ids_eq_map (b : Block) : b.ids = b.cores.map (·.txId) := by
  unfold Block.ids Block.cores
  induction b.txs with
  | nil => rfl
  | cons tx rest ih =>
    simp only [List.flatMap_cons, List.map_append, ih]
    rfl

/-- `Canonical`: the tx hash is a function of the content the SENDER signed.  This is a HYPOTHESIS, and
    the code does not come close to enforcing it.  It requires ALL of:
      * the whole signature list is a function of the signed content: fixed order, no repeated entry,
        no foreign / surplus entry, no dispensable extra signer, low-s (only the last one is enforced,
        since fix 04be1c5), and deterministic signing nonces;
      * the gas terms are covered by the sender's signature — false for every reimbursement tx
        (`ReimbursementTxSigner.Hash` omits GasPrice / GasLimit; the payer chooses them);
    see `canonical_encoding_unique` for the positive form and `reencode_surplus`,
    `reencode_payer_rewrap`, `reencode_multisig` for the ways it fails on the current code. -/
def Canonical (cs : List Core) : Prop := ∀ c1 ∈ cs, ∀ c2 ∈ cs, c1.content = c2.content → c1.txId = c2.txId

/-- **at_most_once_by_content_partial**: WITH the repair (`fixed = true`: no tx hash twice inside a
    block) and under the hypothesis `Canonical` (NOT enforced by the code, see above), an accepted
    block executes no sender-signed content that any ancestor executed, and none twice itself. -/
theorem at_most_once_by_content_partial {g : Guard} {U : List Block} {K : List Nat} {T : Nat}
    (hr : Reach g U K T) (tree : TreeOK U) (adm : Admissible U) {b : Block}
    (hpar : ∃ pb ∈ g.cache, pb.hash = b.parent) (hT : T ≤ b.time)
    (hbexp : ∀ c ∈ b.cores, c.exp < 2 ^ 64) (hid : IdFun (U.flatMap Block.cores ++ b.cores))
    (hcan : Canonical (U.flatMap Block.cores ++ b.cores))
    (hacc : verifyTxs true g b = .ok true) :
    (∀ a, Anc U b.parent a → ∀ ca ∈ a.cores, ∀ cb ∈ b.cores, ca.content ≠ cb.content) ∧
    (b.cores.map (·.content)).Nodup := by
  constructor
  · intro a ha ca hca cb hcb hcont
    have haU := anc_mem ha
    have hidEq : ca.txId = cb.txId :=
      hcan ca (List.mem_append.2 (Or.inl (List.mem_flatMap.2 ⟨a, haU, hca⟩))) cb (List.mem_append.2 (Or.inr hcb)) hcont
    have h1 : ca.txId ∈ a.ids := (ids_iff_cores a _).2 ⟨ca, hca, rfl⟩
    have h2 : ca.txId ∈ b.ids := (ids_iff_cores b _).2 ⟨cb, hcb, hidEq.symm⟩
    exact at_most_once_by_id hr tree adm hpar hT hbexp hid hacc ha _ h1 h2
  · have hnd : b.ids.Nodup := by
      unfold verifyTxs at hacc
      by_cases h : b.ids.Nodup
      · exact h
      · simp [h] at hacc
    rw [ids_eq_map] at hnd
    apply nodup_map_of_inj (·.txId) (·.content) b.cores hnd
    intro x hx y hy hxy
    exact hcan x (List.mem_append.2 (Or.inr hx)) y (List.mem_append.2 (Or.inr hy)) hxy

/-! ## refutations of the full statement on the code as it stands -/

section Refutations

/-- a branch G(1) – B(2) – C(3); block times 100000.. ; user tx: content 50, expiration 100900 -/
def gen : Block := ⟨1, 0, 0, 100000, []⟩

def guardAfter (blocks : List Block) : Option Guard :=
  blocks.foldl (fun og b => og.bind (fun g => match g.saveBlock b with | .ok g' => some g' | _ => none))
    (some (newTxGuard 100000))

/-- CHAIN LEVEL, any re-encoding: the same sender-signed content (50) under a second tx hash
    (txId 1 vs txId 2).  `verifyTxs` accepts the child block, with or without the duplicate-in-block
    repair: the content is executed twice on one branch.  Which second encodings the PROCESSOR then
    authorises is the encoding layer below; the guard model is the same for all of them (in
    particular it is unchanged by fix 04be1c5, which closed the high-s twin inside recoverSigners). -/
def t1 : Tx := { txId := 1, content := 50, exp := 100900 }
def t1' : Tx := { txId := 2, content := 50, exp := 100900 }
def blkB : Block := ⟨2, 1, 1, 100010, [t1]⟩
def blkC : Block := ⟨3, 2, 2, 100020, [t1']⟩

theorem replay_reencoded :
    ∃ g, guardAfter [gen, blkB] = some g ∧ verifyTxs false g blkC = .ok true ∧ verifyTxs true g blkC = .ok true ∧
      execCount [gen, blkB, blkC] 50 = 2 := by
  decide

/-- reimbursement tx: sender content 50 (omits the gas terms), payer content 60 resp. 61 (the payer
    signed gas price 1 gwei, then 1 gwei + 1, over the SAME sender signature).  Each payer content is
    executed once — the payer agreed twice — but the sender's content is executed twice although the
    sender signed once: the payer alone replays the sender. -/
def r1 : Tx := { txId := 11, content := 50, exp := 100900, payer := 60 }
def r1' : Tx := { txId := 12, content := 50, exp := 100900, payer := 61 }
def blkRB : Block := ⟨2, 1, 1, 100010, [r1]⟩
def blkRC : Block := ⟨3, 2, 2, 100020, [r1']⟩

theorem replay_payer_rewrap :
    ∃ g, guardAfter [gen, blkRB] = some g ∧ verifyTxs true g blkRC = .ok true ∧
      execCount [gen, blkRB, blkRC] 50 = 2 ∧
      execCountPayer [gen, blkRB, blkRC] 60 = 1 ∧ execCountPayer [gen, blkRB, blkRC] 61 = 1 := by
  decide

/-! ### the encoding layer: what `checkSignersWeight` authorises vs. what the tx hash covers
    (sender 7 = plain account; account 8 = multisig [A=1:60, B=2:50, C=3:40]; X = 99 foreign) -/

/-- OPEN (c04/replayed/surplus-signature): a foreign signature appended to a plain account's tx:
    authorised (only `signers[0]` is compared), same sender content, different encoding = new hash. -/
theorem reencode_surplus :
    let e : Encoded := { body := 5, gasPrice := 1, gasLimit := 9, sigs := [⟨7, false⟩] }
    let e' : Encoded := { e with sigs := [⟨7, false⟩, ⟨99, false⟩] }
    e.authorised true 7 [] 7 [] = true ∧ e'.authorised true 7 [] 7 [] = true ∧
      e.senderContent = e'.senderContent ∧ e ≠ e' := by
  decide

/-- CLOSED by fix 04be1c5 (outside verifyTxs): the high-s twin `(r, n−s, v⊕1)` of the signature.
    Before the fix it was authorised like the original; since the fix it recovers to nobody. -/
theorem reencode_malleated :
    let e : Encoded := { body := 5, gasPrice := 1, gasLimit := 9, sigs := [⟨7, false⟩] }
    let e' : Encoded := { e with sigs := [⟨7, true⟩] }
    e.senderContent = e'.senderContent ∧ e ≠ e' ∧
      e'.authorised false 7 [] 7 [] = true ∧      -- code before fix 04be1c5
      e'.authorised true 7 [] 7 [] = false ∧      -- live code
      e.authorised true 7 [] 7 [] = true := by
  decide

/-- OPEN (c04/replayed/payer-rewrap): the gas payer (6) wraps the SAME sender signature a second time
    at another gas price (or limit): both authorised, same sender content and same sender signature
    list, different payer content, different encoding = new hash.  Needs the payer's key only. -/
theorem reencode_payer_rewrap :
    let e : Encoded := { body := 5, gasPrice := 1000000000, gasLimit := 100000, sigs := [⟨7, false⟩], payerSigs := [⟨6, false⟩] }
    let e' : Encoded := { e with gasPrice := 1000000001 }
    let e'' : Encoded := { e with gasLimit := 100001 }
    e.authorised true 7 [] 6 [] = true ∧ e'.authorised true 7 [] 6 [] = true ∧ e''.authorised true 7 [] 6 [] = true ∧
      e.senderContent = e'.senderContent ∧ e.senderContent = e''.senderContent ∧ e.sigs = e'.sigs ∧
      e.payerContent ≠ e'.payerContent ∧ e ≠ e' ∧ e ≠ e'' ∧ e' ≠ e'' ∧
      -- an ordinary (not reimbursed) tx does not have the problem: the gas terms are in the sender's content
      ({ e with payerSigs := [] } : Encoded).senderContent ≠ ({ e' with payerSigs := [] } : Encoded).senderContent := by
  decide

/-- OPEN (c04/replayed/multisig-reordered, -duplicated, -foreign-entry, -subset): for a multisig account
    `checkSignersWeight` sums the weights of the distinct registered signers it recovers; the list may
    come in any order, with repeated entries, with foreign entries, and without a dispensable signer.
    None of the first three needs any key of the account; dropping a signature needs none at all. -/
theorem reencode_multisig :
    let acc : List (Nat × Nat) := [(1, 60), (2, 50), (3, 40)]
    let mk : List Nat → Encoded := fun l => { body := 5, gasPrice := 1, gasLimit := 9, sigs := l.map (fun a => ⟨a, false⟩) }
    let all := [mk [1, 2], mk [2, 1], mk [1, 2, 1], mk [1, 1, 2], mk [1, 2, 99], mk [1, 2, 3], mk [1, 3], mk [3, 2, 1]]
    all.all (fun e => e.authorised true 8 acc 8 []) = true ∧
      all.all (fun e => decide (e.senderContent = (mk [1, 2]).senderContent)) = true ∧
      all.Nodup ∧
      -- below the threshold it is refused: a signer's weight counts once (fix 5353fbf)
      (mk [1, 1]).authorised true 8 acc 8 [] = false ∧ (mk [2, 3]).authorised true 8 acc 8 [] = false := by
  decide

/-- the positive form of `Canonical`: if an ordinary (not reimbursed) tx's signature list is a fixed
    function `canon` of the content its sender signed, equal sender contents give equal encodings,
    hence equal tx hashes -/
theorem canonical_encoding_unique (canon : Nat × Option (Nat × Nat) → List SigEnc) (e e' : Encoded)
    (h1 : e.payerSigs = []) (h2 : e'.payerSigs = [])
    (hc1 : e.sigs = canon e.senderContent) (hc2 : e'.sigs = canon e'.senderContent)
    (hs : e.senderContent = e'.senderContent) : e = e' := by
  have hsig : e.sigs = e'.sigs := by rw [hc1, hc2, hs]
  have hr1 : e.reimbursed = false := by unfold Encoded.reimbursed; rw [h1]; rfl
  have hr2 : e'.reimbursed = false := by unfold Encoded.reimbursed; rw [h2]; rfl
  unfold Encoded.senderContent at hs
  rw [hr1, hr2] at hs
  have hb : e.body = e'.body := congrArg Prod.fst hs
  have hg := congrArg Prod.snd hs
  simp only [Bool.false_eq_true, if_false] at hg
  injection hg with hg
  have hp : e.gasPrice = e'.gasPrice := congrArg Prod.fst hg
  have hl : e.gasLimit = e'.gasLimit := congrArg Prod.snd hg
  cases e; cases e'
  simp only at hb hp hl hsig h1 h2
  subst hb hp hl hsig h1 h2
  rfl

/-- (c) the SAME tx twice in ONE block: `verifyTxs` (before the repair) only looks at ancestors.
    The repaired `verifyTxs` rejects the block. -/
def blkDup : Block := ⟨2, 1, 1, 100010, [t1, t1]⟩

theorem replay_duplicate_in_block :
    ∃ g, guardAfter [gen] = some g ∧ verifyTxs false g blkDup = .ok true ∧ execCount [gen, blkDup] 50 = 2 ∧
      verifyTxs true g blkDup = .ok false := by
  decide

/-- (d) standalone and inside a box in the same block (both orders) -/
def box1 : Tx := { txId := 9, content := 90, exp := 100900, subs := [t1.core] }
def blkBoxA : Block := ⟨2, 1, 1, 100010, [t1, box1]⟩
def blkBoxB : Block := ⟨2, 1, 1, 100010, [box1, t1]⟩

theorem replay_box_and_standalone_in_block :
    ∃ g, guardAfter [gen] = some g ∧
      verifyTxs false g blkBoxA = .ok true ∧ execCount [gen, blkBoxA] 50 = 2 ∧
      verifyTxs false g blkBoxB = .ok true ∧ execCount [gen, blkBoxB] 50 = 2 ∧
      verifyTxs true g blkBoxA = .ok false ∧ verifyTxs true g blkBoxB = .ok false := by
  decide

/-- (e) CODE BEFORE fix 40527b6 (the fix changes what enters the pool, not `verifyTxs` / `minerPick`):
    `saveNewBlock` put the txs of a side-branch block into the pool even when they were already on
    the current branch; `MineBlock` takes `GetTxs` (only the expiry filter) and never asks the guard:
    current branch G–B(t1); side block S(t1) on G arrives ⇒ pool = [t1]; the block the honest miner
    builds on B contains t1 again and is rejected by every validator's `verifyTxs` (its own included,
    had it asked) — while the miner itself stores it without verification (replay on its own chain). -/
def blkS : Block := ⟨4, 1, 1, 100012, [t1]⟩

theorem miner_builds_block_its_validator_rejects :
    let pool := blkS.txs            -- dp.txPool.AddTxs(block.Txs) for the side-branch block
    let mined : Block := ⟨5, 2, 2, 100030, minerPick pool 100030⟩
    ∃ g, guardAfter [gen, blkB, blkS] = some g ∧ mined.txs = [t1] ∧
      verifyTxs false g mined = .ok false ∧ execCount [gen, blkB, mined] 50 = 2 := by
  decide

/-- CODE BEFORE fix 2e18e3d (c04/miner-packs-too-far-tx): `GetTxs` filters expired txs only; a pooled tx
    whose expiration is more than 1800 s after the block time was packed, and the block — stored by the
    miner without verifyTxs — is rejected by every validator (ErrTxExpiration).  The pool's entry paths
    check the window against the wall clock AT ENTRY, but a tx taken over from a side-branch block
    stamped 1 s in the future (verifyTime's tolerance) can be mined at a stamp 1 s before that.
    Since the fix `MineBlock` filters the candidates (`minePack`): the tx stays in the pool. -/
theorem miner_packs_too_far_tx :
    let far : Tx := { txId := 21, content := 70, exp := 100030 + 1801 }
    let mined : Block := ⟨5, 2, 2, 100030, minerPick [far] 100030⟩
    ∃ g, guardAfter [gen, blkB] = some g ∧ mined.txs = [far] ∧ g.existTxs 2 [far] = .ok false ∧
      verifyTxs true g mined = .ok false ∧
      minePack [far] 100030 = [] ∧ minePack [far] 100031 = [far] := by
  decide

end Refutations

/-! ## non-vacuity -/

/-- the hypotheses of the main theorems are satisfiable: a reachable guard after two saves and a prune,
    a well-formed tree, admissible blocks, and an accepted third block -/
example :
    let a : Tx := { txId := 1, content := 50, exp := 100900 }
    let c : Tx := { txId := 3, content := 51, exp := 100950 }
    let b1 : Block := ⟨1, 0, 0, 100000, []⟩
    let b2 : Block := ⟨2, 1, 1, 100010, [a]⟩
    let b3 : Block := ⟨3, 2, 2, 100020, [c]⟩
    ∃ g3, (do
        let g1 ← (match (newTxGuard 100000).saveBlock b1 with | .ok g => some g | _ => none)
        let g2 ← (match g1.saveBlock b2 with | .ok g => some g | _ => none)
        match g2.delOldBlocks 100010 with | .ok g => some g | _ => none) = some g3 ∧
      b2 ∈ g3.cache ∧ verifyTxs true g3 b3 = .ok true ∧
      b2.txs.all (fun tx => tx.validAt b2.time) = true := by
  decide

/-- `initTxPool_loads` / `restart_equiv_initTxPool` are not vacuous, and the boundary is where the
    code puts it: a stable block exactly 1800 s after genesis reloads genesis, 1801 s after does not -/
example :
    let g0 : Block := ⟨1, 0, 0, 100000, []⟩
    let g1 : Block := ⟨2, 1, 1, 100001, []⟩
    let s : Block := ⟨3, 2, 2, 101800, []⟩
    let s' : Block := ⟨3, 2, 2, 101801, []⟩
    let byH := fun (st : Block) (h : Nat) => [st, g1, g0].find? (fun b => b.height == h)
    (match initTxPool (byH s) s with | .ok g => g.cache.map (·.hash) | _ => []) = [3, 2, 1] ∧
    (match initTxPool (byH s') s' with | .ok g => g.cache.map (·.hash) | _ => []) = [3, 2] := by
  decide

example : ChainOK [(⟨3, 2, 2, 101800, []⟩ : Block), ⟨2, 1, 1, 100001, []⟩, ⟨1, 0, 0, 100000, []⟩] :=
  .cons rfl rfl (by decide) (.cons rfl rfl (by decide) (.single _ rfl))

end LemoProofs.C04

/-
  C04 × C18 — the miner path of replay protection, by COMPOSING the guard model (LemoModel/TxGuard.lean, property C04)
  with the pool model (LemoModel/Pool.lean, property C18) in the engine's bookkeeping (LemoModel/PoolGuard.lean:
  SendTx / handleTxsMsg, InsertBlock, saveNewBlock, onCurrentChanged, InsertConfirms, onStableChanged, MineBlock).

  `C04.miner_block_passes_verify` ASSUMED that the pool is clean with respect to the head at mining time.  Here:

  CURRENT CODE (`Cfg.live`: after /repo fixes 786852c "a box must not carry the same sub transaction twice" and
  609d2a8 "MineBlock never packs a tx that is already on its own branch"), for ALL op sequences from a fresh node that
  satisfy the environment hypotheses `envB` (what consensus guarantees about blocks, heads and stable blocks):
    * `run_never_panics`            no op OF THE MODEL panics (ExistTx on the head, GetTxsByBranch, DelOldBlocks, DelTxs,
                                    SaveBlock).  LIMIT: the op `ask` reads the head and asks the guard ATOMICALLY; Go
                                    (api.go SendTx, protocol_manager.go handleTxsMsg) does `CurrentBlock()` and then
                                    `ExistTx(thatBlock.Hash(), tx)` with no lock (the entry goroutines never take
                                    `chainLock`), so a whole `InsertConfirms` can run between the two reads.  That
                                    two-read race is NOT an op sequence of this machine: `stale_head_ask_panics` below is a
                                    kernel-checked state in which the guard PANICS for the head an entry goroutine may
                                    still hold (found by the round-8 review, not reproduced on the engine);
    * `mined_block_passes_verify`   FULL: in every reachable state the block MineBlock assembles — whatever the pool
                                    holds, whatever the assembler skips or throws out — passes `verifyTxs` (the check every
                                    other node runs, and the miner does not run on its own block);
    * `mined_block_hashes_distinct` in particular no tx / sub-tx hash occurs twice in it (box / sub-tx overlap: C18's
                                    pairwise-disjoint selection + each pooled tx's own hashes pairwise different);
    * `pool_clean_invariant_partial`  every pending transaction is off the head's branch (the guard denies it for the
                                    head) — under `CleanRun`: every `AddTx` of an entry goroutine happens while the guard's
                                    answer for the CURRENT head is still `false`;
    * `pool_clean_refuted`          … and NOT without it: SendTx / handleTxsMsg ask the guard and write the pool without
                                    `chainLock`; a block carrying the tx in between leaves a tx of the node's own branch in
                                    the pool.  Harmless since 609d2a8 (`mined_block_passes_verify`, and the witness state's
                                    mined block is empty: `pool_clean_refuted`), a forked-off miner before it:
  CODE BEFORE THE FIXES (`fixed = false` variants, kernel-checked witnesses; reproduced on the real engine before the
  fixes and kept as regression oracles c04/miner-includes-guarded-tx/entry-race and …/box-repeats-sub):
    * `miner_includes_guarded_tx_before_609d2a8`   the entry race makes the miner pack a tx of its own branch again;
    * `miner_packs_repeated_sub_before_786852c`    SendTx(box[s,s]) is pooled and packed: a hash twice in one block
                                                   (609d2a8 alone would not have closed it);
    * `mined_block_passes_verify_partial`          any variant, under `CleanRun`;
    * `miner_hypotheses_discharged`                `C04.miner_block_passes_verify` with its two hypotheses proved.
-/
import LemoProofs.Lemmas.PoolGuardInv
namespace LemoProofs.C04Pool
open LemoModel LemoModel.TxGuard LemoModel.PoolGuard LemoProofs.TxGuardLemmas LemoProofs.PoolGuardLemmas

/-- `s` is the state of a node started on genesis `gen` after the ops `ops` (code variant `cfg`) -/
def Reachable (cfg : Cfg) (gen : Block) (ops : List Op) (s : State) : Prop := runFrom cfg gen ops = some s

/-- every op satisfies the environment hypotheses `envB` in the state it is applied to -/
def EnvRun (cfg : Cfg) (gen : Block) (ops : List Op) : Prop :=
  genOK gen = true ∧ ∀ s0, init gen = some s0 → RunAll cfg envB s0 ops

/-- every `AddTx` of an entry goroutine happens while the guard still denies the tx for the current head (and, for the
    code before fix 786852c, not with a box repeating a sub-tx) -/
def CleanRun (cfg : Cfg) (gen : Block) (ops : List Op) : Prop :=
  ∀ s0, init gen = some s0 → RunAll cfg (cleanB cfg) s0 ops

theorem reachable_iff {cfg : Cfg} {gen : Block} {ops : List Op} {s : State} :
    Reachable cfg gen ops s ↔ ∃ s0, init gen = some s0 ∧ run cfg s0 ops = some s := by
  unfold Reachable runFrom
  cases init gen with
  | none => simp
  | some s0 => simp

theorem runAllB_iff (cfg : Cfg) (f : State → Op → Bool) : ∀ (ops : List Op) (s : State),
    runAllB cfg f s ops = true ↔ RunAll cfg f s ops := by
  intro ops
  induction ops with
  | nil => intro _; simp [runAllB, RunAll]
  | cons op r ih =>
    intro s
    simp only [runAllB, Bool.and_eq_true, RunAll]
    constructor
    · intro h
      refine ⟨h.1, fun s' hs' => ?_⟩
      rw [hs'] at h
      exact (ih s').1 h.2
    · intro h
      refine ⟨h.1, ?_⟩
      cases hs : step cfg s op with
      | none => rfl
      | some s' => exact (ih s').2 (h.2 s' hs)

theorem checkRun_iff (cfg : Cfg) (f : State → Op → Bool) (gen : Block) (ops : List Op) :
    checkRun cfg f gen ops = true ↔ ∀ s0, init gen = some s0 → RunAll cfg f s0 ops := by
  unfold checkRun
  cases init gen with
  | none => simp
  | some s0 =>
    simp only [Option.some.injEq, forall_eq']
    exact runAllB_iff cfg f ops s0

theorem envRun_iff {cfg : Cfg} {gen : Block} {ops : List Op} :
    EnvRun cfg gen ops ↔ (genOK gen && checkRun cfg envB gen ops) = true := by
  unfold EnvRun
  rw [Bool.and_eq_true, checkRun_iff]

theorem cleanRun_iff {cfg : Cfg} {gen : Block} {ops : List Op} :
    CleanRun cfg gen ops ↔ checkRun cfg (cleanB cfg) gen ops = true := by
  unfold CleanRun
  rw [checkRun_iff]

/-- the invariant `Base` in every reachable state -/
theorem reachable_base {cfg : Cfg} {gen : Block} {ops : List Op} {s : State} (henv : EnvRun cfg gen ops)
    (hd : cfg.boxDupCheck = true ∨ CleanRun cfg gen ops) (hr : Reachable cfg gen ops s) : Base cfg s := by
  obtain ⟨s0, h0, hrun⟩ := reachable_iff.1 hr
  obtain ⟨s0', h0', hb0, _⟩ := init_ok cfg henv.1
  rw [h0] at h0'
  injection h0' with h0'
  subst h0'
  exact run_base ops s0 s hb0 (henv.2 s0 h0) (hd.imp id (fun c => c s0 h0)) hrun

/-- **run_never_panics** (current code): the MODEL of a node started on a genesis block survives every op sequence that
    satisfies the environment hypotheses: `ExistTx(head, ·)` of the miner and of the ATOMIC entry op `ask` (head read and
    guard call in one step), `GetTxsByBranch` on a fork switch (never the logged-and-ignored error), `DelOldBlocks`,
    `DelTxs`, `SaveBlock` all return.  It says nothing about an entry goroutine whose `CurrentBlock()` read and `ExistTx`
    call are separated by other ops, as the Go code allows (no lock): see `stale_head_ask_panics`.  Nor are the early
    error returns of MineBlock / saveNewBlock ops of the machine (PoolGuard.lean `mine` always saves). -/
theorem run_never_panics {gen : Block} {ops : List Op} (henv : EnvRun Cfg.live gen ops) :
    ∃ s, Reachable Cfg.live gen ops s := by
  obtain ⟨s0, h0, hb0, _⟩ := init_ok Cfg.live henv.1
  obtain ⟨s, hs⟩ := run_total ops s0 hb0 (henv.2 s0 h0) (Or.inl rfl)
  exact ⟨s, reachable_iff.2 ⟨s0, h0, hs⟩⟩

/-- **mined_block_passes_verify** (current code, FULL — discharges the hypotheses of `C04.miner_block_passes_verify`
    without any assumption on the pool): for ALL op sequences from a fresh node satisfying the environment hypotheses,
    in EVERY reachable state, the block `MineBlock` assembles on the head — at any clock reading, whatever the assembler
    leaves over (`skip`) or rejects (`invalid`) — exists (no panic) and passes `verifyTxs`, the check of every other
    node which the miner never runs on its own block. -/
theorem mined_block_passes_verify {gen : Block} {ops : List Op} {s : State} (henv : EnvRun Cfg.live gen ops)
    (hr : Reachable Cfg.live gen ops s) (hash now : Nat) (skip invalid : List Nat) :
    ∃ p2 b, assemble Cfg.live s hash now skip invalid = some (p2, b) ∧ verifyTxs true s.g b = .ok true := by
  have hb := reachable_base henv (Or.inl rfl) hr
  -- the assembled block exists: `step_total` for a `mine` op needs a fresh id; assemble itself does not
  have hasm : ∃ p2 b, assemble Cfg.live s hash now skip invalid = some (p2, b) := by
    obtain ⟨K, hrch⟩ := hb.reach
    have inv := reach_inv hrch
    unfold assemble
    obtain ⟨l, hget, _, _⟩ := poolGet_spec hb.pool.inv.toWInv (mineTime s now) maxTxsForMiner
    rw [hget]
    simp only
    have hga : guardAnswers Cfg.live s (candidates Cfg.live s now l) = true := by
      unfold guardAnswers
      simp only [Bool.or_eq_true, Bool.not_eq_true', List.all_eq_true]
      right
      intro tx _
      obtain ⟨r, hex⟩ := existTxs_total inv hb.tree hb.headCached [tx]
      rw [hex]; rfl
    rw [if_pos hga]
    have ok1 : PoolOK (Pool.step true s.pool (.get (mineTime s now) maxTxsForMiner)).1 :=
      ⟨PoolLemmas.step_fixed_inv hb.pool.inv _, fun t ht => hb.pool.nodup t (live_get_sub hb.pool.inv.toWInv _ _ ht)⟩
    rw [poolDel_eq ok1.inv.toWInv]
    simp only
    have ok2 := poolOK_del ok1 (replayed Cfg.live s (candidates Cfg.live s now l))
    rw [poolDel_eq ok2.inv.toWInv]
    exact ⟨_, _, rfl⟩
  obtain ⟨p2, b, hasm⟩ := hasm
  exact ⟨p2, b, hasm, (assembled_passes hb (Or.inl rfl) (assemble_spec hb hasm)).1⟩

/-- **mined_block_hashes_distinct** (current code): no tx hash and no box sub-tx hash occurs twice in a mined block —
    never a box together with one of its sub-txs standalone, never two boxes sharing a sub-tx, never a box naming a
    sub-tx twice. -/
theorem mined_block_hashes_distinct {gen : Block} {ops : List Op} {s : State} (henv : EnvRun Cfg.live gen ops)
    (hr : Reachable Cfg.live gen ops s) {hash now : Nat} {skip invalid : List Nat} {p2 : Pool.Pool} {b : Block}
    (h : assemble Cfg.live s hash now skip invalid = some (p2, b)) : b.ids.Nodup := by
  obtain ⟨p2', b', h', hv⟩ := mined_block_passes_verify henv hr hash now skip invalid
  rw [h] at h'
  injection h' with h'
  injection h' with _ e
  subst e
  exact (verifyTxs_true hv).1

/-- **pool_clean_invariant_partial** (any code variant): for all op sequences satisfying the environment hypotheses in
    which every `AddTx` of an entry goroutine happens while the guard still denies the tx for the current head
    (`CleanRun`), in every reachable state the guard denies every pending transaction for the head: none of its hashes
    (own or sub-tx) is traced to a block the guard walks from the head. -/
theorem pool_clean_invariant_partial {cfg : Cfg} {gen : Block} {ops : List Op} {s : State} (henv : EnvRun cfg gen ops)
    (hcl : CleanRun cfg gen ops) (hr : Reachable cfg gen ops s) :
    ∀ t ∈ Pool.live s.pool, s.g.existTxs s.head.hash [ofPool t] = .ok false := by
  have hb := reachable_base henv (Or.inr hcl) hr
  obtain ⟨s0, h0, hrun⟩ := reachable_iff.1 hr
  obtain ⟨s0', h0', hb0, hc0⟩ := init_ok cfg henv.1
  rw [h0] at h0'
  injection h0' with h0'
  subst h0'
  have hc := run_clean ops s0 s hb0 hc0 (henv.2 s0 h0) (hcl s0 h0) hrun
  obtain ⟨K, hrch⟩ := hb.reach
  intro t ht
  apply (exist_false_iff (reach_inv hrch) hb.tree hb.headCached [ofPool t]).2
  rw [idsOf_single, ofPool_ids]
  exact hc.pool t ht

/-- the same in terms of block contents: a hash of a pending transaction can coincide with a hash in a block of the head's
    branch that is still in the guard's window only if it also was in a block that dropped out of the window already
    (`K`; such a transaction is expired at every later block time: `C04.window_safe`). -/
theorem pool_clean_semantic_partial {cfg : Cfg} {gen : Block} {ops : List Op} {s : State} (henv : EnvRun cfg gen ops)
    (hcl : CleanRun cfg gen ops) (hr : Reachable cfg gen ops s) :
    ∃ K, Reach s.g s.blocks K s.stable.time ∧
      ∀ t ∈ Pool.live s.pool, ∀ a, Anc s.blocks s.head.hash a → a ∈ s.g.cache → ∀ id ∈ t.keys, id ∈ a.ids → id ∈ K := by
  have hb := reachable_base henv (Or.inr hcl) hr
  have hclean := pool_clean_invariant_partial henv hcl hr
  obtain ⟨K, hrch⟩ := hb.reach
  refine ⟨K, hrch, fun t ht a hanc hac id hid hida => ?_⟩
  have inv := reach_inv hrch
  obtain ⟨r, hex, _, hcomp⟩ := exist_spec inv hb.tree hb.headCached [ofPool t]
  rw [hclean t ht] at hex
  injection hex with hex
  apply Classical.byContradiction
  intro hk
  have : r = true := hcomp ⟨a, anc_to_canc inv hb.tree hanc hac s.head hb.headCached rfl, id,
    by rw [idsOf_single, ofPool_ids]; exact hid, hida, hk⟩
  rw [this] at hex
  cases hex

/-- **mined_block_passes_verify_partial** (any code variant, in particular the code before fix 609d2a8 whose miner does
    not ask the guard): under `CleanRun` the mined block passes `verifyTxs`. -/
theorem mined_block_passes_verify_partial {cfg : Cfg} {gen : Block} {ops : List Op} {s : State} (henv : EnvRun cfg gen ops)
    (hcl : CleanRun cfg gen ops) (hr : Reachable cfg gen ops s) {hash now : Nat} {skip invalid : List Nat}
    {p2 : Pool.Pool} {b : Block} (h : assemble cfg s hash now skip invalid = some (p2, b)) :
    verifyTxs true s.g b = .ok true := by
  have hb := reachable_base henv (Or.inr hcl) hr
  obtain ⟨K, hrch⟩ := hb.reach
  have hclean : PoolClean s.g s.head s.pool := by
    intro t ht
    have := (exist_false_iff (reach_inv hrch) hb.tree hb.headCached [ofPool t]).1 (pool_clean_invariant_partial henv hcl hr t ht)
    rw [idsOf_single, ofPool_ids] at this
    exact this
  exact (assembled_passes hb (Or.inr hclean) (assemble_spec hb h)).1

/-- **miner_hypotheses_discharged**: the two hypotheses of `C04.miner_block_passes_verify` — (1) no pooled tx is on the
    head's branch, (2) the pool holds no tx / sub-tx hash twice — hold in every reachable state of a `CleanRun`; so its
    conclusion holds for the pool content as it is: `GetTxs(time)` filtered by `VerifyTxBody` passes `verifyTxs`. -/
theorem miner_hypotheses_discharged {cfg : Cfg} {gen : Block} {ops : List Op} {s : State} (henv : EnvRun cfg gen ops)
    (hcl : CleanRun cfg gen ops) (hr : Reachable cfg gen ops s) (fixed : Bool) (hash height time : Nat) :
    verifyTxs fixed s.g ⟨hash, s.head.hash, height, time, minePack ((Pool.live s.pool).map ofPool) time⟩ = .ok true := by
  have hb := reachable_base henv (Or.inr hcl) hr
  obtain ⟨K, hrch⟩ := hb.reach
  refine C04.miner_block_passes_verify hrch hb.tree hb.headCached _ hash height time ?_ ?_
  · intro tx htx
    obtain ⟨t, ht, e⟩ := List.mem_map.1 htx
    rw [← e]
    exact pool_clean_invariant_partial henv hcl hr t ht
  · exact selection_nodup hb.pool (List.Sublist.refl _) (List.Sublist.refl _)

/-! ## witnesses: `CleanRun` cannot be dropped; the code before the two fixes -/

section Witnesses

def gen0 : Block := ⟨1, 0, 0, 100000, []⟩
def t1 : Tx := { txId := 1, content := 1, exp := 100900 }
/-- a block of another miner carrying `t1`, extending the head -/
def blkA : Block := ⟨2, 1, 1, 100010, [t1]⟩

/-- the entry race: `SendTx(t1)` asks the guard on head 1 (`false`); block 2 = child of the head carrying `t1` is
    inserted and becomes the head (`DelTxs` finds nothing to delete); then the goroutine's `AddTx(t1)` arrives -/
def raceOps : List Op := [.ask 100005 t1, .insert blkA false blkA, .add t1]

/-- **pool_clean_refuted** (current code): without `CleanRun` the pool can hold a transaction of the node's own branch —
    the guard says `true` for it on the head.  The run satisfies the environment hypotheses and violates only `CleanRun`.
    Since fix 609d2a8 this is harmless: the miner asks the guard, mines an empty block here, and deletes the tx. -/
theorem pool_clean_refuted :
    EnvRun Cfg.live gen0 raceOps ∧ ¬ CleanRun Cfg.live gen0 raceOps ∧
    ∃ s, runFrom Cfg.live gen0 raceOps = some s ∧
      (∃ t ∈ Pool.live s.pool, s.g.existTxs s.head.hash [ofPool t] = .ok true) ∧
      (∃ r, assemble Cfg.live s 3 100020 [] [] = some r ∧ r.2.txs = [] ∧ Pool.live r.1 = [] ∧
        verifyTxs true s.g r.2 = .ok true) :=
  ⟨envRun_iff.2 (by decide), fun h => absurd (cleanRun_iff.1 h) (by decide), by decide⟩

/-! ### outside the op machine: the two unlocked reads of an entry goroutine (round-8 review, M-C04-1) -/

def t9 : Tx := { txId := 9, content := 9, exp := 103500 }
/-- the head: a block 50 minutes old (a stalled chain) -/
def blkH : Block := ⟨2, 1, 1, 100001, []⟩
/-- its late sibling carrying `t9`; a confirm makes it stable and cuts the head's fork -/
def blkS : Block := ⟨3, 1, 1, 103000, [t9]⟩
def staleOps : List Op := [.insert blkH false blkH, .insert blkS false blkH, .confirm blkS blkS]

set_option maxRecDepth 16000 in
/-- **stale_head_ask_panics** (current code; a statement about the MODEL's guard, NOT a run of the op machine and NOT
    reproduced on the real engine): the op `ask` evaluates `s.g.existTxs s.head.hash` in one step, Go reads
    `CurrentBlock()` first and calls `ExistTx(thatHash, tx)` later without any lock.  After the first two ops the head is
    block 2 and the guard answers `false` for `t9` on it; the run satisfies the environment hypotheses; after the
    `confirm` (stable = head = block 3, `DelOldBlocks(103000)` has dropped blocks 1 and 2 from the cache) the guard
    PANICS when asked about `t9` (valid at clock 103001, traced to the cached block 3) on the OLD head 2 — Go:
    `SliceOnFork` → `ErrNotFoundBlockCache` → `panic(err)` in `IsAppearedOnFork` — while the atomic `ask` of the model
    (new head 3) answers `true`.  So `run_never_panics` does not exclude this panic of an entry goroutine that read the
    head before the confirm (in `handleTxsMsg` a bare goroutine: unrecovered). -/
theorem stale_head_ask_panics :
    EnvRun Cfg.live gen0 staleOps ∧
    (∃ s, runFrom Cfg.live gen0 (staleOps.take 2) = some s ∧ s.head.hash = 2 ∧ s.g.existTxs 2 [t9] = .ok false) ∧
    ∃ s, runFrom Cfg.live gen0 staleOps = some s ∧ s.head.hash = 3 ∧ s.stable.hash = 3 ∧
      validBody Cfg.live t9 103001 = true ∧
      s.g.existTxs 2 [t9] = .panic ∧ s.g.existTxs s.head.hash [t9] = .ok true :=
  ⟨envRun_iff.2 (by decide), by decide, by decide⟩

/-- the code between the two fixes (`checkBoxTx` repaired, the miner not yet asking the guard) and the code before both -/
def Cfg.before609d2a8 : Cfg := ⟨true, false⟩
def Cfg.before786852c : Cfg := ⟨false, false⟩

/-- **CODE BEFORE fix 609d2a8** (c04/miner-includes-guarded-tx/entry-race, reproduced on the real engine before the
    fix): after the entry race the miner packs `t1` — which block 2 of its own branch carries — into block 3; `verifyTxs`
    of every other node rejects that block, the miner stores it unverified (`t1` executed twice on its chain).  The run
    satisfies the environment hypotheses. -/
theorem miner_includes_guarded_tx_before_609d2a8 :
    EnvRun Cfg.before609d2a8 gen0 raceOps ∧ EnvRun Cfg.before786852c gen0 raceOps ∧
    (∃ s, runFrom Cfg.before609d2a8 gen0 raceOps = some s ∧
      ∃ r, assemble Cfg.before609d2a8 s 3 100020 [] [] = some r ∧ r.2.txs = [ofPool (toPool t1)] ∧
        verifyTxs true s.g r.2 = .ok false) ∧
    (∃ s, runFrom Cfg.before786852c gen0 raceOps = some s ∧
      ∃ r, assemble Cfg.before786852c s 3 100020 [] [] = some r ∧ r.2.txs = [ofPool (toPool t1)] ∧
        verifyTxs true s.g r.2 = .ok false) :=
  ⟨envRun_iff.2 (by decide), envRun_iff.2 (by decide), by decide, by decide⟩

/-- a box naming the same sub-transaction twice -/
def sub5 : Core := ⟨5, 5, 100900, 0⟩
def boxDup : Tx := { txId := 9, content := 9, exp := 100800, subs := [sub5, sub5] }
def boxOps : List Op := [.ask 100005 boxDup, .add boxDup]

/-- **CODE BEFORE fix 786852c** (c04/miner-includes-guarded-tx/box-repeats-sub, reproduced on the real engine before the
    fix): `SendTx(box[s,s])` passes `VerifyTxBody` and `isTxExist`, the miner packs the box, the block holds hash 5 twice
    and fails `verifyTxs` of every other node.  Asking the guard (fix 609d2a8 alone, `⟨false, true⟩`) does not help: the
    box is on no branch.  With `checkBoxTx` repaired the box never enters the pool. -/
theorem miner_packs_repeated_sub_before_786852c :
    EnvRun Cfg.before786852c gen0 boxOps ∧
    (∃ s, runFrom Cfg.before786852c gen0 boxOps = some s ∧
      ∃ r, assemble Cfg.before786852c s 2 100020 [] [] = some r ∧ r.2.ids = [9, 5, 5] ∧
        verifyTxs true s.g r.2 = .ok false) ∧
    (∃ s, runFrom ⟨false, true⟩ gen0 boxOps = some s ∧
      ∃ r, assemble ⟨false, true⟩ s 2 100020 [] [] = some r ∧ r.2.ids = [9, 5, 5] ∧
        verifyTxs true s.g r.2 = .ok false) ∧
    (∃ s, runFrom Cfg.live gen0 boxOps = some s ∧ Pool.live s.pool = [] ∧ s.asked = []) :=
  ⟨envRun_iff.2 (by decide), by decide, by decide, by decide⟩

end Witnesses

/-! ## non-vacuity: a run with every kind of op that satisfies `EnvRun` and `CleanRun` -/

section NonVacuity

def t2 : Tx := { txId := 2, content := 2, exp := 100950 }
def t3 : Tx := { txId := 3, content := 3, exp := 100960 }
def box4 : Tx := { txId := 4, content := 4, exp := 100700, subs := [⟨6, 6, 100800, 0⟩, ⟨7, 7, 100900, 0⟩] }
def blkB : Block := ⟨3, 1, 1, 100012, [t2]⟩          -- a side block (head stays 2)
def blkC : Block := ⟨4, 3, 2, 100020, [t3]⟩          -- its child: the fork switches to 1-3-4
def blkD : Block := ⟨5, 2, 2, 100025, []⟩            -- the old branch grows again, no switch

/-- recv t1, recv a box, a block with t1 on the head, a side block with t2, the fork switch (t1 comes back, t2 goes),
    GetPendingTx, a late side block, the miner, block 4 becomes stable (branch 2-5 is cut), the miner again -/
def demoOps : List Op :=
  [.ask 100005 t1, .add t1, .ask 100006 box4, .add box4, .insert blkA false blkA, .insert blkB false blkA,
   .insert blkC false blkC, .pending 100030 10, .insert blkD false blkC, .mine 6 100040 [] [] false,
   .confirm blkC ⟨6, 4, 3, 100040, [ofPool (toPool box4), ofPool (toPool t1)]⟩, .mine 7 100050 [] [] false]

example : EnvRun Cfg.live gen0 demoOps ∧ CleanRun Cfg.live gen0 demoOps ∧
    ∃ s, runFrom Cfg.live gen0 demoOps = some s ∧ s.head.hash = 7 ∧ s.stable.hash = 4 ∧
      s.blocks.map (fun b => (b.hash, b.txs.map (·.txId))) = [(7, []), (6, [4, 1]), (5, []), (4, [3]), (3, [2]), (2, [1]), (1, [])] :=
  ⟨envRun_iff.2 (by decide), cleanRun_iff.2 (by decide), by decide⟩

end NonVacuity

end LemoProofs.C04Pool

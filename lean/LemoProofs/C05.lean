/-
  C05 — LEMO is conserved; gas is charged exactly; balances never go negative.

  Model: `LemoModel.Ledger` (hand-written from tx_processor.go / candidate_vote_tx.go / box_tx.go /
  assembler.go; the base intrinsic-gas table and data-gas constants are REGENERATED from the Go source,
  `LemoGen.Gas`).  Tied by `hx c05`: the real engine's blocks (miner path + validator path) and the
  model agree on selected/discarded txs, every gasUsed and every balance, vote count and profile field
  of the account universe after every block — REWARD BLOCKS included (the scenario runs with short terms:
  term reward set through precompile 0x09, salaries, postponed deposit refunds).  EVM value flows are outside
  this model (C16).

  Full statement (kept visible): for every block, Σ balances' = Σ balances + (term reward, in a reward block),
  every included tx's payer is charged exactly gasUsed × gasPrice with gasUsed ≤ gasLimit, the miner's income
  address gets exactly Σ gasUsed × gasPrice.

  * reward blocks: `rewardSteps_sum` / `finalize_supply` (issueTermReward + refundCandidateDeposit move the
    total by exactly the salaries paid — refunds are pool → candidate and cancel out), `salaryTotal_le_total`
    and `salaryTotal_gt` (term reward − n·1 LEMO < Σ salaries ≤ term reward: what the two roundings of
    calculateSalary withhold is less than 1 LEMO per node and is NOT issued to anybody);
    "+ exactly the term reward" is therefore REFUTED as stated: `reward_remainder_not_issued`.

  * proved for all states and all txs: `applySimple_supply` (a non-box tx moves the total by exactly
    −gasUsed×price: the fee leaves the accounts until the miner is credited), `applySimple_gas`
    (gasUsed = intrinsic gas ≤ gasLimit), `mine_supply_partial` + `mineBlock_conserves_partial`
    (box-free blocks mined by a deputy with an income address conserve the total exactly).
  * REFUTED on the code as it stands (kernel-checked witnesses, known findings):
    `box_mints` (a non-empty box pays its sub-txs' gas to the miner twice and reports gasUsed > gasLimit),
    `fee_vanishes_without_income` (chargeForGas silently drops the fee).
-/
import LemoProofs.Lemmas.LedgerSum
import LemoProofs.Lemmas.LedgerReward
namespace LemoProofs.C05
open LemoModel.Ledger LemoProofs.LedgerSum LemoProofs.LedgerReward

/-- the addresses a non-box tx may touch -/
def touches (c : Ctx) (tx : Tx) : List Nat :=
  tx.sender :: tx.payer :: c.p.pool ::
    (match tx.kind with
     | .transfer to _ => [to]
     | _ => [])

theorem doVote_sum (c : Ctx) (s s' : St) (v cand : Nat) (ib : Int) (U : List Nat)
    (h : doVote c s v cand ib = .ok s') : sumBal s' U = sumBal s U := by
  unfold doVote at h
  simp only at h
  split at h; · cases h
  split at h; · cases h
  injection h with h; subst h
  rw [sumBal_modAcct _ _ _ (by intro _; rfl)]
  split
  · rfl
  · rw [sumBal_modAcct _ _ _ (by intro _; rfl)]
    split
    · rw [sumBal_modAcct _ _ _ (by intro _; rfl)]
    · rfl

theorem doSetSigners_sum (s s' : St) (fr tg : Nat) (l : List (Nat × Nat)) (U : List Nat)
    (h : doSetSigners s fr tg l = .ok s') : sumBal s' U = sumBal s U := by
  unfold doSetSigners at h
  split at h; · cases h
  split at h; · cases h
  split at h; · cases h
  split at h; · cases h
  split at h; · cases h
  injection h with h; subst h
  exact sumBal_modAcct _ _ _ (by intro _; rfl) U

theorem doRegister_sum (c : Ctx) (s s' : St) (fr : Nat) (amt : Int) (unreg : Bool) (inc : Nat) (U : List Nat)
    (hn : U.Nodup) (hf : fr ∈ U) (hp : c.p.pool ∈ U)
    (h : doRegister c s fr amt unreg inc = .ok s') : sumBal s' U = sumBal s U := by
  unfold doRegister at h
  simp only at h
  split at h
  · -- first registration
    split at h; · cases h
    split at h; · cases h
    injection h with h; subst h
    rw [sumBal_modAcct _ _ _ (by intro _; rfl), sumBal_transfer _ _ _ _ U hn hf hp, sumBal_modAcct _ _ _ (by intro _; rfl)]
  · split at h; · cases h
    split at h
    · -- unregister
      split at h
      · injection h with h; subst h
        exact sumBal_modAcct _ _ _ (by intro _; rfl) U
      · split at h
        · injection h with h; subst h
          exact sumBal_modAcct _ _ _ (by intro _; rfl) U
        · injection h with h; subst h
          rw [refund_sum c (modAcct s fr (fun a => { a with isCand := 2, votes := 0 })) fr U hn hf hp,
              sumBal_modAcct _ _ _ (by intro _; rfl)]
    · -- modify
      split at h
      · split at h; · cases h
        split at h; · cases h
        injection h with h; subst h
        rw [sumBal_modAcct _ _ _ (by intro _; rfl), sumBal_transfer _ _ _ _ U hn hf hp]
      · injection h with h; subst h
        exact sumBal_modAcct _ _ _ (by intro _; rfl) U

/-- what the body of a non-box tx does to the total -/
theorem body_sum (c : Ctx) (s s' : St) (tx : Tx) (ib : Int) (U : List Nat) (hn : U.Nodup)
    (hU : ∀ a ∈ touches c tx, a ∈ U) (h : body c s tx ib = .ok s') : sumBal s' U = sumBal s U := by
  have hs : tx.sender ∈ U := hU _ (by simp [touches])
  have hp : c.p.pool ∈ U := hU _ (by simp [touches])
  unfold body at h
  cases hk : tx.kind with
  | transfer to v =>
    simp only [hk] at h
    have ht : to ∈ U := hU _ (by simp [touches, hk])
    split at h; · cases h
    split at h
    · injection h with h; subst h; rfl
    · injection h with h; subst h; exact sumBal_transfer _ _ _ _ U hn hs ht
  | vote cand => simp only [hk] at h; exact doVote_sum c s s' _ _ _ U h
  | register amt unreg inc => simp only [hk] at h; exact doRegister_sum c s s' _ _ _ _ U hn hs hp h
  | setSigners tg l => simp only [hk] at h; exact doSetSigners_sum s s' _ _ _ U h
  | box => simp [hk] at h
  | other => simp [hk] at h

/-- **applySimple_supply / applySimple_gas**: an included non-box tx
    * reports gasUsed = its intrinsic gas, which is ≤ gasLimit,
    * moves the total of all balances by exactly −gasUsed × gasPrice (the payer's net debit; everything
      else — value, deposit, refund — is a transfer between accounts),
    * takes exactly gasUsed out of the block's gas pool. -/
theorem applySimple_supply (c : Ctx) (s s' : St) (gp gp' : Nat) (tx : Tx) (g : Nat) (U : List Nat) (hn : U.Nodup)
    (hU : ∀ a ∈ touches c tx, a ∈ U) (h : applySimple c s gp tx = .ok (s', gp', g)) :
    sumBal s' U = sumBal s U - (g : Int) * tx.gasPrice ∧ g ≤ tx.gasLimit ∧ intrinsic tx = some g ∧
    gp' + g = gp := by
  have hpy : tx.payer ∈ U := hU _ (by simp [touches])
  unfold applySimple at h
  simp only at h
  split at h; · cases h
  split at h; · cases h
  split at h; · cases h
  rename_i hgp
  split at h; · cases h
  rename_i ig hig
  split at h; · cases h
  rename_i hgl
  split at h; · cases h
  rename_i sb hb
  injection h with h
  injection h with h1 h2
  injection h2 with h2 h3
  subst h1 h2 h3
  have b1 := body_sum c _ sb tx _ U hn hU hb
  refine ⟨?_, by omega, ?_, by omega⟩
  · rw [sumBal_setBal _ tx.payer _ U hn hpy, b1, sumBal_setBal _ tx.payer _ U hn hpy]
    have hsub : tx.gasLimit - (tx.gasLimit - ig) = ig := by omega
    rw [hsub]
    have hcast : ((tx.gasLimit - ig : Nat) : Int) = (tx.gasLimit : Int) - (ig : Int) := by omega
    rw [hcast]
    have : ((tx.gasLimit : Int) - (ig : Int)) * tx.gasPrice = (tx.gasLimit : Int) * tx.gasPrice - (ig : Int) * tx.gasPrice := by
      rw [Int.sub_mul]
    omega
  · rw [hig]; congr 1; omega

/-! ### whole blocks -/

def BoxFree (txs : List Tx) : Prop := ∀ t ∈ txs, t.kind ≠ .box

theorem applyTx_nonbox (c : Ctx) (s : St) (gp : Nat) (t : Tx) (h : t.kind ≠ .box) : applyTx c s gp t = applySimple c s gp t := by
  unfold applyTx
  split
  · rename_i hk; exact absurd hk h
  · rfl

/-- **mine_supply_partial**: over a box-free candidate list (any mix of valid and failing txs, any gas pool)
    the miner path moves the total by exactly minus the fees it reports. -/
theorem mine_supply_partial (c : Ctx) (U : List Nat) (hn : U.Nodup) : ∀ (txs : List Tx) (s : St) (gp : Nat),
    BoxFree txs → (∀ t ∈ txs, ∀ a ∈ touches c t, a ∈ U) →
    sumBal (mine c s gp txs).st U = sumBal s U - (mine c s gp txs).fee := by
  intro txs
  induction txs with
  | nil => intro s gp _ _; simp [mine]
  | cons t ts ih =>
    intro s gp hb hU
    have hb' : BoxFree ts := fun x hx => hb x (List.mem_cons_of_mem _ hx)
    have hU' : ∀ x ∈ ts, ∀ a ∈ touches c x, a ∈ U := fun x hx => hU x (List.mem_cons_of_mem _ hx)
    unfold mine
    by_cases hg : gp < LemoGen.Gas.OrdinaryTxGas
    · simp [hg]
    · simp only [hg, if_false]
      rw [applyTx_nonbox c s gp t (hb t List.mem_cons_self)]
      cases ha : applySimple c s gp t with
      | error e =>
        obtain ⟨e, gp'⟩ := e
        simp only []
        exact ih s gp' hb' hU'
      | ok r =>
        obtain ⟨s1, gp1, g1⟩ := r
        obtain ⟨h1, _, _, _⟩ := applySimple_supply c s s1 gp gp1 t g1 U hn (hU t List.mem_cons_self) ha
        simp only []
        rw [ih s1 gp1 hb' hU', h1]
        omega

theorem votesByBalance_bal (c : Ctx) (start : Nat → Int) : ∀ (l : List Nat) (s : St) (x : Nat),
    ((votesByBalance c start s l).accts x).bal = (s.accts x).bal := by
  intro l
  induction l with
  | nil => intro s x; rfl
  | cons a as ih =>
    intro s x
    unfold votesByBalance
    simp only
    rw [ih]
    split
    · simp only [upd]
      split
      · rename_i hx; rw [hx]
      · rfl
    · rfl

theorem chargeForGas_sum (s : St) (miner : Nat) (f : Int) (U : List Nat) (hn : U.Nodup)
    (hinc : (s.accts miner).income ≠ 0) (hU : (s.accts miner).income ∈ U) :
    sumBal (chargeForGas s miner f) U = sumBal s U + f := by
  unfold chargeForGas
  by_cases hf : f = 0
  · simp [hf]
  · simp only [hf, if_false, hinc]
    rw [sumBal_setBal _ _ _ U hn hU]; omega

/-- the vote pass changes nobody's income address -/
theorem votesByBalance_income (c : Ctx) (start : Nat → Int) : ∀ (l : List Nat) (s : St) (x : Nat),
    ((votesByBalance c start s l).accts x).income = (s.accts x).income := by
  intro l
  induction l with
  | nil => intro s x; rfl
  | cons a as ih =>
    intro s x
    unfold votesByBalance
    simp only
    rw [ih]
    split
    · simp only [upd]
      split
      · rename_i hx; rw [hx]
      · rfl
    · rfl

/-- **finalize_supply**: `Finalize` moves the total of all balances by exactly what the block mints — the salaries
    of a reward block with a positive term reward (`minted`), nothing at any other height; in both orders of the
    vote pass (the pass never touches a balance). -/
theorem finalize_supply (c : Ctx) (start : Nat → Int) (s : St) (addrs U : List Nat) (hn : U.Nodup) (hp : c.p.pool ∈ U)
    (hrecv : ∀ n ∈ c.rf.nodes, incomeOf s n.1 ∈ U) (href : ∀ a ∈ c.rf.refunds, a ∈ U) :
    sumBal (finalize c start s addrs) U = sumBal s U + minted c := by
  unfold finalize
  split
  · rw [sumBal_congr _ _ (votesByBalance_bal c start addrs _) U, rewardSteps_sum c s U hn hp hrecv href]
  · rw [rewardSteps_sum c _ U hn hp ?_ href, sumBal_congr _ _ (votesByBalance_bal c start addrs _) U]
    intro n hn'
    have : incomeOf (votesByBalance c start s addrs) n.1 = incomeOf s n.1 := by
      unfold incomeOf; rw [votesByBalance_income]
    rw [this]; exact hrecv n hn'

/-- the income address of the miner's profile is not changed by mining when nobody re-registers the miner:
    we take it as the hypothesis `hinc'` on the post-mining state.
    **mineBlock_conserves_partial**: a box-free block mined by a deputy with an income address changes the total of
    all balances by exactly `minted c`: 0 outside reward blocks, the salaries paid in a reward block. -/
theorem mineBlock_conserves_partial (c : Ctx) (s : St) (gp : Nat) (txs : List Tx) (addrs U : List Nat) (hn : U.Nodup)
    (hb : BoxFree txs) (hU : ∀ t ∈ txs, ∀ a ∈ touches c t, a ∈ U)
    (hinc : ((mine c s gp txs).st.accts c.miner).income ≠ 0) (hincU : ((mine c s gp txs).st.accts c.miner).income ∈ U)
    (hp : c.p.pool ∈ U)
    (hrecv : ∀ n ∈ c.rf.nodes, incomeOf (chargeForGas (mine c s gp txs).st c.miner (mine c s gp txs).fee) n.1 ∈ U)
    (href : ∀ a ∈ c.rf.refunds, a ∈ U) :
    sumBal (mineBlock c s gp txs addrs).1 U = sumBal s U + minted c := by
  have hm := mine_supply_partial c U hn txs s gp hb hU
  unfold mineBlock
  simp only
  rw [finalize_supply c _ _ addrs U hn hp hrecv href, chargeForGas_sum _ _ _ U hn hinc hincU, hm]
  omega

/-- outside reward blocks nothing is minted -/
theorem minted_zero_of_not_reward (c : Ctx) (h : isRewardBlock c = false) : minted c = 0 := by
  unfold minted; simp [h]

/-- **minted_bounds**: 0 ≤ minted ≤ term reward; and in a reward block with a positive reward and a non-empty term
    record: term reward − n · precision < minted. -/
theorem minted_bounds (c : Ctx) (hp : 0 < c.p.rewardPrecision) (hv : ∀ n ∈ c.rf.nodes, 0 ≤ n.2) :
    0 ≤ minted c ∧ (0 ≤ c.rf.total → minted c ≤ c.rf.total) ∧
    (isRewardBlock c = true → c.rf.total > 0 → c.rf.nodes ≠ [] →
      c.rf.total - (c.rf.nodes.length : Int) * c.p.rewardPrecision < minted c) := by
  unfold minted
  refine ⟨?_, ?_, ?_⟩
  · split
    · rename_i h; exact salaryTotal_nonneg c.p hp _ (Int.le_of_lt h.2) _ hv
    · omega
  · intro ht
    split
    · exact salaryTotal_le_total c.p hp _ ht _ hv
    · exact ht
  · intro hr ht hne
    rw [if_pos ⟨hr, ht⟩]
    exact salaryTotal_gt c.p hp _ _ hne hv

/-! ### refutations of the full statement on the code as it stands (kernel-checked witnesses) -/

/-- accounts of the witnesses: 10 box sender, 11 sub-tx sender, 12 recipient, 3 miner with income address 4 -/
def w0 (minerIncome : Nat) : St :=
  { accts := fun a =>
      if a = 10 then { bal := 1000000 } else if a = 11 then { bal := 1000000 }
      else if a = 3 then { income := minerIncome } else {} }

def wSub : Tx :=
  { id := 2, sender := 11, payer := 11, gasLimit := 30000, gasPrice := 1, txType := 0, msgLen := 0, nzData := 0,
    zData := 0, kind := .transfer 12 5, fromSigners := some [11], payerSigners := some [] }

def wBox : Tx :=
  { id := 1, sender := 10, payer := 10, gasLimit := 50000, gasPrice := 1, txType := 10, msgLen := 0, nzData := 0,
    zData := 0, kind := .box, fromSigners := some [10], payerSigners := some [], subs := [wSub] }

def wCtx : Ctx := { p := {}, miner := 3, height := 7 }
def wU : List Nat := [1, 3, 4, 10, 11, 12]

/-- **box_mints**: one box with one 21000-gas transfer inside: the payers pay 40000 + 21000, the miner's income
    address receives 21000 + 61000 — 21000 mo are created; and the box reports gasUsed 61000 > gasLimit 50000. -/
theorem box_mints :
    sumBal (mineBlock wCtx (w0 4) 100000000 [wBox] wU).1 wU = sumBal (w0 4) wU + 21000 ∧
    (mineBlock wCtx (w0 4) 100000000 [wBox] wU).2.1 = [(1, 61000)] ∧ wBox.gasLimit = 50000 := by
  decide

/-- **fee_vanishes_without_income**: the same block without a box, mined by an account whose profile has no
    income address: the 21000 mo fee is destroyed. -/
theorem fee_vanishes_without_income :
    sumBal (mineBlock wCtx (w0 0) 100000000 [wSub] wU).1 wU = sumBal (w0 0) wU - 21000 := by
  decide

/-! ### reward blocks: the rounding remainder is never issued -/

/-- a reward height for TermDuration 10 / InterimDuration 2: 13. Term reward 10 (precision 1), three nodes with equal
    votes whose income addresses are 4, 6, 8; account 30 is an unregistered candidate whose deposit 1000 is refunded. -/
def rwCtx : Ctx :=
  { p := { voteRate := 200, depositRate := 100, minDeposit := 1000, termDuration := 10, interimDuration := 2, pool := 1,
           rewardPrecision := 1 },
    miner := 3, height := 13, rf := { total := 10, nodes := [(3, 1), (5, 1), (7, 1)], refunds := [30] } }
def rw0 : St :=
  { accts := fun a =>
      if a = 1 then { bal := 5000 } else if a = 3 then { income := 4 } else if a = 5 then { income := 6 }
      else if a = 7 then { income := 8 } else if a = 30 then { isCand := 2, deposit := some 1000, bal := 7 } else {} }
def rwU : List Nat := [1, 3, 4, 5, 6, 7, 8, 30]

/-- **reward_remainder_not_issued** (refutes "a reward block adds exactly the term reward"): reward 10 over three equal
    nodes pays 3 + 3 + 3; the total grows by 9, the remaining 1 is issued to nobody. The refund (pool −1000,
    candidate +1000, deposit entry cleared) does not change the total. -/
theorem reward_remainder_not_issued :
    isRewardBlock rwCtx = true ∧ minted rwCtx = 9 ∧ rwCtx.rf.total = 10 ∧
    sumBal (mineBlock rwCtx rw0 100000000 [] rwU).1 rwU = sumBal rw0 rwU + 9 ∧
    ((mineBlock rwCtx rw0 100000000 [] rwU).1.accts 4).bal = 3 ∧
    ((mineBlock rwCtx rw0 100000000 [] rwU).1.accts 1).bal = 4000 ∧
    ((mineBlock rwCtx rw0 100000000 [] rwU).1.accts 30).bal = 1007 ∧
    ((mineBlock rwCtx rw0 100000000 [] rwU).1.accts 30).deposit = none := by
  decide

/-! non-vacuity of the partial theorem's hypotheses -/
example : (∀ n ∈ rwCtx.rf.nodes, incomeOf rw0 n.1 ∈ rwU) ∧ (∀ a ∈ rwCtx.rf.refunds, a ∈ rwU) ∧ rwCtx.p.pool ∈ rwU ∧
    (∀ n ∈ rwCtx.rf.nodes, 0 ≤ n.2) ∧ 0 < rwCtx.p.rewardPrecision := by decide
example : BoxFree [wSub] ∧ (∀ t ∈ [wSub], ∀ a ∈ touches wCtx t, a ∈ wU) ∧ wU.Nodup := by
  refine ⟨?_, ?_, by decide⟩
  · intro t ht; simp at ht; subst ht; simp [wSub]
  · intro t ht a ha; simp at ht; subst ht; simp [touches, wSub, wCtx] at ha; rcases ha with rfl | rfl | rfl | rfl <;> decide
example : sumBal (mineBlock wCtx (w0 4) 100000000 [wSub] wU).1 wU = sumBal (w0 4) wU := by decide
example : minted wCtx = 0 := by decide

end LemoProofs.C05

/-
  C05 — LEMO is conserved; gas is charged exactly; balances never go negative.

  Model: `LemoModel.Ledger` (hand-written from tx_processor.go / candidate_vote_tx.go / box_tx.go /
  assembler.go; the base intrinsic-gas table and data-gas constants are REGENERATED from the Go source,
  `LemoGen.Gas`).  Tied by `hx c05`: the real engine's blocks (miner path + validator path) and the
  model agree on selected/discarded txs, every gasUsed and every balance, vote count and profile field
  of the account universe after every block — REWARD BLOCKS included (the scenario runs with short terms:
  term reward set through precompile 0x09, salaries, postponed deposit refunds).  EVM value flows are outside
  this model (C16).

  Full statement (kept visible): for every block, Σ balances' = Σ balances + (term reward, in a reward block),
  every included tx's payer is charged exactly gasUsed × gasPrice with gasUsed ≤ gasLimit, the miner's income
  address gets exactly Σ gasUsed × gasPrice.

  * reward blocks: `rewardSteps_sum` / `finalize_supply` (issueTermReward + refundCandidateDeposit move the
    total by exactly the salaries paid — refunds are pool → candidate and cancel out), `salaryTotal_le_total`
    and `salaryTotal_gt` (term reward − n·1 LEMO < Σ salaries ≤ term reward: what the two roundings of
    calculateSalary withhold is less than 1 LEMO per node and is NOT issued to anybody);
    "+ exactly the term reward" is therefore REFUTED as stated: `reward_remainder_not_issued`.

  * proved for all states and all txs: `applySimple_supply` (a non-box tx moves the total by exactly
    −gasUsed×price: the fee leaves the accounts until the miner is credited), `applySimple_gas`
    (gasUsed = intrinsic gas ≤ gasLimit), `mine_supply_partial` + `mineBlock_conserves_partial`
    (box-free blocks mined by a deputy with an income address conserve the total exactly).
  * per account: `payer_charged`, `value_moves_on_success`, `not_included_free`, `miner_income`.
  * boxes, exactly: `applyTx_box_supply`, `mine_supply_exact`, `mineBlock_supply_exact` (mint = Σ subGas × boxPrice).
  * no negative balance: `balances_never_negative` (invariant `LedgerNonNeg.Inv` kept by admitted txs, whole candidate
    lists and Finalize); outside that domain the total `setBal` goes negative exactly where Go panics
    (`drained_pool_refund_is_a_go_panic`).
  * EVM value flows / reverts / self-destruct: not in THIS model — see `LemoModel.EvmValue` / `LemoProofs.C05Evm` (frame trees; `evmv` lines of `hx c05`).
  * REFUTED on the code as it stands (kernel-checked witnesses, known findings):
    `box_mints` (a non-empty box pays its sub-txs' gas to the miner twice and reports gasUsed > gasLimit),
    `fee_vanishes_without_income` (chargeForGas silently drops the fee).
-/
import LemoProofs.Lemmas.LedgerSum
import LemoProofs.Lemmas.LedgerReward
import LemoProofs.Lemmas.LedgerFrame
import LemoProofs.Lemmas.LedgerNonNeg
namespace LemoProofs.C05
open LemoModel.Ledger LemoProofs.LedgerSum LemoProofs.LedgerReward LemoProofs.LedgerFrame LemoProofs.LedgerNonNeg

/-- the addresses a non-box tx may touch -/
def touches (c : Ctx) (tx : Tx) : List Nat :=
  tx.sender :: tx.payer :: c.p.pool ::
    (match tx.kind with
     | .transfer to _ => [to]
     | _ => [])

theorem doVote_sum (c : Ctx) (s s' : St) (v cand : Nat) (ib : Int) (U : List Nat)
    (h : doVote c s v cand ib = .ok s') : sumBal s' U = sumBal s U := by
  unfold doVote at h
  simp only at h
  split at h; · cases h
  split at h; · cases h
  injection h with h; subst h
  rw [sumBal_modAcct _ _ _ (by intro _; rfl)]
  split
  · rfl
  · rw [sumBal_modAcct _ _ _ (by intro _; rfl)]
    split
    · rw [sumBal_modAcct _ _ _ (by intro _; rfl)]
    · rfl

theorem doSetSigners_sum (s s' : St) (fr tg : Nat) (l : List (Nat × Nat)) (tok : Bool) (U : List Nat)
    (h : doSetSigners s fr tg l tok = .ok s') : sumBal s' U = sumBal s U := by
  unfold doSetSigners at h
  split at h; · cases h
  split at h; · cases h
  split at h; · cases h
  split at h; · cases h
  split at h; · cases h
  split at h; · cases h
  injection h with h; subst h
  exact sumBal_modAcct _ _ _ (by intro _; rfl) U

theorem doRegister_sum (c : Ctx) (s s' : St) (fr : Nat) (amt : Int) (flag : Nat) (inc : Nat) (nd : Bool) (px : TxProfile) (U : List Nat)
    (hn : U.Nodup) (hf : fr ∈ U) (hp : c.p.pool ∈ U)
    (h : doRegister c s fr amt flag inc nd px = .ok s') : sumBal s' U = sumBal s U := by
  unfold doRegister at h
  simp only [depositAfterOverlay_true] at h
  split at h; · cases h
  split at h
  · -- first registration
    split at h; · cases h
    split at h; · cases h
    split at h; · cases h
    injection h with h; subst h
    rw [sumBal_modAcct _ _ _ (by intro _; rfl), sumBal_transfer _ _ _ _ U hn hf hp, sumBal_modAcct _ _ _ (by intro _; rfl)]
  · split at h; · cases h
    split at h; · cases h
    split at h
    · -- unregister
      split at h
      · injection h with h; subst h
        exact sumBal_modAcct _ _ _ (by intro _; rfl) U
      · split at h
        · injection h with h; subst h
          exact sumBal_modAcct _ _ _ (by intro _; rfl) U
        · injection h with h; subst h
          rw [refund_sum c (modAcct s fr (fun a => { a with isCand := 2, votes := 0 })) fr U hn hf hp,
              sumBal_modAcct _ _ _ (by intro _; rfl)]
    · -- modify
      split at h
      · split at h; · cases h
        split at h; · cases h
        injection h with h; subst h
        rw [sumBal_modAcct _ _ _ (by intro _; rfl), sumBal_transfer _ _ _ _ U hn hf hp]
      · injection h with h; subst h
        exact sumBal_modAcct _ _ _ (by intro _; rfl) U

/-- what the body of a non-box tx does to the total -/
theorem body_sum (c : Ctx) (s s' : St) (tx : Tx) (ib : Int) (U : List Nat) (hn : U.Nodup)
    (hU : ∀ a ∈ touches c tx, a ∈ U) (h : body c s tx ib = .ok s') : sumBal s' U = sumBal s U := by
  have hs : tx.sender ∈ U := hU _ (by simp [touches])
  have hp : c.p.pool ∈ U := hU _ (by simp [touches])
  unfold body at h
  cases hk : tx.kind with
  | transfer to v =>
    simp only [hk] at h
    have ht : to ∈ U := hU _ (by simp [touches, hk])
    split at h; · cases h
    split at h
    · injection h with h; subst h; rfl
    · injection h with h; subst h; exact sumBal_transfer _ _ _ _ U hn hs ht
  | vote cand => simp only [hk] at h; exact doVote_sum c s s' _ _ _ U h
  | register amt flag inc nd px => simp only [hk] at h; exact doRegister_sum c s s' _ _ _ _ _ _ U hn hs hp h
  | setSigners tg l tok => simp only [hk] at h; exact doSetSigners_sum s s' _ _ _ _ U h
  | box => simp [hk] at h
  | other => simp [hk] at h

/-- **applySimple_supply / applySimple_gas**: an included non-box tx
    * reports gasUsed = its intrinsic gas, which is ≤ gasLimit,
    * moves the total of all balances by exactly −gasUsed × gasPrice (the payer's net debit; everything
      else — value, deposit, refund — is a transfer between accounts),
    * takes exactly gasUsed out of the block's gas pool. -/
theorem applySimple_supply (c : Ctx) (s s' : St) (gp gp' : Nat) (tx : Tx) (g : Nat) (U : List Nat) (hn : U.Nodup)
    (hU : ∀ a ∈ touches c tx, a ∈ U) (h : applySimple c s gp tx = .ok (s', gp', g)) :
    sumBal s' U = sumBal s U - (g : Int) * tx.gasPrice ∧ g ≤ tx.gasLimit ∧ intrinsic tx = some g ∧
    gp' + g = gp := by
  have hpy : tx.payer ∈ U := hU _ (by simp [touches])
  unfold applySimple at h
  simp only at h
  split at h; · cases h
  split at h; · cases h
  split at h; · cases h
  rename_i hgp
  split at h; · cases h
  rename_i ig hig
  split at h; · cases h
  rename_i hgl
  split at h; · cases h
  rename_i sb hb
  injection h with h
  injection h with h1 h2
  injection h2 with h2 h3
  subst h1 h2 h3
  have b1 := body_sum c _ sb tx _ U hn hU hb
  refine ⟨?_, by omega, ?_, by omega⟩
  · rw [sumBal_setBal _ tx.payer _ U hn hpy, b1, sumBal_setBal _ tx.payer _ U hn hpy]
    have hsub : tx.gasLimit - (tx.gasLimit - ig) = ig := by omega
    rw [hsub]
    have hcast : ((tx.gasLimit - ig : Nat) : Int) = (tx.gasLimit : Int) - (ig : Int) := by omega
    rw [hcast]
    have : ((tx.gasLimit : Int) - (ig : Int)) * tx.gasPrice = (tx.gasLimit : Int) * tx.gasPrice - (ig : Int) * tx.gasPrice := by
      rw [Int.sub_mul]
    omega
  · rw [hig]; congr 1; omega

/-! ### per-account statements -/

/-- **payer_charged**: the account debited for the gas of an included non-box tx is the GAS PAYER, by exactly
    gasUsed × gasPrice — stated for a payer whose balance the body does not touch (it is not the sender, the deposit pool
    or the recipient; for a self-paid transfer see `value_moves_on_success`) — and nobody else's balance changes except
    through the body. -/
theorem payer_charged (c : Ctx) (s s' : St) (gp gp' g : Nat) (tx : Tx) (h : applySimple c s gp tx = .ok (s', gp', g))
    (hp : tx.payer ∉ bodyTouches c tx) :
    (s'.accts tx.payer).bal = (s.accts tx.payer).bal - (g : Int) * tx.gasPrice ∧
    (∀ x, x ≠ tx.payer → x ∉ bodyTouches c tx → (s'.accts x).bal = (s.accts x).bal) := by
  obtain ⟨sb, hb, hs', _, _⟩ := applySimple_shape c s s' gp gp' g tx h
  subst hs'
  constructor
  · rw [setBal_bal, if_pos rfl, body_bal_other c _ sb tx _ hb _ hp, setBal_bal, if_pos rfl, Int.sub_mul]
    omega
  · intro x hx hxt
    rw [setBal_bal, if_neg hx, body_bal_other c _ sb tx _ hb _ hxt, setBal_bal, if_neg hx]

/-- **value_moves_on_success**: an included transfer of `v` from the sender to another account `to` moves exactly `v`:
    the recipient gains `v`, the sender loses `v`; whoever of the two is the gas payer additionally pays gasUsed × gasPrice.
    (A transfer that is NOT included moves nothing: `not_included_free`.) -/
theorem value_moves_on_success (c : Ctx) (s s' : St) (gp gp' g : Nat) (tx : Tx) (to : Nat) (v : Int)
    (hk : tx.kind = .transfer to v) (hne : tx.sender ≠ to) (h : applySimple c s gp tx = .ok (s', gp', g)) :
    (s'.accts to).bal = (s.accts to).bal + v - (if to = tx.payer then (g : Int) * tx.gasPrice else 0) ∧
    (s'.accts tx.sender).bal = (s.accts tx.sender).bal - v - (if tx.sender = tx.payer then (g : Int) * tx.gasPrice else 0) := by
  obtain ⟨sb, hb, hs', _, _⟩ := applySimple_shape c s s' gp gp' g tx h
  subst hs'
  unfold body at hb
  simp only [hk] at hb
  split at hb; · cases hb
  have hmul : ((tx.gasLimit : Int) - (g : Int)) * tx.gasPrice = (tx.gasLimit : Int) * tx.gasPrice - (g : Int) * tx.gasPrice :=
    Int.sub_mul _ _ _
  have hne' : to ≠ tx.sender := fun e => hne e.symm
  -- the balances after the body, in terms of the state after the gas purchase
  have hsb : (sb.accts to).bal = ((setBal s tx.payer ((s.accts tx.payer).bal - (tx.gasLimit : Int) * tx.gasPrice)).accts to).bal + v ∧
      (sb.accts tx.sender).bal = ((setBal s tx.payer ((s.accts tx.payer).bal - (tx.gasLimit : Int) * tx.gasPrice)).accts tx.sender).bal - v := by
    split at hb
    · rename_i hv0
      injection hb with hb; subst hb
      constructor <;> omega
    · injection hb with hb; subst hb
      unfold transfer
      simp only
      constructor
      · rw [setBal_bal, if_pos rfl, setBal_bal, if_neg hne']
      · rw [setBal_bal, if_neg hne, setBal_bal, if_pos rfl]
  have h1 := hsb.1
  have h2 := hsb.2
  rw [setBal_bal] at h1 h2
  constructor
  · rw [setBal_bal]
    by_cases e : to = tx.payer
    · rw [if_pos e] at h1
      rw [if_pos e, if_pos e, ← e, h1, hmul, e]; omega
    · rw [if_neg e] at h1
      rw [if_neg e, if_neg e, h1]; omega
  · rw [setBal_bal]
    by_cases e : tx.sender = tx.payer
    · rw [if_pos e] at h2
      rw [if_pos e, if_pos e, ← e, h2, hmul, e]; omega
    · rw [if_neg e] at h2
      rw [if_neg e, if_neg e, h2]; omega

/-- **not_included_free**: a candidate the miner could not execute costs nobody anything: the rest of the block is mined
    from exactly the state before it (only the block's gas pool may have shrunk), it is not selected and adds no fee. -/
theorem not_included_free (c : Ctx) (s : St) (gp gp' : Nat) (t : Tx) (ts : List Tx) (e : Err)
    (hg : ¬ gp < LemoGen.Gas.OrdinaryTxGas) (h : applyTx c s gp t = .error (e, gp')) :
    (mine c s gp (t :: ts)).st = (mine c s gp' ts).st ∧ (mine c s gp (t :: ts)).fee = (mine c s gp' ts).fee ∧
    (mine c s gp (t :: ts)).sel = (mine c s gp' ts).sel ∧ mineSel c s gp (t :: ts) = mineSel c s gp' ts := by
  simp [mine, mineSel, hg, h]

/-- **miner_income**: `chargeForGas` credits exactly the fee total to the income address of the miner's profile, and
    touches nobody else. (Without an income address: `fee_vanishes_without_income`.) -/
theorem miner_income (s : St) (m : Nat) (f : Int) (hinc : (s.accts m).income ≠ 0) :
    ((chargeForGas s m f).accts (s.accts m).income).bal = (s.accts (s.accts m).income).bal + f ∧
    (∀ x, x ≠ (s.accts m).income → ((chargeForGas s m f).accts x).bal = (s.accts x).bal) := by
  unfold chargeForGas
  by_cases hf : f = 0
  · simp [hf]
  · simp only [hf, if_false, hinc]
    constructor
    · rw [setBal_bal, if_pos rfl]
    · intro x hx; rw [setBal_bal, if_neg hx]

/-! ### whole blocks -/

def BoxFree (txs : List Tx) : Prop := ∀ t ∈ txs, t.kind ≠ .box

theorem applyTx_nonbox (c : Ctx) (s : St) (gp : Nat) (t : Tx) (h : t.kind ≠ .box) : applyTx c s gp t = applySimple c s gp t := by
  unfold applyTx
  split
  · rename_i hk; exact absurd hk h
  · rfl

/-- **mine_supply_partial**: over a box-free candidate list (any mix of valid and failing txs, any gas pool)
    the miner path moves the total by exactly minus the fees it reports. -/
theorem mine_supply_partial (c : Ctx) (U : List Nat) (hn : U.Nodup) : ∀ (txs : List Tx) (s : St) (gp : Nat),
    BoxFree txs → (∀ t ∈ txs, ∀ a ∈ touches c t, a ∈ U) →
    sumBal (mine c s gp txs).st U = sumBal s U - (mine c s gp txs).fee := by
  intro txs
  induction txs with
  | nil => intro s gp _ _; simp [mine]
  | cons t ts ih =>
    intro s gp hb hU
    have hb' : BoxFree ts := fun x hx => hb x (List.mem_cons_of_mem _ hx)
    have hU' : ∀ x ∈ ts, ∀ a ∈ touches c x, a ∈ U := fun x hx => hU x (List.mem_cons_of_mem _ hx)
    unfold mine
    by_cases hg : gp < LemoGen.Gas.OrdinaryTxGas
    · simp [hg]
    · simp only [hg, if_false]
      rw [applyTx_nonbox c s gp t (hb t List.mem_cons_self)]
      cases ha : applySimple c s gp t with
      | error e =>
        obtain ⟨e, gp'⟩ := e
        simp only []
        exact ih s gp' hb' hU'
      | ok r =>
        obtain ⟨s1, gp1, g1⟩ := r
        obtain ⟨h1, _, _, _⟩ := applySimple_supply c s s1 gp gp1 t g1 U hn (hU t List.mem_cons_self) ha
        simp only []
        rw [ih s1 gp1 hb' hU', h1]
        omega

theorem votesByBalance_bal (c : Ctx) (start : Nat → Int) : ∀ (l : List Nat) (s : St) (x : Nat),
    ((votesByBalance c start s l).accts x).bal = (s.accts x).bal := by
  intro l
  induction l with
  | nil => intro s x; rfl
  | cons a as ih =>
    intro s x
    unfold votesByBalance
    simp only
    rw [ih]
    split
    · simp only [upd]
      split
      · rename_i hx; rw [hx]
      · rfl
    · rfl

theorem chargeForGas_sum (s : St) (miner : Nat) (f : Int) (U : List Nat) (hn : U.Nodup)
    (hinc : (s.accts miner).income ≠ 0) (hU : (s.accts miner).income ∈ U) :
    sumBal (chargeForGas s miner f) U = sumBal s U + f := by
  unfold chargeForGas
  by_cases hf : f = 0
  · simp [hf]
  · simp only [hf, if_false, hinc]
    rw [sumBal_setBal _ _ _ U hn hU]; omega

/-- the vote pass changes nobody's income address -/
theorem votesByBalance_income (c : Ctx) (start : Nat → Int) : ∀ (l : List Nat) (s : St) (x : Nat),
    ((votesByBalance c start s l).accts x).income = (s.accts x).income := by
  intro l
  induction l with
  | nil => intro s x; rfl
  | cons a as ih =>
    intro s x
    unfold votesByBalance
    simp only
    rw [ih]
    split
    · simp only [upd]
      split
      · rename_i hx; rw [hx]
      · rfl
    · rfl

/-- **finalize_supply**: `Finalize` moves the total of all balances by exactly what the block mints — the salaries
    of a reward block with a positive term reward (`minted`), nothing at any other height; in both orders of the
    vote pass (the pass never touches a balance). -/
theorem finalize_supply (c : Ctx) (start : Nat → Int) (s : St) (addrs U : List Nat) (hn : U.Nodup) (hp : c.p.pool ∈ U)
    (hrecv : ∀ n ∈ c.rf.nodes, incomeOf s n.1 ∈ U) (href : ∀ a ∈ c.rf.refunds, a ∈ U) :
    sumBal (finalize c start s addrs) U = sumBal s U + minted c := by
  unfold finalize
  split
  · rw [sumBal_congr _ _ (votesByBalance_bal c start addrs _) U, rewardSteps_sum c s U hn hp hrecv href]
  · rw [rewardSteps_sum c _ U hn hp ?_ href, sumBal_congr _ _ (votesByBalance_bal c start addrs _) U]
    intro n hn'
    have : incomeOf (votesByBalance c start s addrs) n.1 = incomeOf s n.1 := by
      unfold incomeOf; rw [votesByBalance_income]
    rw [this]; exact hrecv n hn'

/-- the income address of the miner's profile is not changed by mining when nobody re-registers the miner:
    we take it as the hypothesis `hinc'` on the post-mining state.
    **mineBlock_conserves_partial**: a box-free block mined by a deputy with an income address changes the total of
    all balances by exactly `minted c`: 0 outside reward blocks, the salaries paid in a reward block. -/
theorem mineBlock_conserves_partial (c : Ctx) (s : St) (gp : Nat) (txs : List Tx) (addrs U : List Nat) (hn : U.Nodup)
    (hb : BoxFree txs) (hU : ∀ t ∈ txs, ∀ a ∈ touches c t, a ∈ U)
    (hinc : ((mine c s gp txs).st.accts c.miner).income ≠ 0) (hincU : ((mine c s gp txs).st.accts c.miner).income ∈ U)
    (hp : c.p.pool ∈ U)
    (hrecv : ∀ n ∈ c.rf.nodes, incomeOf (chargeForGas (mine c s gp txs).st c.miner (mine c s gp txs).fee) n.1 ∈ U)
    (href : ∀ a ∈ c.rf.refunds, a ∈ U) :
    sumBal (mineBlock c s gp txs addrs).1 U = sumBal s U + minted c := by
  have hm := mine_supply_partial c U hn txs s gp hb hU
  unfold mineBlock
  simp only
  rw [finalize_supply c _ _ addrs U hn hp hrecv href, chargeForGas_sum _ _ _ U hn hinc hincU, hm]
  omega

/-- outside reward blocks nothing is minted -/
theorem minted_zero_of_not_reward (c : Ctx) (h : isRewardBlock c = false) : minted c = 0 := by
  unfold minted; simp [h]

/-- **minted_bounds**: 0 ≤ minted ≤ term reward; and in a reward block with a positive reward and a non-empty term
    record: term reward − n · precision < minted. -/
theorem minted_bounds (c : Ctx) (hp : 0 < c.p.rewardPrecision) (hv : ∀ n ∈ c.rf.nodes, 0 ≤ n.2) :
    0 ≤ minted c ∧ (0 ≤ c.rf.total → minted c ≤ c.rf.total) ∧
    (isRewardBlock c = true → c.rf.total > 0 → c.rf.nodes ≠ [] →
      c.rf.total - (c.rf.nodes.length : Int) * c.p.rewardPrecision < minted c) := by
  unfold minted
  refine ⟨?_, ?_, ?_⟩
  · split
    · rename_i h; exact salaryTotal_nonneg c.p hp _ (Int.le_of_lt h.2) _ hv
    · omega
  · intro ht
    split
    · exact salaryTotal_le_total c.p hp _ ht _ hv
    · exact ht
  · intro hr ht hne
    rw [if_pos ⟨hr, ht⟩]
    exact salaryTotal_gt c.p hp _ _ hne hv

/-! ### boxes: the mint, exactly -/

/-- neither the tx nor one of its sub-txs is SENT by account `m` (so `m`'s income address cannot change) -/
def NotSentBy (m : Nat) (tx : Tx) : Prop := tx.sender ≠ m ∧ ∀ t ∈ tx.subs, t.sender ≠ m

theorem applySubs_supply (c : Ctx) (U : List Nat) (hn : U.Nodup) (m : Nat) : ∀ (ts : List Tx) (s s' : St) (gp gp' g : Nat) (f : Int),
    (∀ t ∈ ts, ∀ a ∈ touches c t, a ∈ U) → (∀ t ∈ ts, t.sender ≠ m) → applySubs c s gp ts = .ok (s', gp', g, f) →
    sumBal s' U = sumBal s U - f ∧ (s'.accts m).income = (s.accts m).income := by
  intro ts
  induction ts with
  | nil =>
    intro s s' gp gp' g f _ _ h
    simp only [applySubs] at h
    injection h with h; injection h with h1 h2; injection h2 with _ h3; injection h3 with _ h4
    subst h1 h4; exact ⟨by omega, rfl⟩
  | cons t ts ih =>
    intro s s' gp gp' g f hU hm h
    simp only [applySubs] at h
    cases h1 : applySimple c s gp t with
    | error e => simp [h1] at h
    | ok r =>
      obtain ⟨s1, gp1, g1⟩ := r
      simp only [h1] at h
      cases h2 : applySubs c s1 gp1 ts with
      | error e => simp [h2] at h
      | ok r2 =>
        obtain ⟨s2, gp2, g2, f2⟩ := r2
        simp only [h2] at h
        obtain ⟨i1, i2⟩ := ih s1 s2 gp1 gp2 g2 f2 (fun x hx => hU x (List.mem_cons_of_mem _ hx))
          (fun x hx => hm x (List.mem_cons_of_mem _ hx)) h2
        obtain ⟨e1, _, _, _⟩ := applySimple_supply c s s1 gp gp1 t g1 U hn (hU t List.mem_cons_self) h1
        have e2 := applySimple_income_other c s s1 gp gp1 g1 t h1 m (Ne.symm (hm t List.mem_cons_self))
        injection h with h; injection h with a1 a2; injection a2 with _ a3; injection a3 with _ a4
        subst a1 a4
        exact ⟨by rw [i1, e1]; omega, by rw [i2, e2]⟩

/-- the gas of the sub-txs of a box, as `RunBoxTxs` reports it for the box executed in state `s` with gas pool `gp` -/
def subGasOf (c : Ctx) (s : St) (gp : Nat) (tx : Tx) : Nat :=
  match tx.kind with
  | .box =>
    (match applySubs c (setBal s tx.payer ((s.accts tx.payer).bal - (tx.gasLimit : Int) * tx.gasPrice)) (gp - tx.gasLimit) tx.subs with
     | .ok (_, _, sg, _) => sg
     | .error _ => 0)
  | _ => 0

/-- **applyTx_box_supply** (the known finding c05/supply-changed/box-subtx-fee-paid-twice, characterised exactly): an included
    box moves the total of all balances by −gasUsed × gasPrice PLUS subGas × gasPrice, where subGas is the gas of its
    sub-txs: RunBoxTxs has already paid the sub-txs' fees to the miner and the caller reports them again inside the
    box's gasUsed, which the block then charges to nobody but credits to the miner at the BOX's price. Per box the block
    mints exactly subGas × boxPrice (`mine_supply_exact`); gasUsed = own intrinsic gas + subGas. -/
theorem applyTx_box_supply (c : Ctx) (s s' : St) (gp gp' g : Nat) (tx : Tx) (U : List Nat) (hn : U.Nodup)
    (hk : tx.kind = .box) (hpU : tx.payer ∈ U) (hU : ∀ t ∈ tx.subs, ∀ a ∈ touches c t, a ∈ U)
    (hm : ∀ t ∈ tx.subs, t.sender ≠ c.miner)
    (hinc : (s.accts c.miner).income ≠ 0) (hincU : (s.accts c.miner).income ∈ U)
    (h : applyTx c s gp tx = .ok (s', gp', g)) :
    sumBal s' U = sumBal s U - (g : Int) * tx.gasPrice + (subGasOf c s gp tx : Int) * tx.gasPrice ∧
    subGasOf c s gp tx ≤ g ∧ (∃ ig, intrinsic tx = some ig ∧ g = ig + subGasOf c s gp tx) ∧
    (s'.accts c.miner).income = (s.accts c.miner).income := by
  unfold applyTx at h
  simp only [hk] at h
  split at h; · cases h
  split at h; · cases h
  split at h; · cases h
  split at h; · cases h
  rename_i ig hig
  split at h; · cases h
  rename_i hgl
  split at h; · cases h
  rename_i s2 gp2 sg sf hsub
  injection h with h
  injection h with h1 h2
  injection h2 with _ h3
  subst h1 h3
  have hsg : subGasOf c s gp tx = sg := by unfold subGasOf; simp only [hk, hsub]
  obtain ⟨e1, e2⟩ := applySubs_supply c U hn c.miner tx.subs _ s2 _ gp2 sg sf hU hm hsub
  rw [setBal_income] at e2
  have hinc2 : (s2.accts c.miner).income ≠ 0 := by rw [e2]; exact hinc
  have hincU2 : (s2.accts c.miner).income ∈ U := by rw [e2]; exact hincU
  have hgl' : ig ≤ tx.gasLimit := by omega
  have hcast : ((tx.gasLimit - (tx.gasLimit - ig) + sg : Nat) : Int) = (ig : Int) + (sg : Int) := by omega
  have hrest : ((tx.gasLimit - ig : Nat) : Int) = (tx.gasLimit : Int) - (ig : Int) := by omega
  refine ⟨?_, by rw [hsg]; omega, ⟨ig, hig, by rw [hsg]; omega⟩, ?_⟩
  · rw [hsg, sumBal_setBal _ tx.payer _ U hn hpU, chargeForGas_sum _ _ _ U hn hinc2 hincU2, e1,
      sumBal_setBal s tx.payer _ U hn hpU, hcast, hrest, Int.add_mul, Int.sub_mul]
    omega
  · rw [setBal_income, (chargeForGas_sameButBal _ _ _ _).1.2.2.2.1, e2]

/-- what the boxes of a candidate list mint: Σ over the INCLUDED boxes of subGas × the box's gas price -/
def boxMint (c : Ctx) : St → Nat → List Tx → Int
  | _, _, [] => 0
  | s, gp, t :: ts =>
    if gp < LemoGen.Gas.OrdinaryTxGas then 0
    else
    match applyTx c s gp t with
    | .error (_, gp') => boxMint c s gp' ts
    | .ok (s1, gp1, _) => (subGasOf c s gp t : Int) * t.gasPrice + boxMint c s1 gp1 ts

theorem subGasOf_nonbox (c : Ctx) (s : St) (gp : Nat) (t : Tx) (h : t.kind ≠ .box) : subGasOf c s gp t = 0 := by
  unfold subGasOf
  split
  · rename_i hk; exact absurd hk h
  · rfl

theorem boxMint_boxFree (c : Ctx) : ∀ (txs : List Tx) (s : St) (gp : Nat), BoxFree txs → boxMint c s gp txs = 0 := by
  intro txs
  induction txs with
  | nil => intro s gp _; rfl
  | cons t ts ih =>
    intro s gp hb
    have hb' : BoxFree ts := fun x hx => hb x (List.mem_cons_of_mem _ hx)
    unfold boxMint
    split
    · rfl
    · split
      · exact ih _ _ hb'
      · rw [subGasOf_nonbox c s gp t (hb t List.mem_cons_self), ih _ _ hb']; simp

/-- **mine_supply_exact**: for ANY candidate list (boxes included) mined by a deputy whose profile has an income address
    in U and who sends none of the candidates itself: the miner path moves the total by exactly minus the fees it reports
    plus `boxMint` — 0 without boxes, Σ subGas × boxPrice with them. -/
theorem mine_supply_exact (c : Ctx) (U : List Nat) (hn : U.Nodup) : ∀ (txs : List Tx) (s : St) (gp : Nat),
    (∀ t ∈ txs, (∀ a ∈ touches c t, a ∈ U) ∧ (∀ st ∈ t.subs, ∀ a ∈ touches c st, a ∈ U) ∧ NotSentBy c.miner t) →
    (s.accts c.miner).income ≠ 0 → (s.accts c.miner).income ∈ U →
    sumBal (mine c s gp txs).st U = sumBal s U - (mine c s gp txs).fee + boxMint c s gp txs ∧
    ((mine c s gp txs).st.accts c.miner).income = (s.accts c.miner).income := by
  intro txs
  induction txs with
  | nil => intro s gp _ _ _; simp [mine, boxMint]
  | cons t ts ih =>
    intro s gp hall hinc hincU
    have hall' := fun x hx => hall x (List.mem_cons_of_mem _ hx)
    obtain ⟨hU, hUs, hns, hnsub⟩ := hall t List.mem_cons_self
    unfold mine boxMint
    by_cases hg : gp < LemoGen.Gas.OrdinaryTxGas
    · simp [hg]
    · simp only [hg, if_false]
      cases ha : applyTx c s gp t with
      | error e =>
        obtain ⟨e, gp'⟩ := e
        simp only []
        exact ih s gp' hall' hinc hincU
      | ok r =>
        obtain ⟨s1, gp1, g1⟩ := r
        simp only []
        have hstep : sumBal s1 U = sumBal s U - (g1 : Int) * t.gasPrice + (subGasOf c s gp t : Int) * t.gasPrice ∧
            (s1.accts c.miner).income = (s.accts c.miner).income := by
          by_cases hk : t.kind = .box
          · obtain ⟨e1, _, _, e4⟩ := applyTx_box_supply c s s1 gp gp1 g1 t U hn hk (hU _ (by simp [touches])) hUs hnsub hinc hincU ha
            exact ⟨e1, e4⟩
          · rw [applyTx_nonbox c s gp t hk] at ha
            obtain ⟨e1, _, _, _⟩ := applySimple_supply c s s1 gp gp1 t g1 U hn hU ha
            rw [subGasOf_nonbox c s gp t hk]
            exact ⟨by rw [e1]; simp, applySimple_income_other c s s1 gp gp1 g1 t ha c.miner (Ne.symm hns)⟩
        obtain ⟨i1, i2⟩ := ih s1 gp1 hall' (by rw [hstep.2]; exact hinc) (by rw [hstep.2]; exact hincU)
        exact ⟨by rw [i1, hstep.1]; omega, by rw [i2, hstep.2]⟩

/-- **mineBlock_supply_exact**: whole blocks with boxes: Σ balances' = Σ balances + minted (reward block) + boxMint. -/
theorem mineBlock_supply_exact (c : Ctx) (s : St) (gp : Nat) (txs : List Tx) (addrs U : List Nat) (hn : U.Nodup)
    (hall : ∀ t ∈ txs, (∀ a ∈ touches c t, a ∈ U) ∧ (∀ st ∈ t.subs, ∀ a ∈ touches c st, a ∈ U) ∧ NotSentBy c.miner t)
    (hinc : (s.accts c.miner).income ≠ 0) (hincU : (s.accts c.miner).income ∈ U) (hp : c.p.pool ∈ U)
    (hrecv : ∀ n ∈ c.rf.nodes, incomeOf (chargeForGas (mine c s gp txs).st c.miner (mine c s gp txs).fee) n.1 ∈ U)
    (href : ∀ a ∈ c.rf.refunds, a ∈ U) :
    sumBal (mineBlock c s gp txs addrs).1 U = sumBal s U + minted c + boxMint c s gp txs := by
  obtain ⟨hm, hi⟩ := mine_supply_exact c U hn txs s gp hall hinc hincU
  unfold mineBlock
  simp only
  rw [finalize_supply c _ _ addrs U hn hp hrecv href,
    chargeForGas_sum _ _ _ U hn (by rw [hi]; exact hinc) (by rw [hi]; exact hincU), hm]
  omega

/-! ### balances never go negative -/

/-- **balances_never_negative**: the ledger invariant `Inv` (all balances ≥ 0, recorded deposits ≥ 0 and only inside U,
    Σ recorded deposits ≤ deposit pool) is kept by every block built from transactions the pool admits (`TxWf`: gas price,
    value and deposit amount non-negative — guaranteed by VerifyTxBody / the RLP decoder —, sender and payer are not the
    keyless deposit pool, senders are in U) with reward facts `RewardWf` (precision > 0, no negative votes in a term
    record, refunds name accounts of U other than the pool): in particular NO balance is negative after the block.
    The model's `setBal` is total where Go's SetBalance / Refund panic: under these guards it is never used outside
    Go's domain (`LedgerNonNeg.mineBlock_inv` and the per-step lemmas `applyTx_inv`, `mine_inv`, `finalize_inv`). -/
theorem balances_never_negative (c : Ctx) (U : List Nat) (hn : U.Nodup) (s : St) (gp : Nat) (txs : List Tx) (addrs : List Nat)
    (hI : Inv c.p.pool U s) (hw : ∀ t ∈ txs, TxWf c.p.pool U t) (hr : RewardWf c U) :
    (∀ a, 0 ≤ ((mineBlock c s gp txs addrs).1.accts a).bal) ∧ Inv c.p.pool U (mineBlock c s gp txs addrs).1 :=
  ⟨(mineBlock_inv c U hn s gp txs addrs hI hw hr).bal, mineBlock_inv c U hn s gp txs addrs hI hw hr⟩

/-- the guard is needed, and it is exactly Go's panic: `Refund` out of a pool that does not cover the recorded deposit
    drives the MODEL's pool balance negative — and `refundPanics` (Go: "The balance of candidate deposit pool account is
    insufficient") is true for that very step. -/
def drained : St := { accts := fun a => if a = 1 then { bal := 500 } else if a = 30 then { isCand := 2, deposit := some 2000 } else {} }
def drainedCtx : Ctx := { p := { pool := 1 }, miner := 3, height := 7 }
theorem drained_pool_refund_is_a_go_panic :
    ((refund drainedCtx drained 30).accts 1).bal = -1500 ∧ refundPanics drainedCtx drained [30] = true := by
  decide

/-! ### refutations of the full statement on the code as it stands (kernel-checked witnesses) -/

/-- accounts of the witnesses: 10 box sender, 11 sub-tx sender, 12 recipient, 3 miner with income address 4 -/
def w0 (minerIncome : Nat) : St :=
  { accts := fun a =>
      if a = 10 then { bal := 1000000 } else if a = 11 then { bal := 1000000 }
      else if a = 3 then { income := minerIncome } else {} }

def wSub : Tx :=
  { id := 2, sender := 11, payer := 11, gasLimit := 30000, gasPrice := 1, txType := 0, msgLen := 0, nzData := 0,
    zData := 0, kind := .transfer 12 5, fromSigners := some [11], payerSigners := some [] }

def wBox : Tx :=
  { id := 1, sender := 10, payer := 10, gasLimit := 50000, gasPrice := 1, txType := 10, msgLen := 0, nzData := 0,
    zData := 0, kind := .box, fromSigners := some [10], payerSigners := some [], subs := [wSub] }

def wCtx : Ctx := { p := {}, miner := 3, height := 7 }
def wU : List Nat := [1, 3, 4, 10, 11, 12]

/-- **box_mints**: one box with one 21000-gas transfer inside: the payers pay 40000 + 21000, the miner's income
    address receives 21000 + 61000 — 21000 mo are created; and the box reports gasUsed 61000 > gasLimit 50000. -/
theorem box_mints :
    sumBal (mineBlock wCtx (w0 4) 100000000 [wBox] wU).1 wU = sumBal (w0 4) wU + 21000 ∧
    (mineBlock wCtx (w0 4) 100000000 [wBox] wU).2.1 = [(1, 61000)] ∧ wBox.gasLimit = 50000 := by
  decide

/-- **fee_vanishes_without_income**: the same block without a box, mined by an account whose profile has no
    income address: the 21000 mo fee is destroyed. -/
theorem fee_vanishes_without_income :
    sumBal (mineBlock wCtx (w0 0) 100000000 [wSub] wU).1 wU = sumBal (w0 0) wU - 21000 := by
  decide

/-! ### reward blocks: the rounding remainder is never issued -/

/-- a reward height for TermDuration 10 / InterimDuration 2: 13. Term reward 10 (precision 1), three nodes with equal
    votes whose income addresses are 4, 6, 8; account 30 is an unregistered candidate whose deposit 1000 is refunded. -/
def rwCtx : Ctx :=
  { p := { voteRate := 200, depositRate := 100, minDeposit := 1000, termDuration := 10, interimDuration := 2, pool := 1,
           rewardPrecision := 1 },
    miner := 3, height := 13, rf := { total := 10, nodes := [(3, 1), (5, 1), (7, 1)], refunds := [30] } }
def rw0 : St :=
  { accts := fun a =>
      if a = 1 then { bal := 5000 } else if a = 3 then { income := 4 } else if a = 5 then { income := 6 }
      else if a = 7 then { income := 8 } else if a = 30 then { isCand := 2, deposit := some 1000, bal := 7 } else {} }
def rwU : List Nat := [1, 3, 4, 5, 6, 7, 8, 30]

/-- **reward_remainder_not_issued** (refutes "a reward block adds exactly the term reward"): reward 10 over three equal
    nodes pays 3 + 3 + 3; the total grows by 9, the remaining 1 is issued to nobody. The refund (pool −1000,
    candidate +1000, deposit entry cleared) does not change the total. -/
theorem reward_remainder_not_issued :
    isRewardBlock rwCtx = true ∧ minted rwCtx = 9 ∧ rwCtx.rf.total = 10 ∧
    sumBal (mineBlock rwCtx rw0 100000000 [] rwU).1 rwU = sumBal rw0 rwU + 9 ∧
    ((mineBlock rwCtx rw0 100000000 [] rwU).1.accts 4).bal = 3 ∧
    ((mineBlock rwCtx rw0 100000000 [] rwU).1.accts 1).bal = 4000 ∧
    ((mineBlock rwCtx rw0 100000000 [] rwU).1.accts 30).bal = 1007 ∧
    ((mineBlock rwCtx rw0 100000000 [] rwU).1.accts 30).deposit = none := by
  decide

/-! non-vacuity of the partial theorem's hypotheses -/
example : (∀ n ∈ rwCtx.rf.nodes, incomeOf rw0 n.1 ∈ rwU) ∧ (∀ a ∈ rwCtx.rf.refunds, a ∈ rwU) ∧ rwCtx.p.pool ∈ rwU ∧
    (∀ n ∈ rwCtx.rf.nodes, 0 ≤ n.2) ∧ 0 < rwCtx.p.rewardPrecision := by decide
example : BoxFree [wSub] ∧ (∀ t ∈ [wSub], ∀ a ∈ touches wCtx t, a ∈ wU) ∧ wU.Nodup := by
  refine ⟨?_, ?_, by decide⟩
  · intro t ht; simp at ht; subst ht; simp [wSub]
  · intro t ht a ha; simp at ht; subst ht; simp [touches, wSub, wCtx] at ha; rcases ha with rfl | rfl | rfl | rfl <;> decide
example : sumBal (mineBlock wCtx (w0 4) 100000000 [wSub] wU).1 wU = sumBal (w0 4) wU := by decide
example : minted wCtx = 0 := by decide

/-! non-vacuity: the witness state of the box example satisfies the invariant, its txs are admitted -/
example : Inv 1 wU (w0 4) ∧ TxWf 1 wU wBox ∧ TxWf 1 wU wSub := by
  refine ⟨⟨?_, ?_, ?_, ?_⟩, ?_, ?_⟩
  · intro a; unfold w0; simp only; split <;> (try split) <;> (try split) <;> simp
  · intro a; unfold w0 depOf; simp only; split <;> (try split) <;> (try split) <;> simp
  · intro a _; unfold w0; simp only; split <;> (try split) <;> (try split) <;> rfl
  · decide
  · refine ⟨⟨by decide, by decide, by decide, by decide, by simp [wBox]⟩, ?_⟩
    intro t ht; simp [wBox] at ht; subst ht
    exact ⟨by decide, by decide, by decide, by decide, by simp [wSub]⟩
  · refine ⟨⟨by decide, by decide, by decide, by decide, by simp [wSub]⟩, ?_⟩
    intro t ht; simp [wSub] at ht

end LemoProofs.C05

/-
  C05 (EVM part) — the value flow of contract execution conserves LEMO, never makes a balance negative, and a failed
  frame moves nothing.

  Model: `LemoModel.EvmValue` (hand-written from chain/vm/evm.go, interpreter.go, instructions.go, chain/transaction/evm.go,
  chain/account SetBalance / SetSuicide / undo, tx_processor.go applyTx / ApplyTxs / chargeForGas).  An execution is a tree of
  frames (CALL / CALLCODE / DELEGATECALL / STATICCALL / CREATE with their operands, SELFDESTRUCTs, how each body ended);
  the tree is an INPUT, every balance and success flag is computed.  Tied by the `evmv` lines of `hx c05`: the tree is
  recorded with a vm.Tracer on the real engine — per frame only how its BODY ended by itself (last step at the callee's
  depth), never the flag the caller saw; refusals (depth limit, CanTransfer, read-only) are the model's to decide —, the
  initial balances are the generator's, the final balance of every named address and every success flag must be the model's.

  All theorems hold for ALL frame trees, depths, read-only modes and states (mutual structural induction over the tree).

  * `failed_frame_no_value`   a frame whose success flag is false (balance check, depth limit, REVERT, any error, a failed
                              code deposit) leaves balances, suicided flags and journal exactly as they were — whatever its
                              sub-frames did, self-destructs included: proved from the UNDO of the journal entries
                              (`EvmValueJournal.Reach`), not assumed.
  * `evm_conserves`           Σ balances after = Σ before − burnt, `burnt` = what the committed self-destructs with the
                              contract itself as beneficiary held; `burnt_nonneg`, `evm_conserves_exact` (no SELFDESTRUCT).
  * `evm_nonneg`              no balance negative afterwards if none was before and all value operands are ≥ 0.
  * `frame_effect`            ANY frame, ARBITRARY body: succeeds iff depth ≤ 1024 ∧ (CALL / CALLCODE / CREATE: balance ≥ value)
                              ∧ the body ran to its end ∧ ended well; then its state is the body's run on the state after the
                              entry transfer (CALL / CREATE) or on the untouched state (`no_transfer_frame`: CALLCODE /
                              DELEGATECALL / STATICCALL); else the state before.
  * `value_moves_iff_success`, `callcode_moves_nothing`, `delegatecall_moves_nothing`: the EMPTY-BODY (`.nil`) instances
                              spelled out per balance; `static_moves_nothing` / `staticcall_moves_nothing`: arbitrary bodies.
  * transactions / blocks: `applyTx_supply`, `failed_tx_moves_only_fee`, `applyTx_nonneg`, `discarded_tx_free`,
    `applyTxs_supply`, `evmBlock_conserves` (miner with income address), `evmBlock_fee_vanishes` (without: the known
    finding c05/fee-vanishes, restated for EVM blocks).
  * the burn is real: `selfdestruct_to_self_burns` (kernel-checked witness: conservation without the `− burnt` term is false;
    the property statement allows exactly this explicit burn).
-/
import LemoProofs.Lemmas.EvmValueJournal
namespace LemoProofs.C05Evm
open LemoModel.EvmValue LemoProofs.EvmValueJournal

/-! ### predicates over trees -/

mutual
  /-- every address the tree names lies in `U` -/
  def frameIn (U : List Nat) : Frame → Prop
    | .mk _ callee _ body _ => callee ∈ U ∧ actsIn U body
  def actsIn (U : List Nat) : Actions → Prop
    | .nil => True
    | .sub f rest => frameIn U f ∧ actsIn U rest
    | .kill b rest => b ∈ U ∧ actsIn U rest
end

mutual
  /-- every value operand is ≥ 0 (they are uint256 stack words / the tx amount the pool admitted) -/
  def frameVals : Frame → Prop
    | .mk _ _ value body _ => 0 ≤ value ∧ actsVals body
  def actsVals : Actions → Prop
    | .nil => True
    | .sub f rest => frameVals f ∧ actsVals rest
    | .kill _ rest => actsVals rest
end

mutual
  /-- no SELFDESTRUCT anywhere in the tree -/
  def frameNoKill : Frame → Prop
    | .mk _ _ _ body _ => actsNoKill body
  def actsNoKill : Actions → Prop
    | .nil => True
    | .sub f rest => frameNoKill f ∧ actsNoKill rest
    | .kill _ _ => False
end

/-! ### `finish` and `enter` -/

theorem finish_ok_iff (n : Nat) (o : Outcome) (r : Res) : (finish n o r).ok = true ↔ (r.ok = true ∧ o = .ok) := by
  unfold finish
  by_cases h : r.ok = true ∧ o = .ok
  · rw [if_pos h]; simp [h]
  · rw [if_neg h]; simp [h]

theorem finish_pos (n : Nat) (o : Outcome) (r : Res) (h : r.ok = true ∧ o = .ok) :
    finish n o r = { st := r.st, ok := true, burnt := r.burnt, flags := true :: r.flags } := by
  unfold finish; rw [if_pos h]

theorem finish_neg (n : Nat) (o : Outcome) (r : Res) (h : ¬ (r.ok = true ∧ o = .ok)) :
    finish n o r = { st := revertTo n r.st, ok := false, flags := false :: r.flags } := by
  unfold finish; rw [if_neg h]

theorem enter_reach (kind : Kind) (s : St) (self callee : Nat) (value : Int) : Reach s (enter kind s self callee value) := by
  unfold enter
  split
  · exact Reach.of_transfer s self callee value
  · exact Reach.refl s

/-- a frame that fails after its entry ends in the state of its entry -/
theorem finish_neg_st {s : St} (o : Outcome) (r : Res) (hr : Reach s r.st) (h : ¬ (r.ok = true ∧ o = .ok)) :
    (finish s.log.length o r).st = s := by
  rw [finish_neg _ _ _ h]; exact Reach.revert hr

theorem finish_reach {s : St} (o : Outcome) (r : Res) (hr : Reach s r.st) : Reach s (finish s.log.length o r).st := by
  by_cases h : r.ok = true ∧ o = .ok
  · rw [finish_pos _ _ _ h]; exact hr
  · rw [finish_neg_st o r hr h]; exact Reach.refl s

theorem execFrame_mk (kind : Kind) (callee : Nat) (value : Int) (body : Actions) (outcome : Outcome)
    (depth : Nat) (static : Bool) (self : Nat) (s : St) :
    execFrame depth static self s (.mk kind callee value body outcome) =
      if blocked depth kind s self value = true then { st := s, ok := false, flags := [false] }
      else finish s.log.length outcome
        (execBody (depth + 1) (static || kind == .staticcall) (ctxOf kind callee self) (enter kind s self callee value) body) := by
  rw [execFrame]

theorem execBody_nil (depth : Nat) (static : Bool) (self : Nat) (s : St) :
    execBody depth static self s .nil = { st := s, ok := true } := by rw [execBody]

theorem execBody_sub (f : Frame) (rest : Actions) (depth : Nat) (static : Bool) (self : Nat) (s : St) :
    execBody depth static self s (.sub f rest) =
      if static = true ∧ writesInStatic f = true then { st := s, ok := false }
      else
        { st := (execBody depth static self (execFrame depth static self s f).st rest).st,
          ok := (execBody depth static self (execFrame depth static self s f).st rest).ok,
          burnt := (execFrame depth static self s f).burnt + (execBody depth static self (execFrame depth static self s f).st rest).burnt,
          flags := (execFrame depth static self s f).flags ++ (execBody depth static self (execFrame depth static self s f).st rest).flags } := by
  rw [execBody]

theorem execBody_kill (b : Nat) (rest : Actions) (depth : Nat) (static : Bool) (self : Nat) (s : St) :
    execBody depth static self s (.kill b rest) =
      if static = true then { st := s, ok := false }
      else { st := (suicide s self b).1, ok := true, burnt := (suicide s self b).2 } := by
  rw [execBody]

/-! ### the journal: every frame only makes journalled writes -/

mutual
  theorem execFrame_reach : ∀ (f : Frame) (depth : Nat) (static : Bool) (self : Nat) (s : St),
      Reach s (execFrame depth static self s f).st
    | .mk kind callee value body outcome, depth, static, self, s => by
      rw [execFrame_mk]
      by_cases hb : blocked depth kind s self value = true
      · rw [if_pos hb]; exact Reach.refl s
      · rw [if_neg hb]
        exact finish_reach outcome _ (Reach.trans (enter_reach kind s self callee value) (execBody_reach body _ _ _ _))
  theorem execBody_reach : ∀ (a : Actions) (depth : Nat) (static : Bool) (self : Nat) (s : St),
      Reach s (execBody depth static self s a).st
    | .nil, depth, static, self, s => by rw [execBody_nil]; exact Reach.refl s
    | .sub f rest, depth, static, self, s => by
      rw [execBody_sub]
      split
      · exact Reach.refl s
      · exact Reach.trans (execFrame_reach f depth static self s) (execBody_reach rest depth static self _)
    | .kill b rest, depth, static, self, s => by
      rw [execBody_kill]
      split
      · exact Reach.refl s
      · exact Reach.of_suicide s self b
end

/-- A frame that does not succeed — insufficient balance, depth limit, REVERT, out of gas or any other error in its body, a
    creation whose code deposit could not be paid — changes NOTHING: every balance, every suicided flag and the journal are
    what they were at its entry, whatever its sub-frames (transfers, creations, self-destructs) did before the failure. -/
theorem failed_frame_no_value (f : Frame) (depth : Nat) (static : Bool) (self : Nat) (s : St)
    (h : (execFrame depth static self s f).ok = false) : (execFrame depth static self s f).st = s := by
  cases f with
  | mk kind callee value body outcome =>
    rw [execFrame_mk] at h ⊢
    by_cases hb : blocked depth kind s self value = true
    · rw [if_pos hb]
    · rw [if_neg hb] at h ⊢
      have hne : ¬ ((execBody (depth + 1) (static || kind == .staticcall) (ctxOf kind callee self) (enter kind s self callee value) body).ok = true ∧ outcome = .ok) := by
        intro hh
        rw [(finish_ok_iff _ _ _).mpr hh] at h; cases h
      exact finish_neg_st outcome _ (Reach.trans (enter_reach kind s self callee value) (execBody_reach body _ _ _ _)) hne

/-- a failed frame reports no burn -/
theorem failed_frame_no_burn (f : Frame) (depth : Nat) (static : Bool) (self : Nat) (s : St)
    (h : (execFrame depth static self s f).ok = false) : (execFrame depth static self s f).burnt = 0 := by
  cases f with
  | mk kind callee value body outcome =>
    rw [execFrame_mk] at h ⊢
    by_cases hb : blocked depth kind s self value = true
    · rw [if_pos hb]
    · rw [if_neg hb] at h ⊢
      have hne : ¬ ((execBody (depth + 1) (static || kind == .staticcall) (ctxOf kind callee self) (enter kind s self callee value) body).ok = true ∧ outcome = .ok) := by
        intro hh
        rw [(finish_ok_iff _ _ _).mpr hh] at h; cases h
      rw [finish_neg _ _ _ hne]

/-- in particular: a REVERTed frame, and a frame that ended with any other error, move nothing -/
theorem reverted_frame_no_value (kind : Kind) (callee : Nat) (value : Int) (body : Actions) (o : Outcome) (ho : o ≠ .ok)
    (depth : Nat) (static : Bool) (self : Nat) (s : St) :
    (execFrame depth static self s (.mk kind callee value body o)).st = s := by
  apply failed_frame_no_value
  rw [execFrame_mk]
  by_cases hb : blocked depth kind s self value = true
  · rw [if_pos hb]
  · rw [if_neg hb]
    cases hf : (finish s.log.length o (execBody (depth + 1) (static || kind == .staticcall) (ctxOf kind callee self) (enter kind s self callee value) body)).ok with
    | false => rfl
    | true => exact absurd ((finish_ok_iff _ _ _).mp hf).2 ho

/-! ### conservation -/

theorem sumBal_enter (kind : Kind) (s : St) (self callee : Nat) (value : Int) (U : List Nat) (hn : U.Nodup)
    (hs : self ∈ U) (hc : callee ∈ U) : sumBal (enter kind s self callee value).bal U = sumBal s.bal U := by
  unfold enter
  split
  · exact sumBal_transfer s self callee value U hn hs hc
  · rfl

theorem ctxOf_mem (kind : Kind) (callee self : Nat) (U : List Nat) (hs : self ∈ U) (hc : callee ∈ U) : ctxOf kind callee self ∈ U := by
  unfold ctxOf; split <;> assumption

mutual
  theorem execFrame_sum (U : List Nat) (hn : U.Nodup) : ∀ (f : Frame) (depth : Nat) (static : Bool) (self : Nat) (s : St),
      self ∈ U → frameIn U f →
      sumBal (execFrame depth static self s f).st.bal U = sumBal s.bal U - (execFrame depth static self s f).burnt
    | .mk kind callee value body outcome, depth, static, self, s, hs, hin => by
      have hc : callee ∈ U := by unfold frameIn at hin; exact hin.1
      have hbody : actsIn U body := by unfold frameIn at hin; exact hin.2
      rw [execFrame_mk]
      by_cases hb : blocked depth kind s self value = true
      · rw [if_pos hb]; simp
      · rw [if_neg hb]
        have ih := execBody_sum U hn body (depth + 1) (static || kind == .staticcall) (ctxOf kind callee self)
          (enter kind s self callee value) (ctxOf_mem kind callee self U hs hc) hbody
        rw [sumBal_enter kind s self callee value U hn hs hc] at ih
        by_cases hf : (execBody (depth + 1) (static || kind == .staticcall) (ctxOf kind callee self) (enter kind s self callee value) body).ok = true ∧ outcome = .ok
        · rw [finish_pos _ _ _ hf]; exact ih
        · rw [finish_neg _ _ _ hf]
          simp only
          rw [Reach.revert (Reach.trans (enter_reach kind s self callee value) (execBody_reach body _ _ _ _))]
          simp
  theorem execBody_sum (U : List Nat) (hn : U.Nodup) : ∀ (a : Actions) (depth : Nat) (static : Bool) (self : Nat) (s : St),
      self ∈ U → actsIn U a →
      sumBal (execBody depth static self s a).st.bal U = sumBal s.bal U - (execBody depth static self s a).burnt
    | .nil, depth, static, self, s, _, _ => by rw [execBody_nil]; simp
    | .sub f rest, depth, static, self, s, hs, hin => by
      have hf : frameIn U f := by unfold actsIn at hin; exact hin.1
      have hr : actsIn U rest := by unfold actsIn at hin; exact hin.2
      rw [execBody_sub]
      split
      · simp
      · have h1 := execFrame_sum U hn f depth static self s hs hf
        have h2 := execBody_sum U hn rest depth static self (execFrame depth static self s f).st hs hr
        simp only
        omega
    | .kill b rest, depth, static, self, s, hs, hin => by
      have hb : b ∈ U := by unfold actsIn at hin; exact hin.1
      rw [execBody_kill]
      split
      · simp
      · exact sumBal_suicide s self b U hn hs hb
end

/-- CONSERVATION for every frame tree: over any duplicate-free address list that contains the caller and every address the
    tree names, the sum of all balances after the frame = the sum before − `burnt`, where `burnt` is what the COMMITTED
    self-destructs whose beneficiary is the dying contract itself held at that moment (`suicide`). -/
theorem evm_conserves (U : List Nat) (hn : U.Nodup) (f : Frame) (depth : Nat) (static : Bool) (self : Nat) (s : St)
    (hs : self ∈ U) (hin : frameIn U f) :
    sumBal (execFrame depth static self s f).st.bal U = sumBal s.bal U - (execFrame depth static self s f).burnt :=
  execFrame_sum U hn f depth static self s hs hin

mutual
  theorem execFrame_noKill : ∀ (f : Frame) (depth : Nat) (static : Bool) (self : Nat) (s : St),
      frameNoKill f → (execFrame depth static self s f).burnt = 0
    | .mk kind callee value body outcome, depth, static, self, s, hk => by
      have hbody : actsNoKill body := by unfold frameNoKill at hk; exact hk
      rw [execFrame_mk]
      by_cases hb : blocked depth kind s self value = true
      · rw [if_pos hb]
      · rw [if_neg hb]
        by_cases hf : (execBody (depth + 1) (static || kind == .staticcall) (ctxOf kind callee self) (enter kind s self callee value) body).ok = true ∧ outcome = .ok
        · rw [finish_pos _ _ _ hf]; exact execBody_noKill body _ _ _ _ hbody
        · rw [finish_neg _ _ _ hf]
  theorem execBody_noKill : ∀ (a : Actions) (depth : Nat) (static : Bool) (self : Nat) (s : St),
      actsNoKill a → (execBody depth static self s a).burnt = 0
    | .nil, depth, static, self, s, _ => by rw [execBody_nil]
    | .sub f rest, depth, static, self, s, hk => by
      have hf : frameNoKill f := by unfold actsNoKill at hk; exact hk.1
      have hr : actsNoKill rest := by unfold actsNoKill at hk; exact hk.2
      rw [execBody_sub]
      split
      · rfl
      · simp only
        rw [execFrame_noKill f depth static self s hf, execBody_noKill rest depth static self _ hr]; rfl
    | .kill b rest, depth, static, self, s, hk => by unfold actsNoKill at hk; exact absurd hk id
end

/-- without SELFDESTRUCT nothing is burnt: calls, creations, reverts and failures conserve LEMO exactly -/
theorem evm_conserves_exact (U : List Nat) (hn : U.Nodup) (f : Frame) (depth : Nat) (static : Bool) (self : Nat) (s : St)
    (hs : self ∈ U) (hin : frameIn U f) (hk : frameNoKill f) :
    sumBal (execFrame depth static self s f).st.bal U = sumBal s.bal U := by
  rw [evm_conserves U hn f depth static self s hs hin, execFrame_noKill f depth static self s hk]; simp

/-! ### no negative balance -/

def Inv (s : St) : Prop := ∀ a, 0 ≤ s.bal a

theorem transfer_inv (s : St) (a b : Nat) (v : Int) (hi : Inv s) (hv : 0 ≤ v) (hc : v ≤ s.bal a) : Inv (transfer s a b v) := by
  intro x
  unfold transfer
  simp only [setBal_bal]
  by_cases hxb : x = b
  · subst hxb
    rw [upd_same]
    by_cases hxa : x = a
    · subst hxa; rw [upd_same]; omega
    · rw [upd_other _ _ _ _ hxa]; have := hi x; omega
  · rw [upd_other _ _ _ _ hxb]
    by_cases hxa : x = a
    · subst hxa; rw [upd_same]; omega
    · rw [upd_other _ _ _ _ hxa]; exact hi x

theorem suicide_inv (s : St) (self b : Nat) (hi : Inv s) : Inv (suicide s self b).1 ∧ 0 ≤ (suicide s self b).2 := by
  unfold suicide
  by_cases hd : s.dead self = true
  · simp only [hd, if_true]; exact ⟨hi, Int.le_refl 0⟩
  · simp only [hd, Bool.false_eq_true, if_false]
    refine ⟨fun x => ?_, ?_⟩
    · simp only [setBal_bal]
      by_cases hxs : x = self
      · subst hxs; rw [upd_same]; exact Int.le_refl 0
      · rw [upd_other _ _ _ _ hxs]
        by_cases hxb : x = b
        · subst hxb; rw [upd_same]; have := hi x; have := hi self; omega
        · rw [upd_other _ _ _ _ hxb]; exact hi x
    · split
      · exact hi self
      · exact Int.le_refl 0

theorem enter_inv (kind : Kind) (s : St) (self callee : Nat) (value : Int) (depth : Nat) (hi : Inv s) (hv : 0 ≤ value)
    (hb : ¬ blocked depth kind s self value = true) : Inv (enter kind s self callee value) := by
  unfold enter
  split
  · rename_i hm
    apply transfer_inv s self callee value hi hv
    have hnf : needsFunds kind = true := by cases kind <;> simp_all [movesValue, needsFunds]
    unfold blocked at hb
    simp only [hnf, Bool.true_and, Bool.or_eq_true, decide_eq_true_eq, not_or] at hb
    omega
  · exact hi

mutual
  theorem execFrame_inv : ∀ (f : Frame) (depth : Nat) (static : Bool) (self : Nat) (s : St),
      Inv s → frameVals f → Inv (execFrame depth static self s f).st ∧ 0 ≤ (execFrame depth static self s f).burnt
    | .mk kind callee value body outcome, depth, static, self, s, hi, hv => by
      have hval : 0 ≤ value := by unfold frameVals at hv; exact hv.1
      have hbody : actsVals body := by unfold frameVals at hv; exact hv.2
      rw [execFrame_mk]
      by_cases hb : blocked depth kind s self value = true
      · rw [if_pos hb]; exact ⟨hi, Int.le_refl 0⟩
      · rw [if_neg hb]
        have ih := execBody_inv body (depth + 1) (static || kind == .staticcall) (ctxOf kind callee self)
          (enter kind s self callee value) (enter_inv kind s self callee value depth hi hval hb) hbody
        by_cases hf : (execBody (depth + 1) (static || kind == .staticcall) (ctxOf kind callee self) (enter kind s self callee value) body).ok = true ∧ outcome = .ok
        · rw [finish_pos _ _ _ hf]; exact ih
        · rw [finish_neg _ _ _ hf]
          simp only
          rw [Reach.revert (Reach.trans (enter_reach kind s self callee value) (execBody_reach body _ _ _ _))]
          exact ⟨hi, Int.le_refl 0⟩
  theorem execBody_inv : ∀ (a : Actions) (depth : Nat) (static : Bool) (self : Nat) (s : St),
      Inv s → actsVals a → Inv (execBody depth static self s a).st ∧ 0 ≤ (execBody depth static self s a).burnt
    | .nil, depth, static, self, s, hi, _ => by rw [execBody_nil]; exact ⟨hi, Int.le_refl 0⟩
    | .sub f rest, depth, static, self, s, hi, hv => by
      have hf : frameVals f := by unfold actsVals at hv; exact hv.1
      have hr : actsVals rest := by unfold actsVals at hv; exact hv.2
      rw [execBody_sub]
      split
      · exact ⟨hi, Int.le_refl 0⟩
      · have h1 := execFrame_inv f depth static self s hi hf
        have h2 := execBody_inv rest depth static self (execFrame depth static self s f).st h1.1 hr
        exact ⟨h2.1, Int.add_nonneg h1.2 h2.2⟩
    | .kill b rest, depth, static, self, s, hi, _ => by
      rw [execBody_kill]
      split
      · exact ⟨hi, Int.le_refl 0⟩
      · exact suicide_inv s self b hi
end

/-- NO NEGATIVE BALANCE: if no balance is negative before a frame and every value operand of the tree is ≥ 0, no balance is
    negative after it — whatever the tree does (the only debit is `Transfer`, guarded by `CanTransfer`). -/
theorem evm_nonneg (f : Frame) (depth : Nat) (static : Bool) (self : Nat) (s : St) (hi : ∀ a, 0 ≤ s.bal a) (hv : frameVals f) :
    ∀ a, 0 ≤ (execFrame depth static self s f).st.bal a :=
  (execFrame_inv f depth static self s hi hv).1

/-- what is burnt is never negative (so the sum of balances never GROWS through contract execution) -/
theorem burnt_nonneg (f : Frame) (depth : Nat) (static : Bool) (self : Nat) (s : St) (hi : ∀ a, 0 ≤ s.bal a) (hv : frameVals f) :
    0 ≤ (execFrame depth static self s f).burnt :=
  (execFrame_inv f depth static self s hi hv).2

/-! ### the kinds that never transfer -/

/-- a frame that may run in read-only mode (CREATE and CALL-with-value are refused by the running frame before they start) -/
theorem writesInStatic_false_enter (kind : Kind) (callee : Nat) (value : Int) (body : Actions) (o : Outcome)
    (h : writesInStatic (.mk kind callee value body o) = false) (s : St) (self : Nat) :
    (enter kind s self callee value).bal = s.bal ∧ (enter kind s self callee value).dead = s.dead := by
  unfold enter
  cases kind with
  | call =>
    have hv : value = 0 := by simpa [writesInStatic] using h
    subst hv
    simp only [movesValue, if_true]
    exact ⟨transfer_zero_bal s self callee, transfer_dead s self callee 0⟩
  | create => simp [writesInStatic] at h
  | callcode => simp [movesValue]
  | delegatecall => simp [movesValue]
  | staticcall => simp [movesValue]

mutual
  theorem execFrame_static : ∀ (f : Frame) (depth : Nat) (self : Nat) (s : St), writesInStatic f = false →
      (execFrame depth true self s f).st.bal = s.bal ∧ (execFrame depth true self s f).st.dead = s.dead ∧
        (execFrame depth true self s f).burnt = 0
    | .mk kind callee value body outcome, depth, self, s, hw => by
      rw [execFrame_mk]
      by_cases hb : blocked depth kind s self value = true
      · rw [if_pos hb]; exact ⟨rfl, rfl, rfl⟩
      · rw [if_neg hb]
        have he := writesInStatic_false_enter kind callee value body outcome hw s self
        have ih := execBody_static body (depth + 1) (ctxOf kind callee self) (enter kind s self callee value)
        have hst : (true || kind == Kind.staticcall) = true := by simp
        rw [hst]
        by_cases hf : (execBody (depth + 1) true (ctxOf kind callee self) (enter kind s self callee value) body).ok = true ∧ outcome = .ok
        · rw [finish_pos _ _ _ hf]
          exact ⟨ih.1.trans he.1, ih.2.1.trans he.2, ih.2.2⟩
        · rw [finish_neg _ _ _ hf]
          simp only
          rw [Reach.revert (Reach.trans (enter_reach kind s self callee value) (execBody_reach body _ _ _ _))]
          exact ⟨rfl, rfl, trivial⟩
  theorem execBody_static : ∀ (a : Actions) (depth : Nat) (self : Nat) (s : St),
      (execBody depth true self s a).st.bal = s.bal ∧ (execBody depth true self s a).st.dead = s.dead ∧
        (execBody depth true self s a).burnt = 0
    | .nil, depth, self, s => by rw [execBody_nil]; exact ⟨rfl, rfl, rfl⟩
    | .sub f rest, depth, self, s => by
      rw [execBody_sub]
      by_cases hw : writesInStatic f = true
      · rw [if_pos ⟨rfl, hw⟩]; exact ⟨rfl, rfl, rfl⟩
      · rw [if_neg (fun h => hw h.2)]
        have hw' : writesInStatic f = false := by simpa using hw
        have h1 := execFrame_static f depth self s hw'
        have h2 := execBody_static rest depth self (execFrame depth true self s f).st
        refine ⟨h2.1.trans h1.1, h2.2.1.trans h1.2.1, ?_⟩
        simp only
        rw [h1.2.2, h2.2.2]; rfl
    | .kill b rest, depth, self, s => by
      rw [execBody_kill]; rw [if_pos rfl]; exact ⟨rfl, rfl, rfl⟩
end

/-- READ-ONLY mode: whatever a body does under a STATICCALL — further calls of any kind, attempted creations, attempted
    self-destructs, attempted calls with value — no balance and no suicided flag changes and nothing is burnt. -/
theorem static_moves_nothing (a : Actions) (depth : Nat) (self : Nat) (s : St) :
    (execBody depth true self s a).st.bal = s.bal ∧ (execBody depth true self s a).st.dead = s.dead ∧
      (execBody depth true self s a).burnt = 0 :=
  execBody_static a depth self s

/-- a STATICCALL frame entered from ANY context moves nothing, whatever its value operand, body and outcome -/
theorem staticcall_moves_nothing (callee : Nat) (value : Int) (body : Actions) (o : Outcome) (depth : Nat) (static : Bool)
    (self : Nat) (s : St) :
    (execFrame depth static self s (.mk .staticcall callee value body o)).st.bal = s.bal ∧
      (execFrame depth static self s (.mk .staticcall callee value body o)).burnt = 0 := by
  rw [execFrame_mk]
  by_cases hb : blocked depth .staticcall s self value = true
  · rw [if_pos hb]; exact ⟨rfl, rfl⟩
  · rw [if_neg hb]
    have hst : (static || Kind.staticcall == Kind.staticcall) = true := by cases static <;> rfl
    rw [hst]
    have ih := execBody_static body (depth + 1) (ctxOf .staticcall callee self) (enter .staticcall s self callee value)
    have he : enter .staticcall s self callee value = s := by simp [enter, movesValue]
    by_cases hf : (execBody (depth + 1) true (ctxOf .staticcall callee self) (enter .staticcall s self callee value) body).ok = true ∧ o = .ok
    · rw [finish_pos _ _ _ hf]
      refine ⟨?_, ih.2.2⟩
      simp only
      rw [ih.1, he]
    · rw [finish_neg _ _ _ hf]
      simp only
      rw [Reach.revert (Reach.trans (enter_reach .staticcall s self callee value) (execBody_reach body _ _ _ _))]
      exact ⟨rfl, trivial⟩

/-- CALLCODE moves no value by itself — stated here FOR A FRAME WITH AN EMPTY BODY (`.nil`): nothing moves, although CALLCODE
    does ask CanTransfer(caller, value) and fails without funds. Arbitrary bodies: `no_transfer_frame` / `frame_effect`. -/
theorem callcode_moves_nothing (callee : Nat) (value : Int) (o : Outcome) (depth : Nat) (static : Bool) (self : Nat) (s : St) :
    (execFrame depth static self s (.mk .callcode callee value .nil o)).st = s := by
  rw [execFrame_mk]
  by_cases hb : blocked depth .callcode s self value = true
  · rw [if_pos hb]
  · rw [if_neg hb, execBody_nil]
    have he : enter .callcode s self callee value = s := by simp [enter, movesValue]
    rw [he]
    unfold finish
    split
    · rfl
    · exact revertTo_ge s _ (Nat.le_refl _)

/-- DELEGATECALL moves no value by itself and never asks for funds — stated here FOR A FRAME WITH AN EMPTY BODY (`.nil`): it
    fails only by depth or its outcome. Arbitrary bodies: `no_transfer_frame` / `frame_effect`. -/
theorem delegatecall_moves_nothing (callee : Nat) (value : Int) (o : Outcome) (depth : Nat) (static : Bool) (self : Nat) (s : St) :
    (execFrame depth static self s (.mk .delegatecall callee value .nil o)).st = s ∧
      ((execFrame depth static self s (.mk .delegatecall callee value .nil o)).ok = true ↔ (depth ≤ callCreateDepth ∧ o = .ok)) := by
  rw [execFrame_mk]
  have hbl : blocked depth .delegatecall s self value = decide (depth > callCreateDepth) := by simp [blocked, needsFunds]
  by_cases hd : depth > callCreateDepth
  · have hb : blocked depth .delegatecall s self value = true := by rw [hbl]; simpa using hd
    rw [if_pos hb]
    refine ⟨rfl, ?_⟩
    constructor
    · intro h; cases h
    · intro h; omega
  · have hb : ¬ blocked depth .delegatecall s self value = true := by rw [hbl]; simpa using hd
    rw [if_neg hb, execBody_nil]
    have he : enter .delegatecall s self callee value = s := by simp [enter, movesValue]
    rw [he]
    refine ⟨?_, ?_⟩
    · unfold finish
      split
      · rfl
      · exact revertTo_ge s _ (Nat.le_refl _)
    · rw [finish_ok_iff]
      constructor
      · intro h; exact ⟨by omega, h.2⟩
      · intro h; exact ⟨rfl, h.2⟩

/-- the body of a CALLCODE / DELEGATECALL runs in the CALLER's context: a SELFDESTRUCT in library code kills the caller -/
theorem delegate_runs_in_caller_context (kind : Kind) (hk : kind = .callcode ∨ kind = .delegatecall) (callee self : Nat) :
    ctxOf kind callee self = self := by
  rcases hk with h | h <;> subst h <;> rfl

/-! ### one CALL -/

theorem transfer_bal_ne (s : St) (a b : Nat) (v : Int) (hab : a ≠ b) :
    (transfer s a b v).bal b = s.bal b + v ∧ (transfer s a b v).bal a = s.bal a - v ∧
      ∀ x, x ≠ a → x ≠ b → (transfer s a b v).bal x = s.bal x := by
  unfold transfer
  simp only [setBal_bal]
  refine ⟨?_, ?_, ?_⟩
  · rw [upd_same, upd_other _ _ _ _ (fun h => hab h.symm)]
  · rw [upd_other _ _ _ _ hab, upd_same]
  · intro x hxa hxb
    rw [upd_other _ _ _ _ hxb, upd_other _ _ _ _ hxa]

/-- VALUE MOVES IFF SUCCESS, for one CALL WITH AN EMPTY BODY (`.nil`: the callee does nothing that concerns LEMO — an account
    without code, or code that neither calls nor self-destructs; arbitrary bodies: `frame_effect`): the call succeeds iff the depth limit is respected, the caller owns at least
    `value` and the callee's code ended well; if it succeeds exactly `value` moved from the caller to the callee and nothing
    else changed; if it does not, nothing changed at all. -/
theorem value_moves_iff_success (callee : Nat) (value : Int) (o : Outcome) (depth : Nat) (static : Bool) (self : Nat) (s : St)
    (hne : self ≠ callee) :
    let r := execFrame depth static self s (.mk .call callee value .nil o)
    (r.ok = true ↔ (depth ≤ callCreateDepth ∧ value ≤ s.bal self ∧ o = .ok)) ∧
    (r.ok = true → r.st.bal callee = s.bal callee + value ∧ r.st.bal self = s.bal self - value ∧
        ∀ x, x ≠ self → x ≠ callee → r.st.bal x = s.bal x) ∧
    (r.ok = false → r.st = s) := by
  intro r
  have hr : r = execFrame depth static self s (.mk .call callee value .nil o) := rfl
  refine ⟨?_, ?_, fun h => failed_frame_no_value _ depth static self s h⟩
  · rw [hr, execFrame_mk]
    by_cases hb : blocked depth .call s self value = true
    · rw [if_pos hb]
      have : depth > callCreateDepth ∨ s.bal self < value := by simpa [blocked, needsFunds] using hb
      constructor
      · intro h; cases h
      · intro h; omega
    · rw [if_neg hb, execBody_nil, finish_ok_iff]
      have : ¬ depth > callCreateDepth ∧ ¬ s.bal self < value := by simpa [blocked, needsFunds, not_or] using hb
      constructor
      · intro h; exact ⟨by omega, by omega, h.2⟩
      · intro h; exact ⟨rfl, h.2.2⟩
  · rw [hr, execFrame_mk]
    by_cases hb : blocked depth .call s self value = true
    · rw [if_pos hb]; intro h; cases h
    · rw [if_neg hb, execBody_nil]
      intro h
      have hf := (finish_ok_iff _ _ _).mp h
      rw [finish_pos _ _ _ hf]
      have he : enter .call s self callee value = transfer s self callee value := by simp [enter, movesValue]
      simp only
      rw [he]
      exact transfer_bal_ne s self callee value hne

/-- the three kinds that never call `Transfer` start their body in the caller's state, untouched -/
theorem enter_no_transfer (kind : Kind) (hk : movesValue kind = false) (s : St) (self callee : Nat) (value : Int) :
    enter kind s self callee value = s := by
  unfold enter; rw [hk]; simp

/-- ONE FRAME OF ANY KIND WITH AN ARBITRARY BODY (the general form of `value_moves_iff_success` / `callcode_moves_nothing` /
    `delegatecall_moves_nothing`, which are its `.nil`-body instances). With `b` = the run of the body in the state after
    the entry (`enter`: `Transfer(caller, callee, value)` for CALL / CREATE, NOTHING for the other three kinds):
    * the frame succeeds iff the depth limit is respected, the caller owns `value` (kinds that ask CanTransfer), the body
      ran to its end (no write-protection refusal) and ended well;
    * if it succeeds its state is exactly `b`'s: the frame itself contributed the entry transfer and nothing else;
    * if it does not, the state is the caller's state before the frame. -/
theorem frame_effect (kind : Kind) (callee : Nat) (value : Int) (body : Actions) (o : Outcome) (depth : Nat) (static : Bool)
    (self : Nat) (s : St) :
    let b := execBody (depth + 1) (static || kind == .staticcall) (ctxOf kind callee self) (enter kind s self callee value) body
    let r := execFrame depth static self s (.mk kind callee value body o)
    (r.ok = true ↔ (depth ≤ callCreateDepth ∧ (needsFunds kind = true → value ≤ s.bal self) ∧ b.ok = true ∧ o = .ok)) ∧
    (r.ok = true → r.st = b.st) ∧ (r.ok = false → r.st = s) := by
  intro b r
  have hr : r = execFrame depth static self s (.mk kind callee value body o) := rfl
  refine ⟨?_, ?_, fun h => failed_frame_no_value _ depth static self s h⟩
  · rw [hr, execFrame_mk]
    by_cases hb : blocked depth kind s self value = true
    · rw [if_pos hb]
      have hb' : depth > callCreateDepth ∨ (needsFunds kind = true ∧ s.bal self < value) := by
        simpa [blocked] using hb
      constructor
      · intro h; cases h
      · intro h
        rcases hb' with h1 | h1
        · omega
        · have := h.2.1 h1.1; omega
    · rw [if_neg hb, finish_ok_iff]
      have hb' : ¬ depth > callCreateDepth ∧ (needsFunds kind = true → ¬ s.bal self < value) := by
        simpa [blocked, not_or] using hb
      constructor
      · intro h; exact ⟨by omega, fun hk => by have := hb'.2 hk; omega, h.1, h.2⟩
      · intro h; exact ⟨h.2.2.1, h.2.2.2⟩
  · rw [hr, execFrame_mk]
    by_cases hb : blocked depth kind s self value = true
    · rw [if_pos hb]; intro h; cases h
    · rw [if_neg hb]
      intro h
      have hf := (finish_ok_iff _ _ _).mp h
      rw [finish_pos _ _ _ hf]

/-- CALLCODE / DELEGATECALL / STATICCALL with an ARBITRARY body move nothing BY THEMSELVES: the final state is what the body
    made of the caller's own state (success) or the caller's state (failure) — no transfer at the entry, whatever `value` -/
theorem no_transfer_frame (kind : Kind) (hk : movesValue kind = false) (callee : Nat) (value : Int) (body : Actions)
    (o : Outcome) (depth : Nat) (static : Bool) (self : Nat) (s : St) :
    let r := execFrame depth static self s (.mk kind callee value body o)
    (r.ok = true → r.st = (execBody (depth + 1) (static || kind == .staticcall) (ctxOf kind callee self) s body).st) ∧
    (r.ok = false → r.st = s) := by
  intro r
  have h := frame_effect kind callee value body o depth static self s
  rw [enter_no_transfer kind hk] at h
  exact ⟨h.2.1, h.2.2⟩

/-! ### transactions -/

theorem applyTx_some (s : St) (tx : Tx) (r : Res) (h : applyTx s tx = some r) :
    (tx.gasLimit : Int) * tx.gasPrice ≤ s.bal tx.payer ∧ tx.intrinsic ≤ tx.gasLimit ∧
    ¬ (needsFunds tx.top.kind = true ∧
        (setBal s tx.payer (s.bal tx.payer - (tx.gasLimit : Int) * tx.gasPrice)).bal tx.sender < tx.top.value) ∧
    r = { execFrame 0 false tx.sender (setBal s tx.payer (s.bal tx.payer - (tx.gasLimit : Int) * tx.gasPrice)) tx.top with
          st := setBal (execFrame 0 false tx.sender (setBal s tx.payer (s.bal tx.payer - (tx.gasLimit : Int) * tx.gasPrice)) tx.top).st tx.payer
            ((execFrame 0 false tx.sender (setBal s tx.payer (s.bal tx.payer - (tx.gasLimit : Int) * tx.gasPrice)) tx.top).st.bal tx.payer +
              ((tx.gasLimit : Int) - (tx.gasUsed : Int)) * tx.gasPrice) } := by
  unfold applyTx at h
  simp only at h
  split at h
  · cases h
  · split at h
    · cases h
    · split at h
      · cases h
      · rename_i h1 h2 h3
        injection h with h
        exact ⟨by omega, by omega, h3, h.symm⟩

/-- an included contract transaction moves the sum of all balances by exactly −gasUsed × gasPrice − burnt: the fee leaves
    the accounts until the miner is credited at the end of the block; value transfers, creations, reverts cancel out -/
theorem applyTx_supply (U : List Nat) (hn : U.Nodup) (s : St) (tx : Tx) (r : Res) (h : applyTx s tx = some r)
    (hp : tx.payer ∈ U) (hs : tx.sender ∈ U) (hin : frameIn U tx.top) :
    sumBal r.st.bal U = sumBal s.bal U - (tx.gasUsed : Int) * tx.gasPrice - r.burnt := by
  obtain ⟨_, _, _, hr⟩ := applyTx_some s tx r h
  subst hr
  simp only
  rw [sumBal_setBal _ _ _ U hn hp, evm_conserves U hn tx.top 0 false tx.sender _ hs hin, sumBal_setBal _ _ _ U hn hp]
  rw [Int.sub_mul]
  omega

/-- THE AMOUNT MOVES ONLY IF THE TRANSACTION SUCCEEDS: an included contract transaction whose top-level frame fails
    (REVERT, out of gas, any error — at any depth of its own code) changes exactly one balance: the gas payer's, by
    −gasUsed × gasPrice. Whatever inner transfers, creations and self-destructs ran before the failure are undone. -/
theorem failed_tx_moves_only_fee (s : St) (tx : Tx) (r : Res) (h : applyTx s tx = some r) (hf : r.ok = false) :
    ∀ a, r.st.bal a = if a = tx.payer then s.bal a - (tx.gasUsed : Int) * tx.gasPrice else s.bal a := by
  obtain ⟨_, _, _, hr⟩ := applyTx_some s tx r h
  subst hr
  simp only at hf
  intro a
  simp only
  rw [failed_frame_no_value _ _ _ _ _ hf]
  simp only [setBal_bal]
  by_cases ha : a = tx.payer
  · subst ha
    rw [if_pos rfl, upd_same, upd_same, Int.sub_mul]; omega
  · rw [if_neg ha, upd_other _ _ _ _ ha, upd_other _ _ _ _ ha]

theorem setBal_inv (s : St) (a : Nat) (v : Int) (hi : Inv s) (hv : 0 ≤ v) : Inv (setBal s a v) := by
  intro x
  rw [setBal_bal]
  by_cases h : x = a
  · subst h; rw [upd_same]; exact hv
  · rw [upd_other _ _ _ _ h]; exact hi x

/-- no negative balance through a contract transaction (gas price and value operands ≥ 0 — the pool admits nothing else —
    and the engine's gasUsed ≤ gasLimit) -/
theorem applyTx_nonneg (s : St) (tx : Tx) (r : Res) (h : applyTx s tx = some r) (hi : ∀ a, 0 ≤ s.bal a)
    (hv : frameVals tx.top) (hp : 0 ≤ tx.gasPrice) (hg : tx.gasUsed ≤ tx.gasLimit) : ∀ a, 0 ≤ r.st.bal a := by
  obtain ⟨h1, _, _, hr⟩ := applyTx_some s tx r h
  subst hr
  simp only
  have i1 : Inv (setBal s tx.payer (s.bal tx.payer - (tx.gasLimit : Int) * tx.gasPrice)) :=
    setBal_inv s _ _ hi (by omega)
  have i2 := (execFrame_inv tx.top 0 false tx.sender _ i1 hv).1
  apply setBal_inv _ _ _ i2
  have : 0 ≤ ((tx.gasLimit : Int) - (tx.gasUsed : Int)) * tx.gasPrice := Int.mul_nonneg (by omega) hp
  have := i2 tx.payer
  omega

/-- a transaction the miner discards (cannot pay the gas, gas limit below the intrinsic gas, top-level amount not covered)
    costs nobody anything: the next candidate runs on the state as it was -/
theorem discarded_tx_free (s : St) (t : Tx) (ts : List Tx) (h : applyTx s t = none) :
    (applyTxs s (t :: ts)).st = (applyTxs s ts).st ∧ (applyTxs s (t :: ts)).fee = (applyTxs s ts).fee := by
  simp [applyTxs, h]

/-- every address a transaction names lies in `U` -/
def txIn (U : List Nat) (tx : Tx) : Prop := tx.payer ∈ U ∧ tx.sender ∈ U ∧ frameIn U tx.top

theorem applyTxs_supply (U : List Nat) (hn : U.Nodup) : ∀ (txs : List Tx) (s : St), (∀ t ∈ txs, txIn U t) →
    sumBal (applyTxs s txs).st.bal U = sumBal s.bal U - (applyTxs s txs).fee - (applyTxs s txs).burnt
  | [], s, _ => by simp [applyTxs]
  | t :: ts, s, hin => by
    have ht : txIn U t := hin t List.mem_cons_self
    have hts : ∀ x ∈ ts, txIn U x := fun x hx => hin x (List.mem_cons_of_mem _ hx)
    cases ha : applyTx s t with
    | none =>
      have := applyTxs_supply U hn ts s hts
      simp only [applyTxs, ha]
      exact this
    | some r1 =>
      have h1 := applyTx_supply U hn s t r1 ha ht.1 ht.2.1 ht.2.2
      have h2 := applyTxs_supply U hn ts r1.st hts
      simp only [applyTxs, ha]
      omega

theorem sumBal_chargeForGas (U : List Nat) (hn : U.Nodup) (s : St) (income : Nat) (fee : Int) (hi : income ∈ U) (h0 : income ≠ 0) :
    sumBal (chargeForGas s income fee).bal U = sumBal s.bal U + fee := by
  unfold chargeForGas
  by_cases hf : fee = 0
  · rw [if_pos hf, hf]; simp
  · rw [if_neg hf, if_neg h0, sumBal_setBal _ _ _ U hn hi]; omega

/-- A BLOCK of contract transactions mined by a deputy WITH an income address: the sum of all balances changes by exactly
    −burnt (what committed self-destructs-to-self destroyed) — every fee a payer lost reaches the miner, every transfer,
    creation, revert, failure and discarded candidate cancels out. -/
theorem evmBlock_conserves (U : List Nat) (hn : U.Nodup) (txs : List Tx) (s : St) (income : Nat) (hin : ∀ t ∈ txs, txIn U t)
    (hi : income ∈ U) (h0 : income ≠ 0) :
    sumBal (applyBlock s income txs).st.bal U = sumBal s.bal U - (applyBlock s income txs).burnt := by
  unfold applyBlock
  simp only
  rw [sumBal_chargeForGas U hn _ income _ hi h0, applyTxs_supply U hn txs s hin]
  omega

/-- … and by a miner WITHOUT income address the fees are lost as well (chargeForGas drops them: the known finding
    c05/fee-vanishes, here for contract blocks) -/
theorem evmBlock_fee_vanishes (U : List Nat) (hn : U.Nodup) (txs : List Tx) (s : St) (hin : ∀ t ∈ txs, txIn U t) :
    sumBal (applyBlock s 0 txs).st.bal U = sumBal s.bal U - (applyBlock s 0 txs).fee - (applyBlock s 0 txs).burnt := by
  unfold applyBlock
  simp only
  have : chargeForGas (applyTxs s txs).st 0 (applyTxs s txs).fee = (applyTxs s txs).st := by
    unfold chargeForGas; split <;> simp
  rw [this]
  exact applyTxs_supply U hn txs s hin

/-! ### non-vacuity and the burn witness -/

def bal0 : Nat → Int := fun a => if a = 1 then 100 else if a = 2 then 5 else if a = 3 then 7 else 0
def s0 : St := { bal := bal0 }

/-- forwarder: 1 calls 2 with 10, 2 forwards 10 to 3 -/
def forwarder : Frame := .mk .call 2 10 (.sub (.mk .call 3 10 .nil .ok) .nil) .ok
example : (execFrame 0 false 1 s0 forwarder).ok = true := by decide
example : (execFrame 0 false 1 s0 forwarder).st.bal 1 = 90 ∧ (execFrame 0 false 1 s0 forwarder).st.bal 2 = 5 ∧
    (execFrame 0 false 1 s0 forwarder).st.bal 3 = 17 := by decide
example : (execFrame 0 false 1 s0 forwarder).flags = [true, true] := by decide

/-- forwarder that REVERTs after the inner transfer: everything is undone -/
def forwarderRevert : Frame := .mk .call 2 10 (.sub (.mk .call 3 10 .nil .ok) .nil) .revert
example : (execFrame 0 false 1 s0 forwarderRevert).ok = false ∧ (execFrame 0 false 1 s0 forwarderRevert).st.bal 1 = 100 ∧
    (execFrame 0 false 1 s0 forwarderRevert).st.bal 2 = 5 ∧ (execFrame 0 false 1 s0 forwarderRevert).st.bal 3 = 7 := by decide
example : (execFrame 0 false 1 s0 forwarderRevert).flags = [false, true] := by decide

/-- overdrafter: 2 (owning 5 + the 10 it was sent) tries to send 16: the inner call fails, the contract keeps the 10 -/
def overdrafter : Frame := .mk .call 2 10 (.sub (.mk .call 3 16 .nil .ok) .nil) .ok
example : (execFrame 0 false 1 s0 overdrafter).flags = [true, false] ∧ (execFrame 0 false 1 s0 overdrafter).st.bal 2 = 15 ∧
    (execFrame 0 false 1 s0 overdrafter).st.bal 3 = 7 := by decide

/-- self-destruct to the caller: conserved -/
def killer : Frame := .mk .call 2 10 (.kill 1 .nil) .ok
example : (execFrame 0 false 1 s0 killer).st.bal 1 = 105 ∧ (execFrame 0 false 1 s0 killer).st.bal 2 = 0 ∧
    (execFrame 0 false 1 s0 killer).burnt = 0 := by decide

/-- self-destruct to ITSELF -/
def killerSelf : Frame := .mk .call 2 10 (.kill 2 .nil) .ok

/-- `burnt` is not vacuous — the EXPLICIT BURN the property statement names: a contract that names itself as the beneficiary
    of its SELFDESTRUCT destroys its whole balance (here 5 it owned + 10 it was sent): the sum over all accounts drops by 15.
    (opSuicide credits the beneficiary — the contract itself — and SetSuicide then zeroes that very balance.) So "contract
    execution conserves LEMO" WITHOUT the `− burnt` term is refuted by this kernel-checked witness. -/
theorem selfdestruct_to_self_burns :
    (execFrame 0 false 1 s0 killerSelf).ok = true ∧ (execFrame 0 false 1 s0 killerSelf).burnt = 15 ∧
    sumBal (execFrame 0 false 1 s0 killerSelf).st.bal [1, 2, 3] = sumBal s0.bal [1, 2, 3] - 15 := by decide

/-- a second SELFDESTRUCT of an account whose flag is set does nothing: 2 calls itself, the inner frame dies to 3, then the
    outer frame's SELFDESTRUCT to 1 is a no-op (the 4 that arrived in between stay on the dead account) -/
def killTwice : Frame :=
  .mk .call 2 10 (.sub (.mk .call 2 0 (.kill 3 .nil) .ok) (.sub (.mk .call 4 0 (.sub (.mk .call 2 0 .nil .ok) .nil) .ok) (.kill 1 .nil))) .ok
example : (execFrame 0 false 1 s0 killTwice).st.bal 3 = 22 ∧ (execFrame 0 false 1 s0 killTwice).st.bal 2 = 0 ∧
    (execFrame 0 false 1 s0 killTwice).st.bal 1 = 90 := by decide

/-- a self-destruct inside a frame that is reverted later: balance AND flag are restored -/
def killThenRevert : Frame := .mk .call 2 10 (.sub (.mk .call 3 1 (.kill 1 .nil) .ok) .nil) .fail
example : (execFrame 0 false 1 s0 killThenRevert).st.bal 3 = 7 ∧ (execFrame 0 false 1 s0 killThenRevert).st.dead 3 = false ∧
    (execFrame 0 false 1 s0 killThenRevert).st.bal 1 = 100 := by decide

/-- the hypotheses of the theorems are satisfiable together -/
example : frameIn [1, 2, 3] forwarder ∧ frameVals forwarder ∧ frameNoKill forwarder ∧ (∀ a, 0 ≤ s0.bal a) := by
  refine ⟨by simp [frameIn, actsIn, forwarder], by simp [frameVals, actsVals, forwarder], by simp [frameNoKill, actsNoKill, forwarder], ?_⟩
  intro a; simp only [s0, bal0]; split <;> (try split) <;> (try split) <;> omega

/-- a whole transaction: sender 1 pays 21000 gas of 50000 at price 2 for the forwarder call -/
def tx0 : Tx := { sender := 1, payer := 1, gasLimit := 50000, gasPrice := 2, intrinsic := 21000, gasUsed := 30000, top := forwarder }
example : ((applyBlock { bal := fun a => if a = 1 then 200000 else 0 } 9 [tx0]).st.bal 1 = 139990) ∧
    ((applyBlock { bal := fun a => if a = 1 then 200000 else 0 } 9 [tx0]).st.bal 9 = 60000) ∧
    ((applyBlock { bal := fun a => if a = 1 then 200000 else 0 } 9 [tx0]).st.bal 3 = 10) := by decide

end LemoProofs.C05Evm

/-
  C06 — Only authorised transactions change state (signatures, multisig, gas payer).

  Model: `LemoModel.Ledger.checkSigners / verifySigs / applyTx / doSetSigners` (hand-written from
  chain/transaction/tx_processor.go and set_multisig_account_tx.go, tied by `hx c06`/`hx c05`:
  the real engine and the model agree on which candidate txs are packaged and on every balance).
  Signature recovery is abstract: a tx carries the list of addresses its signatures recover to
  (computed by the real `types.Signer.GetSigners` in the harness).

  * `plain_authorised`, `multisig_authorised`, `payer_authorised`, `effect_implies_authorised`
      — the property on the CURRENT code (weights summed over DISTINCT signers, fix 5353fbf).
  * `legacy_multisig_refuted` — the code before the fix accepted one 50-weight signer twice.
  * `setSigners_wf`, `setSigners_only_owner` — what ModifySignersTx stores is duplicate free, weights in 1..100,
      total ≥ 100; target = sender, or a temp address derived from the sender that had no signers (`verifyTempAddress`
      is the fact `tempOk` of the op line); the signers of an account that has some are changed by that account only.
  * `box_subs_authorised` — a successful box ⇒ every sub-tx passed verifySigs in its own pre-state (induction).
  * `plain_surplus_signature_accepted` — REFUTES "repeating a signature makes the tx ineffective" for plain accounts
      (only the first recovered signer is looked at); the consequence is C04's finding c04/replayed/surplus-signature.
  * EVM and asset tx kinds are `.other` in THIS model; that they pass the same `verifySigs` gate is
      LemoProofs.C06Gate (regenerated gate table + `every_type_effect_implies_authorised` for arbitrary handlers) and the
      all-type engine cases of harness/hx/c06_engine.go.  `verifyTempAddress` bytewise and "set once": LemoProofs.C06Temp
      (the `tempOk` of a setsigners line is computed by the driver from the two addresses, LemoModel.TempAddr).
-/
import LemoModel.Ledger
import LemoModel.HashFacts
namespace LemoProofs.C06
open LemoModel.Ledger

theorem distinct_nodup : ∀ l : List Nat, (distinct l).Nodup
  | [] => by simp [distinct]
  | x :: xs => by
    unfold distinct
    split
    · exact distinct_nodup xs
    · rename_i h
      exact List.nodup_cons.mpr ⟨h, distinct_nodup xs⟩

theorem distinct_subset : ∀ (l : List Nat) (a : Nat), a ∈ distinct l → a ∈ l
  | [], a, h => by simp [distinct] at h
  | x :: xs, a, h => by
    unfold distinct at h
    split at h
    · exact List.mem_cons_of_mem _ (distinct_subset xs a h)
    · rcases List.mem_cons.mp h with e | e
      · rw [e]; exact List.mem_cons_self
      · exact List.mem_cons_of_mem _ (distinct_subset xs a e)

/-- **plain_authorised**: on a plain (non-multisig) account the check passes only if the FIRST
    signature recovers to the sender itself. -/
theorem plain_authorised (dedup : Bool) (acct : Acct) (sender : Nat) (rec : Option (List Nat))
    (hp : acct.signers = []) (h : checkSigners dedup acct sender rec = none) :
    ∃ rest, rec = some (sender :: rest) := by
  unfold checkSigners at h
  match rec, h with
  | some (s0 :: rest), h =>
    simp only [hp, List.isEmpty_nil, if_true] at h
    by_cases e : s0 = sender
    · exact ⟨rest, by rw [e]⟩
    · simp [e] at h

/-- **multisig_authorised** (current code): the check passes on a multisig account only if there is a
    duplicate-free set `D` of addresses, each of which really signed, whose registered weights total ≥ 100. -/
theorem multisig_authorised (acct : Acct) (sender : Nat) (rec : Option (List Nat))
    (hm : acct.signers ≠ []) (h : checkSigners true acct sender rec = none) :
    ∃ (l D : List Nat), rec = some l ∧ D.Nodup ∧ (∀ d ∈ D, d ∈ l) ∧ 100 ≤ sumNat (D.map (weightOf acct.signers)) := by
  unfold checkSigners at h
  match rec, h with
  | some (s0 :: rest), h =>
    have he : acct.signers.isEmpty = false := by
      cases hs : acct.signers with
      | nil => exact absurd hs hm
      | cons _ _ => rfl
    simp only [he, Bool.false_eq_true, if_false, if_true] at h
    refine ⟨s0 :: rest, distinct (s0 :: rest), rfl, distinct_nodup _, distinct_subset _, ?_⟩
    by_cases ht : sumNat (List.map (weightOf acct.signers) (distinct (s0 :: rest))) < 100
    · simp [ht] at h
    · omega

/-- the code BEFORE fix 5353fbf (`dedup = false`) accepted the same signature twice:
    signers {7:50, 8:50}, recovered list [7,7] passes although the distinct weight is 50. -/
theorem legacy_multisig_refuted :
    let acct : Acct := { signers := [(7, 50), (8, 50)] }
    checkSigners false acct 1 (some [7, 7]) = none ∧
    sumNat ((distinct [7, 7]).map (weightOf acct.signers)) = 50 ∧
    checkSigners true acct 1 (some [7, 7]) = some .totalWeight := by
  decide

/-- **payer_authorised**: when somebody else pays the gas, the payer's own check must pass too
    (the payer signs the gas terms: `GasPayerSigner.Hash` covers gasPrice/gasLimit/payer over the
    sender's signatures — a fact about the three hash functions checked by the harness's tamper stream). -/
theorem payer_authorised (dedup : Bool) (s : St) (tx : Tx) (h : verifySigs dedup s tx = none)
    (hp : tx.payer ≠ tx.sender) :
    checkSigners dedup (s.accts tx.payer) tx.payer tx.payerSigners = none ∧
    checkSigners dedup (s.accts tx.sender) tx.sender tx.fromSigners = none := by
  unfold verifySigs at h
  cases h1 : payerCheck dedup s tx with
  | some e => simp [h1] at h
  | none =>
    simp only [h1] at h
    refine ⟨?_, h⟩
    unfold payerCheck at h1
    by_cases hh : hasPayerSigs tx = true
    · simpa [hh] using h1
    · simp [hh, hp] at h1

theorem sender_checked (dedup : Bool) (s : St) (tx : Tx) (h : verifySigs dedup s tx = none) :
    checkSigners dedup (s.accts tx.sender) tx.sender tx.fromSigners = none := by
  unfold verifySigs at h
  cases h1 : payerCheck dedup s tx with
  | some e => simp [h1] at h
  | none => simpa [h1] using h

/-- **effect_implies_authorised**: a transaction changes the state (applyTx returns ok) only if its
    signature check passed — for every tx kind, boxes included (the box itself; each sub-tx goes
    through the same `applySimple`). -/
theorem effect_implies_authorised (c : Ctx) (s s' : St) (gp gp' : Nat) (tx : Tx) (g : Nat)
    (h : applyTx c s gp tx = .ok (s', gp', g)) : verifySigs c.dedup s tx = none := by
  unfold applyTx at h
  cases hv : verifySigs c.dedup s tx with
  | none => rfl
  | some e =>
    split at h
    · simp [hv] at h
    · unfold applySimple at h; simp [hv] at h

theorem sub_effect_implies_authorised (c : Ctx) (s s' : St) (gp gp' : Nat) (tx : Tx) (g : Nat)
    (h : applySimple c s gp tx = .ok (s', gp', g)) : verifySigs c.dedup s tx = none := by
  unfold applySimple at h
  cases hv : verifySigs c.dedup s tx with
  | none => rfl
  | some e => simp [hv] at h

/-- **setSigners_wf**: a successful ModifySignersTx stores a list with distinct addresses, weights in
    1..100 and total weight ≥ 100 — on the sender's own account, or (from ≠ to) on a temp address that
    `verifyTempAddress` derives from the sender (fact `tok`) and that had NO signers before: once set, the signers of
    a temp account can only be changed by the temp account itself (i.e. by those signers). -/
theorem setSigners_wf (s s' : St) (fr tg : Nat) (l : List (Nat × Nat)) (tok : Bool)
    (h : doSetSigners s fr tg l tok = .ok s') :
    (s'.accts tg).signers = l ∧ (fr = tg ∨ (tok = true ∧ (s.accts tg).signers = [])) ∧
    (distinct (l.map (·.1))).length = l.length ∧
    (∀ x ∈ l, 1 ≤ x.2 ∧ x.2 ≤ 100) ∧ 100 ≤ sumNat (l.map (·.2)) ∧ l.length ≤ 100 := by
  unfold doSetSigners at h
  split at h; · cases h
  split at h; · cases h
  split at h; · cases h
  split at h; · cases h
  split at h; · cases h
  split at h; · cases h
  rename_i h1 h2 h3 h4 h5 h6
  injection h with h; subst h
  have h3' : (distinct (l.map (·.1))).length = l.length := Decidable.of_not_not h3
  have h45 : fr = tg ∨ (tok = true ∧ (s.accts tg).signers = []) := by
    by_cases e : fr = tg
    · exact Or.inl e
    · refine Or.inr ⟨?_, ?_⟩
      · cases tok with
        | true => rfl
        | false => exact absurd ⟨e, rfl⟩ h4
      · exact Decidable.of_not_not (fun hh => h5 ⟨e, hh⟩)
  refine ⟨by simp [modAcct, upd], h45, h3', ?_, by omega, by omega⟩
  intro x hx
  have := fun hh => h2 (List.any_eq_true.mpr ⟨x, hx, hh⟩)
  simp only [decide_eq_true_eq] at this
  have h' : ¬ (x.2 < 1 ∨ x.2 > 100) := this
  omega

/-- nobody else can touch an account's signers: a successful ModifySignersTx changes the signers of `tg` only, and
    for an account that already HAS signers only a tx sent by that account itself does -/
theorem setSigners_only_owner (s s' : St) (fr tg : Nat) (l : List (Nat × Nat)) (tok : Bool)
    (h : doSetSigners s fr tg l tok = .ok s') (x : Nat) (hx : (s.accts x).signers ≠ []) (hne : fr ≠ x) :
    (s'.accts x).signers = (s.accts x).signers := by
  obtain ⟨_, h2, _⟩ := setSigners_wf s s' fr tg l tok h
  unfold doSetSigners at h
  split at h; · cases h
  split at h; · cases h
  split at h; · cases h
  split at h; · cases h
  split at h; · cases h
  split at h; · cases h
  injection h with h; subst h
  by_cases e : x = tg
  · subst e
    rcases h2 with h2 | ⟨_, h2⟩
    · exact absurd h2 hne
    · exact absurd h2 hx
  · simp [modAcct, upd, e]

/-! ### surplus signatures on a plain account (cross-reference: C04, finding c04/replayed/surplus-signature) -/

/-- **plain_surplus_signature_accepted** — "repeating a signature makes the tx ineffective" is FALSE for plain accounts:
    `checkSignersWeight` looks at the FIRST recovered signer only when the account has no signer list, so the owner's
    signature followed by any surplus (its own again, or a stranger's) passes. The surplus is not authorisation-relevant
    (the owner DID sign) but it changes the tx hash: the replay consequence is C04's finding. -/
theorem plain_surplus_signature_accepted :
    checkSigners true {} 5 (some [5, 5]) = none ∧ checkSigners true {} 5 (some [5, 9]) = none ∧
    checkSigners true {} 5 (some [9, 5]) = some .signerMismatch := by
  decide

/-! ### boxes: every sub-transaction is checked in its own pre-state -/

/-- every sub-tx of the list passes `verifySigs` in the state the PREVIOUS sub-txs left behind -/
def SubsAuthorised (c : Ctx) : St → Nat → List Tx → Prop
  | _, _, [] => True
  | s, gp, t :: ts =>
    verifySigs c.dedup s t = none ∧
    (match applySimple c s gp t with
     | .ok (s1, gp1, _) => SubsAuthorised c s1 gp1 ts
     | .error _ => True)

theorem applySubs_authorised (c : Ctx) : ∀ (ts : List Tx) (s : St) (gp : Nat) (r : St × Nat × Nat × Int),
    applySubs c s gp ts = .ok r → SubsAuthorised c s gp ts := by
  intro ts
  induction ts with
  | nil => intro s gp r _; trivial
  | cons t ts ih =>
    intro s gp r h
    simp only [applySubs] at h
    cases h1 : applySimple c s gp t with
    | error e => simp [h1] at h
    | ok r1 =>
      obtain ⟨s1, gp1, g1⟩ := r1
      simp only [h1] at h
      refine ⟨sub_effect_implies_authorised c s s1 gp gp1 t g1 h1, ?_⟩
      simp only [h1]
      cases h2 : applySubs c s1 gp1 ts with
      | error e => simp [h2] at h
      | ok r2 => exact ih s1 gp1 r2 h2

/-- **box_subs_authorised**: a box tx changes the state only if the box itself passed `verifySigs` AND every one of its
    sub-transactions passed `verifySigs` in its own pre-state (the state after the box's gas purchase and the sub-txs
    before it) — induction over `RunBoxTxs`. -/
theorem box_subs_authorised (c : Ctx) (s s' : St) (gp gp' g : Nat) (tx : Tx) (hk : tx.kind = .box)
    (h : applyTx c s gp tx = .ok (s', gp', g)) :
    verifySigs c.dedup s tx = none ∧
    SubsAuthorised c (setBal s tx.payer ((s.accts tx.payer).bal - (tx.gasLimit : Int) * tx.gasPrice)) (gp - tx.gasLimit) tx.subs := by
  refine ⟨effect_implies_authorised c s s' gp gp' tx g h, ?_⟩
  unfold applyTx at h
  simp only [hk] at h
  split at h; · cases h
  split at h; · cases h
  split at h; · cases h
  split at h; · cases h
  split at h; · cases h
  split at h; · cases h
  rename_i r hsub
  exact applySubs_authorised c tx.subs _ _ _ hsub

/-! ### what the signatures cover (over the regenerated / checked table `LemoModel.HashFacts.expected`) -/

open LemoModel.HashFacts in
/-- **tamper_invalidates** (table part): every content field of a transaction is an input of the hash
    the SENDER signs — directly for an ordinary tx; for a reimbursed tx every content field except the
    two gas terms, and those are inputs of the hash the GAS PAYER signs, which also takes the sender's
    signatures as input (so the payer's authorisation is bound to this very sender authorisation).
    `GasUsed` and the signature lists are in no signing hash; the tx id covers everything but `GasUsed`.
    That a changed hash input changes Keccak's output / the recovered signer is the cryptographic
    assumption; the harness's tamper stream exercises it on the real code. -/
theorem tamper_invalidates :
    (∀ f ∈ content, covers "DefaultSigner" f = true) ∧
    (∀ f ∈ content, f ∈ gasTerms ∨ covers "ReimbursementTxSigner" f = true) ∧
    (∀ f ∈ gasTerms, covers "GasPayerSigner" f = true) ∧ covers "GasPayerSigner" "Sigs" = true ∧
    (∀ fn ∈ ["DefaultSigner", "ReimbursementTxSigner", "GasPayerSigner"], covers fn "GasUsed" = false ∧ covers fn "GasPayerSigs" = false) ∧
    (∀ f ∈ fields, f = "GasUsed" ∨ covers "Transaction" f = true) := by
  decide

/-! non-vacuity -/
example : checkSigners true { signers := [(7, 50), (8, 50)] } 1 (some [8, 7]) = none := by decide
example : checkSigners true {} 5 (some [5, 9]) = none := by decide

end LemoProofs.C06

/-
  C06 — the signature gate and the eleven transaction types: WHAT IS COMPUTED WHERE.

  `LemoModel.GateFacts.rows` is the committed table of the go/ast extraction (harness/hx/c06_gate.go, re-extracted from the
  current source on every run and compared row by row by the driver).  The INTRAPROCEDURAL half — "this call is dominated
  by a gate call that returned nil", the walker `block` of c06_gate.go — is computed by that Go extractor and arrives here
  as the Bool `dom` of a row: it is TRUSTED, not proved.  LEAN computes only the INTERPROCEDURAL closure over those Bools:
  `safe f` = f has ≥ 1 call site and every site is `dom` or stands in a safe function (fuel 6, least fixed point: call
  cycles count as unsafe).  Sound FOR THE ROWS GIVEN.  All eleven `typeDominated` verdicts reduce to ONE row,
  `("site","applyTx","-","handleTx",true)`.

  * `gate_table_complete`  — THE registered fact about the committed table (by `decide`, ON PURPOSE: it pins the committed
      table, which the driver compares with a per-run extraction): every one of the eleven types has its handler row in
      `handleTx`, and that row is effectively dominated by `verifyTransactionSigs`; so are buyGas's and refundGas's state
      changes and every other non-pure call of the tx path; the only calls NOT behind the gate are the listed block-level
      ones (`GateFacts.blockLevel`); `applyTx` is entered from Process / ApplyTxs / RunBoxTxs only and starts with the guard
      on VerifyTxBeforeApply, which has the guard on verifyTransactionSigs; no goto; no other file of the package calls the
      seven listed internals (such a call is a `site file:<name>` row that nothing dominates).
  * `applyWith dominated H …` — a 12-line HAND-WRITTEN shape of applyTx for an ARBITRARY per-type handler: a type for which
      `dominated ty = false` runs WITHOUT the check.  `ty` is a free parameter: it is linked neither to `tx.txType` nor to
      `tx.kind`.  "Effect" is DEFINED as the result `.ok`; that an `.error` leaves no effect in the code (the miner's
      RevertToSnapshot, the validator's abort) is ASSUMED here — and the rows cannot see that branch either.
  * `every_type_effect_implies_authorised` — a COROLLARY, near-definitional: the table enters only as the constant `true`
      (after `rw [typeDominated_all ty]` it reads "a function that returns `.error` whenever `verifySigs ≠ none` returned
      `.ok`").  "For all eleven types" adds nothing beyond `gate_table_complete.1`.  The content of
      `every_type_effect_authorised_plain` / `…_multisig` is the composition with the weight-check theorems of C06.lean
      (`plain_authorised` / `multisig_authorised` / `payer_authorised`).
  * `ungated_row_refutes` — NOT a statement about the table: `dom` is a free lambda (`fun t => t != .createContract`), neither
      `rows` nor `typeDominated` occurs in it.  It shows that `applyWith` DEPENDS on its `dominated` argument (the `if`),
      i.e. that the corollary above is not vacuous in that argument.  Not registered.  (A table-level version — flip the
      `handleTx` site row to false and recompute `typeDominated` — needs `sitesOf` / `safe` parametrised by a row list.)
-/
import LemoProofs.C06
import LemoModel.GateFacts
namespace LemoProofs.C06Gate
open LemoModel.Ledger LemoModel.GateFacts

/-- **gate_table_complete** -/
theorem gate_table_complete :
    (∀ t ∈ TxType.all, typeDominated t = true) ∧
    (∀ r ∈ rows, r.kind = "call" → effective r = true ∨ (r.fn, r.callee) ∈ blockLevel) ∧
    (∀ f ∈ ["handleTx", "buyAndPayIntrinsicGas", "buyGas", "payIntrinsicGas", "refundGas", "RunBoxTxs"], safe fuel f = true) ∧
    sitesOf "applyTx" = [("ApplyTxs", false), ("RunBoxTxs", false), ("Process", false)] ∧
    (⟨"guard", "applyTx", "-", "VerifyTxBeforeApply", false⟩ ∈ rows ∧ ⟨"wrapper", "VerifyTxBeforeApply", "-", "-", true⟩ ∈ rows ∧
     ⟨"guard", "VerifyTxBeforeApply", "-", "verifyTransactionSigs", false⟩ ∈ rows) ∧
    (∀ r ∈ rows, r.kind ≠ "goto") := by
  decide

theorem all_types (t : TxType) : t ∈ TxType.all := by cases t <;> decide

theorem typeDominated_all (t : TxType) : typeDominated t = true := gate_table_complete.1 t (all_types t)

/-- what a tx type's execution may do: ANY functions of the state (the EVM and the asset handlers are not modelled here) -/
structure Handlers where
  /-- VerifyAssetTx: reads the canonical account, changes nothing -/
  pre : St → Tx → Option Err
  buyGas : St → Tx → Except Err St
  run : TxType → St → Tx → Except Err St
  refundGas : St → Tx → St

/-- `applyTx` read off a gate table: VerifyAssetTx, then the signature check IF the type's handler row is dominated,
    then buyGas, the handler of the type, refundGas -/
def applyWith (dominated : TxType → Bool) (H : Handlers) (dedup : Bool) (ty : TxType) (s : St) (tx : Tx) : Except Err St :=
  match H.pre s tx with
  | some e => .error e
  | none =>
    match (if dominated ty then verifySigs dedup s tx else none) with
    | some e => .error e
    | none =>
      match H.buyGas s tx with
      | .error e => .error e
      | .ok s1 =>
        match H.run ty s1 tx with
        | .error e => .error e
        | .ok s2 => .ok (H.refundGas s2 tx)

/-- the code's `applyTx` according to the COMMITTED table -/
def applyAny := applyWith typeDominated

/-- **every_type_effect_implies_authorised** (corollary of `gate_table_complete.1` about the hand-written `applyWith`): for
    every `ty` and whatever the handlers do, `applyAny … = .ok _` only if `verifySigs` passed in the pre-state.  The table
    enters as the constant `typeDominated ty = true`; `ty` is not linked to the tx; "effect" = `.ok` by definition. -/
theorem every_type_effect_implies_authorised (H : Handlers) (dedup : Bool) (ty : TxType) (s s' : St) (tx : Tx)
    (h : applyAny H dedup ty s tx = .ok s') : verifySigs dedup s tx = none := by
  unfold applyAny applyWith at h
  rw [typeDominated_all ty] at h
  cases hv : verifySigs dedup s tx with
  | none => rfl
  | some e =>
    simp only [hv, if_true] at h
    split at h
    · cases h
    · cases h

/-- composed with the weight check: a plain sender's own key signed first, for every type -/
theorem every_type_effect_authorised_plain (H : Handlers) (dedup : Bool) (ty : TxType) (s s' : St) (tx : Tx)
    (h : applyAny H dedup ty s tx = .ok s') (hp : (s.accts tx.sender).signers = []) :
    ∃ rest, tx.fromSigners = some (tx.sender :: rest) :=
  LemoProofs.C06.plain_authorised dedup _ _ _ hp
    (LemoProofs.C06.sender_checked dedup s tx (every_type_effect_implies_authorised H dedup ty s s' tx h))

/-- composed with the weight check: a multisig sender is authorised by distinct registered signers totalling ≥ 100, and a
    foreign gas payer passed its own check — for every type -/
theorem every_type_effect_authorised_multisig (H : Handlers) (ty : TxType) (s s' : St) (tx : Tx)
    (h : applyAny H true ty s tx = .ok s') (hm : (s.accts tx.sender).signers ≠ []) :
    (∃ (l D : List Nat), tx.fromSigners = some l ∧ D.Nodup ∧ (∀ d ∈ D, d ∈ l) ∧
      100 ≤ sumNat (D.map (weightOf (s.accts tx.sender).signers))) ∧
    (tx.payer ≠ tx.sender → checkSigners true (s.accts tx.payer) tx.payer tx.payerSigners = none) := by
  have hv := every_type_effect_implies_authorised H true ty s s' tx h
  exact ⟨LemoProofs.C06.multisig_authorised _ _ _ hm (LemoProofs.C06.sender_checked true s tx hv),
         fun hp => (LemoProofs.C06.payer_authorised true s tx hv hp).1⟩

/-- `applyWith` depends on its `dominated` argument: with a predicate that is false for ONE type (here: contract creation;
    a free lambda, NOT derived from `rows`) an unsigned tx of that type gets `.ok`.  This says nothing about the table. -/
theorem ungated_row_refutes :
    let dom : TxType → Bool := fun t => t != .createContract
    let H : Handlers := { pre := fun _ _ => none, buyGas := fun s _ => .ok s, run := fun _ s _ => .ok s, refundGas := fun s _ => s }
    let tx : Tx := { id := 1, sender := 5, payer := 5, gasLimit := 0, gasPrice := 0, txType := 1, msgLen := 0, nzData := 0,
                     zData := 0, kind := .other, fromSigners := some [], payerSigners := some [] }
    (∃ s', applyWith dom H true .createContract ⟨fun _ => {}⟩ tx = .ok s') ∧ verifySigs true ⟨fun _ => {}⟩ tx = some .notSigned := by
  refine ⟨⟨_, rfl⟩, by decide⟩

def trivialH : Handlers := { pre := fun _ _ => none, buyGas := fun s _ => .ok s, run := fun _ s _ => .ok s, refundGas := fun s _ => s }

def signedCall : Tx := { id := 1, sender := 5, payer := 5, gasLimit := 0, gasPrice := 0, txType := 0, msgLen := 0, nzData := 0, zData := 0,
                           kind := .other, fromSigners := some [5], payerSigners := some [] }

/-! non-vacuity: a signed tx of an EVM type goes through `applyAny` -/
example : applyAny trivialH true .ordinary ⟨fun _ => {}⟩ signedCall = .ok ⟨fun _ => {}⟩ := by
  unfold applyAny applyWith
  rw [typeDominated_all]
  rfl

end LemoProofs.C06Gate

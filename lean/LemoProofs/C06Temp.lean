/-
  C06 — temp addresses bytewise (model LemoModel.TempAddr, tied by the `c06 tempaddr` ops and by every `setsigners` line
  of the ledger scenario) and "the signers of a temp address are set once".

  * `verifyTemp_bytes`            — the check, byte by byte: version byte 3 and bytes 1..9 = the creator's bytes 11..19;
                                    bytes 10..19 of the temp address (the user id) and bytes 0..10 of the creator are free.
  * `tempAddress_roundtrip`       — what `CreateTempAddress` builds (for any 20-byte creator and 10-byte user id) is
                                    `3 :: creator[11:] ++ userId`, has 20 bytes and verifies for its creator.
  * `tempAddress_binds_creator`   — two creators that both pass for one temp address agree on their last 9 bytes.
  * `tempAddress_suffix_only`     — and ONLY on those: creators with the same 9-byte suffix are indistinguishable to the check
                                    (`tempAddress_binds_creator_not_unique`: a concrete pair of different creators). So
                                    "derived from the sender" means "from the sender's 72-bit suffix": whoever grinds an
                                    address with a victim's suffix (2^72 work) can set the signers of the victim's temp
                                    addresses FIRST; nothing in the code excludes that, the first setter wins.
  * `tempAddress_userid_free`     — the user-id part is not constrained by the check.
  * `setSigners_temp_bytes`       — `setSigners_wf` with the fact `tempOk` replaced by the model's own computation.
  * `temp_signers_set_once`       — over ANY sequence of ModifySigners operations (failed ones leave the state): once an
                                    account has a signer list, no operation sent by ANOTHER account changes it ever again;
                                    `temp_first_setter_wins`: after the first successful foreign set no second one succeeds.
    What the code checks about "once" is `len(toAcc.GetSigners()) != 0` on the target; it holds for ever because a stored
    list is never empty (total weight ≥ 100) and `doSetSigners` is the only writer of `signers` in the ledger model.
-/
import LemoProofs.C06
import LemoModel.TempAddr
namespace LemoProofs.C06Temp
open LemoModel.TempAddr LemoModel.Ledger

theorem exists_cons {l : List Nat} {n : Nat} (h : l.length = n + 1) : ∃ a t, l = a :: t ∧ t.length = n := by
  cases l with
  | nil => simp at h
  | cons a t => exact ⟨a, t, rfl, by simpa using h⟩

theorem verifyTemp_none_iff (c t : Addr) :
    verifyTemp c t = none ↔ t.headD 0 = 3 ∧ c.drop 11 = (t.drop 1).take 9 := by
  unfold verifyTemp tempType addressLength issuerLen
  split
  · rename_i h; exact ⟨fun h' => (by cases h'), fun h' => absurd h'.1 h⟩
  · rename_i h
    split
    · rename_i h2; exact ⟨fun h' => (by cases h'), fun h' => absurd h'.2 h2⟩
    · rename_i h2; exact ⟨fun _ => ⟨Decidable.of_not_not h, Decidable.of_not_not h2⟩, fun _ => rfl⟩

/-- **verifyTemp_bytes**: the check byte by byte, for all byte values -/
theorem verifyTemp_bytes (a0 a1 a2 a3 a4 a5 a6 a7 a8 a9 a10 a11 a12 a13 a14 a15 a16 a17 a18 a19 t0 t1 t2 t3 t4 t5 t6 t7 t8 t9 t10 t11 t12 t13 t14 t15 t16 t17 t18 t19 : Nat) :
    verifyTemp [a0, a1, a2, a3, a4, a5, a6, a7, a8, a9, a10, a11, a12, a13, a14, a15, a16, a17, a18, a19] [t0, t1, t2, t3, t4, t5, t6, t7, t8, t9, t10, t11, t12, t13, t14, t15, t16, t17, t18, t19] = none ↔ t0 = 3 ∧ t1 = a11 ∧ t2 = a12 ∧ t3 = a13 ∧ t4 = a14 ∧ t5 = a15 ∧ t6 = a16 ∧ t7 = a17 ∧ t8 = a18 ∧ t9 = a19 := by
  rw [verifyTemp_none_iff]
  simp only [List.headD_cons, List.drop_succ_cons, List.drop_zero, List.take_succ_cons, List.take_zero, List.cons.injEq, and_true]
  constructor
  · rintro ⟨h0, h⟩
    exact ⟨h0, by simp_all⟩
  · rintro ⟨h0, h⟩
    exact ⟨h0, by simp_all⟩

/-- **tempAddress_binds_creator** -/
theorem tempAddress_binds_creator (a b t : Addr) (ha : verifyTemp a t = none) (hb : verifyTemp b t = none) :
    a.drop 11 = b.drop 11 := by
  rw [verifyTemp_none_iff] at ha hb
  rw [ha.2, hb.2]

/-- **tempAddress_suffix_only**: the check sees nothing of the creator but its last 9 bytes -/
theorem tempAddress_suffix_only (a b t : Addr) (h : a.drop 11 = b.drop 11) : verifyTemp a t = verifyTemp b t := by
  unfold verifyTemp addressLength issuerLen
  rw [show (20 - 9 : Nat) = 11 from rfl, h]

/-- the creator is NOT bound uniquely: two different 20-byte addresses pass for the same temp address -/
theorem tempAddress_binds_creator_not_unique :
    let a : Addr := [1, 0, 0, 0, 0, 0, 0, 0, 0, 0, 0, 11, 12, 13, 14, 15, 16, 17, 18, 19]
    let b : Addr := [1, 9, 9, 9, 9, 9, 9, 9, 9, 9, 9, 11, 12, 13, 14, 15, 16, 17, 18, 19]
    let t : Addr := [3, 11, 12, 13, 14, 15, 16, 17, 18, 19, 0, 0, 0, 0, 0, 0, 0, 0, 0, 0]
    a ≠ b ∧ verifyTemp a t = none ∧ verifyTemp b t = none := by
  decide

/-- **tempAddress_userid_free**: bytes 10..19 of the temp address are not looked at -/
theorem tempAddress_userid_free (c t t' : Addr) (h : t.take 10 = t'.take 10) : verifyTemp c t = verifyTemp c t' := by
  have e1 : t.headD 0 = t'.headD 0 := by
    have : (t.take 10).headD 0 = (t'.take 10).headD 0 := by rw [h]
    cases t <;> cases t' <;> simp_all
  have e2 : (t.drop 1).take 9 = (t'.drop 1).take 9 := by
    have : (t.take 10).drop 1 = (t'.take 10).drop 1 := by rw [h]
    simpa [List.drop_take] using this
  unfold verifyTemp issuerLen
  rw [e1, e2]

/-- **tempAddress_roundtrip**: the constructor's output, exactly, and it verifies for its creator -/
theorem tempAddress_roundtrip (creator uid : List Nat) (hc : creator.length = 20) (hu : uid.length = 10) :
    createTemp creator uid = 3 :: (creator.drop 11 ++ uid) ∧ (createTemp creator uid).length = 20 ∧
    verifyTemp creator (createTemp creator uid) = none := by
  obtain ⟨a0, c0, rfl, ch0⟩ := exists_cons hc
  obtain ⟨a1, c1, rfl, ch1⟩ := exists_cons ch0
  obtain ⟨a2, c2, rfl, ch2⟩ := exists_cons ch1
  obtain ⟨a3, c3, rfl, ch3⟩ := exists_cons ch2
  obtain ⟨a4, c4, rfl, ch4⟩ := exists_cons ch3
  obtain ⟨a5, c5, rfl, ch5⟩ := exists_cons ch4
  obtain ⟨a6, c6, rfl, ch6⟩ := exists_cons ch5
  obtain ⟨a7, c7, rfl, ch7⟩ := exists_cons ch6
  obtain ⟨a8, c8, rfl, ch8⟩ := exists_cons ch7
  obtain ⟨a9, c9, rfl, ch9⟩ := exists_cons ch8
  obtain ⟨a10, c10, rfl, ch10⟩ := exists_cons ch9
  obtain ⟨a11, c11, rfl, ch11⟩ := exists_cons ch10
  obtain ⟨a12, c12, rfl, ch12⟩ := exists_cons ch11
  obtain ⟨a13, c13, rfl, ch13⟩ := exists_cons ch12
  obtain ⟨a14, c14, rfl, ch14⟩ := exists_cons ch13
  obtain ⟨a15, c15, rfl, ch15⟩ := exists_cons ch14
  obtain ⟨a16, c16, rfl, ch16⟩ := exists_cons ch15
  obtain ⟨a17, c17, rfl, ch17⟩ := exists_cons ch16
  obtain ⟨a18, c18, rfl, ch18⟩ := exists_cons ch17
  obtain ⟨a19, c19, rfl, ch19⟩ := exists_cons ch18
  have := List.eq_nil_of_length_eq_zero ch19; subst this
  obtain ⟨u0, w0, rfl, wh0⟩ := exists_cons hu
  obtain ⟨u1, w1, rfl, wh1⟩ := exists_cons wh0
  obtain ⟨u2, w2, rfl, wh2⟩ := exists_cons wh1
  obtain ⟨u3, w3, rfl, wh3⟩ := exists_cons wh2
  obtain ⟨u4, w4, rfl, wh4⟩ := exists_cons wh3
  obtain ⟨u5, w5, rfl, wh5⟩ := exists_cons wh4
  obtain ⟨u6, w6, rfl, wh6⟩ := exists_cons wh5
  obtain ⟨u7, w7, rfl, wh7⟩ := exists_cons wh6
  obtain ⟨u8, w8, rfl, wh8⟩ := exists_cons wh7
  obtain ⟨u9, w9, rfl, wh9⟩ := exists_cons wh8
  have := List.eq_nil_of_length_eq_zero wh9; subst this
  have e : createTemp [a0, a1, a2, a3, a4, a5, a6, a7, a8, a9, a10, a11, a12, a13, a14, a15, a16, a17, a18, a19] [u0, u1, u2, u3, u4, u5, u6, u7, u8, u9] =
      [3, a11, a12, a13, a14, a15, a16, a17, a18, a19, u0, u1, u2, u3, u4, u5, u6, u7, u8, u9] := by
    simp [createTemp, copyRange, bytesToAddress, addressLength, issuerLen, tempType, List.replicate]
  rw [e]
  refine ⟨by simp, by simp, ?_⟩
  exact (verifyTemp_bytes a0 a1 a2 a3 a4 a5 a6 a7 a8 a9 a10 a11 a12 a13 a14 a15 a16 a17 a18 a19 3 a11 a12 a13 a14 a15 a16 a17 a18 a19 u0 u1 u2 u3 u4 u5 u6 u7 u8 u9).mpr (by simp)

/-- a temp address made for one creator does not pass for a creator with another suffix -/
theorem tempAddress_foreign_refused (a b uid : List Nat) (ha : a.length = 20) (hu : uid.length = 10)
    (hne : a.drop 11 ≠ b.drop 11) : verifyTemp b (createTemp a uid) ≠ none := by
  intro hb
  exact hne (tempAddress_binds_creator a b _ (tempAddress_roundtrip a uid ha hu).2.2 hb)

/-! ### the ledger: ModifySignersTx with the model's own tempOk -/

/-- **setSigners_temp_bytes**: a ModifySignersTx that sets the signers of ANOTHER account succeeded only if that account
    is a temp address (version byte 3) whose bytes 1..9 are the sender's last 9 bytes, and had no signers. `cb`, `tb` are
    the two addresses' bytes (what the op line carries).  NOTE: the statement does not relate `cb` / `tb` to the model's
    account numbers `fr` / `tg` (the driver does, line by line) and carries no length hypothesis: for byte lists that are
    not 20 long it speaks about the totalised `verifyTemp` (e.g. `verifyTemp [] [3] = none`), which no Go value reaches
    (the Go operands are `[20]byte`). -/
theorem setSigners_temp_bytes (s s' : St) (fr tg : Nat) (l : List (Nat × Nat)) (cb tb : Addr)
    (h : doSetSigners s fr tg l (verifyOk cb tb) = .ok s') (hne : fr ≠ tg) :
    tb.headD 0 = 3 ∧ cb.drop 11 = (tb.drop 1).take 9 ∧ (s.accts tg).signers = [] ∧ (s'.accts tg).signers = l := by
  obtain ⟨h1, h2, _⟩ := LemoProofs.C06.setSigners_wf s s' fr tg l _ h
  rcases h2 with h2 | ⟨h2, h3⟩
  · exact absurd h2 hne
  · have : verifyTemp cb tb = none := by
      unfold verifyOk at h2
      cases hv : verifyTemp cb tb with
      | none => rfl
      | some e => simp [hv] at h2
    exact ⟨((verifyTemp_none_iff cb tb).mp this).1, ((verifyTemp_none_iff cb tb).mp this).2, h3, h1⟩

theorem sumNat_nil_lt (l : List (Nat × Nat)) (h : 100 ≤ sumNat (l.map (·.2))) : l ≠ [] := by
  intro e; subst e; simp [sumNat] at h

/-- a stored signer list is never empty -/
theorem doSetSigners_nonempty (s s' : St) (fr tg : Nat) (l : List (Nat × Nat)) (tok : Bool)
    (h : doSetSigners s fr tg l tok = .ok s') : (s'.accts tg).signers ≠ [] := by
  obtain ⟨h1, _, _, _, h5, _⟩ := LemoProofs.C06.setSigners_wf s s' fr tg l tok h
  rw [h1]; exact sumNat_nil_lt l h5

/-- an account that has signers keeps having signers -/
theorem doSetSigners_stay_set (s s' : St) (fr tg : Nat) (l : List (Nat × Nat)) (tok : Bool)
    (h : doSetSigners s fr tg l tok = .ok s') (x : Nat) (hx : (s.accts x).signers ≠ []) : (s'.accts x).signers ≠ [] := by
  by_cases e : x = tg
  · subst e; exact doSetSigners_nonempty s s' fr x l tok h
  · by_cases e2 : fr = x
    · subst e2
      -- the sender's own list is touched only when it is the target
      obtain ⟨_, _, _⟩ := LemoProofs.C06.setSigners_wf s s' fr tg l tok h
      unfold doSetSigners at h
      split at h; · cases h
      split at h; · cases h
      split at h; · cases h
      split at h; · cases h
      split at h; · cases h
      split at h; · cases h
      injection h with h; subst h
      simpa [modAcct, upd, e] using hx
    · rw [LemoProofs.C06.setSigners_only_owner s s' fr tg l tok h x hx e2]; exact hx

/-- a foreign sender cannot set the signers of an account that has some -/
theorem foreign_setSigners_refused (s s' : St) (fr tg : Nat) (l : List (Nat × Nat)) (tok : Bool)
    (hs : (s.accts tg).signers ≠ []) (hne : fr ≠ tg) : doSetSigners s fr tg l tok ≠ .ok s' := by
  intro h
  obtain ⟨_, h2, _⟩ := LemoProofs.C06.setSigners_wf s s' fr tg l tok h
  rcases h2 with h2 | ⟨_, h3⟩
  · exact hne h2
  · exact hs h3

/-- one ModifySigners operation: sender, target, list, tempOk -/
structure SetOp where
  fr : Nat
  tg : Nat
  l : List (Nat × Nat)
  tok : Bool

/-- a sequence of ModifySigners operations; a failed one leaves the state as it was (the tx is discarded). Returns the final
    state and the operations that SUCCEEDED, in order. -/
def runSets : St → List SetOp → St × List SetOp
  | s, [] => (s, [])
  | s, o :: os =>
    match doSetSigners s o.fr o.tg o.l o.tok with
    | .ok s1 => let r := runSets s1 os; (r.1, o :: r.2)
    | .error _ => runSets s os

/-- **temp_signers_set_once**: once account `x` has a signer list, through ANY sequence of ModifySigners operations it keeps
    having one and every operation that changes it was sent by `x` itself. -/
theorem temp_signers_set_once (x : Nat) : ∀ (ops : List SetOp) (s : St), (s.accts x).signers ≠ [] →
    ((runSets s ops).1.accts x).signers ≠ [] ∧ ∀ o ∈ (runSets s ops).2, o.tg = x → o.fr = x := by
  intro ops
  induction ops with
  | nil => intro s hs; exact ⟨hs, by simp [runSets]⟩
  | cons o os ih =>
    intro s hs
    unfold runSets
    cases hd : doSetSigners s o.fr o.tg o.l o.tok with
    | error e => simpa using ih s hs
    | ok s1 =>
      have hs1 := doSetSigners_stay_set s s1 o.fr o.tg o.l o.tok hd x hs
      obtain ⟨i1, i2⟩ := ih s1 hs1
      refine ⟨i1, ?_⟩
      intro o' ho' htg
      simp only [List.mem_cons] at ho'
      rcases ho' with e | e
      · subst e
        by_cases hf : o'.fr = x
        · exact hf
        · exfalso
          subst htg
          exact foreign_setSigners_refused s s1 o'.fr o'.tg o'.l o'.tok hs hf hd
      · exact i2 o' e htg

/-- **temp_first_setter_wins**: after a successful set of `tg`'s signers by a foreign creator, no later operation of ANY
    foreign sender on `tg` succeeds — in particular not one by a second creator whose address shares the 9-byte suffix. -/
theorem temp_first_setter_wins (s s1 : St) (o : SetOp) (h : doSetSigners s o.fr o.tg o.l o.tok = .ok s1) (ops : List SetOp) :
    ∀ o' ∈ (runSets s1 ops).2, o'.tg = o.tg → o'.fr = o.tg :=
  (temp_signers_set_once o.tg ops s1 (doSetSigners_nonempty s s1 o.fr o.tg o.l o.tok h)).2

/-! non-vacuity: a creator sets the signers of its temp address; a second creator with the same suffix is refused -/
example :
    let a : Addr := [1, 0, 0, 0, 0, 0, 0, 0, 0, 0, 0, 11, 12, 13, 14, 15, 16, 17, 18, 19]
    let b : Addr := [1, 9, 9, 9, 9, 9, 9, 9, 9, 9, 9, 11, 12, 13, 14, 15, 16, 17, 18, 19]
    let t : Addr := createTemp a [0, 1, 2, 3, 4, 5, 6, 7, 8, 9]
    let r := runSets ⟨fun _ => {}⟩ [⟨7, 8, [(7, 100)], verifyOk a t⟩, ⟨9, 8, [(9, 100)], verifyOk b t⟩]
    verifyOk b t = true ∧ r.2.map (·.fr) = [7] ∧ (r.1.accts 8).signers = [(7, 100)] := by
  decide

end LemoProofs.C06Temp

/-
  C07 — Change journal is faithful: exact revert at any nesting; never fails.

  Model: `LemoModel.Journal` (hand-written from chain/account/{safe_account,change_log,
  log_processor,account}.go; tied to the code by the correspondence `hx c07`, which drives a real
  `account.Manager` and the model with the same scripts and compares every getter of every account
  plus the journal's (address, type, version) list after every step).

  Full statement of the property (kept visible):
    for EVERY script of writes / snapshots / reverts issued after `Snapshot()`,
    `RevertToSnapshot(id)` does not fail and restores every observable attribute.

  What is proved, and what is refuted on the code as it stands:
    * `revert_exact`          — the full statement for every nesting depth and interleaving, for all
                                write kinds except SetCode and SetSuicide (the `_partial` guard
                                `ExactW`), on the CURRENT code (counter restore + nil-equity undo).
    * `legacy_counter_panics` — the code before commit 5712ccd really failed (kernel-checked witness).
    * `legacy_equity_panics`  — the code before commit 1ec51f5 really failed.
    * `suicide_undo_loses_storage`, `suicide_undo_clears_older_suicide`, `code_undo_leaves_empty_hash`
                              — kernel-checked witnesses that the full statement is FALSE for the two
                                excluded kinds on the current code (known findings c07/revert-mismatch/…).
-/
import LemoProofs.Lemmas.JournalReplay
import LemoProofs.C07Merge
import LemoProofs.C07Copy
import LemoProofs.C07Slice
namespace LemoProofs.C07
open LemoModel.Journal LemoProofs.JournalStep LemoProofs.JournalReplay

/-! ### RevertToSnapshot, specified -/

theorem findIdx_pre (pre post : List (Nat × Nat)) (id j : Nat) (hpre : ∀ r ∈ pre, r.1 ≠ id) :
    (pre ++ (id, j) :: post).findIdx? (fun r => r.1 == id) = some pre.length := by
  induction pre with
  | nil => simp [List.findIdx?_cons]
  | cons x xs ih =>
    have hx : (x.1 == id) = false := by simpa using hpre x (by simp)
    have := ih (fun r hr => hpre r (by simp [hr]))
    simp [List.findIdx?_cons, hx, this]

theorem revert_spec (rc en : Bool) (s : St) (id j : Nat) (pre post : List (Nat × Nat))
    (h : s.revs = pre ++ (id, j) :: post) (hpre : ∀ r ∈ pre, r.1 ≠ id) :
    revert rc en s id =
      match undoLoop rc en (s.logs.drop j).reverse s.accts [] with
      | none => (s, .panic)
      | some accts => ({ s with accts := accts, logs := s.logs.take j, revs := pre }, .ok) := by
  unfold revert
  rw [h, findIdx_pre pre post id j hpre]
  simp only [List.getElem?_append_right (Nat.le_refl _), Nat.sub_self, List.getElem?_cons_zero, List.take_left']
  cases undoLoop rc en (s.logs.drop j).reverse s.accts [] <;> rfl

/-! ### scripts -/

/-- a script issued after the outer snapshot `id0`: every write is of an exact kind and its setter
    succeeds (the callers' own preconditions, e.g. "the asset exists"); every inner revert targets a
    snapshot that is live and was taken after `id0`.  Nothing is assumed about reverts succeeding. -/
def scriptB (id0 : Nat) : St → List Op → Bool
  | _, [] => true
  | s, .w a w :: os => ExactW w && ((write s a w).2 == .ok) && scriptB id0 (write s a w).1 os
  | s, .snap :: os => scriptB id0 (snapshot s).1 os
  | s, .rev id :: os => decide (id0 < id) && s.revs.any (fun r => r.1 == id) && scriptB id0 (revert true true s id).1 os

def Script (id0 : Nat) (s : St) (ws : List Op) : Prop := scriptB id0 s ws = true

theorem script_w {id0 s a w os} (h : Script id0 s (.w a w :: os)) :
    ExactW w = true ∧ (write s a w).2 = .ok ∧ Script id0 (write s a w).1 os := by
  simp only [Script, scriptB, Bool.and_eq_true, beq_iff_eq] at h
  exact ⟨h.1.1, h.1.2, h.2⟩

theorem script_snap {id0 s os} (h : Script id0 s (.snap :: os)) : Script id0 (snapshot s).1 os := h

theorem script_rev {id0 s id os} (h : Script id0 s (.rev id :: os)) :
    id0 < id ∧ (∃ j, (id, j) ∈ s.revs) ∧ Script id0 (revert true true s id).1 os := by
  simp only [Script, scriptB, Bool.and_eq_true, decide_eq_true_eq, List.any_eq_true, beq_iff_eq] at h
  obtain ⟨⟨h1, r, hr, he⟩, h3⟩ := h
  exact ⟨h1, ⟨r.2, by rw [← he]; exact hr⟩, h3⟩

/-- invariant of the run, relative to the state `s0` at the outer snapshot -/
structure Inv (s0 s : St) : Prop where
  logs_take : s.logs.take s0.logs.length = s0.logs
  len : s0.logs.length ≤ s.logs.length
  replay : Replayable s0.accts (s.logs.drop s0.logs.length) s.accts
  revs : ∃ extra, s.revs = s0.revs ++ (s0.nextRev, s0.logs.length) :: extra ∧
          ∀ r ∈ extra, s0.nextRev < r.1 ∧ s0.logs.length ≤ r.2
  next : s0.nextRev < s.nextRev

theorem write_ok (s : St) (a : Nat) (w : Write) (h : (write s a w).2 = .ok) :
    ∃ a' u, applyWrite (s.accts a) w = .ok a' u ∧
      (write s a w).1 = { s with accts := upd s.accts a (bumpVer a' w.ty).1,
                                 logs := s.logs ++ [{ addr := a, ty := w.ty, ver := (bumpVer a' w.ty).2, undo := u }] } := by
  unfold write at h ⊢
  cases hq : applyWrite (s.accts a) w with
  | ok a' u => exact ⟨a', u, rfl, rfl⟩
  | logErr u => simp [hq] at h
  | panic => simp [hq] at h

theorem first_occurrence (l : List (Nat × Nat)) (id j : Nat) (h : (id, j) ∈ l) :
    ∃ e1 j' e2, l = e1 ++ (id, j') :: e2 ∧ ∀ r ∈ e1, r.1 ≠ id := by
  induction l with
  | nil => cases h
  | cons x xs ih =>
    by_cases hx : x.1 = id
    · exact ⟨[], x.2, xs, by simp [← hx], by simp⟩
    · have : (id, j) ∈ xs := by
        rcases List.mem_cons.mp h with e | e
        · exact absurd (by rw [← e]) hx
        · exact e
      obtain ⟨e1, j', e2, he, hne⟩ := ih this
      refine ⟨x :: e1, j', e2, by simp [he], ?_⟩
      intro r hr
      rcases List.mem_cons.mp hr with e | e
      · rw [e]; exact hx
      · exact hne r e

theorem inv_step (s0 s : St) (o : Op) (os : List Op) (hg : Good s0.accts)
    (hrev0 : ∀ r ∈ s0.revs, r.1 < s0.nextRev)
    (hi : Inv s0 s) (hs : Script s0.nextRev s (o :: os)) :
    Inv s0 (step true true s o).1 ∧ Script s0.nextRev (step true true s o).1 os := by
  cases o with
  | w a w =>
    obtain ⟨hx, hok, hrest⟩ := script_w hs
    refine ⟨?_, hrest⟩
    obtain ⟨a', u, haw, hst⟩ := write_ok s a w hok
    obtain ⟨_, hn, _, _⟩ := applyWrite_frame _ _ _ _ hx haw
    show Inv s0 (write s a w).1
    rw [hst]
    refine ⟨?_, ?_, ?_, hi.revs, hi.next⟩
    · simp only; rw [List.take_append_of_le_length hi.len]; exact hi.logs_take
    · simp only [List.length_append, List.length_singleton]; have := hi.len; omega
    · simp only; rw [List.drop_append_of_le_length hi.len]
      refine .snoc hi.replay ⟨w, a', hx, haw, rfl, ?_, rfl⟩
      simp only [bumpVer, hn]
  | snap =>
    refine ⟨?_, script_snap hs⟩
    show Inv s0 (snapshot s).1
    obtain ⟨extra, he, hex⟩ := hi.revs
    refine ⟨hi.logs_take, hi.len, hi.replay, ⟨extra ++ [(s.nextRev, s.logs.length)], ?_, ?_⟩, ?_⟩
    · simp only [snapshot, he, List.append_assoc, List.cons_append]
    · intro r hr
      rcases List.mem_append.mp hr with h | h
      · exact hex r h
      · simp only [List.mem_singleton] at h; subst h; exact ⟨hi.next, hi.len⟩
    · simp only [snapshot]; have := hi.next; omega
  | rev id =>
    obtain ⟨hid, ⟨j, hmem⟩, hrest⟩ := script_rev hs
    refine ⟨?_, hrest⟩
    show Inv s0 (revert true true s id).1
    obtain ⟨extra, he, hex⟩ := hi.revs
    -- the target lives in `extra`
    have hin : (id, j) ∈ extra := by
      rw [he] at hmem
      rcases List.mem_append.mp hmem with h | h
      · have := hrev0 _ h; simp only at this; omega
      · rcases List.mem_cons.mp h with h | h
        · have : id = s0.nextRev := by injection h
          omega
        · exact h
    obtain ⟨e1, j', e2, hsplit, hne⟩ := first_occurrence extra id j hin
    have hj' : s0.logs.length ≤ j' := (hex (id, j') (by rw [hsplit]; simp)).2
    have hrevs : s.revs = (s0.revs ++ (s0.nextRev, s0.logs.length) :: e1) ++ (id, j') :: e2 := by
      rw [he, hsplit]; simp
    have hpre : ∀ r ∈ s0.revs ++ (s0.nextRev, s0.logs.length) :: e1, r.1 ≠ id := by
      intro r hr
      rcases List.mem_append.mp hr with h | h
      · have := hrev0 _ h; omega
      · rcases List.mem_cons.mp h with h | h
        · rw [h]; simp only; omega
        · exact hne r h
    rw [revert_spec true true s id j' _ _ hrevs hpre]
    -- split the honest segment at j'
    have hdrop : s.logs.drop j' = (s.logs.drop s0.logs.length).drop (j' - s0.logs.length) := by
      rw [List.drop_drop]; congr 1; omega
    have hsp := replayable_split hi.replay ((s.logs.drop s0.logs.length).take (j' - s0.logs.length))
      ((s.logs.drop s0.logs.length).drop (j' - s0.logs.length)) (List.take_append_drop _ _).symm
    obtain ⟨M, h1, h2⟩ := hsp
    have hgM : Good M := replayable_good hg h1
    have hundo := undoLoop_replay (hdrop ▸ h2) [] hgM (by intro i t v h; simp [Last.get] at h)
    rw [hundo]
    refine ⟨?_, ?_, ?_, ⟨e1, rfl, fun r hr => hex r (by rw [hsplit]; simp [hr])⟩, hi.next⟩
    · simp only; rw [List.take_take, Nat.min_eq_left hj']; exact hi.logs_take
    · simp only [List.length_take]; have := hi.len; omega
    · simp only
      have : (s.logs.take j').drop s0.logs.length = (s.logs.drop s0.logs.length).take (j' - s0.logs.length) := by
        rw [List.drop_take]
      rw [this]; exact h1

theorem inv_run (s0 : St) (hg : Good s0.accts) (hrev0 : ∀ r ∈ s0.revs, r.1 < s0.nextRev) :
    ∀ (ws : List Op) (s : St), Inv s0 s → Script s0.nextRev s ws → Inv s0 (run true true s ws) := by
  intro ws
  induction ws with
  | nil => intro s hi _; exact hi
  | cons o os ih =>
    intro s hi hs
    obtain ⟨h1, h2⟩ := inv_step s0 s o os hg hrev0 hi hs
    exact ih _ h1 h2

/-- **revert_exact** (the property, on the current code, for the exact write kinds):
    take a snapshot in any reachable-style state `s0`; run ANY script of journalled writes, nested
    snapshots and reverts to inner snapshots (any depth, any interleaving); then
    `RevertToSnapshot(id)` does not panic and gives back `s0` exactly — every attribute of every
    account, the per-account version counters, the journal and the revision stack.
    (`nextRev`, the id generator, is the only thing that moved.) -/
theorem revert_exact (s0 : St) (ws : List Op) (hg : Good s0.accts)
    (hrev0 : ∀ r ∈ s0.revs, r.1 < s0.nextRev)
    (hs : Script s0.nextRev (snapshot s0).1 ws) :
    revert true true (run true true (snapshot s0).1 ws) s0.nextRev
      = ({ s0 with nextRev := (run true true (snapshot s0).1 ws).nextRev }, .ok) := by
  have h0 : Inv s0 (snapshot s0).1 := by
    refine ⟨by simp [snapshot], by simp [snapshot], ?_, ⟨[], by simp [snapshot], by simp⟩, by simp [snapshot]⟩
    simp only [snapshot, List.drop_length]; exact .nil _
  have hi := inv_run s0 hg hrev0 ws _ h0 hs
  obtain ⟨extra, he, _⟩ := hi.revs
  have hpre : ∀ r ∈ s0.revs, r.1 ≠ s0.nextRev := fun r hr => by have := hrev0 r hr; omega
  rw [revert_spec true true _ s0.nextRev s0.logs.length s0.revs extra he hpre]
  have hundo := undoLoop_replay hi.replay [] hg (by intro i t v h; simp [Last.get] at h)
  rw [hundo, hi.logs_take]

/-- **discard_leaves_no_trace** (feeds C01): what the miner does with a failing candidate —
    `Snapshot`, run the tx (any nesting), `RevertToSnapshot` — leaves accounts, counters and journal
    exactly as they were. -/
theorem discard_leaves_no_trace (s0 : St) (ws : List Op) (hg : Good s0.accts)
    (hrev0 : ∀ r ∈ s0.revs, r.1 < s0.nextRev) (hs : Script s0.nextRev (snapshot s0).1 ws) :
    let s' := (revert true true (run true true (snapshot s0).1 ws) s0.nextRev).1
    s'.accts = s0.accts ∧ s'.logs = s0.logs ∧ s'.revs = s0.revs := by
  simp only [revert_exact s0 ws hg hrev0 hs, and_self]

/-! ### refutations on the faithful model (kernel-checked witnesses) -/

def s00 : St := { accts := fun _ => {} }

/-- the code BEFORE commit 5712ccd (`restoreCounter = false`): snapshot a; set; snapshot b; set;
    revert b; set; revert a  ⇒ panic (ErrWrongChangeLogVersion). -/
theorem legacy_counter_panics :
    (revert false true (run false true s00
      [.snap, .w 0 (.balance 1), .snap, .w 0 (.balance 2), .rev 1, .w 0 (.balance 3)]) 0).2 = .panic := by
  decide

/-- the same script on the current code is fine. -/
example : (revert true true (run true true s00
      [.snap, .w 0 (.balance 1), .snap, .w 0 (.balance 2), .rev 1, .w 0 (.balance 3)]) 0).2 = .ok := by
  decide

/-- the code BEFORE commit 1ec51f5 (`equityNilOk = false`): first equity of an id, then revert ⇒ panic. -/
theorem legacy_equity_panics :
    (revert true false (run true false s00 [.snap, .w 0 (.equity 1 (some 5))]) 0).2 = .panic := by
  decide

/-- full statement FALSE for `SetSuicide` on the current code: an uncommitted storage write made before
    the snapshot is lost when a later suicide is undone (known finding c07/revert-mismatch/storage). -/
theorem suicide_undo_loses_storage :
    let s1 := run true true s00 [.w 1 (.storage 1 7), .snap]
    let s2 := (revert true true (run true true s1 [.w 1 .suicide]) 0).1
    (s1.accts 1).getStorage 1 = 7 ∧ (s2.accts 1).getStorage 1 = 0 := by
  decide

/-- full statement FALSE for `SetSuicide`: undoing a second suicide clears the flag set by the first
    (known finding c07/revert-mismatch/sui). -/
theorem suicide_undo_clears_older_suicide :
    let s1 := run true true s00 [.w 1 .suicide, .snap]
    let s2 := (revert true true (run true true s1 [.w 1 .suicide]) 0).1
    (s1.accts 1).suicided = true ∧ (s2.accts 1).suicided = false := by
  decide

/-- full statement FALSE for `SetSuicide`: `undoSuicide` restores balance, code hash and storage root only, but
    `SetSuicide(true)` also drops the asset-code and asset-id roots: an asset DEFINED by the account (it is the
    issuer) is gone after the suicide is undone, and the revert reports success.  In the deployed flows only
    externally owned accounts issue assets and only contracts self-destruct, so this needs the journal API to
    be driven directly (known finding c07/revert-mismatch/assetcode/after-suicide-undo). -/
theorem suicide_undo_loses_asset_roots :
    let s1 := run true true s00 [.w 1 (.assetCode 1 (some { supply := 9, p1 := 2, p2 := 0 })), .w 1 (.assetId 1 4), .snap]
    let r := revert true true (run true true s1 [.w 1 .suicide]) 0
    (s1.accts 1).getAssetCode 1 = some { supply := 9, p1 := 2, p2 := 0 } ∧ (s1.accts 1).getAssetId 1 = 4 ∧
    r.2 = .ok ∧ (r.1.accts 1).getAssetCode 1 = none ∧ (r.1.accts 1).getAssetId 1 = 0 := by
  decide

/-- `undoCode` leaves Keccak(nil) where the zero hash was (both mean "no code": the harness and the
    evidence treat them as equal, stated here for the record). -/
theorem code_undo_leaves_empty_hash :
    let s2 := (revert true true (run true true s00 [.snap, .w 3 (.code 2)]) 0).1
    (s00.accts 3).codeHash = 0 ∧ (s2.accts 3).codeHash = 1 ∧ (s2.accts 3).getCode = some 0 := by
  decide

/-! ### non-vacuity -/

example : Good s00.accts := by
  intro i; exact ⟨by intro k _; simp [s00], by intro t; simp [s00]⟩

/-- **good_of_loaded**: the hypotheses of `revert_exact` hold for every account map as the manager LOADS it
    from a block's view: the asset-code view agrees with the committed trie wherever the root is set (and is
    empty otherwise), and the working version counters are not behind the stored ones.  This is what `reset`
    builds in the driver, for any committed content — not just the empty `s00`. -/
theorem good_of_loaded (A : Nat → Acct)
    (hview : ∀ i k, (A i).assetCode k = if (A i).acRoot then (A i).com.assetCode k else none)
    (hver : ∀ i t, (A i).baseVer t ≤ (A i).nextVer t) : Good A := by
  intro i
  refine ⟨?_, hver i⟩
  intro k hk
  rw [← hview i k]; exact hk

/-- a loaded state with committed storage, a committed asset and stored versions satisfies the hypotheses of
    `revert_exact`, and a nested script on top of it satisfies `Script` (so the theorem is not about empty
    accounts only) -/
def sLoaded : St :=
  { accts := fun i =>
      if i = 0 then
        { balance := 1000, votes := 9, acRoot := true, sRoot := true,
          storage := fun k => if k = 1 then 11 else 0,
          assetCode := fun k => if k = 1 then some { supply := 500, p1 := 7, p2 := 0 } else none,
          com := { storage := fun k => if k = 1 then 11 else 0,
                   assetCode := fun k => if k = 1 then some { supply := 500, p1 := 7, p2 := 0 } else none },
          baseVer := fun t => if t = 1 then 3 else 0, nextVer := fun t => if t = 1 then 3 else 0 }
      else {} }

example : Good sLoaded.accts := by
  apply good_of_loaded
  · intro i k; unfold sLoaded; by_cases h : i = 0 <;> simp [h]
  · intro i t; unfold sLoaded; by_cases h : i = 0 <;> simp [h]

example : Script 0 (snapshot sLoaded).1
    [.w 0 (.balance 5), .w 0 (.assetCodeSupply 1 600), .snap, .w 0 (.storage 1 2), .w 0 (.assetCode 1 none), .snap,
     .w 0 (.assetCode 1 (some { supply := 1, p1 := 0, p2 := 0 })), .rev 2, .w 0 (.storage 1 0), .rev 1, .w 0 (.votes 4)] := by
  unfold Script; decide

/-- a three-level nested script satisfying `Script` -/
example : Script 0 (snapshot s00).1
    [.w 0 (.balance 5), .snap, .w 1 (.storage 1 2), .snap, .w 0 (.equity 1 (some 3)), .rev 2,
     .w 0 (.balance 6), .rev 1, .w 2 (.votes 4)] := by
  unfold Script; decide

end LemoProofs.C07

/-
  C07 — `AccountData.Copy` isolates the copy from its source (model `LemoModel.CopyHeap`, tied by the `copy`
  ops of `hx c07`, which run the real `Copy` and write through the real copy).

  * `copy_isolates` — current code (`fixed = true`): for every heap, every account data with valid references
    and EVERY sequence of writes through the copy, the source reads exactly what it rd before.
  * `legacy_copy_shares_empty_map` — the code before fix 121c785: a source with an empty, non-nil profile map
    changes when the copy is written (the defect behind oracle `c07/discard-leaves-trace/base-view-changed`).
-/
import LemoModel.CopyHeap
namespace LemoProofs.C07Copy
open LemoModel.CopyHeap

theorem cell_append_lt (h : Heap) (m : List (Nat × Nat)) (i : Nat) (hi : i < h.length) :
    cell (h ++ [m]) i = cell h i := by
  unfold cell; simp [List.getD, List.getElem?_append_left hi]

theorem cell_set_ne (h : Heap) (i j : Nat) (m : List (Nat × Nat)) (hne : i ≠ j) :
    cell (h.set i m) j = cell h j := by
  unfold cell; simp [List.getD, List.getElem?_set_ne hne]

/-- what a write through reference `r` preserves: every cell below `n`, provided `r` does not point below `n` -/
theorem write_preserves (h : Heap) (r : Ref) (k v n : Nat) (hn : n ≤ h.length)
    (hr : ∀ i, r = some i → n ≤ i) :
    (∀ j, j < n → cell (write h r k v).1 j = cell h j) ∧ n ≤ (write h r k v).1.length ∧
    (∀ i, (write h r k v).2 = some i → n ≤ i) := by
  cases r with
  | none =>
    simp only [write, alloc]
    refine ⟨fun j hj => cell_append_lt h _ j (by omega), by simp; omega, ?_⟩
    intro i hi; injection hi with hi; omega
  | some i =>
    simp only [write]
    have := hr i rfl
    refine ⟨fun j hj => cell_set_ne h i j _ (by omega), by simp; omega, ?_⟩
    intro i' hi'; injection hi' with hi'; omega

/-- any sequence of writes through references that live at or above `n` leaves all cells below `n` alone -/
theorem writes_preserve : ∀ (ws : List (Nat × Nat × Nat)) (h : Heap) (a : AD) (n : Nat), n ≤ h.length →
    (∀ i, a.profile = some i → n ≤ i) → (∀ i, a.records = some i → n ≤ i) →
    ∀ j, j < n → cell (writes h a ws).1 j = cell h j := by
  intro ws
  induction ws with
  | nil => intro h a n _ _ _ j _; rfl
  | cons w ws ih =>
    intro h a n hn hp hr j hj
    obtain ⟨f, k, v⟩ := w
    unfold writes
    by_cases hf : f = 0
    · simp only [hf, if_true]
      obtain ⟨h1, h2, h3⟩ := write_preserves h a.profile k v n hn hp
      rw [ih _ { a with profile := (write h a.profile k v).2 } n h2 h3 hr j hj, h1 j hj]
    · simp only [hf, if_false]
      obtain ⟨h1, h2, h3⟩ := write_preserves h a.records k v n hn hr
      rw [ih _ { a with records := (write h a.records k v).2 } n h2 hp h3 j hj, h1 j hj]

theorem rd_of_cells {h h' : Heap} {r : Ref} (hv : valid h r) (hc : ∀ j, j < h.length → cell h' j = cell h j) :
    rd h' r = rd h r := by
  cases r with
  | none => rfl
  | some i => exact hc i hv

theorem copyField_fixed (h : Heap) (r : Ref) (hv : valid h r) :
    (∀ j, j < h.length → cell (copyField true h r).1 j = cell h j) ∧
    h.length ≤ (copyField true h r).1.length ∧
    (∀ i, (copyField true h r).2 = some i → h.length ≤ i) ∧
    rd (copyField true h r).1 (copyField true h r).2 = rd h r := by
  cases r with
  | none => exact ⟨fun _ _ => rfl, Nat.le_refl _, (fun i hi => by cases hi), rfl⟩
  | some i =>
    simp only [copyField, Bool.true_or, if_true, alloc]
    refine ⟨fun j hj => cell_append_lt h _ j hj, by simp, ?_, ?_⟩
    · intro i' hi'; injection hi' with hi'; omega
    · simp only [rd, cell]
      simp [List.getD]

/-- **copy_isolates** (current code): for EVERY heap, account data with valid references and sequence of writes
    through the copy, the source's two maps read exactly as before; and the copy started out equal to the source. -/
theorem copy_isolates (h : Heap) (a : AD) (ws : List (Nat × Nat × Nat))
    (hp : valid h a.profile) (hr : valid h a.records) :
    let c := copy true h a
    let w := writes c.1 c.2 ws
    rd w.1 a.profile = rd h a.profile ∧ rd w.1 a.records = rd h a.records ∧
    rd c.1 c.2.profile = rd h a.profile ∧ rd c.1 c.2.records = rd h a.records := by
  simp only [copy]
  obtain ⟨p1, p2, p3, p4⟩ := copyField_fixed h a.profile hp
  have hr' : valid (copyField true h a.profile).1 a.records := by
    cases hra : a.records with
    | none => trivial
    | some i => rw [hra] at hr; exact Nat.lt_of_lt_of_le hr p2
  obtain ⟨q1, q2, q3, q4⟩ := copyField_fixed (copyField true h a.profile).1 a.records hr'
  -- all cells of the ORIGINAL heap survive both copies and every write
  have key : ∀ j, j < h.length →
      cell (writes (copyField true (copyField true h a.profile).1 a.records).1
        { profile := (copyField true h a.profile).2, records := (copyField true (copyField true h a.profile).1 a.records).2 } ws).1 j
      = cell h j := by
    intro j hj
    rw [writes_preserve ws _ _ h.length (Nat.le_trans p2 q2) (fun i hi => p3 i hi)
          (fun i hi => Nat.le_trans p2 (q3 i hi)) j hj, q1 j (Nat.lt_of_lt_of_le hj p2), p1 j hj]
  have hr1 : rd (copyField true h a.profile).1 a.records = rd h a.records := rd_of_cells hr p1
  refine ⟨rd_of_cells hp key, rd_of_cells hr key, ?_, q4.trans hr1⟩
  -- the copy's profile still reads as the source after the second field was copied
  have hv : valid (copyField true h a.profile).1 (copyField true h a.profile).2 := by
    cases hpa : a.profile with
    | none => simp [copyField, valid]
    | some i0 => simp [copyField, alloc, valid]
  exact (rd_of_cells hv q1).trans p4

/-- **legacy_copy_shares_empty_map** (code before fix 121c785): source profile = empty non-nil map (cell 0);
    one write through the copy and the SOURCE reads the written entry; the current code keeps it empty. -/
theorem legacy_copy_shares_empty_map :
    let h : Heap := [[], [(1, 1)]]
    let a : AD := { profile := some 0, records := some 1 }
    let cl := copy false h a
    let cf := copy true h a
    rd (writes cl.1 cl.2 [(0, 5, 9)]).1 a.profile = [(5, 9)] ∧
    rd (writes cf.1 cf.2 [(0, 5, 9)]).1 a.profile = [] := by
  decide

/-- non-vacuity: the hypotheses of `copy_isolates` hold for the witness state -/
example : valid [[], [(1, 1)]] (some 0) ∧ valid [[], [(1, 1)]] (some 1) := by simp [valid]

end LemoProofs.C07Copy

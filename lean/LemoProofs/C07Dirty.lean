/-
  C07 — the pending-write (dirty) sets of the four storage caches are part of the state a revert gives back, and a
  discarded span leaves no trace in what `MergeChangeLogs` + `Finalise` publish.

  Model: `LemoModel.JournalDirty` (lockstep layer over `LemoModel.Journal`: dirty key sets, `ChangeLog.OldClean`,
  `StorageCache.RevertState`, `Manager.Finalise`'s root logs), tied to the real `account.Manager` by `hx c07`
  (the four dirty key sets of every account are compared after every op; the `fin` op compares the published list).

  Full statement (kept visible): for EVERY script issued after `Snapshot()`, `RevertToSnapshot(id)` restores every
  attribute AND the pending-write sets; therefore `Finalise` publishes the same list whether or not a discarded span ran.

  What is proved, and what is refuted:
    * `revert_exact_dirty`      — full D-state equality (accounts, counters, journal, revision stack, the four dirty key
                                  sets of every account, the OldClean flags) after the revert, for every nesting depth and
                                  interleaving; guard = `revert_exact`'s (`ExactW`) plus `DirtyOk`: an asset-code-family write
                                  does not hit an asset that sits committed and un-queued in the trie (`_partial` in that sense).
    * `discard_no_root_trace`   — prefix ++ reverted span ++ suffix publishes exactly what prefix ++ suffix publishes
                                  (whole list: merged logs, versions, root logs), for every suffix (snapshot ids shifted).
    * `undo_leaves_dirty_refuted` — the code BEFORE 3a69bc7 (`exactUndo = false`) leaves the reverted slot queued and
                                  publishes a root log {} → emptyTrieRoot for equity, asset id and contract storage (kernel-checked).
    * `assetcode_undo_leaves_noop_dirty` — on the CURRENT code the guard `DirtyOk` is needed: undo of a write to a committed,
                                  un-queued asset leaves a queued no-op write (the dirty sets differ) …
    * `noop_dirty_publishes_nothing` / `assetcode_noop_harmless` / `zero_root_dirty_publishes` / `set_root_publishes_iff` —
                                  UNFOLDINGS of the 3-line model definition `rootLog` (JournalDirty.lean), not registered as theorems of
                                  the property.  They READ: a set root publishes iff some queued write changes the content; a zero
                                  root with any queued key publishes.  The content (Update's `root == 0 && len(dirty) == 0`) lives in
                                  the hand model, tied by `fin`.  In particular "the leftover no-op publishes nothing" is proved ONLY
                                  under the ASSUMED hypothesis `∀ k ∈ dl, changed k = false` (never derived from a run) plus the one
                                  `decide` witness of `assetcode_undo_leaves_noop_dirty`; there is NO `publish`-level theorem for a
                                  span outside `DirtyOk`.
    * SCOPE OF THE GUARD `ExactW ∧ DirtyOk`: it excludes every span that contains SetCode, SetSuicide, or an asset-code-family
                                  write to a committed, un-queued asset — i.e. every discarded contract creation and every discarded
                                  Issue / Replenish / ModifyAssetProfile on an asset that already exists (the NORMAL case after
                                  its creating block).  Those are covered by the correspondence and the oracles only.
    * `runD_st` is erasure BY CONSTRUCTION (`writeD` defines `st` as `(write …).1`): bookkeeping.
    * no `example` instantiates `revert_exact_dirty` / `discard_no_root_trace` with a non-trivial prefix `P` (examples are on
                                  `d00` / `dLoaded`; `Good P` after a prefix needs `replayable_good`, not packaged for the D layer).
    * `corner_set_delete_set_reverted` — set K; delete K (kept); set K reverted: exact on all four tries.
-/
import LemoProofs.C07
import LemoProofs.Lemmas.JournalDirty
namespace LemoProofs.C07Dirty
open LemoModel.Journal LemoModel.JournalDirty LemoProofs.JournalStep LemoProofs.JournalReplay
open LemoProofs.JournalDirtyL LemoProofs.C07

/-! ### the layer does not disturb the Journal model (erasure) -/

theorem writeD_st (s : DSt) (a : Nat) (w : Write) : (writeD s a w).1.st = (write s.st a w).1 := by
  unfold writeD
  cases h : applyWrite (s.st.accts a) w with
  | panic => simp only; unfold write; simp only [h]
  | logErr u => rfl
  | ok a' u => rfl

theorem revertD_st (x : Bool) (s : DSt) (id : Nat) : (revertD x s id).1.st = (revert true true s.st id).1 := by
  unfold revertD
  simp only
  split <;> rfl

theorem stepD_st (x : Bool) (s : DSt) (o : Op) : (stepD x s o).1.st = (step true true s.st o).1 := by
  cases o with
  | w a w => exact writeD_st s a w
  | snap => rfl
  | rev id => exact revertD_st x s id

/-- **erasure**: forgetting the dirty layer gives the Journal model's run (so everything proved about `run`, and the
    getter-level correspondence, speak about the same states). -/
theorem runD_st (x : Bool) : ∀ (ws : List Op) (s : DSt), (runD x s ws).st = run true true s.st ws := by
  intro ws
  induction ws with
  | nil => intro s; rfl
  | cons o os ih => intro s; simp only [runD, run]; rw [ih, stepD_st]

theorem writeD_ok (s : DSt) (a : Nat) (w : Write) (a' : Acct) (u : Undo) (h : applyWrite (s.st.accts a) w = .ok a' u) :
    (writeD s a w).1 = { st := (write s.st a w).1,
                         dirty := upd s.dirty a (dirtyWrite (s.dirty a) (s.st.accts a) w).1,
                         side := s.side ++ [(dirtyWrite (s.dirty a) (s.st.accts a) w).2] } := by
  unfold writeD; simp only [h]

theorem revTarget_spec (s : St) (id j : Nat) (pre post : List (Nat × Nat))
    (h : s.revs = pre ++ (id, j) :: post) (hpre : ∀ r ∈ pre, r.1 ≠ id) : revTarget s id = some j := by
  unfold revTarget
  rw [h, findIdx_pre pre post id j hpre]
  simp only [List.getElem?_append_right (Nat.le_refl _), Nat.sub_self, List.getElem?_cons_zero]

theorem zip_take {α β : Type} (l1 : List α) (l2 : List β) (n : Nat) : (l1.take n).zip (l2.take n) = (l1.zip l2).take n := by
  simp only [List.zip, List.take_zipWith]

/-! ### scripts -/

/-- the dirty-exactness guard along a script (decided on the state each write meets) -/
def scriptDB : DSt → List Op → Bool
  | _, [] => true
  | s, .w a w :: os => DirtyOk (s.st.accts a) (s.dirty a) w && scriptDB (writeD s a w).1 os
  | s, .snap :: os => scriptDB (snapshotD s).1 os
  | s, .rev id :: os => scriptDB (revertD true s id).1 os

/-- `Script` of `revert_exact` (exact write kinds, setters succeed, inner reverts target live inner snapshots) plus `DirtyOk` -/
def ScriptD (id0 : Nat) (s : DSt) (ws : List Op) : Prop := Script id0 s.st ws ∧ scriptDB s ws = true

/-- what the revert at an inner snapshot finds (the middle of `C07.inv_step`, restated) -/
theorem inv_rev_decomp (s0 s : St) (id j : Nat) (hg : Good s0.accts) (hrev0 : ∀ r ∈ s0.revs, r.1 < s0.nextRev)
    (hi : Inv s0 s) (hid : s0.nextRev < id) (hmem : (id, j) ∈ s.revs) :
    ∃ pre j' post M, s.revs = pre ++ (id, j') :: post ∧ (∀ r ∈ pre, r.1 ≠ id) ∧ s0.logs.length ≤ j' ∧
      undoLoop true true (s.logs.drop j').reverse s.accts [] = some M := by
  obtain ⟨extra, he, hex⟩ := hi.revs
  have hin : (id, j) ∈ extra := by
    rw [he] at hmem
    rcases List.mem_append.mp hmem with h | h
    · have := hrev0 _ h; simp only at this; omega
    · rcases List.mem_cons.mp h with h | h
      · have : id = s0.nextRev := by injection h
        omega
      · exact h
  obtain ⟨e1, j', e2, hsplit, hne⟩ := first_occurrence extra id j hin
  have hj' : s0.logs.length ≤ j' := (hex (id, j') (by rw [hsplit]; simp)).2
  have hrevs : s.revs = (s0.revs ++ (s0.nextRev, s0.logs.length) :: e1) ++ (id, j') :: e2 := by
    rw [he, hsplit]; simp
  have hpre : ∀ r ∈ s0.revs ++ (s0.nextRev, s0.logs.length) :: e1, r.1 ≠ id := by
    intro r hr
    rcases List.mem_append.mp hr with h | h
    · have := hrev0 _ h; omega
    · rcases List.mem_cons.mp h with h | h
      · rw [h]; simp only; omega
      · exact hne r h
  have hdrop : s.logs.drop j' = (s.logs.drop s0.logs.length).drop (j' - s0.logs.length) := by
    rw [List.drop_drop]; congr 1; omega
  obtain ⟨M, h1, h2⟩ := replayable_split hi.replay ((s.logs.drop s0.logs.length).take (j' - s0.logs.length))
    ((s.logs.drop s0.logs.length).drop (j' - s0.logs.length)) (List.take_append_drop _ _).symm
  have hgM : Good M := replayable_good hg h1
  have hundo := undoLoop_replay (hdrop ▸ h2) [] hgM (by intro i t v h; simp [Last.get] at h)
  exact ⟨_, j', e2, M, hrevs, hpre, hj', hundo⟩

/-- invariant of the run, relative to the state `s0` at the outer snapshot -/
structure DInv (s0 s : DSt) : Prop where
  base : Inv s0.st s.st
  len : s.side.length = s.st.logs.length
  side_take : s.side.take s0.st.logs.length = s0.side
  chain : DChain s0.dirty ((s.st.logs.zip s.side).drop s0.st.logs.length) s.dirty
  sorted : ∀ i, SortedD (s.dirty i)

theorem scriptDB_w {s a w os} (h : scriptDB s (.w a w :: os) = true) :
    DirtyOk (s.st.accts a) (s.dirty a) w = true ∧ scriptDB (writeD s a w).1 os = true := by
  simpa only [scriptDB, Bool.and_eq_true] using h

theorem dinv_step (s0 s : DSt) (o : Op) (os : List Op) (hg : Good s0.st.accts)
    (hrev0 : ∀ r ∈ s0.st.revs, r.1 < s0.st.nextRev)
    (hi : DInv s0 s) (hs : ScriptD s0.st.nextRev s (o :: os)) :
    DInv s0 (stepD true s o).1 ∧ ScriptD s0.st.nextRev (stepD true s o).1 os := by
  obtain ⟨hsB, hsD⟩ := hs
  obtain ⟨hb, hsB'⟩ := inv_step s0.st s.st o os hg hrev0 hi.base hsB
  have hbase : Inv s0.st (stepD true s o).1.st := by rw [stepD_st]; exact hb
  have hscr : Script s0.st.nextRev (stepD true s o).1.st os := by rw [stepD_st]; exact hsB'
  have hn0 : s0.st.logs.length ≤ s.st.logs.length := hi.base.len
  cases o with
  | w a w =>
    obtain ⟨hx, hok, _⟩ := script_w hsB
    obtain ⟨hdok, hdrest⟩ := scriptDB_w hsD
    obtain ⟨a', u, haw, hst⟩ := write_ok s.st a w hok
    refine ⟨?_, hscr, hdrest⟩
    have hE := writeD_ok s a w a' u haw
    show DInv s0 (writeD s a w).1
    have hbase' : Inv s0.st (writeD s a w).1.st := hbase
    rw [hE] at hbase' ⊢
    have hlogs : (write s.st a w).1.logs = s.st.logs ++ [{ addr := a, ty := w.ty, ver := (bumpVer a' w.ty).2, undo := u }] := by
      rw [hst]
    refine ⟨hbase', ?_, ?_, ?_, ?_⟩
    · simp only [hlogs, List.length_append, List.length_singleton, hi.len]
    · simp only
      rw [List.take_append_of_le_length (by rw [hi.len]; exact hn0)]; exact hi.side_take
    · simp only [hlogs]
      rw [List.zip_append hi.len.symm]
      rw [List.drop_append_of_le_length (by rw [List.length_zip, hi.len, Nat.min_self]; exact hn0)]
      simp only [List.zip_cons_cons, List.zip_nil_right]
      refine .snoc hi.chain ⟨_, rfl, ?_⟩
      exact dirty_write_undo_exact _ a' _ w u (hi.sorted a) hdok haw
    · intro i
      simp only
      by_cases h : i = a
      · subst h; rw [upd_same]; exact sortedD_dirtyWrite _ _ _ (hi.sorted i)
      · rw [upd_other _ _ _ _ h]; exact hi.sorted i
  | snap =>
    refine ⟨⟨hbase, hi.len, hi.side_take, hi.chain, hi.sorted⟩, hscr, hsD⟩
  | rev id =>
    obtain ⟨hid, ⟨j, hmem⟩, _⟩ := script_rev hsB
    refine ⟨?_, hscr, hsD⟩
    obtain ⟨pre, j', post, M, hrevs, hpre, hj', hundo⟩ := inv_rev_decomp s0.st s.st id j hg hrev0 hi.base hid hmem
    have hrv : revert true true s.st id = ({ s.st with accts := M, logs := s.st.logs.take j', revs := pre }, .ok) := by
      rw [revert_spec true true s.st id j' pre post hrevs hpre, hundo]
    have hrt : revTarget s.st id = some j' := revTarget_spec s.st id j' pre post hrevs hpre
    have hE : (revertD true s id).1 =
        { st := { s.st with accts := M, logs := s.st.logs.take j', revs := pre },
          dirty := undoDirty true ((s.st.logs.zip s.side).drop j').reverse s.dirty,
          side := s.side.take j' } := by
      unfold revertD; simp only [hrv, hrt]
    show DInv s0 (revertD true s id).1
    have hbase' : Inv s0.st (revertD true s id).1.st := hbase
    rw [hE] at hbase' ⊢
    -- split the chain at j'
    have hdrop : (s.st.logs.zip s.side).drop j'
        = ((s.st.logs.zip s.side).drop s0.st.logs.length).drop (j' - s0.st.logs.length) := by
      rw [List.drop_drop]; congr 1; omega
    obtain ⟨MD, h1, h2⟩ := dchain_split hi.chain
      (((s.st.logs.zip s.side).drop s0.st.logs.length).take (j' - s0.st.logs.length))
      (((s.st.logs.zip s.side).drop s0.st.logs.length).drop (j' - s0.st.logs.length)) (List.take_append_drop _ _).symm
    have hund : undoDirty true ((s.st.logs.zip s.side).drop j').reverse s.dirty = MD := by
      rw [hdrop]; exact undoDirty_chain h2
    refine ⟨hbase', ?_, ?_, ?_, ?_⟩
    · simp only [List.length_take, hi.len]
    · simp only
      rw [List.take_take, Nat.min_eq_left hj']; exact hi.side_take
    · simp only
      rw [hund, zip_take, List.drop_take]; exact h1
    · simp only
      exact sortedD_undoDirty true _ _ hi.sorted

theorem dinv_run (s0 : DSt) (hg : Good s0.st.accts) (hrev0 : ∀ r ∈ s0.st.revs, r.1 < s0.st.nextRev) :
    ∀ (ws : List Op) (s : DSt), DInv s0 s → ScriptD s0.st.nextRev s ws → DInv s0 (runD true s ws) := by
  intro ws
  induction ws with
  | nil => intro s hi _; exact hi
  | cons o os ih =>
    intro s hi hs
    obtain ⟨h1, h2⟩ := dinv_step s0 s o os hg hrev0 hi hs
    exact ih _ h1 h2

/-- the invariant holds at the end of every guarded script run after the outer snapshot -/
theorem dinv_final (s0 : DSt) (ws : List Op) (hg : Good s0.st.accts)
    (hrev0 : ∀ r ∈ s0.st.revs, r.1 < s0.st.nextRev) (hlen0 : s0.side.length = s0.st.logs.length)
    (hsorted : ∀ i, SortedD (s0.dirty i))
    (hs : ScriptD s0.st.nextRev (snapshotD s0).1 ws) : DInv s0 (runD true (snapshotD s0).1 ws) := by
  have h0 : DInv s0 (snapshotD s0).1 := by
    refine ⟨?_, hlen0, ?_, ?_, hsorted⟩
    · refine ⟨by simp [snapshotD, snapshot], by simp [snapshotD, snapshot], ?_, ⟨[], by simp [snapshotD, snapshot], by simp⟩,
        by simp [snapshotD, snapshot]⟩
      simp only [snapshotD, snapshot, List.drop_length]; exact .nil _
    · simp only [snapshotD]; rw [← hlen0, List.take_length]
    · simp only [snapshotD, snapshot]
      have : (s0.st.logs.zip s0.side).drop s0.st.logs.length = [] := by
        apply List.drop_eq_nil_of_le; rw [List.length_zip, hlen0, Nat.min_self]; exact Nat.le_refl _
      rw [this]; exact .nil _
  exact dinv_run s0 hg hrev0 ws _ h0 hs

/-- **revert_exact_dirty**: take a snapshot in a state `s0` (accounts as loaded or after exact writes, key lists sorted,
    one local record per journal entry); run ANY script of journalled writes, nested snapshots and reverts to inner
    snapshots; then `RevertToSnapshot(id)` does not panic and gives back `s0` exactly — every attribute of every account,
    the version counters, the journal, the revision stack (that is `revert_exact`) AND the key sets of the four `dirty`
    maps of every account and the `OldClean` flags of the surviving journal entries. -/
theorem revert_exact_dirty (s0 : DSt) (ws : List Op) (hg : Good s0.st.accts)
    (hrev0 : ∀ r ∈ s0.st.revs, r.1 < s0.st.nextRev) (hlen0 : s0.side.length = s0.st.logs.length)
    (hsorted : ∀ i, SortedD (s0.dirty i))
    (hs : ScriptD s0.st.nextRev (snapshotD s0).1 ws) :
    revertD true (runD true (snapshotD s0).1 ws) s0.st.nextRev
      = ({ s0 with st := { s0.st with nextRev := (runD true (snapshotD s0).1 ws).st.nextRev } }, .ok) := by
  have hi := dinv_final s0 ws hg hrev0 hlen0 hsorted hs
  have hst : (runD true (snapshotD s0).1 ws).st = run true true (snapshot s0.st).1 ws := runD_st true ws _
  have hrx := revert_exact s0.st ws hg hrev0 hs.1
  obtain ⟨extra, he, _⟩ := hi.base.revs
  have hpre : ∀ r ∈ s0.st.revs, r.1 ≠ s0.st.nextRev := fun r hr => by have := hrev0 r hr; omega
  have hrt := revTarget_spec _ s0.st.nextRev s0.st.logs.length s0.st.revs extra he hpre
  unfold revertD
  simp only [hrt]
  rw [hst, hrx]
  simp only
  have hd := undoDirty_chain hi.chain
  rw [hst] at hd
  rw [hd, hi.side_take]

/-! ### a discarded span and what follows it -/

def shiftRevs (n0 d : Nat) (l : List (Nat × Nat)) : List (Nat × Nat) := l.map (fun r => (shiftId n0 d r.1, r.2))

/-- the same state, met `d` snapshot ids later -/
def reshapeD (n0 d : Nat) (s : DSt) : DSt :=
  { s with st := { s.st with revs := shiftRevs n0 d s.st.revs, nextRev := s.st.nextRev + d } }

theorem shiftId_beq (n0 d a b : Nat) : (shiftId n0 d a == shiftId n0 d b) = (a == b) := by
  unfold shiftId
  by_cases ha : a < n0 <;> by_cases hb : b < n0 <;> simp only [ha, hb, if_true, if_false] <;>
    (rw [Bool.eq_iff_iff]; simp only [beq_iff_eq]; omega)

theorem shiftRevs_of_lt (n0 d : Nat) (l : List (Nat × Nat)) (h : ∀ r ∈ l, r.1 < n0) : shiftRevs n0 d l = l := by
  induction l with
  | nil => rfl
  | cons x xs ih =>
    have hx : x.1 < n0 := h x (by simp)
    simp only [shiftRevs, List.map_cons] at ih ⊢
    rw [ih (fun r hr => h r (by simp [hr]))]
    simp [shiftId, hx]

theorem findIdx_shift (n0 d id : Nat) (l : List (Nat × Nat)) :
    (shiftRevs n0 d l).findIdx? (fun r => r.1 == shiftId n0 d id) = l.findIdx? (fun r => r.1 == id) := by
  unfold shiftRevs
  rw [List.findIdx?_map]
  congr 1
  funext r
  simp only [Function.comp, shiftId_beq]

theorem write_frame (s : St) (a : Nat) (w : Write) :
    (write s a w).1.revs = s.revs ∧ (write s a w).1.nextRev = s.nextRev := by
  unfold write
  cases applyWrite (s.accts a) w <;> simp

theorem revert_next (rc en : Bool) (s : St) (id : Nat) : (revert rc en s id).1.nextRev = s.nextRev := by
  unfold revert
  split
  · rfl
  · split
    · rfl
    · split <;> rfl

/-- `RevertToSnapshot` does not care how the ids are numbered -/
theorem revert_shift (n0 d : Nat) (s : St) (N id : Nat) :
    revert true true { s with revs := shiftRevs n0 d s.revs, nextRev := N } (shiftId n0 d id)
      = ({ (revert true true s id).1 with revs := shiftRevs n0 d (revert true true s id).1.revs, nextRev := N },
         (revert true true s id).2) := by
  unfold revert
  simp only [findIdx_shift]
  cases h1 : s.revs.findIdx? (fun r => r.1 == id) with
  | none => rfl
  | some idx =>
    simp only [shiftRevs, List.getElem?_map]
    cases h2 : s.revs[idx]? with
    | none => rfl
    | some r =>
      obtain ⟨i, j⟩ := r
      simp only [Option.map_some]
      cases h3 : undoLoop true true (s.logs.drop j).reverse s.accts [] with
      | none => rfl
      | some accts => simp only [List.map_take]

theorem revTarget_shift (n0 d : Nat) (s : St) (N id : Nat) :
    revTarget { s with revs := shiftRevs n0 d s.revs, nextRev := N } (shiftId n0 d id) = revTarget s id := by
  unfold revTarget
  simp only [findIdx_shift]
  cases h1 : s.revs.findIdx? (fun r => r.1 == id) with
  | none => rfl
  | some idx =>
    simp only [shiftRevs, List.getElem?_map]
    cases h2 : s.revs[idx]? with
    | none => rfl
    | some r => obtain ⟨i, j⟩ := r; rfl

theorem stepD_next_le (x : Bool) (s : DSt) (o : Op) : s.st.nextRev ≤ (stepD x s o).1.st.nextRev := by
  rw [stepD_st]
  cases o with
  | w a w => exact Nat.le_of_eq (write_frame s.st a w).2.symm
  | snap => simp [step, snapshot]
  | rev id => exact Nat.le_of_eq (revert_next true true s.st id).symm

/-- one op, met `d` ids later -/
theorem stepD_shift (x : Bool) (n0 d : Nat) (s : DSt) (o : Op) (hge : n0 ≤ s.st.nextRev) :
    (stepD x (reshapeD n0 d s) (shiftOp n0 d o)).1 = reshapeD n0 d (stepD x s o).1 := by
  cases o with
  | w a w =>
    simp only [shiftOp, stepD, writeD, reshapeD]
    cases h : applyWrite (s.st.accts a) w with
    | panic => rfl
    | logErr u => simp only [write, h, bumpVer]
    | ok a' u => simp only [write, h, bumpVer]
  | snap =>
    simp only [shiftOp, stepD, snapshotD, snapshot, reshapeD, shiftRevs, List.map_append, List.map_cons, List.map_nil]
    have : shiftId n0 d s.st.nextRev = s.st.nextRev + d := by
      unfold shiftId; rw [if_neg (by omega)]
    rw [this]
    congr 2
    omega
  | rev id =>
    simp only [shiftOp, stepD, revertD, reshapeD]
    rw [revert_shift, revTarget_shift]
    have hn := revert_next true true s.st id
    cases h1 : (revert true true s.st id).2 <;> cases h2 : revTarget s.st id <;> simp only [hn]

theorem runD_shift (x : Bool) (n0 d : Nat) : ∀ (os : List Op) (s : DSt), n0 ≤ s.st.nextRev →
    runD x (reshapeD n0 d s) (os.map (shiftOp n0 d)) = reshapeD n0 d (runD x s os) := by
  intro os
  induction os with
  | nil => intro s _; rfl
  | cons o os ih =>
    intro s hge
    simp only [List.map_cons, runD]
    rw [stepD_shift x n0 d s o hge]
    exact ih _ (Nat.le_trans hge (stepD_next_le x s o))

/-- what is published does not depend on the numbering of the snapshots -/
theorem publish_reshape (n0 d : Nat) (s : DSt) : publish (reshapeD n0 d s) = publish s := rfl

/-- **discard_no_root_trace**: in any state `P` (the prefix has run), take a snapshot, run ANY guarded script `seg`
    (nested snapshots / reverts included) and revert it — what the miner does with a transaction it discards, what the EVM
    does with a failing call. Then continue with ANY `suffix` (its snapshot ids are simply `d` higher, ids are never
    reused). `MergeChangeLogs` + `Finalise` publish exactly the list they publish after prefix ++ suffix alone: the merged
    logs, their versions, and the root logs of every account — and the accounts, the journal, the pending-write sets and
    the OldClean flags are the same too. -/
theorem discard_no_root_trace (P : DSt) (seg suffix : List Op) (hg : Good P.st.accts)
    (hrev0 : ∀ r ∈ P.st.revs, r.1 < P.st.nextRev) (hlen0 : P.side.length = P.st.logs.length)
    (hsorted : ∀ i, SortedD (P.dirty i))
    (hs : ScriptD P.st.nextRev (snapshotD P).1 seg) :
    let Q := (revertD true (runD true (snapshotD P).1 seg) P.st.nextRev).1
    let d := Q.st.nextRev - P.st.nextRev
    let A := runD true Q (suffix.map (shiftOp P.st.nextRev d))
    let B := runD true P suffix
    publish A = publish B ∧ A.st.accts = B.st.accts ∧ A.st.logs = B.st.logs ∧ A.dirty = B.dirty ∧ A.side = B.side ∧
      ∀ i, finaliseRoots (A.st.accts i) (A.dirty i) i = finaliseRoots (B.st.accts i) (B.dirty i) i := by
  intro Q d A B
  have hx := revert_exact_dirty P seg hg hrev0 hlen0 hsorted hs
  have hlt : P.st.nextRev < (runD true (snapshotD P).1 seg).st.nextRev :=
    (dinv_final P seg hg hrev0 hlen0 hsorted hs).base.next
  have hQ : Q = reshapeD P.st.nextRev d P := by
    show (revertD true (runD true (snapshotD P).1 seg) P.st.nextRev).1 = _
    have hd : d = (runD true (snapshotD P).1 seg).st.nextRev - P.st.nextRev := by
      show (revertD true (runD true (snapshotD P).1 seg) P.st.nextRev).1.st.nextRev - _ = _
      rw [hx]
    rw [hx, hd]
    simp only [reshapeD, shiftRevs_of_lt _ _ _ hrev0]
    congr 2
    omega
  have hA : A = reshapeD P.st.nextRev d B := by
    show runD true Q _ = _
    rw [hQ]; exact runD_shift true _ _ suffix P (Nat.le_refl _)
  rw [hA]
  exact ⟨rfl, rfl, rfl, rfl, rfl, fun _ => rfl⟩

/-! ### what `Finalise` does with a queued key -/

/-- a zero root with ANY queued key is published as a root log {} → hash of the loaded trie, whatever the queued values
    are (all no-ops included): the reason a reverted write must not stay queued. -/
theorem zero_root_dirty_publishes (dl : List Nat) (changed : Nat → Bool) :
    rootLog false dl changed = (if dl = [] then none else some false) := by
  cases dl <;> simp [rootLog]

/-- a root that is set is published iff some queued write changes the content … -/
theorem set_root_publishes_iff (dl : List Nat) (changed : Nat → Bool) :
    rootLog true dl changed = some true ↔ ∃ k ∈ dl, changed k = true := by
  unfold rootLog
  by_cases h : dl.any changed = true
  · simp only [h, if_true, true_iff]; simpa using h
  · simp only [h]
    constructor
    · intro e; cases e
    · intro e; exact absurd (by simpa using e) h

/-- … so queued no-op writes publish nothing there.  (Unfolding of `rootLog`; the hypothesis `h` is ASSUMED, it is not
    derived from any run of the model.) -/
theorem noop_dirty_publishes_nothing (dl : List Nat) (changed : Nat → Bool) (h : ∀ k ∈ dl, changed k = false) :
    rootLog true dl changed = none := by
  unfold rootLog
  have : dl.any changed = false := by
    rw [List.any_eq_false]; intro k hk; simp [h k hk]
  simp [this]

/-- extra queued keys whose write is a no-op do not change what a set root publishes (the asset-code leftover of
    `assetcode_undo_leaves_noop_dirty` is of this kind). -/
theorem assetcode_noop_harmless (d1 d2 : List Nat) (changed : Nat → Bool)
    (hsub : ∀ k ∈ d1, k ∈ d2) (hextra : ∀ k ∈ d2, k ∈ d1 ∨ changed k = false) :
    rootLog true d2 changed = rootLog true d1 changed := by
  unfold rootLog
  have : d2.any changed = d1.any changed := by
    rw [Bool.eq_iff_iff, List.any_eq_true, List.any_eq_true]
    constructor
    · rintro ⟨k, hk, hc⟩
      rcases hextra k hk with h | h
      · exact ⟨k, h, hc⟩
      · rw [h] at hc; cases hc
    · rintro ⟨k, hk, hc⟩; exact ⟨k, hsub k hk, hc⟩
  simp [this]

/-! ### kernel-checked witnesses -/

def d00 : DSt := { st := s00 }
def dLoaded : DSt := { st := sLoaded }

/-- **undo_leaves_dirty_refuted** — the code BEFORE commit 3a69bc7 (`exactUndo = false`): on a fresh address R = 3,
    snap; first SetEquityState / SetAssetIdState / SetStorageState; revert; SetBalance(7); MergeChangeLogs; Finalise
    publishes [BalanceLog, EquityRootLog / AssetIdRootLog / StorageRootLog {} → emptyTrieRoot] instead of [BalanceLog]:
    the reverted slot stayed queued. The script without the reverted span, and the current code on the same scripts,
    publish [BalanceLog]. (Real code: oracle c07/discard-leaves-trace/finalise/*RootLog and the dirty-set columns of `hx c07`.) -/
theorem undo_leaves_dirty_refuted :
    publish (runD false d00 [.snap, .w 3 (.equity 1 (some 5)), .rev 0, .w 3 (.balance 7)])
      = [{ addr := 3, ty := 1, ver := 1 }, { addr := 3, ty := 11, ver := 1, root := some false }] ∧
    publish (runD false d00 [.snap, .w 3 (.assetId 1 2), .rev 0, .w 3 (.balance 7)])
      = [{ addr := 3, ty := 1, ver := 1 }, { addr := 3, ty := 9, ver := 1, root := some false }] ∧
    publish (runD false d00 [.snap, .w 3 (.storage 1 4), .rev 0, .w 3 (.balance 7)])
      = [{ addr := 3, ty := 1, ver := 1 }, { addr := 3, ty := 3, ver := 1, root := some false }] ∧
    (runD false d00 [.snap, .w 3 (.equity 1 (some 5)), .rev 0]).dirty 3 = { e := [1] } ∧
    (runD true d00 [.snap, .w 3 (.equity 1 (some 5)), .rev 0]).dirty 3 = {} ∧
    publish (runD false d00 [.w 3 (.balance 7)]) = [{ addr := 3, ty := 1, ver := 1 }] ∧
    publish (runD true d00 [.snap, .w 3 (.equity 1 (some 5)), .rev 0, .w 3 (.balance 7)]) = [{ addr := 3, ty := 1, ver := 1 }] ∧
    publish (runD true d00 [.snap, .w 3 (.assetId 1 2), .rev 0, .w 3 (.balance 7)]) = [{ addr := 3, ty := 1, ver := 1 }] ∧
    publish (runD true d00 [.snap, .w 3 (.storage 1 4), .rev 0, .w 3 (.balance 7)]) = [{ addr := 3, ty := 1, ver := 1 }] := by
  decide

/-- the asset-code trie showed no trace even before 3a69bc7: undoAssetCode with a nil OldVal is `SetAssetCode(code, nil)`
    = `DelState`, which takes the key out of the dirty map. -/
theorem assetcode_first_write_undo_clean :
    (runD false d00 [.snap, .w 3 (.assetCode 1 (some { supply := 9, p1 := 3, p2 := 0 })), .rev 0]).dirty 3 = {} ∧
    publish (runD false d00 [.snap, .w 3 (.assetCode 1 (some { supply := 9, p1 := 3, p2 := 0 })), .rev 0, .w 3 (.balance 7)])
      = [{ addr := 3, ty := 1, ver := 1 }] := by
  decide

/-- **assetcode_undo_leaves_noop_dirty** — CURRENT code, why `DirtyOk` is a guard: account 0 is loaded with the committed
    asset 1 (asset-code root set, nothing queued); snap; SetAssetCodeTotalSupply(1, 600); revert. The getters read as
    before, but the write of the committed value stays queued: the dirty sets are NOT those of the snapshot
    (undoAssetCodeTotalSupply → SetAssetCode → SetState; there is no OldClean for this family). It is harmless: what
    is published afterwards is what is published without the span (`noop_dirty_publishes_nothing`). -/
theorem assetcode_undo_leaves_noop_dirty :
    let s1 := runD true dLoaded [.snap, .w 0 (.assetCodeSupply 1 600), .rev 0]
    DirtyOk (dLoaded.st.accts 0) (dLoaded.dirty 0) (.assetCodeSupply 1 600) = false ∧
    (dLoaded.dirty 0).ac = [] ∧ (s1.dirty 0).ac = [1] ∧
    (s1.st.accts 0).getAssetCode 1 = (dLoaded.st.accts 0).getAssetCode 1 ∧
    publish (runD true s1 [.w 0 (.balance 5)]) = publish (runD true dLoaded [.w 0 (.balance 5)]) ∧
    publish (runD true dLoaded [.w 0 (.balance 5)]) = [{ addr := 0, ty := 1, ver := 4 }] := by
  decide

/-- set K; delete K (both kept); snapshot; set K; revert — on a fresh account, for each of the four tries, and on the
    loaded account 0 (committed storage key 1, fresh asset code 2): the dirty sets, the flags and what is published
    afterwards are those of the state at the snapshot. -/
def cornerB (base : DSt) (acct : Nat) (set del : Write) : Bool :=
  let s1 := runD true base [.w acct set, .w acct del, .snap]
  let s2 := runD true s1 [.w acct set, .rev 0]
  decide (s2.dirty acct = s1.dirty acct) && decide (s2.side = s1.side) &&
    decide (publish (runD true s2 [.w acct (.balance 7)]) = publish (runD true s1 [.w acct (.balance 7)]))

theorem corner_set_delete_set_reverted :
    cornerB d00 3 (.storage 1 4) (.storage 1 0) = true ∧
    cornerB d00 3 (.assetId 1 2) (.assetId 1 0) = true ∧
    cornerB d00 3 (.equity 1 (some 5)) (.equity 1 none) = true ∧
    cornerB d00 3 (.assetCode 1 (some { supply := 9, p1 := 3, p2 := 0 })) (.assetCode 1 none) = true ∧
    cornerB dLoaded 0 (.storage 1 4) (.storage 1 0) = true ∧
    cornerB dLoaded 0 (.assetCode 2 (some { supply := 9, p1 := 3, p2 := 0 })) (.assetCode 2 none) = true ∧
    -- the delete of a contract-storage / asset-id / equity key keeps it queued (SetState with an empty value); DelState unqueues
    (runD true d00 [.w 3 (.storage 1 4), .w 3 (.storage 1 0)]).dirty 3 = { s := [1] } ∧
    (runD true d00 [.w 3 (.assetCode 1 (some { supply := 9, p1 := 3, p2 := 0 })), .w 3 (.assetCode 1 none)]).dirty 3 = {} := by
  decide

/-! ### non-vacuity -/

example : ∀ i, SortedD (d00.dirty i) := fun _ => sortedD_empty
example : ∀ i, SortedD (dLoaded.dirty i) := fun _ => sortedD_empty

/-- a three-level nested script with every storage-like kind satisfies `ScriptD` on fresh accounts … -/
example : ScriptD 0 (snapshotD d00).1
    [.w 0 (.balance 5), .snap, .w 1 (.storage 1 2), .snap, .w 0 (.equity 1 (some 3)), .w 2 (.assetId 1 4), .rev 2,
     .w 0 (.assetCode 1 (some { supply := 1, p1 := 0, p2 := 0 })), .w 0 (.assetCodeSupply 1 7), .w 0 (.assetCodeState 1 1 2),
     .w 0 (.assetCode 1 none), .rev 1, .w 2 (.votes 4), .w 1 (.storage 1 0)] :=
  ⟨by unfold Script; decide, by decide⟩

/-- … and on the loaded state (committed storage and asset; the asset-code writes go to a slot that is not committed) -/
example : ScriptD 0 (snapshotD dLoaded).1
    [.w 0 (.storage 1 2), .snap, .w 0 (.storage 1 0), .w 0 (.assetCode 2 (some { supply := 1, p1 := 0, p2 := 0 })),
     .w 0 (.assetCodeSupply 2 7), .rev 1, .w 0 (.equity 1 (some 3))] :=
  ⟨by unfold Script; decide, by decide⟩

/-- the guard excludes what `assetcode_undo_leaves_noop_dirty` shows -/
example : scriptDB (snapshotD dLoaded).1 [.w 0 (.assetCodeSupply 1 600)] = false := by decide

end LemoProofs.C07Dirty

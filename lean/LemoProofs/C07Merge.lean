/-
  C07, last clause — "replaying a block's PUBLISHED change logs onto its parent state yields the same
  state as executing the block": the published logs are the MERGED logs.

  Model: `LemoModel.MergeLogs` (merge of log_compressor.go; Redo as ordered cell assignments).
  * `merge_redo_eq_partial` — for ALL log lists of an account: if no non-mergeable log writes a cell that
    is the key of a mergeable log of the list, replaying the merged list gives exactly the state that
    replaying the original list gives (hence the executed state, each Redo being the setter that ran).
  * `merge_redo_refuted` — the guard is needed on the code as it stands: a SuicideLog (non-mergeable, zeroes
    the balance) followed by a BalanceLog of the same account: the merged list replays the balance BEFORE the
    suicide and ends with 0 instead of the executed value (known finding c07/redo-mismatch/account-with-suicide-log,
    found by the RebuildAll oracle of `hx c01`).
-/
import LemoModel.MergeLogs
namespace LemoProofs.C07Merge
open LemoModel.MergeLogs

def writesCell (l : L) (c : Nat) : Prop := ∃ w ∈ l.writes, w.1 = c

/-- a mergeable log writes exactly the cell named by its key -/
def WFL (l : L) : Prop := l.mergeable = true → ∃ v, l.writes = [(l.key, v)]

theorem upd_upd (f : Nat → Int) (k : Nat) (a b : Int) : upd (upd f k a) k b = upd f k b := by
  funext x; unfold upd; split <;> rfl

theorem upd_comm (f : Nat → Int) (k c : Nat) (a b : Int) (h : k ≠ c) :
    upd (upd f c b) k a = upd (upd f k a) c b := by
  funext x; unfold upd
  by_cases h1 : x = k
  · subst h1; simp [h]
  · simp [h1]

theorem foldl_upd_comm : ∀ (ws : List (Nat × Int)) (s : Nat → Int) (c : Nat) (x : Int),
    (∀ w ∈ ws, w.1 ≠ c) →
    ws.foldl (fun s w => upd s w.1 w.2) (upd s c x) = upd (ws.foldl (fun s w => upd s w.1 w.2) s) c x := by
  intro ws
  induction ws with
  | nil => intro s c x _; rfl
  | cons w ws ih =>
    intro s c x h
    simp only [List.foldl_cons]
    rw [upd_comm s w.1 c w.2 x (h w List.mem_cons_self)]
    exact ih _ c x (fun w' hw' => h w' (List.mem_cons_of_mem _ hw'))

theorem apply_comm (l : L) (s : Nat → Int) (c : Nat) (x : Int) (h : ¬ writesCell l c) :
    apply l (upd s c x) = upd (apply l s) c x := by
  unfold apply
  exact foldl_upd_comm l.writes s c x (fun w hw e => h ⟨w, hw, e⟩)

theorem redo_comm : ∀ (rs : List L) (s : Nat → Int) (c : Nat) (x : Int),
    (∀ l ∈ rs, ¬ writesCell l c) → redo rs (upd s c x) = upd (redo rs s) c x := by
  intro rs
  induction rs with
  | nil => intro s c x _; rfl
  | cons r rs ih =>
    intro s c x h
    simp only [redo, List.foldl_cons]
    rw [apply_comm r s c x (h r List.mem_cons_self)]
    exact ih _ c x (fun l hl => h l (List.mem_cons_of_mem _ hl))

theorem foldl_upd_cell : ∀ (ws : List (Nat × Int)) (s s' : Nat → Int) (c : Nat), s c = s' c →
    ws.foldl (fun s w => upd s w.1 w.2) s c = ws.foldl (fun s w => upd s w.1 w.2) s' c := by
  intro ws
  induction ws with
  | nil => intro s s' c h; exact h
  | cons w ws ih =>
    intro s s' c h
    simp only [List.foldl_cons]
    apply ih
    unfold upd
    split <;> simp [h]

/-- Redo is cell-wise: what a cell ends with depends only on what it started with -/
theorem redo_cell : ∀ (rs : List L) (s s' : Nat → Int) (c : Nat), s c = s' c → redo rs s c = redo rs s' c := by
  intro rs
  induction rs with
  | nil => intro s s' c h; exact h
  | cons r rs ih =>
    intro s s' c h
    simp only [redo, List.foldl_cons]
    apply ih
    exact foldl_upd_cell r.writes s s' c h

theorem redo_cons (r : L) (rs : List L) (s : Nat → Int) : redo (r :: rs) s = redo rs (apply r s) := rfl

theorem redo_append (a b : List L) (s : Nat → Int) : redo (a ++ b) s = redo b (redo a s) := by
  unfold redo; rw [List.foldl_append]

/-- replacing the NewVal of the K-entry: the replayed state changes at cell K only -/
theorem redo_replace (l : L) (v : Int) (hl : l.mergeable = true) (hw : l.writes = [(l.key, v)]) :
    ∀ (res : List L) (s : Nat → Int),
    (∀ r ∈ res, WFL r) →
    (res.any (sameKey l) = true) →
    (∀ r ∈ res, sameKey l r = false → ¬ writesCell r l.key) →
    redo (res.map (fun r => if sameKey l r then { r with writes := l.writes } else r)) s
      = upd (redo res s) l.key v := by
  intro res
  induction res with
  | nil => intro s _ h _; simp at h
  | cons r rs ih =>
    intro s hwf hany hother
    simp only [List.map_cons, redo_cons]
    by_cases hk : sameKey l r = true
    · -- r is an entry with this key
      simp only [hk, if_true]
      have hrm : r.mergeable = true ∧ r.key = l.key := by
        unfold sameKey at hk
        simpa using hk
      obtain ⟨v0, hv0⟩ := hwf r List.mem_cons_self hrm.1
      have e1 : apply { r with writes := l.writes } s = upd s l.key v := by
        unfold apply; simp [hw]
      have e2 : apply r s = upd s l.key v0 := by
        unfold apply; simp [hv0, hrm.2]
      rw [e1, e2]
      by_cases hrest : rs.any (sameKey l) = true
      · rw [ih (upd s l.key v) (fun x hx => hwf x (List.mem_cons_of_mem _ hx)) hrest
              (fun x hx => hother x (List.mem_cons_of_mem _ hx))]
        funext x
        unfold upd
        by_cases hx : x = l.key
        · simp [hx]
        · simp only [hx, if_false]
          apply redo_cell
          simp [hx]
      · -- no further entry with this key: the map is the identity on rs, and rs never writes the cell
        have hno : ∀ x ∈ rs, sameKey l x = false := by
          intro x hx
          cases hq : sameKey l x with
          | false => rfl
          | true => exact absurd (List.any_eq_true.mpr ⟨x, hx, hq⟩) hrest
        have hmap : rs.map (fun r => if sameKey l r then { r with writes := l.writes } else r) = rs := by
          have := List.map_congr_left (l := rs)
            (f := fun r => if sameKey l r then { r with writes := l.writes } else r) (g := id)
            (fun x hx => by simp [hno x hx])
          simpa using this
        have hfr : ∀ x ∈ rs, ¬ writesCell x l.key := fun x hx => hother x (List.mem_cons_of_mem _ hx) (hno x hx)
        rw [hmap, redo_comm rs s l.key v hfr, redo_comm rs s l.key v0 hfr, upd_upd]
    · have hk' : sameKey l r = false := by simpa using hk
      simp only [hk', Bool.false_eq_true, if_false]
      have hrest : rs.any (sameKey l) = true := by
        simp only [List.any_cons, hk', Bool.false_or] at hany
        exact hany
      exact ih (apply r s) (fun x hx => hwf x (List.mem_cons_of_mem _ hx)) hrest
        (fun x hx => hother x (List.mem_cons_of_mem _ hx))

/-- the guard: logs are well formed, and no non-mergeable log writes a cell that is the key of a mergeable log -/
def Guard (logs : List L) : Prop :=
  (∀ l ∈ logs, WFL l) ∧
  (∀ l ∈ logs, l.mergeable = false → ∀ m ∈ logs, m.mergeable = true → ¬ writesCell l m.key)

/-- invariant of the result list while merging `logs` -/
def ResInv (logs res : List L) : Prop :=
  ∀ r ∈ res, WFL r ∧ (r.mergeable = false → r ∈ logs)

theorem apply_single (l : L) (v : Int) (hw : l.writes = [(l.key, v)]) (s : Nat → Int) :
    apply l s = upd s l.key v := by
  unfold apply; simp [hw]

/-- one iteration of merge = one Redo on the replayed state -/
theorem mergeStep_redo (logs res : List L) (l : L) (hg : Guard logs) (hl : l ∈ logs) (hr : ResInv logs res)
    (s : Nat → Int) : redo (mergeStep res l) s = apply l (redo res s) ∧ ResInv logs (mergeStep res l) := by
  unfold mergeStep
  by_cases hc : (l.mergeable && res.any (sameKey l)) = true
  · simp only [hc, if_true]
    have hm : l.mergeable = true ∧ res.any (sameKey l) = true := by simpa using hc
    obtain ⟨v, hv⟩ := hg.1 l hl hm.1
    constructor
    · rw [redo_replace l v hm.1 hv res s (fun r h => (hr r h).1) hm.2 ?_, apply_single l v hv]
      intro r hrm hsk hwc
      by_cases hmr : r.mergeable = true
      · -- another mergeable key: writes only its own cell
        obtain ⟨v', hv'⟩ := (hr r hrm).1 hmr
        obtain ⟨w, hw, he⟩ := hwc
        rw [hv'] at hw
        simp only [List.mem_singleton] at hw
        subst hw
        simp only at he
        unfold sameKey at hsk
        simp [hmr, he] at hsk
      · have hmr' : r.mergeable = false := by simpa using hmr
        exact hg.2 r ((hr r hrm).2 hmr') hmr' l hl hm.1 hwc
    · intro r hrm
      simp only [List.mem_map] at hrm
      obtain ⟨r0, hr0, he⟩ := hrm
      by_cases hk : sameKey l r0 = true
      · simp only [hk, if_true] at he
        subst he
        have hk' : r0.mergeable = true ∧ r0.key = l.key := by
          unfold sameKey at hk; simpa using hk
        constructor
        · intro _; exact ⟨v, by simp [hv, hk'.2]⟩
        · intro h; simp [hk'.1] at h
      · have hk' : sameKey l r0 = false := by simpa using hk
        simp only [hk', Bool.false_eq_true, if_false] at he
        subst he
        exact hr r0 hr0
  · have hc' : (l.mergeable && res.any (sameKey l)) = false := by simpa using hc
    simp only [hc', Bool.false_eq_true, if_false]
    constructor
    · rw [redo_append]; rfl
    · intro r hrm
      rcases List.mem_append.mp hrm with h | h
      · exact hr r h
      · simp only [List.mem_singleton] at h
        subst h
        exact ⟨hg.1 r hl, fun _ => hl⟩

theorem merge_fold (logs : List L) (hg : Guard logs) : ∀ (pre res : List L) (s : Nat → Int),
    (∀ l ∈ pre, l ∈ logs) → ResInv logs res →
    redo (pre.foldl mergeStep res) s = redo pre (redo res s) := by
  intro pre
  induction pre with
  | nil => intro res s _ _; rfl
  | cons l pre ih =>
    intro res s hp hr
    simp only [List.foldl_cons]
    obtain ⟨h1, h2⟩ := mergeStep_redo logs res l hg (hp l List.mem_cons_self) hr s
    rw [ih (mergeStep res l) s (fun x hx => hp x (List.mem_cons_of_mem _ hx)) h2, h1]
    rfl

/-- **merge_redo_eq_partial**: for every log list satisfying the guard and every parent state, replaying the
    MERGED (published) logs gives exactly the state that replaying the logs in execution order gives. -/
theorem merge_redo_eq_partial (logs : List L) (hg : Guard logs) (s : Nat → Int) :
    redo (merge logs) s = redo logs s := by
  unfold merge
  rw [merge_fold logs hg logs [] s (fun _ h => h) (by intro r h; cases h)]
  rfl

/-! ### the guard is needed: the suicide / balance witness -/

def cBal : Nat := 1
/-- BalanceLog(NewVal 5) · SuicideLog · BalanceLog(NewVal 7): executed balance 7 -/
def wLogs : List L :=
  [{ key := cBal, mergeable := true, writes := [(cBal, 5)] },
   { key := 16, mergeable := false, writes := [(cBal, 0), (2, 0)] },
   { key := cBal, mergeable := true, writes := [(cBal, 7)] }]

theorem merge_redo_refuted :
    redo wLogs (fun _ => 0) cBal = 7 ∧ redo (merge wLogs) (fun _ => 0) cBal = 0 := by
  decide

/-- non-vacuity: a list with two balance logs around a storage log satisfies the guard -/
example : Guard [{ key := 1, mergeable := true, writes := [(1, 5)] },
                 { key := 40, mergeable := false, writes := [(100, 3)] },
                 { key := 1, mergeable := true, writes := [(1, 7)] }] := by
  constructor
  · intro l hl
    simp only [List.mem_cons, List.mem_singleton, List.not_mem_nil, or_false] at hl
    rcases hl with rfl | rfl | rfl <;> intro h <;> first | exact ⟨_, rfl⟩ | cases h
  · intro l hl hm m hmm hmg hw
    simp only [List.mem_cons, List.mem_singleton, List.not_mem_nil, or_false] at hl hmm
    rcases hl with rfl | rfl | rfl <;> simp at hm
    rcases hmm with rfl | rfl | rfl <;> simp at hmg <;>
      (obtain ⟨w, hw1, hw2⟩ := hw; simp at hw1; subst hw1; simp at hw2)

/-! ### `removeUnchanged`: sound exactly when a dropped log's Redo is a no-op where it is replayed -/

/-- along the replay, every log judged "not valuable" leaves the state it is applied to unchanged -/
def DropOk : List VL → (Nat → Int) → Prop
  | [], _ => True
  | l :: ls, s => (l.valuable = false → apply l.log s = s) ∧ DropOk ls (apply l.log s)

theorem removeUnchanged_redo_partial : ∀ (ls : List VL) (s : Nat → Int), DropOk ls s →
    redo (removeUnchanged ls) s = redo (ls.map (·.log)) s := by
  intro ls
  induction ls with
  | nil => intro s _; rfl
  | cons l ls ih =>
    intro s h
    obtain ⟨h1, h2⟩ := h
    cases hv : l.valuable with
    | true =>
      have : removeUnchanged (l :: ls) = l.log :: removeUnchanged ls := by
        simp [removeUnchanged, List.filter, hv]
      rw [this, List.map_cons, redo_cons, redo_cons]
      exact ih _ h2
    | false =>
      have : removeUnchanged (l :: ls) = removeUnchanged ls := by
        simp [removeUnchanged, List.filter, hv]
      rw [this, List.map_cons, redo_cons, h1 hv]
      rw [h1 hv] at h2
      exact ih _ h2

/-- cells: 1 = balance, 301 = storage slot 1 (uncommitted write), 2 = committed storage root -/
def sLogs : List VL :=
  [ { log := { key := 301, mergeable := false, writes := [(301, 2)] }, valuable := true },
    -- SuicideLog of an account without balance, code hash or COMMITTED storage root: IsValuable says false,
    -- but its Redo (SetSuicide) wipes the storage written a moment ago
    { log := { key := 16, mergeable := false, writes := [(1, 0), (2, 0), (301, 0)] }, valuable := false } ]

/-- **the SuicideLog that is not published**: executing (= replaying every log) leaves slot 1 empty, replaying the
    published list keeps the value 2.  Real code: `w 3 sto 1 2; w 3 sui` in `hx c07`
    (finding c07/redo-mismatch/suicide-log-not-published). -/
theorem suicide_log_dropped_refuted :
    redo (sLogs.map (·.log)) (fun _ => 0) 301 = 0 ∧ redo (removeUnchanged sLogs) (fun _ => 0) 301 = 2 ∧
    ¬ DropOk sLogs (fun _ => 0) := by
  refine ⟨by decide, by decide, ?_⟩
  intro h
  have h2 := h.2.1 rfl
  have := congrFun h2 301
  revert this
  decide

/-- non-vacuity of `DropOk`: a BalanceLog that restores the old value is dropped soundly -/
example : DropOk [ { log := { key := 1, mergeable := true, writes := [(1, 0)] }, valuable := false },
                   { log := { key := 301, mergeable := false, writes := [(301, 2)] }, valuable := true } ] (fun _ => 0) := by
  refine ⟨fun _ => ?_, ⟨(fun h => by cases h), trivial⟩⟩
  funext x
  simp [apply, upd]

end LemoProofs.C07Merge

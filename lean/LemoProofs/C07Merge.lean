/-
  C07, last clause — "replaying a block's PUBLISHED change logs onto its parent state yields the same
  state as executing the block": the published logs are the MERGED logs.

  Model: `LemoModel.MergeLogs` (merge of log_compressor.go; Redo as ordered cell assignments).
  * `merge_redo_eq_partial` — for ALL log lists of an account: if no non-mergeable log writes a cell that
    is the key of a mergeable log of the list, replaying the merged list gives exactly the state that
    replaying the original list gives (hence the executed state, each Redo being the setter that ran).
  * `merge_redo_refuted` — the guard is needed on the code as it stands: a SuicideLog (non-mergeable, zeroes
    the balance) followed by a BalanceLog of the same account: the merged list replays the balance BEFORE the
    suicide and ends with 0 instead of the executed value (known finding c07/redo-mismatch/account-with-suicide-log,
    found by the RebuildAll oracle of `hx c01`).
-/
import LemoModel.MergeLogs
namespace LemoProofs.C07Merge
open LemoModel.MergeLogs

def writesCell (l : L) (c : Nat) : Prop := ∃ w ∈ l.writes, w.1 = c

/-- a mergeable log writes exactly the cell named by its key -/
def WFL (l : L) : Prop := l.mergeable = true → ∃ v, l.writes = [(l.key, v)]

theorem upd_upd (f : Nat → Int) (k : Nat) (a b : Int) : upd (upd f k a) k b = upd f k b := by
  funext x; unfold upd; split <;> rfl

theorem upd_comm (f : Nat → Int) (k c : Nat) (a b : Int) (h : k ≠ c) :
    upd (upd f c b) k a = upd (upd f k a) c b := by
  funext x; unfold upd
  by_cases h1 : x = k
  · subst h1; simp [h]
  · simp [h1]

theorem foldl_upd_comm : ∀ (ws : List (Nat × Int)) (s : Nat → Int) (c : Nat) (x : Int),
    (∀ w ∈ ws, w.1 ≠ c) →
    ws.foldl (fun s w => upd s w.1 w.2) (upd s c x) = upd (ws.foldl (fun s w => upd s w.1 w.2) s) c x := by
  intro ws
  induction ws with
  | nil => intro s c x _; rfl
  | cons w ws ih =>
    intro s c x h
    simp only [List.foldl_cons]
    rw [upd_comm s w.1 c w.2 x (h w List.mem_cons_self)]
    exact ih _ c x (fun w' hw' => h w' (List.mem_cons_of_mem _ hw'))

theorem apply_comm (l : L) (s : Nat → Int) (c : Nat) (x : Int) (h : ¬ writesCell l c) :
    apply l (upd s c x) = upd (apply l s) c x := by
  unfold apply
  exact foldl_upd_comm l.writes s c x (fun w hw e => h ⟨w, hw, e⟩)

theorem redo_comm : ∀ (rs : List L) (s : Nat → Int) (c : Nat) (x : Int),
    (∀ l ∈ rs, ¬ writesCell l c) → redo rs (upd s c x) = upd (redo rs s) c x := by
  intro rs
  induction rs with
  | nil => intro s c x _; rfl
  | cons r rs ih =>
    intro s c x h
    simp only [redo, List.foldl_cons]
    rw [apply_comm r s c x (h r List.mem_cons_self)]
    exact ih _ c x (fun l hl => h l (List.mem_cons_of_mem _ hl))

theorem foldl_upd_cell : ∀ (ws : List (Nat × Int)) (s s' : Nat → Int) (c : Nat), s c = s' c →
    ws.foldl (fun s w => upd s w.1 w.2) s c = ws.foldl (fun s w => upd s w.1 w.2) s' c := by
  intro ws
  induction ws with
  | nil => intro s s' c h; exact h
  | cons w ws ih =>
    intro s s' c h
    simp only [List.foldl_cons]
    apply ih
    unfold upd
    split <;> simp [h]

/-- Redo is cell-wise: what a cell ends with depends only on what it started with -/
theorem redo_cell : ∀ (rs : List L) (s s' : Nat → Int) (c : Nat), s c = s' c → redo rs s c = redo rs s' c := by
  intro rs
  induction rs with
  | nil => intro s s' c h; exact h
  | cons r rs ih =>
    intro s s' c h
    simp only [redo, List.foldl_cons]
    apply ih
    exact foldl_upd_cell r.writes s s' c h

theorem redo_cons (r : L) (rs : List L) (s : Nat → Int) : redo (r :: rs) s = redo rs (apply r s) := rfl

theorem redo_append (a b : List L) (s : Nat → Int) : redo (a ++ b) s = redo b (redo a s) := by
  unfold redo; rw [List.foldl_append]

/-- replacing the NewVal of the K-entry: the replayed state changes at cell K only -/
theorem redo_replace (l : L) (v : Int) (hl : l.mergeable = true) (hw : l.writes = [(l.key, v)]) :
    ∀ (res : List L) (s : Nat → Int),
    (∀ r ∈ res, WFL r) →
    (res.any (sameKey l) = true) →
    (∀ r ∈ res, sameKey l r = false → ¬ writesCell r l.key) →
    redo (res.map (fun r => if sameKey l r then { r with writes := l.writes } else r)) s
      = upd (redo res s) l.key v := by
  intro res
  induction res with
  | nil => intro s _ h _; simp at h
  | cons r rs ih =>
    intro s hwf hany hother
    simp only [List.map_cons, redo_cons]
    by_cases hk : sameKey l r = true
    · -- r is an entry with this key
      simp only [hk, if_true]
      have hrm : r.mergeable = true ∧ r.key = l.key := by
        unfold sameKey at hk
        simpa using hk
      obtain ⟨v0, hv0⟩ := hwf r List.mem_cons_self hrm.1
      have e1 : apply { r with writes := l.writes } s = upd s l.key v := by
        unfold apply; simp [hw]
      have e2 : apply r s = upd s l.key v0 := by
        unfold apply; simp [hv0, hrm.2]
      rw [e1, e2]
      by_cases hrest : rs.any (sameKey l) = true
      · rw [ih (upd s l.key v) (fun x hx => hwf x (List.mem_cons_of_mem _ hx)) hrest
              (fun x hx => hother x (List.mem_cons_of_mem _ hx))]
        funext x
        unfold upd
        by_cases hx : x = l.key
        · simp [hx]
        · simp only [hx, if_false]
          apply redo_cell
          simp [hx]
      · -- no further entry with this key: the map is the identity on rs, and rs never writes the cell
        have hno : ∀ x ∈ rs, sameKey l x = false := by
          intro x hx
          cases hq : sameKey l x with
          | false => rfl
          | true => exact absurd (List.any_eq_true.mpr ⟨x, hx, hq⟩) hrest
        have hmap : rs.map (fun r => if sameKey l r then { r with writes := l.writes } else r) = rs := by
          have := List.map_congr_left (l := rs)
            (f := fun r => if sameKey l r then { r with writes := l.writes } else r) (g := id)
            (fun x hx => by simp [hno x hx])
          simpa using this
        have hfr : ∀ x ∈ rs, ¬ writesCell x l.key := fun x hx => hother x (List.mem_cons_of_mem _ hx) (hno x hx)
        rw [hmap, redo_comm rs s l.key v hfr, redo_comm rs s l.key v0 hfr, upd_upd]
    · have hk' : sameKey l r = false := by simpa using hk
      simp only [hk', Bool.false_eq_true, if_false]
      have hrest : rs.any (sameKey l) = true := by
        simp only [List.any_cons, hk', Bool.false_or] at hany
        exact hany
      exact ih (apply r s) (fun x hx => hwf x (List.mem_cons_of_mem _ hx)) hrest
        (fun x hx => hother x (List.mem_cons_of_mem _ hx))

end LemoProofs.C07Merge

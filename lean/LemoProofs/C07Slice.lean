import LemoModel.CopySlice
/-!
  C07, "discard leaves no trace", the slice field: any sequence of `SetSingers` calls made through a COPY of an
  account's data (same slice header as the source) leaves what the source shows unchanged — for every heap,
  every source slice, every header the copy may hold and every list of new signer lists.
  The in-place variant is refuted by a two-element witness.
-/
namespace LemoProofs.C07Slice
open LemoModel.CopySlice

theorem cell_append (h : Heap) (v : List Nat) (i : Nat) (hi : i < h.length) : cell (h ++ [v]) i = cell h i := by
  unfold cell
  simp [List.getD, List.getElem?_append_left hi]

theorem rd_append (h : Heap) (v : List Nat) (s : Option Slice) (hs : valid h s) : rd (h ++ [v]) s = rd h s := by
  cases s with
  | none => rfl
  | some s => simp only [rd]; rw [cell_append h v s.arr hs]

theorem valid_append (h : Heap) (v : List Nat) (s : Option Slice) (hs : valid h s) : valid (h ++ [v]) s := by
  cases s with
  | none => trivial
  | some s => simp only [valid, List.length_append, List.length_singleton] at *; omega

theorem setSigners_fresh (h : Heap) (c : Option Slice) (v : List Nat) :
    (setSigners false h c v).1 = h ++ [v] := by
  unfold setSigners; cases c <;> rfl

/-- **isolation**: writes through the copy never change what the source shows -/
theorem sets_isolates (h : Heap) (s c : Option Slice) (vs : List (List Nat)) (hs : valid h s) :
    rd (sets false h c vs).1 s = rd h s := by
  induction vs generalizing h c with
  | nil => rfl
  | cons v vs ih =>
    simp only [sets]
    rw [ih _ _ (by rw [setSigners_fresh]; exact valid_append h v s hs), setSigners_fresh, rd_append h v s hs]

/-- the copy itself shows the last list written -/
theorem sets_reads_last (h : Heap) (c : Option Slice) (vs : List (List Nat)) (v : List Nat) :
    rd (sets false h c (vs ++ [v])).1 (sets false h c (vs ++ [v])).2 = v := by
  induction vs generalizing h c with
  | nil =>
    simp only [List.nil_append, sets]
    unfold setSigners
    cases c <;> simp [rd, cell, List.getD]
  | cons w ws ih => simp only [List.cons_append, sets]; exact ih _ _

/-- the variant that reuses the old backing array: a one-element list written through the copy shows up in the source -/
theorem reuse_shares_refuted :
    rd (sets true [[1, 2]] (some ⟨0, 2⟩) [[9]]).1 (some ⟨0, 2⟩) = [9, 2] ∧ rd [[1, 2]] (some ⟨0, 2⟩) = [1, 2] := by
  decide

/-- the hypotheses are satisfiable on a non-trivial heap -/
example : valid [[1, 2], [3]] (some ⟨0, 2⟩) ∧ rd (sets false [[1, 2], [3]] (some ⟨0, 2⟩) [[9], [], [4, 5, 6]]).1 (some ⟨0, 2⟩) = [1, 2] :=
  ⟨by simp [valid], by decide⟩

end LemoProofs.C07Slice

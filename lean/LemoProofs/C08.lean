/-
  C08 — Durability: after any crash the node restarts intact on its last stable block.

  Byte level (model `LemoModel.Wal`, tied to store/file_util.go + store/file_queue.go + the rlp decoder by
  the `hx c08` correspondence sweep over every truncation offset). Two readers are modelled:

  `scan` — FileUtilsRead as it is NOW (/repo commit "fix: FileUtilsRead stops at a torn or corrupt record
  instead of delivering a zero-filled body": io.ReadFull, short read = end of the log, CheckSum(body)
  compared with head.Crc):
    scan_encode              scan of any concatenation of FileUtilsEncode outputs returns exactly those records  (full)
    scan_torn_total          FULL STATEMENT: old records ++ any prefix of the record in flight ++ any zero tail
                             => EOF, never an error, never a phantom record.  Needs `CrcDetects` only when a
                             zero tail is present (a 16-bit CRC cannot be proved collision free)              (full)
    scan_torn_total_prefix   the same without zero tail, unconditional, with the exact record list            (full)
    scan_ignores_ts, scan_no_fuel, recoverBytes_torn                                                          (full)

  `scanLegacy` — FileUtilsRead BEFORE that commit (plain file.Read, CRC never compared):
    scanLegacy_encode, scanLegacy_ignores_stamp, scanLegacy_no_fuel                                          (full)
    scanLegacy_torn_total_partial   guard: cut inside the 18-byte head or behind the body                   (_partial)
    scanLegacy_torn_exact / scanLegacy_torn_total_iff   the exact guard                                      (full)
    scan_torn_total_refuted, _refuted_phantom, _refuted_error, scan_torn_zero_tail_refuted,
    recoverBytes_torn_refuted_overwrite, recoverBytes_torn_refuted_panic                                     (refutations:
        the full statement is FALSE for the reader before the fix — phantom record with a zero-filled
        value, or a decode error that panics FileQueue.Start)

  Restart (checkFile truncates at Offset since /repo commit 3252737; Put writes at Offset without truncating):
    restart_then_puts, restart_idempotent, torn_restart_put_restart   on an ARBITRARY file (< 4 GiB): after start-up
                             the file length is the write position; later scans deliver exactly the first scan's
                             records followed by exactly the records written since; restart twice = restart once  (full)
    restart_put_legacy_phantom   code before 3252737: phantom record out of the remnant of a torn record      (refutation, legacy)

    rewind_then_puts         emptyFile on an idle queue empties the file: a scan after the rewind and any further writes
                             delivers exactly the records written since                                          (full)
    rewind_without_truncate_refuted   variant seed-C08c (rewind, file kept): stale record redelivered after the newer (refutation, variant)

  Store level:
    redeliver_idempotent, redeliver_prefix, redeliver_twice                                                  (full)

  Pending index of the queue (FileQueue.Index / refCnt / emptyFile; model `qStep`, tied op by op to the real
  setIndex / delIndex / emptyFile by the `qput/qbatch/qdone/qcrash` ops):
    queue_refcnt_invariant   refCnt k = number of pending records of k, for every op sequence; no panic  (full)
    queue_wal_removed_only_when_idle, queue_no_acked_record_lost   tmp.data is removed only when nothing is
                             pending; a crash at any OPERATION BOUNDARY loses no acknowledged record         (full)
    queue_seeded_refuted     the variant whose setIndex drops the increment loses an acknowledged record (refutation, variant)

  context.data (candidate list): context_replace_atomic — by definition of `ctxLoad` (the temp file is never read)
    plus assumed rename atomicity: restart reads exactly old or new; legacy refutations for the code before 298fcc8.

  Protocol level (record granularity, model `crashState`/`recover` in `LemoModel.Wal`; NOT repaired in /repo):
    stable_after_crash_partial   any disk (quiescent or not), every crash point outside window 1 (batch durable …
                                 SetCurrentBlock executed) and window 2 (SetCurrentBlock executed … Context.Flush
                                 completed): recovery = the state before or the completed promotion, incl. candidates (_partial)
    stable_after_crash_refuted, pointer_moved_context_not_flushed_refuted, torn_batch_refuted            (refutations, current code)
    recover_idempotent           record level only: the writer re-stored a prefix, then another restart; torn LevelDB
                                 writes are NOT modelled

  Bitcask level — a crash INSIDE one BitCask.Put (data file written at the cursor / LevelDB position / LevelDB cursor)
  and during the redelivery: model `LemoModel.Bitcask`, theorems in LemoProofs/C08Bitcask.lean (which imports this
  file): bitcask_put_crash_invariant, bitcask_put_crash_safe, bitcask_idle_keys_readable,
  bitcask_redelivery_completes (full, single data file < 2 GiB); bitcask_append_refuted (variant O_APPEND).

  What start-up REDELIVERS (model `LemoModel.Wal.redeliver` / `qRestart` / `recoverBy`), theorems in
  LemoProofs/C08Redeliver.lean (imports this file): recovery_redelivers_every_unwritten_record (full, but a REPACKAGING:
  "every record of tmp.data is handed to the writer again, in order, whatever the position index holds" is definitional for
  the model's `redeliver false`; "last acknowledged value wins" re-exports queue_no_acked_record_lost),
  restart_keeps_queue_invariant (re-export of restartQ_inv); recovery_skip_indexed_refuted, recover_skip_indexed_refuted
  (variant seed-C08h: a record whose key is indexed is skipped — two-record witness; not registered, the driver never
  runs the variant flag).

  NOT covered by any theorem (oracles only, see props/C08.json `partial`): ancestors by hash/height, contract code,
  trie nodes, candidate top; engine-level restart equivalence (InsertBlock of a restarted vs a continuous node).
-/
import LemoModel.Wal
import LemoProofs.Lemmas.Wal
namespace LemoProofs.C08
open LemoModel LemoModel.Wal LemoGen.Store LemoProofs.WalLemmas

/-! ## byte level -/

/-- **decode_encode_body**: the rlp reader of the scan inverts `fileUtilsEncodeBody`. -/
theorem decode_encode_body (key val : Bytes) (h : key.length + val.length < 4294967296) :
    decodeBody (encodeBody key val) = .ok key val :=
  decodeBody_encodeBody key val h

/-! ## byte level — the reader as it is now (`scan`: io.ReadFull + CRC check) -/

/-- **scan_encode**: for every list of records as `FileUtilsEncode` writes them (any flags, keys, values,
    time stamps) the start-up scan of the bytes `PutBatch`/`Put` appended returns exactly those records,
    in order, ends with EOF (never an error) and leaves `Offset` at the end of the file. -/
theorem scan_encode (ss : List Stamped) (h : ∀ s ∈ ss, Sealed s) :
    scan (encodeAll ss) = ⟨.eof, (encodeAll ss).length, ss.map (·.r)⟩ := by
  have hw : ∀ s ∈ ss, WF s.r := fun s hs => (h s hs).1
  have hl := encodeAll_length_ge ss hw
  unfold scan
  have := scanLoop_encodeAll (step := scanStep) ss [] [] [] ((encodeAll ss).length + 1) hw
    (fun pre post x hx => scanStep_enc pre post x (h x hx)) (by omega)
  simp only [List.nil_append, List.append_nil, List.length_nil, Nat.zero_add] at this
  rw [this, scanLoop_at_end stepOK_live _ _ _ _ (Nat.le_refl _)]

/-- **scan_no_fuel**: the fuel of the loop model never runs out. -/
theorem scan_no_fuel (file : Bytes) : (scan file).stop ≠ .fuel :=
  scanLoop_no_fuel stepOK_live _ _ _ _ (by omega)

/-- **scan_torn_total** — the FULL statement. After a crash in the middle of an append the file is the
    old records, any prefix of the record in flight (cut anywhere: head, rlp headers, key, value,
    padding), optionally followed by any number of zero bytes. The scan then ends with EOF — never an
    error — and returns the old records, possibly plus the very record that was being written: never a
    phantom record. `CrcDetects` (needed only when a zero tail is present, `0 < z`) is the explicit
    assumption that the 16-bit checksum tells the zero-filled body from the intact one. -/
theorem scan_torn_total (good : List Stamped) (s : Stamped) (c z : Nat)
    (hg : ∀ x ∈ good, Sealed x) (hs : Sealed s) (hd : 0 < z → CrcDetects s.r) :
    (scan (encodeAll good ++ ((encodeRecord s.ts s.crc s.r).take c ++ zeros z))).stop = .eof ∧
      ((scan (encodeAll good ++ ((encodeRecord s.ts s.crc s.r).take c ++ zeros z))).recs = good.map (·.r) ∨
       (scan (encodeAll good ++ ((encodeRecord s.ts s.crc s.r).take c ++ zeros z))).recs = good.map (·.r) ++ [s.r]) := by
  have hw : ∀ x ∈ good, WF x.r := fun x hx => (hg x hx).1
  have hl := encodeAll_length_ge good hw
  unfold scan
  have := scanLoop_encodeAll (step := scanStep) good [] ((encodeRecord s.ts s.crc s.r).take c ++ zeros z) []
    ((encodeAll good ++ ((encodeRecord s.ts s.crc s.r).take c ++ zeros z)).length + 1) hw
    (fun pre post x hx => scanStep_enc pre post x (hg x hx))
    (by simp only [List.length_append]; omega)
  simp only [List.nil_append, List.length_nil, Nat.zero_add] at this
  rw [this]
  by_cases hq : ((encodeRecord s.ts s.crc s.r).take c ++ zeros z).length ≤ 18
  · -- at most 18 bytes behind the old records
    have hf : (encodeAll good ++ ((encodeRecord s.ts s.crc s.r).take c ++ zeros z)).length + 1 - good.length
        = ((encodeAll good ++ ((encodeRecord s.ts s.crc s.r).take c ++ zeros z)).length - good.length) + 1 := by
      simp only [List.length_append]; omega
    rw [hf, scanLoop_short stepOK_live _ _ _ _ (by simp only [List.length_append] at hq ⊢; omega)]
    exact ⟨rfl, Or.inl rfl⟩
  · have hf : (encodeAll good ++ ((encodeRecord s.ts s.crc s.r).take c ++ zeros z)).length + 1 - good.length
        = ((encodeAll good ++ ((encodeRecord s.ts s.crc s.r).take c ++ zeros z)).length - good.length - 1) + 2 := by
      simp only [List.length_append] at hq ⊢; omega
    rw [hf]
    rcases scanLoop_torn (encodeAll good) s hs c z _ hd (good.map (·.r)) with ⟨_, o, h⟩ | ⟨_, o, h⟩
    · rw [h]; exact ⟨rfl, Or.inl rfl⟩
    · rw [h]; exact ⟨rfl, Or.inr rfl⟩

/-- **scan_torn_total_prefix**: the crash model of the property statement proper — the file is the old
    records plus ANY prefix of the record in flight, no zero tail. Unconditional (no assumption about
    the checksum: a short `io.ReadFull` already ends the log): the scan ends with EOF and returns
    exactly the old records, plus the record in flight iff its body is complete. -/
theorem scan_torn_total_prefix (good : List Stamped) (s : Stamped) (c : Nat)
    (hg : ∀ x ∈ good, Sealed x) (hs : Sealed s) :
    (scan (encodeAll good ++ (encodeRecord s.ts s.crc s.r).take c)).stop = .eof ∧
      (scan (encodeAll good ++ (encodeRecord s.ts s.crc s.r).take c)).recs
        = good.map (·.r) ++ (if 18 + (bodyOf s.r).length ≤ c then [s.r] else []) := by
  have hw : ∀ x ∈ good, WF x.r := fun x hx => (hg x hx).1
  have hl := encodeAll_length_ge good hw
  have hz : (encodeRecord s.ts s.crc s.r).take c = (encodeRecord s.ts s.crc s.r).take c ++ zeros 0 := by
    simp [zeros]
  rw [hz]
  unfold scan
  have := scanLoop_encodeAll (step := scanStep) good [] ((encodeRecord s.ts s.crc s.r).take c ++ zeros 0) []
    ((encodeAll good ++ ((encodeRecord s.ts s.crc s.r).take c ++ zeros 0)).length + 1) hw
    (fun pre post x hx => scanStep_enc pre post x (hg x hx))
    (by simp only [List.length_append]; omega)
  simp only [List.nil_append, List.length_nil, Nat.zero_add] at this
  rw [this]
  have hblpos : 0 < (bodyOf s.r).length := by
    cases hq : bodyOf s.r with
    | nil => exact absurd hq (bodyOf_ne_nil s.r)
    | cons a t => simp
  by_cases hq : ((encodeRecord s.ts s.crc s.r).take c ++ zeros 0).length ≤ 18
  · have hf : (encodeAll good ++ ((encodeRecord s.ts s.crc s.r).take c ++ zeros 0)).length + 1 - good.length
        = ((encodeAll good ++ ((encodeRecord s.ts s.crc s.r).take c ++ zeros 0)).length - good.length) + 1 := by
      simp only [List.length_append]; omega
    rw [hf, scanLoop_short stepOK_live _ _ _ _ (by simp only [List.length_append] at hq ⊢; omega)]
    have hb := encLen_bounds s.r hs.1
    have hc : ¬ (18 + (bodyOf s.r).length ≤ c) := by
      simp only [List.length_append, List.length_take, encodeRecord_length _ _ _ hs.1, zeros_length] at hq
      omega
    simp [hc]
  · have hf : (encodeAll good ++ ((encodeRecord s.ts s.crc s.r).take c ++ zeros 0)).length + 1 - good.length
        = ((encodeAll good ++ ((encodeRecord s.ts s.crc s.r).take c ++ zeros 0)).length - good.length - 1) + 2 := by
      simp only [List.length_append] at hq ⊢; omega
    rw [hf]
    rcases scanLoop_torn (encodeAll good) s hs c 0 _ (fun h => absurd h (Nat.lt_irrefl 0)) (good.map (·.r)) with
      ⟨hc, o, h⟩ | ⟨hc, o, h⟩
    · rw [h]
      have : ¬ (18 + (bodyOf s.r).length ≤ c) := by omega
      simp [this]
    · rw [h]
      have : 18 + (bodyOf s.r).length ≤ c := by omega
      simp [this]

/-- **scan_ignores_ts**: the time stamps of the heads never influence the scan. -/
theorem scan_ignores_ts (ss ss' : List Stamped) (h : ∀ s ∈ ss, Sealed s) (h' : ∀ s ∈ ss', Sealed s)
    (hsame : ss.map (·.r) = ss'.map (·.r)) :
    (scan (encodeAll ss)).recs = (scan (encodeAll ss')).recs ∧
      (scan (encodeAll ss)).stop = (scan (encodeAll ss')).stop := by
  rw [scan_encode ss h, scan_encode ss' h']
  exact ⟨hsame, rfl⟩

/-- **recoverBytes_torn**: byte level and record level together, current code. A crash during the
    append (any cut) always lets start-up complete, and the store is exactly the record-level crash
    state `appending j` replayed: the old records, plus the record in flight iff its body is complete. -/
theorem recoverBytes_torn (kv : Store) (good : List Stamped) (s : Stamped) (c : Nat)
    (hg : ∀ x ∈ good, Sealed x) (hs : Sealed s) :
    recoverBytes kv (encodeAll good ++ (encodeRecord s.ts s.crc s.r).take c)
      = some (kv.replay (good.map (·.r) ++ (if 18 + (bodyOf s.r).length ≤ c then [s.r] else []))) := by
  obtain ⟨h1, h2⟩ := scan_torn_total_prefix good s c hg hs
  unfold recoverBytes recoverWith
  rw [h1, h2]

/-! ## byte level — the reader BEFORE the fix (`scanLegacy`): partial theorems and refutations -/

/-- **scanLegacy_encode**: for every list of records (any flags, keys, values, time stamps, checksums) the
    start-up scan of the bytes `PutBatch`/`Put` appended returns exactly those records, in order, ends
    with EOF (never an error) and leaves `Offset` at the end of the file. -/
theorem scanLegacy_encode (ss : List Stamped) (h : ∀ s ∈ ss, WF s.r) :
    scanLegacy (encodeAll ss) = ⟨.eof, (encodeAll ss).length, ss.map (·.r)⟩ := by
  have hl := encodeAll_length_ge ss h
  unfold scanLegacy
  have := scanLoop_encodeAll ss [] [] [] ((encodeAll ss).length + 1) h
    (fun pre post x hx => scanStepLegacy_enc pre post x.ts x.crc x.r (h x hx)) (by omega)
  simp only [List.nil_append, List.append_nil, List.length_nil, Nat.zero_add] at this
  rw [this, scanLoop_at_end stepOK_legacy _ _ _ _ (Nat.le_refl _)]

/-- **scanLegacy_ignores_stamp**: two files that differ only in the time stamps and CRCs of their record
    heads replay identically — the checksum is written but never verified. -/
theorem scanLegacy_ignores_stamp (ss ss' : List Stamped) (h : ∀ s ∈ ss, WF s.r)
    (hsame : ss.map (·.r) = ss'.map (·.r)) :
    (scanLegacy (encodeAll ss)).recs = (scanLegacy (encodeAll ss')).recs ∧
      (scanLegacy (encodeAll ss)).stop = (scanLegacy (encodeAll ss')).stop := by
  have h' : ∀ s ∈ ss', WF s.r := by
    intro s hs
    have : s.r ∈ ss'.map (·.r) := List.mem_map.2 ⟨s, hs, rfl⟩
    rw [← hsame] at this
    obtain ⟨s0, hs0, he⟩ := List.mem_map.1 this
    rw [← he]; exact h s0 hs0
  rw [scanLegacy_encode ss h, scanLegacy_encode ss' h']
  exact ⟨hsame, rfl⟩

/-- **scanLegacy_no_fuel**: the fuel of the loop model never runs out: `scan` always ends in EOF, in an
    error, or (aligned length wrapped to 0 — impossible for `FileUtilsEncode` output) in the Go loop's
    own non-termination. -/
theorem scanLegacy_no_fuel (file : Bytes) : (scanLegacy file).stop ≠ .fuel :=
  scanLoop_no_fuel stepOK_legacy _ _ _ _ (by omega)

/-- cut inside (or exactly after) the 18-byte head: the torn record is dropped, the scan ends with EOF. -/
theorem scanLegacy_torn_head (good : List Stamped) (s : Stamped) (c : Nat)
    (hg : ∀ x ∈ good, WF x.r) (hc : c ≤ 18) :
    scanLegacy (encodeAll good ++ (encodeRecord s.ts s.crc s.r).take c)
      = ⟨.eof, (encodeAll good).length, good.map (·.r)⟩ := by
  have hl := encodeAll_length_ge good hg
  unfold scanLegacy
  have hlen : ((encodeRecord s.ts s.crc s.r).take c).length ≤ 18 := by
    rw [List.length_take]; omega
  have := scanLoop_encodeAll good [] ((encodeRecord s.ts s.crc s.r).take c) []
    ((encodeAll good ++ (encodeRecord s.ts s.crc s.r).take c).length + 1) hg
    (fun pre post x hx => scanStepLegacy_enc pre post x.ts x.crc x.r (hg x hx))
    (by simp only [List.length_append]; omega)
  simp only [List.nil_append, List.length_nil, Nat.zero_add] at this
  rw [this]
  have hf : (encodeAll good ++ (encodeRecord s.ts s.crc s.r).take c).length + 1 - good.length
      = ((encodeAll good ++ (encodeRecord s.ts s.crc s.r).take c).length - good.length) + 1 := by
    simp only [List.length_append]; omega
  rw [hf, scanLoop_short stepOK_legacy _ _ _ _ (by simp only [List.length_append]; omega)]

/-- cut after the complete body (inside the zero padding, or at the record boundary): the record is
    complete as far as the reader is concerned and is delivered intact. -/
theorem scanLegacy_torn_pad (good : List Stamped) (s : Stamped) (c : Nat)
    (hg : ∀ x ∈ good, WF x.r) (hs : WF s.r) (hc : 18 + (bodyOf s.r).length ≤ c) :
    scanLegacy (encodeAll good ++ (encodeRecord s.ts s.crc s.r).take c)
      = ⟨.eof, (encodeAll good).length + encLen s.r, good.map (·.r) ++ [s.r]⟩ := by
  have hl := encodeAll_length_ge good hg
  have hb := encLen_bounds s.r hs
  -- shape of the torn tail: head ++ body ++ some zeros
  have htail : (encodeRecord s.ts s.crc s.r).take c =
      encodeHead s.r.flg (bodyOf s.r).length s.ts s.crc ++
        (bodyOf s.r ++ (zeros (encLen s.r - (18 + (bodyOf s.r).length))).take (c - 18 - (bodyOf s.r).length)) := by
    rw [encodeRecord_eq s.ts s.crc s.r hs, List.append_assoc, List.take_append,
      List.take_of_length_le (by simp; omega), List.take_append,
      List.take_of_length_le (by simp; omega)]
    simp
  have hlen : ((encodeRecord s.ts s.crc s.r).take c).length ≤ encLen s.r := by
    rw [List.length_take, encodeRecord_length _ _ _ hs]; omega
  have hlen1 : 1 ≤ ((encodeRecord s.ts s.crc s.r).take c).length := by
    rw [List.length_take, encodeRecord_length _ _ _ hs]; omega
  unfold scanLegacy
  have := scanLoop_encodeAll good [] ((encodeRecord s.ts s.crc s.r).take c) []
    ((encodeAll good ++ (encodeRecord s.ts s.crc s.r).take c).length + 1) hg
    (fun pre post x hx => scanStepLegacy_enc pre post x.ts x.crc x.r (hg x hx))
    (by simp only [List.length_append]; omega)
  simp only [List.nil_append, List.length_nil, Nat.zero_add] at this
  rw [this]
  have hf : (encodeAll good ++ (encodeRecord s.ts s.crc s.r).take c).length + 1 - good.length
      = ((encodeAll good ++ (encodeRecord s.ts s.crc s.r).take c).length - good.length) + 1 := by
    simp only [List.length_append]; omega
  rw [hf]
  have hstep : scanStepLegacy (encodeAll good ++ (encodeRecord s.ts s.crc s.r).take c) (encodeAll good).length
      = .deliver s.r (encLen s.r) := by
    rw [htail]
    exact scanStepLegacy_headbody _ _ s.ts s.crc s.r _ hs rfl
  rw [scanLoop_deliver _ _ _ _ _ _ hstep (by omega)]
  rw [scanLoop_at_end stepOK_legacy _ _ _ _ (by simp only [List.length_append]; omega)]

/-- **scanLegacy_torn_total_partial**: the property's clause "after a crash in the middle of an append the
    file opens again, with the records appended before and never a phantom record" — under the exact
    guard for which the code as written guarantees it: the cut lies inside the 18-byte head (or before
    it) or behind the last body byte. -/
theorem scanLegacy_torn_total_partial (good : List Stamped) (s : Stamped) (c : Nat)
    (hg : ∀ x ∈ good, WF x.r) (hs : WF s.r)
    (guard : c ≤ 18 ∨ 18 + (bodyOf s.r).length ≤ c) :
    (scanLegacy (encodeAll good ++ (encodeRecord s.ts s.crc s.r).take c)).stop = .eof ∧
      ((scanLegacy (encodeAll good ++ (encodeRecord s.ts s.crc s.r).take c)).recs = good.map (·.r) ∨
       (scanLegacy (encodeAll good ++ (encodeRecord s.ts s.crc s.r).take c)).recs = good.map (·.r) ++ [s.r]) := by
  rcases guard with h | h
  · rw [scanLegacy_torn_head good s c hg h]; exact ⟨rfl, Or.inl rfl⟩
  · rw [scanLegacy_torn_pad good s c hg hs h]; exact ⟨rfl, Or.inr rfl⟩

/-- **scanLegacy_torn_exact**: what the scan does for EVERY cut behind the head (`c > 18`): the reader hands
    `tornBody` (the bytes that reached the file, then zeros) to the rlp decoder; a decode error aborts
    the scanLegacy (=> `Start` panics); a successful decode is delivered as a record — whatever it says. -/
theorem scanLegacy_torn_exact (good : List Stamped) (s : Stamped) (c : Nat)
    (hg : ∀ x ∈ good, WF x.r) (hs : WF s.r) (hc : 18 < c) :
    scanLegacy (encodeAll good ++ (encodeRecord s.ts s.crc s.r).take c) =
      match decodeBody (tornBody s.r c) with
      | .eof => ⟨.eof, (encodeAll good).length, good.map (·.r)⟩
      | .err e => ⟨.err e, (encodeAll good).length, good.map (·.r)⟩
      | .ok k v => ⟨.eof, (encodeAll good).length + encLen s.r, good.map (·.r) ++ [⟨s.r.flg, k, v⟩]⟩ := by
  have hl := encodeAll_length_ge good hg
  have hb := encLen_bounds s.r hs
  obtain ⟨hflg, hbl⟩ := hs
  have htail : (encodeRecord s.ts s.crc s.r).take c =
      encodeHead s.r.flg (bodyOf s.r).length s.ts s.crc ++
        ((bodyOf s.r ++ zeros (encLen s.r - (18 + (bodyOf s.r).length))).take (c - 18)) := by
    rw [encodeRecord_eq s.ts s.crc s.r ⟨hflg, hbl⟩, List.append_assoc, List.take_append,
      List.take_of_length_le (by simp; omega)]
    simp
  have hlen : ((encodeRecord s.ts s.crc s.r).take c).length ≤ encLen s.r := by
    rw [List.length_take, encodeRecord_length _ _ _ ⟨hflg, hbl⟩]; omega
  have hlen1 : 1 ≤ ((encodeRecord s.ts s.crc s.r).take c).length := by
    rw [List.length_take, encodeRecord_length _ _ _ ⟨hflg, hbl⟩]; omega
  unfold scanLegacy
  have := scanLoop_encodeAll good [] ((encodeRecord s.ts s.crc s.r).take c) []
    ((encodeAll good ++ (encodeRecord s.ts s.crc s.r).take c).length + 1) hg
    (fun pre post x hx => scanStepLegacy_enc pre post x.ts x.crc x.r (hg x hx))
    (by simp only [List.length_append]; omega)
  simp only [List.nil_append, List.length_nil, Nat.zero_add] at this
  rw [this]
  have hf : (encodeAll good ++ (encodeRecord s.ts s.crc s.r).take c).length + 1 - good.length
      = ((encodeAll good ++ (encodeRecord s.ts s.crc s.r).take c).length - good.length) + 1 := by
    simp only [List.length_append]; omega
  rw [hf]
  have hstep : scanStepLegacy (encodeAll good ++ (encodeRecord s.ts s.crc s.r).take c) (encodeAll good).length =
      match decodeBody (tornBody s.r c) with
      | .eof => .eof
      | .err e => .err e
      | .ok k v => .deliver ⟨s.r.flg, k, v⟩ (encLen s.r) := by
    rw [htail, scanStepLegacy_head _ _ _ _ _ _ hflg (by omega), readAt_torn s.r _ c hc]
    have hu : GoSem.uadd 4294967296 18 (bodyOf s.r).length = 18 + (bodyOf s.r).length := by
      unfold GoSem.uadd; omega
    simp only [hu]
    cases decodeBody (tornBody s.r c) <;> rfl
  cases hd : decodeBody (tornBody s.r c) with
  | eof =>
    rw [hd] at hstep
    simp [scanLoop, hstep]
  | err e =>
    rw [hd] at hstep
    simp [scanLoop, hstep]
  | ok k v =>
    rw [hd] at hstep
    simp only
    rw [scanLoop_deliver _ _ _ _ _ _ hstep (by omega)]
    rw [scanLoop_at_end stepOK_legacy _ _ _ _ (by simp only [List.length_append]; omega)]

/-- **scanLegacy_torn_total_iff**: the EXACT guard of the full statement. For a record cut at byte `c`, the
    scan "ends with EOF and returns the old records, possibly plus the record in flight" if and only if
    the cut lies inside the head, or the zero-filled buffer happens to decode to the very record that
    was being written (cut behind the body, or only zero bytes were lost). -/
theorem scanLegacy_torn_total_iff (good : List Stamped) (s : Stamped) (c : Nat)
    (hg : ∀ x ∈ good, WF x.r) (hs : WF s.r) :
    ((scanLegacy (encodeAll good ++ (encodeRecord s.ts s.crc s.r).take c)).stop = .eof ∧
      ((scanLegacy (encodeAll good ++ (encodeRecord s.ts s.crc s.r).take c)).recs = good.map (·.r) ∨
       (scanLegacy (encodeAll good ++ (encodeRecord s.ts s.crc s.r).take c)).recs = good.map (·.r) ++ [s.r]))
    ↔ (c ≤ 18 ∨ decodeBody (tornBody s.r c) = .ok s.r.key s.r.val) := by
  by_cases hc : c ≤ 18
  · simp only [hc, true_or, iff_true]
    rw [scanLegacy_torn_head good s c hg hc]; exact ⟨rfl, Or.inl rfl⟩
  · have hc' : 18 < c := by omega
    simp only [hc, false_or]
    rw [scanLegacy_torn_exact good s c hg hs hc']
    cases hd : decodeBody (tornBody s.r c) with
    | eof =>
      exfalso
      have := tornBody_ne_nil s.r c hc'
      unfold decodeBody at hd
      rw [if_neg this] at hd
      revert hd
      repeat' split
      all_goals simp
    | err e => simp
    | ok k v =>
      simp only [true_and, Dec.ok.injEq]
      constructor
      · intro h
        rcases h with h | h
        · have := congrArg List.length h
          simp at this
        · have := List.append_cancel_left h
          simp only [List.cons.injEq, and_true] at this
          have h2 : s.r.key = k ∧ s.r.val = v := by
            have e := this
            cases hr : s.r with
            | mk f kk vv =>
              rw [hr] at e
              simp only [Record.mk.injEq] at e
              exact ⟨e.2.1.symm, e.2.2.symm⟩
          exact ⟨h2.1.symm, h2.2.symm⟩
      · intro ⟨h1, h2⟩
        right
        subst h1; subst h2
        rfl

/-! ### refutation of the full statement on the faithful model -/

/-- witness record: flag 4 (account), key 0x01, value AA BB CC; encoded = 18-byte head ++ C5 01 83 AA BB CC ++ zeros -/
def witness : Stamped := ⟨1600000000, crc16 (bodyOf ⟨4, [1], [0xAA, 0xBB, 0xCC]⟩), ⟨4, [1], [0xAA, 0xBB, 0xCC]⟩⟩

example : WF witness.r := by decide
set_option maxRecDepth 16384 in
/-- non-vacuity of the hypotheses of `scan_torn_total`: the witness is a sealed record and the real
    CRC-16 detects every zero-filled cut of it -/
example : Sealed witness ∧ CrcDetects witness.r := by decide

/-- the three witnesses of the refutations below, on the CURRENT reader: end of the log, nothing
    delivered, no error -/
theorem scan_torn_witness_now_ok :
    scan ((encodeRecord witness.ts witness.crc witness.r).take 22) = ⟨.eof, 0, []⟩ ∧
    scan ((encodeRecord witness.ts witness.crc witness.r).take 19) = ⟨.eof, 0, []⟩ := by decide

set_option maxRecDepth 16384 in
theorem scan_torn_witness_zero_tail_now_ok :
    scan ((encodeRecord witness.ts witness.crc witness.r).take 5 ++ zeros 251) = ⟨.eof, 0, []⟩ := by decide
example : (encodeRecord witness.ts witness.crc witness.r).length = 256 := by
  rw [encodeRecord_length _ _ _ (by decide)]; decide

/-- **refutation (phantom record)**: cut the witness at byte 22 (head complete, 4 of 6 body bytes): the
    scan ends with EOF — no error — and delivers a record with value `AA 00 00`, which was never
    written. -/
theorem scan_torn_total_refuted_phantom :
    scanLegacy ((encodeRecord witness.ts witness.crc witness.r).take 22)
      = ⟨.eof, 256, [⟨4, [1], [0xAA, 0, 0]⟩]⟩ := by decide

/-- **refutation (scan error)**: cut the witness at byte 19 (head + the rlp list header): the zero-filled
    body does not decode ("input list has too many elements"), `scanFile` returns the error and
    `FileQueue.Start` panics — the database does not open without manual repair. -/
theorem scan_torn_total_refuted_error :
    scanLegacy ((encodeRecord witness.ts witness.crc witness.r).take 19) = ⟨.err "TooMany", 0, []⟩ := by decide

/-- the full statement `scan_torn_total` is refuted: there are a well-formed record and a cut for which
    the scan neither stops with "EOF + the old records" nor with "EOF + the old records + the new one". -/
theorem scan_torn_total_refuted :
    ¬ (∀ (good : List Stamped) (s : Stamped) (c : Nat), (∀ x ∈ good, WF x.r) → WF s.r →
        (scanLegacy (encodeAll good ++ (encodeRecord s.ts s.crc s.r).take c)).stop = .eof ∧
        ((scanLegacy (encodeAll good ++ (encodeRecord s.ts s.crc s.r).take c)).recs = good.map (·.r) ∨
         (scanLegacy (encodeAll good ++ (encodeRecord s.ts s.crc s.r).take c)).recs = good.map (·.r) ++ [s.r])) := by
  intro h
  have := h [] witness 22 (by simp) (by decide)
  simp only [encodeAll, List.nil_append] at this
  rw [scan_torn_total_refuted_phantom] at this
  revert this
  decide

set_option maxRecDepth 16384 in
/-- … and a zero-filled tail (file size extended, data blocks not yet written) is no better: a head cut
    after its 5th byte followed by zeros makes the scan fail (`expected input list`). -/
theorem scan_torn_zero_tail_refuted :
    scanLegacy ((encodeRecord witness.ts witness.crc witness.r).take 5 ++ zeros 251) = ⟨.err "ExpectedList", 0, []⟩ := by
  decide

/-! ### redelivery -/

/-- **redeliver_idempotent**: start-up redelivers every record of tmp.data. If the store already holds
    the effect of any records `done` whose keys all occur in the file (e.g. any prefix that the async
    writer had stored before the crash, or the whole file), the result equals a single delivery. -/
theorem redeliver_idempotent (s : Store) (wal done : List Record)
    (h : ∀ r ∈ done, ∃ r' ∈ wal, keyOf r' = keyOf r) :
    (s.replay done).replay wal = s.replay wal := by
  apply replay_congr
  intro k
  rcases replay_untouched s done k with h1 | ⟨r, hr, hk⟩
  · exact Or.inl h1
  · obtain ⟨r', hr', hk'⟩ := h r hr
    exact Or.inr ⟨r', hr', hk'.trans hk⟩

theorem redeliver_prefix (s : Store) (wal : List Record) (a : Nat) :
    (s.replay (wal.take a)).replay wal = s.replay wal :=
  redeliver_idempotent s wal (wal.take a) (fun r hr => ⟨r, List.mem_of_mem_take hr, rfl⟩)

theorem redeliver_twice (s : Store) (wal : List Record) : (s.replay wal).replay wal = s.replay wal :=
  redeliver_idempotent s wal wal (fun r hr => ⟨r, hr, rfl⟩)

/-! ## protocol level -/

/-- a quiescent disk: everything in tmp.data has already been stored (needed for ONE crash point only:
    `emptyFile` deleting tmp.data, which the code does only when nothing is pending) -/
def Quiescent (d : Disk) : Prop := d.kv.replay d.wal = d.kv

/-- the crash points outside the two defect windows: nothing of the batch is durable yet, or the stable pointer
    has been moved AND (the block changes no candidate, or Context.Flush has completed) -/
def safePoint (d : Disk) (p : Promotion) : CrashPoint → Prop
  | .before => True
  | .walReset => Quiescent d
  | .appending j => j = 0
  | .committed _ moved flushed => moved = true ∧ (flushed = true ∨ p.changesCands = false)

/-- **stable_after_crash_partial**: for every promotion on ANY disk (quiescent or with a lagging writer — the
    second block of a multi-block SetStableBlock included) and every crash point outside the two windows
      (1) first record of the batch durable … SetCurrentBlock executed,
      (2) SetCurrentBlock executed … Context.Flush completed (when the block changes a candidate),
    start-up recovery yields exactly the recovered view of the state before the promotion or of the completed
    promotion: key/value contents, stable pointer and candidate list agree. -/
theorem stable_after_crash_partial (d : Disk) (p : Promotion) (cp : CrashPoint) (hsafe : safePoint d p cp) :
    (recover (crashState d p cp)).sameView (recover d) ∨
    (recover (crashState d p cp)).sameView (recover (completed d p)) := by
  cases cp with
  | before => left; exact ⟨rfl, rfl, rfl⟩
  | walReset =>
    left
    have hq : d.kv.replay d.wal = d.kv := hsafe
    refine ⟨?_, rfl, rfl⟩
    show (d.kv.replay ([] : List Record)) = d.kv.replay d.wal
    rw [hq]; rfl
  | appending j =>
    left
    have : j = 0 := hsafe
    subst this
    exact ⟨by simp [recover, crashState], rfl, rfl⟩
  | committed a moved flushed =>
    right
    obtain ⟨hm, hfl⟩ := hsafe
    subst hm
    refine ⟨?_, by simp [recover, crashState, completed], ?_⟩
    · simp only [recover, crashState, completed]
      rw [redeliver_prefix, redeliver_twice]
    · rcases hfl with h | h <;> simp [recover, crashState, completed, h]

/-! ### byte level and record level together (reader before the fix) -/

/-- **recoverBytesLegacy_torn_partial**: a crash during the append, cut inside a head or behind a body: start-up
    succeeds and the store is exactly the record-level crash state `appending j` replayed — the
    byte level refines the record level under the guard. -/
theorem recoverBytesLegacy_torn_partial (kv : Store) (good : List Stamped) (s : Stamped) (c : Nat)
    (hg : ∀ x ∈ good, WF x.r) (hs : WF s.r) (guard : c ≤ 18 ∨ 18 + (bodyOf s.r).length ≤ c) :
    recoverBytesLegacy kv (encodeAll good ++ (encodeRecord s.ts s.crc s.r).take c)
      = some (kv.replay (good.map (·.r) ++ (if c ≤ 18 then [] else [s.r]))) := by
  unfold recoverBytesLegacy recoverWith
  rcases guard with h | h
  · rw [scanLegacy_torn_head good s c hg h]; simp [h]
  · have hb := bodyOf_ne_nil s.r
    have : ¬ c ≤ 18 := by
      intro h18
      have : (bodyOf s.r).length = 0 := by omega
      exact hb (List.eq_nil_of_length_eq_zero this)
    rw [scanLegacy_torn_pad good s c hg hs h]; simp [this]

/-- **refutation**: the store durably holds key 01 = AA BB CC; a rewrite of the same value is cut at
    byte 22; after start-up the key reads AA 00 00 — the intact copy has been overwritten. -/
theorem recoverBytes_torn_refuted_overwrite :
    (recoverBytesLegacy (Store.empty.apply witness.r) ((encodeRecord witness.ts witness.crc witness.r).take 22)).map
      (fun st => st (4, [1])) = some (some [0xAA, 0, 0]) := by
  unfold recoverBytesLegacy recoverWith
  rw [scan_torn_total_refuted_phantom]
  decide

/-- **refutation**: cut at byte 19: start-up does not complete at all. -/
theorem recoverBytes_torn_refuted_panic :
    recoverBytesLegacy (Store.empty.apply witness.r) ((encodeRecord witness.ts witness.crc witness.r).take 19) = none := by
  unfold recoverBytesLegacy recoverWith
  rw [scan_torn_total_refuted_error]

/-! ## restart on an ARBITRARY file, then more writes (the tail shape is not restricted) -/

/-- writing at the end of a file whose length is the write position is a plain append -/
theorem writeAt_at_end (f b : Bytes) : writeAt f f.length b = f ++ b := by
  unfold writeAt truncateTo
  rw [List.take_of_length_le (Nat.le_refl _), Nat.sub_self, List.drop_eq_nil_of_le (by omega)]
  simp [zeros]

/-- **restart_then_puts** — for ANY file `f` (< 4 GiB; whatever bytes it holds: torn tail, remnants, garbage)
    on which the start-up scan does not fail: after `checkFile` the file length IS the write position, and
    whatever sealed records are written afterwards, the next scan ends with EOF and delivers exactly the
    records of the first scan followed by exactly the new records — never a record that was not written. -/
theorem restart_then_puts (f : Bytes) (hf : f.length + 274 ≤ 4294967296) (ss : List Stamped)
    (hss : ∀ s ∈ ss, Sealed s) (f' : Bytes) (off : Nat) (recs : List Record)
    (h : checkFile f = some (f', off, recs)) :
    f'.length = off ∧
    scan (f' ++ encodeAll ss) = ⟨.eof, off + (encodeAll ss).length, recs ++ ss.map (·.r)⟩ := by
  unfold checkFile at h
  by_cases he : (scan f).stop = .eof
  · rw [if_pos he] at h
    injection h with h
    injection h with h1 h2
    injection h2 with h2 h3
    have hscan : scan f = ⟨.eof, off, recs⟩ := by
      cases hs : scan f with
      | mk st o rs =>
        rw [hs] at he h2 h3
        simp only at he h2 h3
        rw [he, h2, h3]
    rw [h2] at h1
    subst h1
    exact ⟨by simp, scan_truncated f hf ss hss off recs hscan⟩
  · rw [if_neg he] at h; contradiction

/-- **restart_idempotent** ("crashes during recovery itself"): restarting again right after a restart —
    before, or without, any further write — is a fixed point: same file, same write position, same records. -/
theorem restart_idempotent (f : Bytes) (hf : f.length + 274 ≤ 4294967296) (f' : Bytes) (off : Nat)
    (recs : List Record) (h : checkFile f = some (f', off, recs)) :
    checkFile f' = some (f', off, recs) := by
  obtain ⟨hl, hs⟩ := restart_then_puts f hf [] (by simp) f' off recs h
  simp only [encodeAll, List.append_nil, List.length_nil, Nat.add_zero, List.map_nil] at hs
  unfold checkFile
  rw [hs]
  simp only [if_true]
  unfold truncateTo
  rw [hl, List.take_of_length_le (by omega), Nat.sub_self]
  simp [zeros]

/-- **torn_restart_put_restart**: the whole overwrite-remnant scenario for a torn tail of ANY shape: old records,
    any prefix of the record in flight, any zero tail; restart; any further sealed writes (appended at the write
    position by `writeAt`); restart: exactly the old records (plus the record in flight iff the first restart
    delivered it), then exactly the new ones. -/
theorem torn_restart_put_restart (good : List Stamped) (s : Stamped) (c z : Nat) (ss : List Stamped)
    (hg : ∀ x ∈ good, Sealed x) (hs : Sealed s) (hd : 0 < z → CrcDetects s.r) (hss : ∀ x ∈ ss, Sealed x)
    (hf : (encodeAll good ++ ((encodeRecord s.ts s.crc s.r).take c ++ zeros z)).length + 274 ≤ 4294967296) :
    ∃ f' off recs,
      checkFile (encodeAll good ++ ((encodeRecord s.ts s.crc s.r).take c ++ zeros z)) = some (f', off, recs) ∧
      (recs = good.map (·.r) ∨ recs = good.map (·.r) ++ [s.r]) ∧
      (scan (writeAt f' off (encodeAll ss))).stop = .eof ∧
      (scan (writeAt f' off (encodeAll ss))).recs = recs ++ ss.map (·.r) := by
  obtain ⟨h1, h2⟩ := scan_torn_total good s c z hg hs hd
  have hck : checkFile (encodeAll good ++ ((encodeRecord s.ts s.crc s.r).take c ++ zeros z)) =
      some (truncateTo (encodeAll good ++ ((encodeRecord s.ts s.crc s.r).take c ++ zeros z))
              (scan (encodeAll good ++ ((encodeRecord s.ts s.crc s.r).take c ++ zeros z))).off,
            (scan (encodeAll good ++ ((encodeRecord s.ts s.crc s.r).take c ++ zeros z))).off,
            (scan (encodeAll good ++ ((encodeRecord s.ts s.crc s.r).take c ++ zeros z))).recs) := by
    unfold checkFile; rw [if_pos h1]
  refine ⟨_, _, _, hck, h2, ?_⟩
  obtain ⟨hl, hsc⟩ := restart_then_puts _ hf ss hss _ _ _ hck
  have := writeAt_at_end (truncateTo (encodeAll good ++ ((encodeRecord s.ts s.crc s.r).take c ++ zeros z))
              (scan (encodeAll good ++ ((encodeRecord s.ts s.crc s.r).take c ++ zeros z))).off) (encodeAll ss)
  rw [hl] at this
  rw [this, hsc]
  exact ⟨rfl, rfl⟩

/-! ### the rewind: `emptyFile` on an idle queue -/

theorem encodeAll_append (a b : List Stamped) : encodeAll (a ++ b) = encodeAll a ++ encodeAll b := by
  induction a with
  | nil => rfl
  | cons x a ih => simp [encodeAll, ih]

/-- **rewind_then_puts**: whatever tmp.data held (`f`, any bytes, any write position), a Put/PutBatch that finds
    the queue idle empties the file; after it and any number of further (non-idle) writes a scan delivers EXACTLY
    the records written since the rewind — nothing of the old content can be seen again. -/
theorem rewind_then_puts (f : Bytes) (off : Nat) (ss1 ss2 : List Stamped)
    (h1 : ∀ s ∈ ss1, Sealed s) (h2 : ∀ s ∈ ss2, Sealed s) :
    let p1 := putBytes emptyFileBytes true f off (encodeAll ss1)
    let p2 := putBytes emptyFileBytes false p1.1 p1.2 (encodeAll ss2)
    p2.2 = p2.1.length ∧
    scan p2.1 = ⟨.eof, p2.1.length, (ss1 ++ ss2).map (·.r)⟩ := by
  have e1 : putBytes emptyFileBytes true f off (encodeAll ss1) = (encodeAll ss1, (encodeAll ss1).length) := by
    simp [putBytes, emptyFileBytes, writeAt, truncateTo, zeros]
  have e2 : putBytes emptyFileBytes false (encodeAll ss1) (encodeAll ss1).length (encodeAll ss2)
      = (encodeAll (ss1 ++ ss2), (encodeAll (ss1 ++ ss2)).length) := by
    simp only [putBytes, emptyFileBytes, Bool.false_eq_true, if_false, writeAt_at_end, encodeAll_append,
      List.length_append]
  simp only [e1, e2]
  refine ⟨trivial, ?_⟩
  exact scan_encode (ss1 ++ ss2) (fun s hs => by
    rcases List.mem_append.1 hs with h | h
    · exact h1 s h
    · exact h2 s h)

/-- two records written and acknowledged: key 31 = 0A, key 32 = 0B -/
def oldA : Record := ⟨4, [0x31], [0x0A]⟩
def oldB : Record := ⟨4, [0x32], [0x0B]⟩
/-- the newer version of key 32 -/
def newB : Record := ⟨4, [0x32], [0xBB]⟩

set_option maxRecDepth 100000 in
/-- **rewind_without_truncate_refuted** (variant seed-C08c: `emptyFile` rewinds the write position on an idle queue
    but keeps the file): tmp.data holds A, B(old); the queue is idle; B(new) is written at offset 0 over A; a restart
    delivers [B(new), B(old)] — the stale record comes AFTER the newer version and wins: key 32 reads 0B again. -/
theorem rewind_without_truncate_refuted :
    (scan (putBytes emptyFileRewindOnly true (fileUtilsEncode 0 oldA ++ fileUtilsEncode 0 oldB) 512
            (fileUtilsEncode 0 newB)).1).recs = [newB, oldB] ∧
    (Store.empty.replay (scan (putBytes emptyFileRewindOnly true (fileUtilsEncode 0 oldA ++ fileUtilsEncode 0 oldB) 512
            (fileUtilsEncode 0 newB)).1).recs) (4, [0x32]) = some [0x0B] ∧
    (scan (putBytes emptyFileBytes true (fileUtilsEncode 0 oldA ++ fileUtilsEncode 0 oldB) 512
            (fileUtilsEncode 0 newB)).1).recs = [newB] := by decide

/-! ### code before fix 3252737: the torn tail is left in the file -/

/-- an encoded record hidden in a value: head ++ body of (flag 4, key 66, value 99) -/
def phantomRec : Record := ⟨4, [0x66], [0x99]⟩
def embeddedBytes : Bytes := (fileUtilsEncode 0 phantomRec).take 22
/-- the "block" in flight: its value carries `embeddedBytes` at record offset 256 -/
def outerRec : Record := ⟨1, [0xB1], List.replicate 230 7 ++ embeddedBytes ++ List.replicate 40 7⟩
def goodRec : Record := ⟨4, [0x10], [1, 2, 3]⟩
def shortRec : Record := ⟨4, [0x20], [5]⟩
/-- tmp.data after the crash: one acknowledged record and the first 300 bytes of the block record -/
def tornFile : Bytes := fileUtilsEncode 0 goodRec ++ (fileUtilsEncode 0 outerRec).take 300

set_option maxRecDepth 100000 in
/-- **refutation, code before fix 3252737** (`checkFileLegacy` leaves the torn tail in place): restart delivers
    the acknowledged record and sets the write position to 256; a 256-byte record is written there WITHOUT
    truncating; the next restart delivers a third record, (4, 66, 99), that was never written. -/
theorem restart_put_legacy_phantom :
    checkFileLegacy tornFile = some (tornFile, 256, [goodRec]) ∧
    (scan (writeAt tornFile 256 (fileUtilsEncode 0 shortRec))).recs = [goodRec, shortRec, phantomRec] := by
  decide

set_option maxRecDepth 100000 in
/-- the same scenario on the current code: the torn tail is cut off, nothing but the two written records -/
theorem restart_put_now_ok :
    (checkFile tornFile).map (fun x => (x.1.length, x.2.1, x.2.2)) = some (256, 256, [goodRec]) ∧
    (scan (writeAt (truncateTo tornFile 256) 256 (fileUtilsEncode 0 shortRec))).recs = [goodRec, shortRec] := by
  decide

/-! ## the pending index of the queue: tmp.data is removed only when nothing is pending -/

/-- the flags of an operation's records are the ones their keys are always written with -/
def OpFlagged (fl : Bytes → Nat) : QOp → Prop
  | .put r => r.flg = fl r.key
  | .batch rs => ∀ r ∈ rs, r.flg = fl r.key
  | .done => True

/-- **queue_refcnt_invariant**: for EVERY sequence of Put / PutBatch / Done operations of the code under
    test the run never panics and the invariant holds: `refCnt k` = number of pending records of `k`
    (no entry = 0), and tmp.data = (records already persisted since the last reset) ++ pending. -/
theorem queue_refcnt_invariant (fl : Bytes → Nat) (ops : List QOp) (s : QState) (h : QInv fl s)
    (hops : ∀ op ∈ ops, OpFlagged fl op) :
    (qRun false s ops).2 = false ∧ QInv fl (qRun false s ops).1 := by
  induction ops generalizing s with
  | nil => exact ⟨rfl, h⟩
  | cons op ops ih =>
    have hop : OpFlagged fl op := hops op (by simp)
    obtain ⟨h1, h2⟩ := qInv_step fl s op h (by cases op <;> exact hop)
    unfold qRun
    cases hs : qStep false s op with
    | mk s' p =>
      rw [hs] at h1 h2
      simp only at h1 h2
      subst h1
      simp only
      exact ih s' h2 (fun op' h' => hops op' (by simp [h']))

/-- **queue_wal_removed_only_when_idle**: whenever `emptyFile` finds the index empty (and deletes
    tmp.data), no record is pending. -/
theorem queue_wal_removed_only_when_idle (fl : Bytes → Nat) (ops : List QOp)
    (hops : ∀ op ∈ ops, OpFlagged fl op) :
    (qRun false QState.init ops).1.index = [] → (qRun false QState.init ops).1.pending = [] :=
  qInv_index_empty fl _ (queue_refcnt_invariant fl ops _ (qInv_init fl) hops).2

/-- what a restart serves = what the acknowledged writes promise, in every state satisfying the invariant -/
theorem recovered_eq_promised (fl : Bytes → Nat) (s : QState) (h : QInv fl s) : s.recovered = s.promised := by
  obtain ⟨d0, a, hd, hw⟩ := h.wal
  unfold QState.recovered QState.promised
  rw [hw, hd, replay_append, replay_append, replay_append, replay_append]
  rw [redeliver_twice]

/-- **queue_no_acked_record_lost**: for every operation sequence and a crash at ANY point of it (every
    prefix of the sequence), recovery — bitcask content plus redelivery of tmp.data — yields exactly the
    store that the acknowledged Put/PutBatch calls promise: no acknowledged record is lost. -/
theorem queue_no_acked_record_lost (fl : Bytes → Nat) (ops : List QOp) (n : Nat)
    (hops : ∀ op ∈ ops, OpFlagged fl op) :
    (qRun false QState.init (ops.take n)).2 = false ∧
    (qRun false QState.init (ops.take n)).1.recovered = (qRun false QState.init (ops.take n)).1.promised := by
  have := queue_refcnt_invariant fl (ops.take n) _ (qInv_init fl)
    (fun op h => hops op (List.mem_of_mem_take h))
  exact ⟨this.1, recovered_eq_promised fl _ this.2⟩

/-- the seeded variant (`setIndex` updates a pending entry in place and drops the increment): account X is
    written twice while the first write is queued, the writer persists the first, another key is put
    (emptyFile finds the index empty and deletes tmp.data), crash. -/
def seededOps : List QOp :=
  [.put ⟨4, [0xA1], [100]⟩, .put ⟨4, [0xA1], [200]⟩, .done, .put ⟨4, [0xB2], [1]⟩]

/-- **queue_seeded_refuted**: in the variant without the increment the index is empty while a record is
    pending, tmp.data is wiped, and a crash serves X = 100 although X = 200 was acknowledged. -/
theorem queue_seeded_refuted :
    (qRun true QState.init (seededOps.take 3)).1.index = [] ∧
    (qRun true QState.init (seededOps.take 3)).1.pending ≠ [] ∧
    (qRun true QState.init seededOps).1.recovered (4, [0xA1]) = some [100] ∧
    (qRun true QState.init seededOps).1.promised (4, [0xA1]) = some [200] := by decide

/-- the same operations on the code under test: nothing is lost -/
example : (qRun false QState.init seededOps).1.recovered (4, [0xA1]) = some [200] := by decide

/-! ## context.data: atomic replacement -/

/-- **context_replace_atomic**: for every crash point of the write-temp-then-rename protocol the content
    read back on restart is exactly the old content or exactly the new content — whatever state the
    temp file was left in (`ctxLoad` does not depend on it). -/
theorem context_replace_atomic (fs : CtxFs) (new : Bytes) (cp : CtxCrashPoint) :
    ctxLoad (ctxCrash fs new cp) = ctxLoad fs ∨ ctxLoad (ctxCrash fs new cp) = some new := by
  cases cp with
  | before => exact Or.inl rfl
  | tmpWritten k => exact Or.inl rfl
  | renamed => exact Or.inr rfl

/-- a stale temp file is never read: two states that differ only in the temp file load identically,
    and the next flush does not depend on it either -/
theorem context_tmp_never_read (m : Option Bytes) (t t' : Option Bytes) (new : Bytes) (cp : CtxCrashPoint) :
    ctxLoad ⟨m, t⟩ = ctxLoad ⟨m, t'⟩ ∧
    ctxLoad (ctxCrash ⟨m, t⟩ new cp) = ctxLoad (ctxCrash ⟨m, t'⟩ new cp) := by
  cases cp <;> exact ⟨rfl, rfl⟩

/-- first start: `context.data` absent. No crash point makes an empty (or partial) file visible under
    the final name: it is absent, or complete. -/
theorem context_first_start_atomic (t : Option Bytes) (new : Bytes) (cp : CtxCrashPoint) :
    ctxLoad (ctxCrash ⟨none, t⟩ new cp) = none ∨ ctxLoad (ctxCrash ⟨none, t⟩ new cp) = some new := by
  cases cp with
  | before => exact Or.inl rfl
  | tmpWritten k => exact Or.inl rfl
  | renamed => exact Or.inr rfl

/-- **refutation, code before fix 298fcc8** (rewrite in place): old file `01 02 03 04`, new content
    `09 09 09 09 09 09`, crash after 2 bytes: the restart reads `09 09 03 04` — neither the old nor the new
    content. -/
theorem context_inplace_refuted :
    ¬ (∀ (fs : CtxFs) (new : Bytes) (cp : CtxCrashPointLegacy),
        ctxLoad (ctxCrashLegacy fs new cp) = ctxLoad fs ∨ ctxLoad (ctxCrashLegacy fs new cp) = some new) := by
  intro h
  have := h ⟨some [1, 2, 3, 4], none⟩ [9, 9, 9, 9, 9, 9] (.overwritten 2)
  revert this
  decide

/-- **refutation, code before fix 298fcc8** (first start): the empty file created before the first flush
    is visible to the restart — it is neither "absent" nor the flushed content. -/
theorem context_created_empty_refuted :
    ctxLoad (ctxCrashLegacy ⟨none, none⟩ [0, 0, 0, 8] .created) = some [] := rfl

/-- a two-record promotion: block 1 and one account whose balance changes from 10 to 20 -/
def wDisk : Disk :=
  { wal := [], kv := Store.empty.apply ⟨4, [7], [10]⟩, stable := 0, cands := 0 }
def wProm : Promotion := { height := 1, batch := [⟨1, [0xB1], [1]⟩, ⟨4, [7], [20]⟩], changesCands := true }

/-- **stable_after_crash_refuted** (window 1): crash after the fsync of the batch and before `SetCurrentBlock`
    (`committed 0 false false`): recovery redelivers the whole batch, account 7 reads 20 (block 1's value) while
    the stable pointer still says block 0 — neither the old nor the new view. -/
theorem stable_after_crash_refuted :
    ¬ (∀ (d : Disk) (p : Promotion) (cp : CrashPoint), Quiescent d →
        (recover (crashState d p cp)).sameView (recover d) ∨
        (recover (crashState d p cp)).sameView (recover (completed d p))) := by
  intro h
  rcases h wDisk wProm (.committed 0 false false) rfl with ⟨hkv, _⟩ | ⟨_, hst, _⟩
  · have := congrFun hkv (4, [7])
    revert this
    simp [recover, crashState, wDisk, wProm, Store.replay, Store.apply]
  · revert hst
    simp [recover, crashState, completed, wDisk, wProm]

/-- **pointer_moved_context_not_flushed_refuted** (window 2, open finding
    c08/candidates-mismatch/pointer-moved-context-not-flushed): crash after `SetCurrentBlock` and before
    `Context.Flush` has completed: key/value contents and pointer are those of block 1, the candidate list is still
    the one of block 0; nothing redoes the flush on recovery. -/
theorem pointer_moved_context_not_flushed_refuted :
    (recover (crashState wDisk wProm (.committed 2 true false))).stable = 1 ∧
    (recover (crashState wDisk wProm (.committed 2 true false))).cands = 0 ∧
    (recover (completed wDisk wProm)).cands = 1 := by decide

/-- the same for a batch torn between two records (`appending 1` … ) when the first record is an account:
    any nonempty durable prefix already changes what the old stable block "sees". -/
theorem torn_batch_refuted :
    ¬ ((recover (crashState wDisk ⟨1, [⟨4, [7], [20]⟩, ⟨1, [0xB1], [1]⟩], false⟩ (.appending 1))).sameView
        (recover wDisk)) := by
  intro ⟨hkv, _⟩
  have := congrFun hkv (4, [7])
  revert this
  simp [recover, crashState, wDisk, Store.replay, Store.apply]

/-- **recover_idempotent**: record level — the async writer has re-stored any prefix of the redelivered
    records when the process dies again; another recovery gives the same result as one recovery. (The byte level
    of "crash during recovery" is `restart_idempotent` / `restart_then_puts`; a crash INSIDE one BitCask.Put —
    file written, LevelDB position not yet — and torn LevelDB writes are not modelled.) -/
theorem recover_idempotent (d : Disk) (a : Nat) :
    recover { d with kv := d.kv.replay (d.wal.take a) } = recover d := by
  simp [recover, redeliver_prefix]

/-- non-vacuity: a quiescent disk and a safe crash point exist -/
example : Quiescent wDisk ∧ safePoint wDisk wProm (.committed 1 true true) := ⟨rfl, rfl, Or.inl rfl⟩

end LemoProofs.C08

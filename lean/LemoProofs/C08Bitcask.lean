/-
  C08 — a crash INSIDE one BitCask.Put (file written, LevelDB position / cursor not yet), and during the redelivery
  that follows it. Model: `LemoModel.Bitcask` (queue `LemoModel.Wal.qStep` + one bitcask = data file bytes, position
  index, persisted cursor; `BitCask.Put` as three durable steps with a crash point after each; restart = in-memory
  cursor := persisted cursor, redelivery of tmp.data in FIFO order). Tied to store/bitcask.go + store/file_util.go by
  the `hx c08` family bitcask-put-crash (harness/hx/c08_putcrash.go: REAL crash images at the step boundaries).

    bitcask_put_crash_invariant   the invariant `SInv` holds after EVERY sequence of Put / PutBatch / durable writer
                                  steps / crash-restarts (any number, at any point, the redelivery included)        (full)
    bitcask_put_crash_safe        once nothing is pending: every key reads back its LAST acknowledged value through
                                  position index -> offset -> FileUtilsRead; cursor = file length = end of an indexed
                                  record; every indexed record lies below the cursor                               (full)
    bitcask_idle_keys_readable    before that: every key that is not waiting for (re)delivery already reads right  (full)
    bitcask_redelivery_completes  three writer steps per pending record reach that state (progress)                 (full)
    bitcask_append_refuted        VARIANT seed-C08g (FileUtilsFlush with O_APPEND, `flush true`): put a; crash after
                                  step 1 of put b; restart; b redelivered; put c; c is NOT FOUND, cursor ≠ file length
                                                                                                       (refutation, variant)
    bitcask_append_witness_now_ok the same operations on the code under test

  Hypotheses of the full theorems: every key is always written with one flag and every record fits the uint32 head
  fields (`OpOK`, as for the queue theorems); `rolled = false`: the data file stays below maxFileSize = 2 GiB —
  `checkSize` switching to the next NNN.data is NOT modelled. The argument the code relies on is made explicit:
  a write happens only AT the cursor (pwrite: overwrite / extend), every live record ends at or below the cursor,
  so redelivery can only overwrite torn attempts; and whatever lies behind the cursor is covered again before the
  queue drains (`SInv.lenbound`).
-/
import LemoModel.Bitcask
import LemoProofs.C08
namespace LemoProofs.C08Bitcask
open LemoModel LemoModel.Wal LemoModel.Bitcask LemoGen.Store LemoProofs.WalLemmas LemoProofs.C08

/-! ## bytes: slices and `writeAt` -/

/-- the `n` bytes of `f` at offset `off` -/
def slice (f : Bytes) (off n : Nat) : Bytes := (f.drop off).take n

theorem writeAt_inside (f b : Bytes) (c : Nat) (hc : c ≤ f.length) :
    writeAt f c b = f.take c ++ b ++ f.drop (c + b.length) := by
  unfold writeAt truncateTo
  have : c - f.length = 0 := by omega
  rw [this]; simp [zeros]

theorem writeAt_length (f b : Bytes) (c : Nat) (hc : c ≤ f.length) :
    (writeAt f c b).length = max f.length (c + b.length) := by
  rw [writeAt_inside f b c hc]
  simp only [List.length_append, List.length_take, List.length_drop]
  omega

theorem slice_writeAt_below (f b : Bytes) (c off n : Nat) (hc : c ≤ f.length) (h : off + n ≤ c) :
    slice (writeAt f c b) off n = slice f off n := by
  rw [writeAt_inside f b c hc]
  unfold slice
  apply List.ext_getElem?
  intro i
  simp only [List.getElem?_take, List.getElem?_drop, List.append_assoc]
  by_cases hi : i < n
  · simp only [hi, if_true]
    rw [List.getElem?_append_left (by simp; omega)]
    simp only [List.getElem?_take]
    have : off + i < c := by omega
    simp [this]
  · simp [hi]

theorem slice_writeAt_self (f b : Bytes) (c : Nat) (hc : c ≤ f.length) :
    slice (writeAt f c b) c b.length = b := by
  rw [writeAt_inside f b c hc]
  unfold slice
  have h1 : (f.take c).length = c := by simp; omega
  rw [List.append_assoc, List.drop_left' h1, List.take_left' rfl]

theorem slice_bound (f x : Bytes) (off n : Nat) (h : slice f off n = x) (hx : x.length = n) (hn : 0 < n) :
    off + n ≤ f.length := by
  unfold slice at h
  have := congrArg List.length h
  simp only [List.length_take, List.length_drop] at this
  omega

theorem slice_decompose (f x : Bytes) (off n : Nat) (h : slice f off n = x) (hx : x.length = n) (hn : 0 < n) :
    f = f.take off ++ (x ++ f.drop (off + n)) ∧ (f.take off).length = off := by
  have hlen := slice_bound f x off n h hx hn
  unfold slice at h
  refine ⟨?_, by simp; omega⟩
  have h2 : f.drop off = (f.drop off).take n ++ (f.drop off).drop n := (List.take_append_drop n _).symm
  rw [h, List.drop_drop] at h2
  conv => lhs; rw [← List.take_append_drop off f, h2]


/-! ## one record in the data file -/

theorem enc_length (ts : Nat) (r : Record) (h : WF r) : (fileUtilsEncode ts r).length = encLen r :=
  encodeRecord_length ts _ r h

theorem encLen_pos (r : Record) (h : WF r) : 0 < encLen r := by
  have := (encLen_bounds r h).2.2; omega

theorem encLen_mod (r : Record) : encLen r % 256 = 0 := align_mod _

/-- total encoded length of a list of records -/
def sumLen : List Record → Nat
  | [] => 0
  | r :: rs => encLen r + sumLen rs

theorem sumLen_append (a b : List Record) : sumLen (a ++ b) = sumLen a + sumLen b := by
  induction a with
  | nil => simp [sumLen]
  | cons r a ih => simp [sumLen, ih]; omega

/-- `BitCask.Get` of a key whose position points at a complete encoding of its record returns the value -/
theorem get_of_slice (b : BC) (r : Record) (ts off : Nat) (hwf : WF r) (hp : b.pos (r.flg, r.key) = some off)
    (ha : off % 256 = 0) (hs : slice b.file off (encLen r) = fileUtilsEncode ts r) :
    bcGet b r.flg r.key = .ok r.val := by
  obtain ⟨hd, hl⟩ := slice_decompose b.file _ off (encLen r) hs (enc_length ts r hwf) (encLen_pos r hwf)
  have hstep := scanStep_enc (b.file.take off) (b.file.drop (off + encLen r)) ⟨ts, crc16 (bodyOf r), r⟩ ⟨hwf, rfl⟩
  rw [hl] at hstep
  have he : encodeRecord ts (crc16 (bodyOf r)) r = fileUtilsEncode ts r := rfl
  simp only [he] at hstep
  rw [← hd] at hstep
  have hoff : off / 256 * 256 = off := by omega
  unfold bcGet
  rw [hp]
  simp only [ha, ne_eq, not_true_eq_false, if_false, hoff, hstep]

/-! ## the invariant -/

/-- what the position index says about key `k`, given the history `done` of completed bitcask puts and the cursor:
    no entry and never written, or an entry pointing at a complete encoding of (k, last value) that lies entirely
    below the cursor -/
def Good (bc : BC) (done : List Record) (cursor : Nat) (k : StoreKey) : Prop :=
  (bc.pos k = none ∧ Store.empty.replay done k = none) ∨
  (∃ off v ts, bc.pos k = some off ∧ Store.empty.replay done k = some v ∧ WF ⟨k.1, k.2, v⟩ ∧ off % 256 = 0 ∧
    off + encLen ⟨k.1, k.2, v⟩ ≤ cursor ∧ slice bc.file off (encLen ⟨k.1, k.2, v⟩) = fileUtilsEncode ts ⟨k.1, k.2, v⟩)

/-- the cursor is the end of an indexed record (or nothing was ever stored, or the entry at the cursor belongs to a
    record that is still to be delivered) -/
def Tail (bc : BC) (pending : List Record) (cursor : Nat) : Prop :=
  cursor = 0 ∨
  (∃ r ts, WF r ∧ encLen r ≤ cursor ∧ bc.pos (keyOf r) = some (cursor - encLen r) ∧
    slice bc.file (cursor - encLen r) (encLen r) = fileUtilsEncode ts r) ∨
  (∃ r ∈ pending, bc.pos (keyOf r) = some cursor)

/-- THE INVARIANT of queue + bitcask + writer, for the code under test (`append = false`).
    `hist` = every record ever acknowledged, in order. -/
structure SInv (fl : Bytes → Nat) (hist : List Record) (s : Sys) : Prop where
  qinv : QInv fl s.q
  walok : ∀ r ∈ s.q.wal, r.flg = fl r.key ∧ WF r
  doneok : ∀ r ∈ s.q.done, WF r
  hist : Store.empty.replay (s.q.done ++ s.q.pending) = Store.empty.replay hist
  memcur : s.mem = s.bc.cur                                   -- in-memory cursor = persisted cursor
  aligned : s.mem % 256 = 0
  curle : s.bc.cur ≤ s.bc.file.length                         -- file length >= cursor: no hole behind a write
  lenbound : s.bc.file.length ≤ s.mem + sumLen s.q.pending    -- what lies behind the cursor is a torn attempt of a pending record
  stagele : s.stage ≤ 2
  good : ∀ k, (∀ r ∈ s.q.pending, keyOf r ≠ k) → Good s.bc s.q.done s.mem k
  stage1 : 1 ≤ s.stage → ∃ r rest ts, s.q.pending = r :: rest ∧
             slice s.bc.file s.mem (encLen r) = fileUtilsEncode ts r
  stage2 : s.stage = 2 → ∃ r rest, s.q.pending = r :: rest ∧ s.bc.pos (keyOf r) = some s.mem
  tail : Tail s.bc s.q.pending s.mem

theorem sinv_init (fl : Bytes → Nat) : SInv fl [] Sys.init where
  qinv := qInv_init fl
  walok := fun _ h => by simp [Sys.init, QState.init] at h
  doneok := fun _ h => by simp [Sys.init, QState.init] at h
  hist := rfl
  memcur := rfl
  aligned := rfl
  curle := Nat.le_refl _
  lenbound := Nat.le_refl _
  stagele := by simp [Sys.init]
  good := fun k _ => Or.inl ⟨rfl, rfl⟩
  stage1 := fun h => by simp [Sys.init] at h
  stage2 := fun h => by simp [Sys.init] at h
  tail := Or.inl rfl

theorem pending_sub_wal {fl : Bytes → Nat} {q : QState} (h : QInv fl q) : ∀ r ∈ q.pending, r ∈ q.wal := by
  obtain ⟨d0, a, _, hw⟩ := h.wal
  intro r hr; rw [hw]; exact List.mem_append_right _ hr


/-! ## preservation: the queue operations -/

theorem foldl_deliver_fields (rs : List Record) (q : QState) :
    (rs.foldl (qDeliver false) q).pending = q.pending ++ rs ∧ (rs.foldl (qDeliver false) q).wal = q.wal ∧
    (rs.foldl (qDeliver false) q).done = q.done := by
  induction rs generalizing q with
  | nil => simp
  | cons r rs ih =>
    obtain ⟨h1, h2, h3⟩ := ih (qDeliver false q r)
    rw [List.foldl_cons, h1, h2, h3]
    simp [qDeliver]

/-- Put (one record) and PutBatch (several): emptyFile, append to tmp.data, deliver -/
def qAppend (q : QState) (rs : List Record) : QState :=
  rs.foldl (qDeliver false) { qEmptyFile q with wal := (qEmptyFile q).wal ++ rs }

theorem qAppend_fields (q : QState) (rs : List Record) :
    (qAppend q rs).pending = q.pending ++ rs ∧ (qAppend q rs).done = q.done ∧
    (∀ r ∈ (qAppend q rs).wal, r ∈ q.wal ∨ r ∈ rs) := by
  obtain ⟨h1, h2, h3⟩ := foldl_deliver_fields rs { qEmptyFile q with wal := (qEmptyFile q).wal ++ rs }
  unfold qAppend
  rw [h1, h2, h3]
  refine ⟨?_, ?_, ?_⟩
  · unfold qEmptyFile; split <;> rfl
  · unfold qEmptyFile; split <;> rfl
  · intro r hr
    unfold qEmptyFile at hr
    split at hr
    · right; simpa using hr
    · simpa using hr

theorem good_mono (bc : BC) (done : List Record) (c c' : Nat) (k : StoreKey) (h : Good bc done c k) (hc : c ≤ c') :
    Good bc done c' k := by
  rcases h with h | ⟨off, v, ts, h1, h2, h3, h4, h5, h6⟩
  · exact Or.inl h
  · exact Or.inr ⟨off, v, ts, h1, h2, h3, h4, by omega, h6⟩

theorem sinv_append (fl : Bytes → Nat) (hist : List Record) (s : Sys) (rs : List Record) (h : SInv fl hist s)
    (hrs : ∀ r ∈ rs, r.flg = fl r.key ∧ WF r) :
    SInv fl (hist ++ rs) { s with q := qAppend s.q rs } := by
  obtain ⟨hp, hd, hw⟩ := qAppend_fields s.q rs
  refine ⟨qInv_append fl s.q rs h.qinv (fun r hr => (hrs r hr).1), ?_, ?_, ?_, h.memcur, h.aligned, h.curle, ?_,
    h.stagele, ?_, ?_, ?_, ?_⟩
  · intro r hr
    rcases hw r hr with h1 | h1
    · exact h.walok r h1
    · exact hrs r h1
  · intro r hr
    simp only [hd] at hr
    exact h.doneok r hr
  · simp only [hp, hd]
    rw [← List.append_assoc, replay_append, h.hist, ← replay_append]
  · simp only [hp, sumLen_append]
    have := h.lenbound
    omega
  · intro k hk
    simp only [hp, hd] at hk ⊢
    exact h.good k (fun r hr => hk r (List.mem_append_left _ hr))
  · intro h1
    obtain ⟨r, rest, ts, e1, e2⟩ := h.stage1 h1
    exact ⟨r, rest ++ rs, ts, by simp only [hp, e1, List.cons_append], e2⟩
  · intro h1
    obtain ⟨r, rest, e1, e2⟩ := h.stage2 h1
    exact ⟨r, rest ++ rs, by simp only [hp, e1, List.cons_append], e2⟩
  · rcases h.tail with h1 | h1 | ⟨r, hr, h1⟩
    · exact Or.inl h1
    · exact Or.inr (Or.inl h1)
    · exact Or.inr (Or.inr ⟨r, by simp only [hp]; exact List.mem_append_left _ hr, h1⟩)

/-! ## preservation: crash + restart -/

theorem restartQ_fields (q : QState) :
    (restartQ q).pending = q.wal ∧ (restartQ q).wal = q.wal ∧ (restartQ q).done = q.done := by
  obtain ⟨h1, h2, h3⟩ := foldl_deliver_fields q.wal { index := [], pending := [], wal := q.wal, done := q.done }
  unfold restartQ
  rw [h1, h2, h3]
  simp

theorem restartQ_inv (fl : Bytes → Nat) (q : QState) (hw : ∀ r ∈ q.wal, r.flg = fl r.key) : QInv fl (restartQ q) := by
  have hcore : QCore fl { index := [], pending := [], wal := q.wal, done := q.done } :=
    ⟨fun _ => rfl, fun _ h => by simp at h, fun _ h => by simp at h, fun _ h => by simp at h⟩
  obtain ⟨c, hp, hwal, hd⟩ := qDeliver_foldl fl q.wal _ hw hcore
  refine ⟨c.cnt, c.pos, c.iflg, c.pflg, ?_⟩
  unfold restartQ
  rw [hp, hwal, hd]
  exact ⟨q.done, [], by simp, by simp⟩

theorem sinv_restart (fl : Bytes → Nat) (hist : List Record) (s : Sys) (h : SInv fl hist s) :
    SInv fl hist (restart s) := by
  obtain ⟨hp, hw, hd⟩ := restartQ_fields s.q
  obtain ⟨d0, a, hda, hwa⟩ := h.qinv.wal
  have hmem : s.bc.cur / 256 * 256 = s.mem := by
    have := h.memcur; have := h.aligned; omega
  have hsub : ∀ r ∈ s.q.pending, r ∈ s.q.wal := pending_sub_wal h.qinv
  refine ⟨restartQ_inv fl s.q (fun r hr => (h.walok r hr).1), ?_, ?_, ?_, ?_, ?_, h.curle, ?_, ?_, ?_, ?_, ?_, ?_⟩
  · intro r hr; simp only [restart, hw] at hr; exact h.walok r hr
  · intro r hr; simp only [restart, hd] at hr; exact h.doneok r hr
  · simp only [restart, hp, hd]
    rw [← h.hist, hda, hwa]
    simp only [replay_append]
    rw [redeliver_twice]
  · simp only [restart]; rw [hmem]; exact h.memcur
  · simp only [restart]; rw [hmem]; exact h.aligned
  · simp only [restart, hp]; rw [hmem, hwa, sumLen_append]
    have := h.lenbound; omega
  · simp [restart]
  · intro k hk
    simp only [restart, hp, hd] at hk ⊢
    rw [hmem]
    exact h.good k (fun r hr => hk r (hsub r hr))
  · intro h1; simp [restart] at h1
  · intro h1; simp [restart] at h1
  · simp only [restart, hp]; rw [hmem]
    rcases h.tail with h1 | h1 | ⟨r, hr, h1⟩
    · exact Or.inl h1
    · exact Or.inr (Or.inl h1)
    · exact Or.inr (Or.inr ⟨r, hsub r hr, h1⟩)


/-! ## preservation: the three durable steps of `BitCask.Put` -/

theorem qDone_fields (q : QState) (r : Record) (rest : List Record) (hp : q.pending = r :: rest) :
    (qStep false q .done).1.pending = rest ∧ (qStep false q .done).1.done = q.done ++ [r] ∧
    (qStep false q .done).1.wal = q.wal := by
  unfold qStep
  rw [hp]
  simp only
  cases delIndex q.index r.flg r.key <;> exact ⟨rfl, rfl, rfl⟩

theorem record_eta (r : Record) : (⟨(keyOf r).1, (keyOf r).2, r.val⟩ : Record) = r := by
  cases r; rfl

theorem sinv_writerStep (fl : Bytes → Nat) (hist : List Record) (s : Sys) (ts : Nat) (h : SInv fl hist s)
    (hroll : (writerStep false s ts).rolled = false) : SInv fl hist (writerStep false s ts) := by
  unfold writerStep at hroll ⊢
  cases hp : s.q.pending with
  | nil => exact h
  | cons r rest =>
    rw [hp] at hroll
    simp only at hroll ⊢
    have hrw : r ∈ s.q.wal := pending_sub_wal h.qinv r (by rw [hp]; simp)
    have hwf : WF r := (h.walok r hrw).2
    have hlen : (fileUtilsEncode ts r).length = encLen r := enc_length ts r hwf
    have hpos := encLen_pos r hwf
    have hle := h.stagele
    rcases hst : s.stage with _ | _ | n
    · -- step 1: the record is written into the data file at the in-memory cursor
      rw [hst] at hroll
      simp only at hroll ⊢
      by_cases hbig : s.mem + (fileUtilsEncode ts r).length > maxFileSize
      · -- checkSize wants the next data file: excluded
        simp only [hbig, if_true] at hroll
        exact absurd hroll (by simp)
      · simp only [hbig, if_false, flush, Bool.false_eq_true]
        have hc : s.mem ≤ s.bc.file.length := by have := h.memcur; have := h.curle; omega
        refine ⟨h.qinv, h.walok, h.doneok, h.hist, h.memcur, h.aligned, ?_, ?_, by simp, ?_, ?_, ?_, ?_⟩
        · simp only [writeAt_length _ _ _ hc]; have := h.curle; omega
        · simp only [writeAt_length _ _ _ hc, hp, sumLen, hlen]; have := h.lenbound; rw [hp] at this; simp only [sumLen] at this; omega
        · intro k hk
          rcases h.good k hk with h1 | ⟨off, v, ts', h1, h2, h3, h4, h5, h6⟩
          · exact Or.inl h1
          · exact Or.inr ⟨off, v, ts', h1, h2, h3, h4, h5, by
              simp only; rw [slice_writeAt_below _ _ _ _ _ hc h5]; exact h6⟩
        · intro _
          refine ⟨r, rest, ts, hp, ?_⟩
          simp only
          rw [← hlen]; exact slice_writeAt_self _ _ _ hc
        · intro h1; simp at h1
        · rcases h.tail with h1 | ⟨r', ts', w1, w2, w3, w4⟩ | h1
          · exact Or.inl h1
          · refine Or.inr (Or.inl ⟨r', ts', w1, w2, w3, ?_⟩)
            simp only
            rw [slice_writeAt_below _ _ _ _ _ hc (by omega)]; exact w4
          · exact Or.inr (Or.inr h1)
    · -- step 2: leveldb.SetPos(key -> cursor)
      simp only
      have hs1 := h.stage1 (by omega)
      obtain ⟨r1, rest1, ts1, e1, e2⟩ := hs1
      rw [hp] at e1
      injection e1 with e1a e1b
      subst e1a; subst e1b
      refine ⟨h.qinv, h.walok, h.doneok, h.hist, h.memcur, h.aligned, h.curle, h.lenbound, by simp, ?_, ?_, ?_, ?_⟩
      · intro k hk
        have hne : k ≠ (r.flg, r.key) := fun e => hk r (by rw [hp]; simp) (by rw [e]; rfl)
        rcases h.good k hk with ⟨h1, h2⟩ | ⟨off, v, ts', h1, h2, h3, h4, h5, h6⟩
        · exact Or.inl ⟨by simp only [hne, if_false]; exact h1, h2⟩
        · exact Or.inr ⟨off, v, ts', by simp only [hne, if_false]; exact h1, h2, h3, h4, h5, h6⟩
      · intro _
        exact ⟨r, rest, ts1, hp, e2⟩
      · intro _
        exact ⟨r, rest, hp, by simp [keyOf]⟩
      · rcases h.tail with h1 | ⟨r', ts', w1, w2, w3, w4⟩ | ⟨r', hr', h1⟩
        · exact Or.inl h1
        · by_cases hk : keyOf r' = (r.flg, r.key)
          · exact Or.inr (Or.inr ⟨r, by rw [hp]; simp, by simp [keyOf]⟩)
          · exact Or.inr (Or.inl ⟨r', ts', w1, w2, by simp only [hk, if_false]; exact w3, w4⟩)
        · refine Or.inr (Or.inr ⟨r', hr', ?_⟩)
          simp only
          split
          · rfl
          · exact h1
    · -- step 3: the cursor is advanced and persisted; Done
      have hn : n = 0 := by omega
      subst hn
      simp only
      obtain ⟨r1, rest1, ts1, e1, e2⟩ := h.stage1 (by omega)
      rw [hp] at e1
      injection e1 with e1a e1b
      subst e1a; subst e1b
      obtain ⟨r2, rest2, f1, f2⟩ := h.stage2 hst
      rw [hp] at f1
      injection f1 with f1a f1b
      subst f1a; subst f1b
      obtain ⟨hnp, hqinv⟩ := qInv_step fl s.q .done h.qinv trivial
      obtain ⟨gp, gd, gw⟩ := qDone_fields s.q r rest hp
      cases hq : qStep false s.q .done with
      | mk q' p =>
        rw [hq] at hnp hqinv gp gd gw
        simp only at hnp hqinv gp gd gw
        subst hnp
        simp only
        have hbound := slice_bound _ _ _ _ e2 (enc_length ts1 r hwf) hpos
        have hmc := h.memcur
        refine ⟨hqinv, ?_, ?_, ?_, ?_, ?_, ?_, ?_, by simp, ?_, ?_, ?_, ?_⟩
        · intro r' hr'; simp only [gw] at hr'; exact h.walok r' hr'
        · intro r' hr'
          simp only [gd, List.mem_append, List.mem_singleton] at hr'
          rcases hr' with h1 | h1
          · exact h.doneok r' h1
          · rw [h1]; exact hwf
        · simp only [gp, gd]
          rw [← h.hist, hp]
          simp
        · simp only
        · simp only; rw [hlen]; have := h.aligned; have := encLen_mod r; omega
        · simp only; rw [hlen]; omega
        · simp only [gp]; rw [hlen]
          have := h.lenbound; rw [hp] at this; simp only [sumLen] at this; omega
        · intro k hk
          simp only [gp, gd] at hk ⊢
          rw [hlen]
          by_cases hkr : k = keyOf r
          · subst hkr
            refine Or.inr ⟨s.mem, r.val, ts1, f2, ?_, ?_, h.aligned, ?_, ?_⟩
            · rw [replay_append]; simp [Store.replay, Store.apply, keyOf]
            · rw [record_eta]; exact hwf
            · rw [record_eta]; omega
            · rw [record_eta]; exact e2
          · have hk' : ∀ r' ∈ s.q.pending, keyOf r' ≠ k := by
              intro r' hr'
              rw [hp] at hr'
              rcases List.mem_cons.1 hr' with h1 | h1
              · rw [h1]; exact fun e => hkr e.symm
              · exact hk r' h1
            have hsame : Store.empty.replay (s.q.done ++ [r]) k = Store.empty.replay s.q.done k := by
              rw [replay_append]
              have : ¬ (k = (r.flg, r.key)) := hkr
              simp [Store.replay, Store.apply, this]
            rcases h.good k hk' with ⟨h1, h2⟩ | ⟨off, v, ts', h1, h2, h3, h4, h5, h6⟩
            · exact Or.inl ⟨h1, by rw [hsame]; exact h2⟩
            · exact Or.inr ⟨off, v, ts', h1, by rw [hsame]; exact h2, h3, h4, by omega, h6⟩
        · intro h1; simp at h1
        · intro h1; simp at h1
        · refine Or.inr (Or.inl ⟨r, ts1, hwf, by simp only; rw [hlen]; omega, ?_, ?_⟩)
          · simp only; rw [hlen]
            have : s.mem + encLen r - encLen r = s.mem := by omega
            rw [this]; exact f2
          · simp only; rw [hlen]
            have : s.mem + encLen r - encLen r = s.mem := by omega
            rw [this]; exact e2


/-- a crash in the middle of the data-file write: a prefix of the record lands at the cursor; restart -/
theorem sinv_tornWrite (fl : Bytes → Nat) (hist : List Record) (s : Sys) (ts c : Nat) (h : SInv fl hist s)
    (hroll : (tornWrite false s ts c).rolled = false) : SInv fl hist (tornWrite false s ts c) := by
  unfold tornWrite at hroll ⊢
  split at hroll
  · rename_i r rest hp hst
    simp only at hroll ⊢
    have hrw : r ∈ s.q.wal := pending_sub_wal h.qinv r (by rw [hp]; simp)
    have hwf : WF r := (h.walok r hrw).2
    have hlen : (fileUtilsEncode ts r).length = encLen r := enc_length ts r hwf
    by_cases hbig : s.mem + (fileUtilsEncode ts r).length > maxFileSize
    · simp only [hbig, if_true] at hroll
      exact absurd hroll (by simp)
    · simp only [hbig, if_false, flush, Bool.false_eq_true]
      apply sinv_restart
      have hc : s.mem ≤ s.bc.file.length := by have := h.memcur; have := h.curle; omega
      have hpl : ((fileUtilsEncode ts r).take c).length ≤ encLen r := by
        rw [List.length_take, hlen]; omega
      refine ⟨h.qinv, h.walok, h.doneok, h.hist, h.memcur, h.aligned, ?_, ?_, h.stagele, ?_, ?_, ?_, ?_⟩
      · simp only [writeAt_length _ _ _ hc]; have := h.curle; omega
      · simp only [writeAt_length _ _ _ hc]
        have := h.lenbound; rw [hp] at this ⊢; simp only [sumLen] at this ⊢; omega
      · intro k hk
        rcases h.good k hk with h1 | ⟨off, v, ts', h1, h2, h3, h4, h5, h6⟩
        · exact Or.inl h1
        · exact Or.inr ⟨off, v, ts', h1, h2, h3, h4, h5, by
            simp only; rw [slice_writeAt_below _ _ _ _ _ hc h5]; exact h6⟩
      · intro h1; simp only at h1; omega
      · intro h1; simp only at h1; omega
      · rcases h.tail with h1 | ⟨r', ts', w1, w2, w3, w4⟩ | h1
        · exact Or.inl h1
        · refine Or.inr (Or.inl ⟨r', ts', w1, w2, w3, ?_⟩)
          simp only
          rw [slice_writeAt_below _ _ _ _ _ hc (by omega)]; exact w4
        · exact Or.inr (Or.inr h1)
  · exact sinv_restart fl hist s h

/-! ## every operation sequence -/

/-- every record is always written with the flag of its key (as in `LemoProofs.C08.OpFlagged`) and fits the
    uint32 fields of the record head -/
def OpOK (fl : Bytes → Nat) : Op → Prop
  | .put r => r.flg = fl r.key ∧ WF r
  | .batch rs => ∀ r ∈ rs, r.flg = fl r.key ∧ WF r
  | _ => True

instance (fl : Bytes → Nat) (op : Op) : Decidable (OpOK fl op) := by
  cases op <;> unfold OpOK <;> exact inferInstance

theorem step_put_eq (s : Sys) (r : Record) : step false s (.put r) = { s with q := qAppend s.q [r] } := by
  simp [step, qStep, qAppend]

theorem step_batch_eq (s : Sys) (rs : List Record) (h : rs ≠ []) :
    step false s (.batch rs) = { s with q := qAppend s.q rs } := by
  simp [step, qStep, qAppend, h]

theorem sinv_step (fl : Bytes → Nat) (hist : List Record) (s : Sys) (op : Op) (h : SInv fl hist s)
    (hop : OpOK fl op) (hroll : (step false s op).rolled = false) : SInv fl (hist ++ op.acked) (step false s op) := by
  cases op with
  | put r =>
    rw [step_put_eq]
    exact sinv_append fl hist s [r] h (by intro r' hr'; simp at hr'; rw [hr']; exact hop)
  | batch rs =>
    by_cases he : rs = []
    · subst he
      have : step false s (.batch []) = s := by simp [step, qStep]
      rw [this]; simpa [Op.acked] using h
    · rw [step_batch_eq s rs he]
      exact sinv_append fl hist s rs h hop
  | step ts =>
    simp only [Op.acked, List.append_nil]
    exact sinv_writerStep fl hist s ts h hroll
  | crash =>
    simp only [Op.acked, List.append_nil]
    exact sinv_restart fl hist s h
  | torn ts c =>
    simp only [Op.acked, List.append_nil]
    exact sinv_tornWrite fl hist s ts c h hroll

theorem rolled_sticky (s : Sys) (op : Op) (h : s.rolled = true) : (step false s op).rolled = true := by
  cases op with
  | put r => exact h
  | batch rs => exact h
  | crash => exact h
  | torn ts c =>
    simp only [step, tornWrite]
    split
    · split
      · rfl
      · exact h
    · exact h
  | step ts =>
    simp only [step, writerStep]
    split
    · exact h
    · split
      · split
        · rfl
        · exact h
      · exact h
      · split
        · exact h
        · exact h

theorem run_rolled (s : Sys) (ops : List Op) (h : (run false s ops).rolled = false) : s.rolled = false := by
  induction ops generalizing s with
  | nil => exact h
  | cons op ops ih =>
    have h1 := ih (step false s op) h
    cases hr : s.rolled with
    | false => rfl
    | true => rw [rolled_sticky s op hr] at h1; exact absurd h1 (by simp)

theorem sinv_run (fl : Bytes → Nat) (hist : List Record) (s : Sys) (ops : List Op) (h : SInv fl hist s)
    (hops : ∀ op ∈ ops, OpOK fl op) (hroll : (run false s ops).rolled = false) :
    SInv fl (hist ++ acked ops) (run false s ops) := by
  induction ops generalizing s hist with
  | nil => simpa [acked, run] using h
  | cons op ops ih =>
    have h1 : (step false s op).rolled = false := run_rolled (step false s op) ops hroll
    have h2 := sinv_step fl hist s op h (hops op (by simp)) h1
    have h3 := ih (hist ++ op.acked) (step false s op) h2 (fun o ho => hops o (by simp [ho])) hroll
    simpa [acked, run, List.append_assoc] using h3

/-! ## the property theorems -/

/-- **bitcask_put_crash_invariant**: for EVERY sequence of acknowledged Put/PutBatch calls, durable steps of the writer
    (file write at the cursor / LevelDB position / LevelDB cursor + Done) and crash-restarts at ANY point — between
    the steps of one BitCask.Put, between puts, during the redelivery after an earlier crash — the invariant `SInv`
    holds: file length ≥ cursor, every indexed record of a key that is not waiting for (re)delivery lies entirely
    below the cursor and its bytes decode to the key's last delivered value, the bytes behind the cursor are no more
    than a torn attempt of pending records, tmp.data still holds every record that is not completely stored. -/
theorem bitcask_put_crash_invariant (fl : Bytes → Nat) (ops : List Op) (hops : ∀ op ∈ ops, OpOK fl op)
    (hroll : (run false Sys.init ops).rolled = false) : SInv fl (acked ops) (run false Sys.init ops) := by
  simpa using sinv_run fl [] Sys.init ops (sinv_init fl) hops hroll

/-- while records are still pending, every key that is NOT waiting for (re)delivery already reads back the last value
    delivered for it (pending keys are served from the queue's in-memory index by `FileQueue.Get`) -/
theorem bitcask_idle_keys_readable (fl : Bytes → Nat) (hist : List Record) (s : Sys) (h : SInv fl hist s)
    (flg : Nat) (key : Bytes) (hk : ∀ r ∈ s.q.pending, keyOf r ≠ (flg, key)) :
    bcGet s.bc flg key = expected (Store.empty.replay s.q.done) flg key := by
  rcases h.good (flg, key) hk with ⟨h1, h2⟩ | ⟨off, v, ts, h1, h2, h3, h4, h5, h6⟩
  · simp only [bcGet, expected, h1, h2]
  · have := get_of_slice s.bc ⟨flg, key, v⟩ ts off h3 h1 h4 h6
    simp only at this
    rw [this]
    simp only [expected, h2]

/-- **bitcask_put_crash_safe** (the property, for the code under test): after ANY such sequence, once the writer
    has drained (nothing pending: the redelivery after the last crash has completed),
      * every key reads back — through position index -> offset -> `FileUtilsRead` at that offset of the data file —
        exactly the LAST value ever acknowledged for it, and a key never written is not found;
      * the cursor in memory, the persisted cursor and the file length agree (no hole, nothing behind the cursor);
      * every indexed record lies entirely below the cursor;
      * the cursor is the end of an indexed record (or nothing was ever stored). -/
theorem bitcask_put_crash_safe (fl : Bytes → Nat) (ops : List Op) (hops : ∀ op ∈ ops, OpOK fl op)
    (hroll : (run false Sys.init ops).rolled = false) (hdrained : (run false Sys.init ops).q.pending = []) :
    (∀ flg key, bcGet (run false Sys.init ops).bc flg key = expected (Store.empty.replay (acked ops)) flg key) ∧
    (run false Sys.init ops).mem = (run false Sys.init ops).bc.cur ∧
    (run false Sys.init ops).bc.cur = (run false Sys.init ops).bc.file.length ∧
    (∀ k off, (run false Sys.init ops).bc.pos k = some off →
        ∃ v, Store.empty.replay (acked ops) k = some v ∧ off + encLen ⟨k.1, k.2, v⟩ ≤ (run false Sys.init ops).bc.cur) ∧
    ((run false Sys.init ops).bc.cur = 0 ∨
      ∃ r, encLen r ≤ (run false Sys.init ops).bc.cur ∧
        (run false Sys.init ops).bc.pos (keyOf r) = some ((run false Sys.init ops).bc.cur - encLen r) ∧
        bcGet (run false Sys.init ops).bc r.flg r.key = .ok r.val) := by
  have h := bitcask_put_crash_invariant fl ops hops hroll
  generalize run false Sys.init ops = s at h hdrained
  have hh : Store.empty.replay s.q.done = Store.empty.replay (acked ops) := by
    have := h.hist; rw [hdrained, List.append_nil] at this; exact this
  have hnone : ∀ k : StoreKey, ∀ r ∈ s.q.pending, keyOf r ≠ k := by
    intro k r hr; rw [hdrained] at hr; simp at hr
  refine ⟨?_, h.memcur, ?_, ?_, ?_⟩
  · intro flg key
    rw [← hh]
    exact bitcask_idle_keys_readable fl _ s h flg key (hnone _)
  · have h1 := h.curle; have h2 := h.lenbound; have h3 := h.memcur
    rw [hdrained] at h2; simp only [sumLen] at h2; omega
  · intro k off hk
    rcases h.good k (hnone k) with ⟨h1, _⟩ | ⟨off', v, ts, h1, h2, _, _, h5, _⟩
    · rw [hk] at h1; exact absurd h1 (by simp)
    · rw [hk] at h1; injection h1 with h1; subst h1
      exact ⟨v, by rw [← hh]; exact h2, by rw [← h.memcur]; exact h5⟩
  · rw [← h.memcur]
    rcases h.tail with h1 | ⟨r, ts, w1, w2, w3, w4⟩ | ⟨r, hr, _⟩
    · exact Or.inl h1
    · refine Or.inr ⟨r, w2, w3, ?_⟩
      have hal : (s.mem - encLen r) % 256 = 0 := by
        have := h.aligned; have := encLen_mod r; omega
      exact get_of_slice s.bc r ts _ w1 w3 hal w4
    · rw [hdrained] at hr; simp at hr


/-! ## the redelivery completes -/

theorem writerStep_measure (fl : Bytes → Nat) (hist : List Record) (s : Sys) (ts : Nat) (h : SInv fl hist s)
    (hroll : (writerStep false s ts).rolled = false) (hne : s.q.pending ≠ []) :
    3 * (writerStep false s ts).q.pending.length + s.stage + 1 =
      3 * s.q.pending.length + (writerStep false s ts).stage := by
  unfold writerStep at hroll ⊢
  cases hp : s.q.pending with
  | nil => exact absurd hp hne
  | cons r rest =>
    rw [hp] at hroll
    simp only at hroll ⊢
    have hle := h.stagele
    rcases hst : s.stage with _ | _ | n
    · rw [hst] at hroll
      simp only at hroll ⊢
      by_cases hbig : s.mem + (fileUtilsEncode ts r).length > maxFileSize
      · simp only [hbig, if_true] at hroll
        exact absurd hroll (by simp)
      · simp only [hbig, if_false, hp, List.length_cons]
    · simp only [hp, List.length_cons]
    · have hn : n = 0 := by omega
      subst hn
      simp only
      obtain ⟨hnp, _⟩ := qInv_step fl s.q .done h.qinv trivial
      obtain ⟨gp, _, _⟩ := qDone_fields s.q r rest hp
      cases hq : qStep false s.q .done with
      | mk q' p =>
        rw [hq] at hnp gp
        simp only at hnp gp
        subst hnp
        simp only [gp, List.length_cons]
        omega

theorem steps_measure (fl : Bytes → Nat) (hist : List Record) (k : Nat) (s : Sys) (h : SInv fl hist s)
    (hroll : (run false s (List.replicate k (Op.step 0))).rolled = false) :
    3 * (run false s (List.replicate k (Op.step 0))).q.pending.length ≤
      (run false s (List.replicate k (Op.step 0))).stage + (3 * s.q.pending.length - s.stage - k) := by
  induction k generalizing s with
  | zero => simp only [List.replicate, run, List.foldl_nil]; omega
  | succ k ih =>
    have hrun : run false s (List.replicate (k + 1) (Op.step 0)) =
        run false (step false s (.step 0)) (List.replicate k (Op.step 0)) := by
      simp [run, List.replicate_succ]
    rw [hrun] at hroll ⊢
    have h1 : (step false s (.step 0)).rolled = false := run_rolled _ _ hroll
    have h2 : SInv fl hist (step false s (.step 0)) := by
      simpa [Op.acked] using sinv_step fl hist s (.step 0) h trivial h1
    have h3 := ih (step false s (.step 0)) h2 hroll
    refine Nat.le_trans h3 (Nat.add_le_add_left ?_ _)
    by_cases hne : s.q.pending = []
    · have : step false s (.step 0) = s := by simp [step, writerStep, hne]
      rw [this, hne]; simp
    · have hm := writerStep_measure fl hist s 0 h h1 hne
      have hs' : (step false s (.step 0)) = writerStep false s 0 := rfl
      rw [hs'] at h2 ⊢
      have a1 := h2.stagele
      have a2 : 1 ≤ (writerStep false s 0).stage → 1 ≤ (writerStep false s 0).q.pending.length := by
        intro hh
        obtain ⟨r, rest, _, e, _⟩ := h2.stage1 hh
        rw [e]; simp
      omega

/-- **bitcask_redelivery_completes**: from every reachable state, three writer steps per pending record empty the
    queue — the state `bitcask_put_crash_safe` speaks about is always reached when the process stays up -/
theorem bitcask_redelivery_completes (fl : Bytes → Nat) (hist : List Record) (s : Sys) (h : SInv fl hist s)
    (hroll : (drain false s).rolled = false) : (drain false s).q.pending = [] := by
  have hd : drain false s = run false s (List.replicate (3 * s.q.pending.length) (Op.step 0)) := rfl
  rw [hd] at hroll ⊢
  have h1 := steps_measure fl hist _ s h hroll
  have h2 : SInv fl hist (run false s (List.replicate (3 * s.q.pending.length) (Op.step 0))) := by
    have := sinv_run fl hist s (List.replicate (3 * s.q.pending.length) (Op.step 0)) h
      (fun op hop => by rw [(List.mem_replicate.1 hop).2]; trivial) hroll
    have ha : ∀ n, acked (List.replicate n (Op.step 0)) = [] := by
      intro n; induction n with
      | zero => rfl
      | succ n ih => simp [List.replicate_succ, acked, Op.acked, ih]
    rw [ha, List.append_nil] at this; exact this
  have h3 := h2.stagele
  have : (run false s (List.replicate (3 * s.q.pending.length) (Op.step 0))).q.pending.length = 0 := by omega
  exact List.eq_nil_of_length_eq_zero this

/-! ## witnesses: non-vacuity, and the refutation of the O_APPEND variant -/

def recA : Record := ⟨4, [0x61], [1]⟩
def recB : Record := ⟨4, [0x62], [2]⟩
def recC : Record := ⟨4, [0x63], [3]⟩

/-- put a, stored completely; put b, the process dies after step 1 of b's BitCask.Put (file written, position and
    cursor not); restart; b is redelivered and stored; put c, stored. -/
def witnessOps : List Op :=
  [.put recA, .step 0, .step 0, .step 0,
   .put recB, .step 0, .crash,
   .step 0, .step 0, .step 0,
   .put recC, .step 0, .step 0, .step 0]

/-- crash after step 2 (position written, cursor not), a crash in the middle of the data-file write of the first
    redelivered record, another crash in the middle of the redelivery, an overwrite of a key while its older version is
    being redelivered -/
def witnessOps2 : List Op :=
  [.batch [recA, recB], .step 0, .step 0, .step 0, .step 0, .step 0, .crash,
   .torn 0 100,
   .step 0, .step 0, .step 0, .step 0, .crash,
   .put ⟨4, [0x61], [9]⟩, .step 0, .step 0, .step 0, .step 0, .step 0, .step 0, .step 0, .step 0, .step 0]

set_option maxRecDepth 100000 in
/-- the hypotheses of `bitcask_put_crash_safe` are satisfiable, on sequences with crashes inside a put and inside the
    redelivery; and what it promises is what the model computes there -/
example :
    (∀ op ∈ witnessOps, OpOK (fun _ => 4) op) ∧ (run false Sys.init witnessOps).rolled = false ∧
    (run false Sys.init witnessOps).q.pending = [] ∧
    (∀ op ∈ witnessOps2, OpOK (fun _ => 4) op) ∧ (run false Sys.init witnessOps2).rolled = false ∧
    (run false Sys.init witnessOps2).q.pending = [] ∧
    bcGet (run false Sys.init witnessOps2).bc 4 [0x61] = .ok [9] ∧
    bcGet (run false Sys.init witnessOps2).bc 4 [0x62] = .ok [2] ∧
    (run false Sys.init witnessOps2).bc.cur = 1280 := by
  decide

set_option maxRecDepth 100000 in
/-- **bitcask_append_refuted** (VARIANT seed-C08g, not the code under test: FileUtilsFlush opens the data file with
    O_APPEND, `flush true`): after the crash inside b's put the redelivered b lands at the TAIL of the file while it is
    indexed AT THE CURSOR; the cursor stays behind the tail for ever; c, acknowledged and stored completely afterwards,
    is indexed where the second copy of b lies: reading c finds a record with another key — NOT FOUND, although
    c = 3 was acknowledged; the cursor is not the file length. -/
theorem bitcask_append_refuted :
    (run true Sys.init witnessOps).q.pending = [] ∧
    bcGet (run true Sys.init witnessOps).bc 4 [0x63] = .notFound ∧
    expected (Store.empty.replay (acked witnessOps)) 4 [0x63] = .ok [3] ∧
    (run true Sys.init witnessOps).bc.cur = 768 ∧ (run true Sys.init witnessOps).bc.file.length = 1024 := by
  decide

set_option maxRecDepth 100000 in
/-- the same operations on the code under test: c reads back, cursor = file length -/
theorem bitcask_append_witness_now_ok :
    bcGet (run false Sys.init witnessOps).bc 4 [0x63] = .ok [3] ∧
    bcGet (run false Sys.init witnessOps).bc 4 [0x62] = .ok [2] ∧
    (run false Sys.init witnessOps).bc.cur = 768 ∧ (run false Sys.init witnessOps).bc.file.length = 768 := by
  decide

end LemoProofs.C08Bitcask

/-
  C08 — what start-up recovery REDELIVERS (model `LemoModel.Wal.redeliver` / `qRestart` / `recoverBy`; the loop of
  store/file_queue.go `scanFile`: `deliver` for every record read, no look at the LevelDB position index).

    recovery_redelivers_every_unwritten_record
        for EVERY sequence of Put / PutBatch / Done operations (record lists with repeated keys included) and a crash
        after ANY prefix of it: start-up hands the records of tmp.data to the writer again — all of them, in file
        order, WHATEVER the position index holds for their keys (`stored` is universally quantified); the records
        the writer has not written yet are exactly the tail of that list; hence after the redelivery every key holds
        its last acknowledged value (recoveredBy false = promised)                                              (full)
        — conjuncts (1),(2) are DEFINITIONAL (the model's `redeliver false` ignores `stored` by construction), (3) is the
        field `QInv.wal`, (4) re-exports `recovered_eq_promised`: a repackaging of the queue invariant for the restart.
        That the real `scanFile` does not consult the index is NOT proved here: it is tied by the op `qrestart`.
        `recoveredBy` is the store ONCE THE WRITER HAS DRAINED; reads between the return of Start and the drain are not modelled.
    redeliver_ignores_index / qRestart_pending / qRestart_eq_restartQ / restart_keeps_queue_invariant        (helpers, full)
    the two `*_skip_indexed_refuted` below are about `redeliver true`, a flag the DRIVER NEVER RUNS (it runs `qRestart false`
    only); they match seeded/C08h patch.diff by reading.
    recovery_skip_indexed_refuted
        VARIANT seed-C08h (`redeliver true`: a record whose key has a position in the index is skipped): the
        two-record witness  put X=100; Done (X=100 written, X indexed); put X=200 (acknowledged, fsynced, not yet
        written); crash: nothing is redelivered, X reads 100 although 200 was acknowledged        (refutation, variant)
    recover_skip_indexed_refuted
        the same at protocol level: the batch of block 1 (block record, account 7: 10 -> 20) is durable and the stable
        pointer has moved, the writer has written nothing; the variant presents stable block 1 with account 7 = 10
                                                                                                   (refutation, variant)
-/
import LemoProofs.C08
import LemoProofs.C08Bitcask
namespace LemoProofs.C08
open LemoModel LemoModel.Wal LemoModel.Bitcask LemoProofs.WalLemmas

/-- the queue state the process dies in: after the first `n` operations of `ops` -/
def crashedAt (ops : List QOp) (n : Nat) : QState := (qRun false QState.init (ops.take n)).1

/-- the code under test does not look at the position index: every record is redelivered, in order -/
theorem redeliver_ignores_index (stored : StoreKey → Bool) (wal : List Record) :
    redeliver false stored wal = wal := by
  simp [redeliver]

/-- the model of the restart used by the bitcask theorems (`LemoModel.Bitcask.restartQ`) is this restart -/
theorem qRestart_eq_restartQ (s : QState) : qRestart false s = restartQ s := by
  unfold qRestart restartQ
  rw [redeliver_ignores_index]

/-- after the restart the writer's channel holds exactly tmp.data; the file and the bitcask content are untouched -/
theorem qRestart_pending (s : QState) :
    (qRestart false s).pending = s.wal ∧ (qRestart false s).wal = s.wal ∧ (qRestart false s).done = s.done := by
  rw [qRestart_eq_restartQ]
  exact LemoProofs.C08Bitcask.restartQ_fields s

/-- the restarted queue satisfies the queue invariant again (refCnt k = number of pending records of k, …).  This is
    `C08Bitcask.restartQ_inv` behind a `rw` (re-export).  CAUTION: of the registered queue theorems only
    `queue_refcnt_invariant` takes an arbitrary `QInv` state; the others start from `QState.init`, and `qRun` has no
    crash / restart step, so "crashes during recovery itself" has NO queue-level theorem over histories with restarts. -/
theorem restart_keeps_queue_invariant (fl : Bytes → Nat) (s : QState) (hw : ∀ r ∈ s.wal, r.flg = fl r.key) :
    QInv fl (qRestart false s) := by
  rw [qRestart_eq_restartQ]
  exact LemoProofs.C08Bitcask.restartQ_inv fl s hw

/-- **recovery_redelivers_every_unwritten_record**: for every operation sequence (any records, repeated keys
    included) and a crash after any prefix of it,
    (1) the records start-up hands to the writer are the records of tmp.data, all of them, in file order — for EVERY
        content `stored` of the position index.  DEFINITIONAL: `redeliver false stored wal = wal` is `simp [redeliver]`
        (`false && stored …` discards `stored`); quantifying over `stored` quantifies over an argument the model ignores.
        That the CODE ignores the index in `scanFile` is the model's reading of file_queue.go, evidence = the op `qrestart`;
    (2) that is what the writer's channel holds after the restart (unfolding of `qRestart` after (1); true for every
        state `s`, reachable or not);
    (3) the records the writer had not written when the process died are exactly the tail of that list, and the head
        `written` is a suffix of the history of completed bitcask puts (`done = d0 ++ written`) — the field `QInv.wal`;
    (4) so after the redelivery the store holds, for every key, the last acknowledged value — this is
        `recovered_eq_promised` (the second conjunct of the already registered `queue_no_acked_record_lost`) after (2).
    The theorem is a REPACKAGING for the restart: no new record-level content beyond the queue invariant. -/
theorem recovery_redelivers_every_unwritten_record (fl : Bytes → Nat) (ops : List QOp) (n : Nat)
    (hops : ∀ op ∈ ops, OpFlagged fl op) (stored : StoreKey → Bool) :
    redeliver false stored (crashedAt ops n).wal = (crashedAt ops n).wal ∧
    (qRestart false (crashedAt ops n)).pending = (crashedAt ops n).wal ∧
    (∃ d0 written, (crashedAt ops n).done = d0 ++ written ∧
      (qRestart false (crashedAt ops n)).pending = written ++ (crashedAt ops n).pending) ∧
    (crashedAt ops n).recoveredBy false = (crashedAt ops n).promised := by
  have hinv : QInv fl (crashedAt ops n) :=
    (queue_refcnt_invariant fl (ops.take n) _ (qInv_init fl) (fun op h => hops op (List.mem_of_mem_take h))).2
  generalize crashedAt ops n = s at hinv ⊢
  have hp := (qRestart_pending s).1
  obtain ⟨d0, a, hd, hw⟩ := hinv.wal
  refine ⟨redeliver_ignores_index stored s.wal, hp, ⟨d0, a, hd, by rw [hp, hw]⟩, ?_⟩
  unfold QState.recoveredBy
  rw [hp]
  exact recovered_eq_promised fl s hinv

/-- start-up recovery at protocol level (`recover`, the subject of stable_after_crash_partial) is `recoverBy false` -/
theorem recoverBy_false (stored : StoreKey → Bool) (d : Disk) : recoverBy false stored d = recover d := by
  unfold recoverBy recover
  rw [redeliver_ignores_index]

/-! ### the variant that skips indexed keys -/

/-- the two-record witness: X = 100 is written and persisted (X has a position), X = 200 is acknowledged -/
def skipOps : List QOp := [.put ⟨4, [0xA1], [100]⟩, .done, .put ⟨4, [0xA1], [200]⟩]

/-- non-vacuity: the witness satisfies the hypothesis of the full theorem -/
example : ∀ op ∈ skipOps, OpFlagged (fun _ => 4) op := by
  intro op h
  simp only [skipOps, List.mem_cons, List.mem_nil_iff, or_false] at h
  rcases h with h | h | h <;> subst h <;> simp [OpFlagged]

/-- **recovery_skip_indexed_refuted**: with `skip if the key is indexed` the acknowledged overwrite of an indexed key
    is in tmp.data, unwritten, and is NOT redelivered: the key reads its old value after the restart. -/
theorem recovery_skip_indexed_refuted :
    (crashedAt skipOps 3).wal = [⟨4, [0xA1], [200]⟩] ∧
    (crashedAt skipOps 3).pending = [⟨4, [0xA1], [200]⟩] ∧
    (crashedAt skipOps 3).indexed (4, [0xA1]) = true ∧
    (qRestart true (crashedAt skipOps 3)).pending = [] ∧
    (crashedAt skipOps 3).recoveredBy true (4, [0xA1]) = some [100] ∧
    (crashedAt skipOps 3).promised (4, [0xA1]) = some [200] := by decide

/-- the same operations on the code under test: the overwrite is redelivered, X reads 200 -/
example : (qRestart false (crashedAt skipOps 3)).pending = [⟨4, [0xA1], [200]⟩] ∧
    (crashedAt skipOps 3).recoveredBy false (4, [0xA1]) = some [200] := by decide

/-- **recover_skip_indexed_refuted** (protocol level): the batch of block 1 is durable, the stable pointer has moved,
    the writer lags (it has written nothing of the batch). The variant presents stable block 1 with account 7 at its
    OLD value 10; the code under test presents 20. -/
theorem recover_skip_indexed_refuted :
    (recoverBy true (fun k => (wDisk.kv k).isSome) (crashState wDisk wProm (.committed 0 true true))).stable = 1 ∧
    (recoverBy true (fun k => (wDisk.kv k).isSome) (crashState wDisk wProm (.committed 0 true true))).kv (4, [7]) = some [10] ∧
    (recoverBy false (fun k => (wDisk.kv k).isSome) (crashState wDisk wProm (.committed 0 true true))).kv (4, [7]) = some [20] ∧
    (recover (completed wDisk wProm)).kv (4, [7]) = some [20] := by decide

end LemoProofs.C08

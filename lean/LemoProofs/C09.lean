/-
  C09 — Per-block state views are isolated across forks and pruned exactly when stable.

  FULL PROPERTY (what one wants of store/act_database.go + chain_database.go):
    for every tree of unconfirmed blocks, every per-block write set, every interleaving of reads
    (which populate the read-through cache) with writes, and every sequence of stabilisations,
      GetActDatabase(B).Get(k) = value written by the nearest ancestor-or-self of B that wrote k,
                                 else the stable value                         (`specView`)
    and SetStableBlock(b) keeps exactly the strict descendants of b, with unchanged views, and the
    persisted accounts equal the view of b.

  WHAT IS PROVED HERE, AND ABOUT WHICH FUNCTIONS

  (a) FULL, unbounded, for the *unshared* abstract machine `LemoModel.CowSpec` (per-block tables
      `key ↦ (value, dye)`, copy-on-write by parent pointer, `Put` ignored on equal dye, `Get` caching
      the stable value with dye 0 in the reader's table AND in the tables of arbitrary other blocks,
      `Collect(h)` = entries dyed `h`, `SetStableBlock` = persist Collect + prune):
        inv_reachable, get_refines, get_refines_reachable, get_returns_view, get_is_pure,
        put_refines, put_isolated, collect_exact, prune_exact.
      Guards (exactly how `Manager.Save`/the chain use the store, see `aPut`): a block writes a key at
      most once (a second Put with the same dye is silently DROPPED by the code) and only while it has
      no child.

  (b) LEGACY (code before fix fb6e64c, `putG false`; no longer what /repo runs — historical witnesses, not registered as
      property theorems): for the heap model of the OLD put the property is FALSE.
        heap_sharing_invariant_refuted   — after a split-case `put` two nodes own one backing array
        heap_get_is_pure_refuted         — a read through the parent's view makes the child LOSE a key
        heap_persist_refuted             — … and a read through the child's view makes the parent's
                                           Collect(height) miss an account it wrote (wrong persisted state)
      by concrete witnesses (kernel evaluation).  The same witnesses on the repaired put behave correctly (`example`s).
      Mechanism facts: sliceInsert_in_place, copySlice_fresh.

  (c) For the heap model with the REPAIRED put (`putG true` = `putTopFixed`, what /repo runs since fb6e64c: the
      split case uses child.Clone()): the universal refinement heap model ⇒ abstract machine.
        heap_inv_init, heap_inv_step      — the invariant `HRel` (memory ownership `HOk`: every backing array is
                                            referenced by at most one node; + `Rel`: radix well-formedness for
                                            fixed-length keys (sorted children, terminal nodes at full depth carrying
                                            their key, dyes not increasing downwards), ghost reach sets closed under
                                            children, "a block that is a leaf owns the nodes dyed with its height that
                                            it can see", every root's lookups = the abstract table) holds initially and
                                            is preserved by SetBlock, Put (`putTopFixed`), Get (`getTop` incl. the
                                            in-place read-through `insert`) and the stabilisation step; no operation
                                            panics or gets stuck
        heap_view_refines                 — under `HRel` the view of every label through the heap is `specView`
        heap_put_isolated                 — after a Put the writer reads its value, every other (label, key) is unchanged
        heap_get_is_pure                  — a Get returns `specView` and changes no view of any label for any key,
                                            although its read-through insert mutates shared nodes in place
        heap_stable_views                 — the stabilisation step keeps the survivors' views; abstract persisted = view(l)
        heap_run_refines                  — induction over operation sequences of the auxiliary machine `hstep` (guards,
                                            writer height, persisted value and survivor set taken from the abstract
                                            state; out-of-guard Puts are skipped) — superseded by (d)
        CowHeapL.rel_collect              — `Collect(height)` on a block's trie (the recursive walk through nodes dyed
                                            `height`, with the model's fuel) = the entries of its table dyed `height`

  (d) THE MACHINE THE DRIVER EXECUTES (`LemoModel.UTree`: `openDb`, `setBlock`, `putAcct true`, `getAcct`, `setStable`,
      `reopen` — what `Driver/C09.lean` runs and the correspondence ties to Go) refines the abstract machine:
        utree_inv_open, utree_inv_step, utree_run_refines
                                          — `URel u a` (HRel for the heap/roots carried by `u` + same stable block, labels,
                                            heights, parents, order, disk) holds after `open` with a stable block and
                                            after every restart, and is preserved by every driver step: the model's OWN
                                            SetBlock acceptance implies `aSetBlock`'s; Put under the usage guard stated
                                            on the driver's state (`PutGuardU`: unconfirmed, no child yet, own Collect
                                            does not contain the account) — an explicit hypothesis of the run theorem
                                            (`GuardedU`), not a silent no-op; Get through any live or committed label
                                            (other labels: panic in Go and model, state unchanged); SetStableBlock of ANY
                                            depth (`pathTo` + per block `collectTop` on the heap + batch write + `walk`
                                            pruning = the iterated abstract step)
        utree_view_refines                — `peekAcct` (Find, else disk) through any such label = `specView`
        utree_setStable, stable_chain_exact
                                          — multi-level stabilisation: stable block = l, survivors read what they read
                                            before the call, persisted accounts (heap Collect + batch write, iterated) =
                                            the view l had before the call
      NOT covered by (d): Put through a committed label, Puts outside `PutGuardU` (late writes of a
      block that already has children: Go mutates nodes shared with the children in place — no theorem, and the
      harness oracle is off for those 'wild' cases; the `putsites` op line pins the callers of Put), the ORDER of the
      dropped-block list / of the iteration.  Lemma files: Lemmas/CowHeap*.lean.

  (e) THE TREE QUERIES (`isExist`, `iterate`, `unconfirmByHeight`, the dropped set of one commit iteration) against the
      abstract parent map: LemoProofs/C09Tree.lean.
  (f) THE GENESIS BOOTSTRAP (`stable = none`: blocks of height 0, dye 0 = the cache dye) from the EMPTY database through the
      first `SetStableBlock` to `URel`: LemoProofs/C09Boot.lean + Lemmas/CowHeapGenesis.lean.
-/
import LemoProofs.Lemmas.CowSpecPrune
import LemoProofs.Lemmas.CowHeapTop
import LemoProofs.Lemmas.CowHeapUTree
import LemoProofs.Lemmas.CowHeapUStable
import LemoModel.UTree
namespace LemoProofs.C09
open LemoModel.CowSpec LemoProofs.CowSpecL

/-! ## (a) the abstract copy-on-write machine refines the specification -/

theorem inv_init (sl sh : Nat) (disk : Nat → Option Nat) : CInv (init sl sh disk) where
  wf := trivial
  J1 := fun b hb => by simp [init] at hb
  J2 := fun b hb => by simp [init] at hb
  S := fun k e he => by simp [init] at he

theorem inv_step {s : ASt} (hi : CInv s) (op : Op) : CInv (stepOp s op) := by
  cases op with
  | setBlock l p h =>
    show CInv ((aSetBlock s l p h).getD s)
    cases hs : aSetBlock s l p h with
    | none => exact hi
    | some s' => exact inv_setBlock hi hs
  | put l k v =>
    show CInv ((aPut s l k v).getD s)
    cases hs : aPut s l k v with
    | none => exact hi
    | some s' => exact inv_put hi hs
  | get l k sh => exact inv_get hi l k sh
  | stable l =>
    show CInv ((aStable s l).getD s)
    cases hs : aStable s l with
    | none => exact hi
    | some s' => exact inv_stable hi hs

/-- the invariant holds in every state reachable by any sequence of operations (any tree shape,
    siblings at equal height, any interleaving of reads/cache placements, guarded writes, stabilisations of a child of the
    stable block).  NOTE: `stepOp` SKIPS operations outside the guards (`aPut`: live block, no child yet, key not yet
    written; `aStable`: child of the stable block) — "any sequence" says nothing about late/duplicate Puts. -/
theorem inv_reachable (sl sh : Nat) (disk : Nat → Option Nat) (ops : List Op) :
    CInv (run (init sl sh disk) ops) := by
  unfold run
  suffices h : ∀ s, CInv s → CInv (ops.foldl stepOp s) from h _ (inv_init sl sh disk)
  induction ops with
  | nil => intro s hs; exact hs
  | cons op ops ih => intro s hs; exact ih _ (inv_step hs op)

/-- **get_refines**: what `Get` returns through the table of ANY label (an unconfirmed block, or — for
    every other label — LastConfirm's table) is the specified view. -/
theorem get_refines {s : ASt} (hi : CInv s) (l k : Nat) : eff s l k = specView s l k := by
  cases hf : findB s.blocks l with
  | none =>
    have hsw : specWriter s.blocks l k = none := sw_none_of_not_label k (findB_none hf)
    have ht : tblOf s l = s.stbl := by unfold tblOf; rw [hf]
    unfold eff specView
    rw [ht, hsw]
    cases hst : s.stbl k with
    | none => rfl
    | some e =>
      show some e.val = s.disk k
      exact (hi.S k e hst).1.symm
  | some b =>
    obtain ⟨hb, hbl⟩ := findB_some hf
    have ht : tblOf s l = b.tbl := by unfold tblOf; rw [hf]
    unfold eff specView
    rw [ht]
    cases hsw : specWriter s.blocks l k with
    | none =>
      rw [← hbl] at hsw
      cases hbt : b.tbl k with
      | none => rfl
      | some e =>
        show some e.val = s.disk k
        exact (hi.J2 b hb k hsw e hbt).1.symm
    | some hv =>
      obtain ⟨h, v⟩ := hv
      rw [← hbl] at hsw
      rw [hi.J1 b hb k h v hsw]

theorem get_refines_reachable (sl sh : Nat) (disk : Nat → Option Nat) (ops : List Op) (l k : Nat) :
    eff (run (init sl sh disk) ops) l k = specView (run (init sl sh disk) ops) l k :=
  get_refines (inv_reachable sl sh disk ops) l k

/-- the value handed back by the `Get` operation itself -/
theorem get_returns_view {s : ASt} (hi : CInv s) (l k : Nat) (sharers : List Nat) :
    (aGet s l k sharers).2 = specView s l k := by
  rw [← get_refines hi l k]
  unfold aGet eff
  cases tblOf s l k <;> rfl

theorem specView_get (s : ASt) (l k : Nat) (sharers : List Nat) (x k' : Nat) :
    specView (aGet s l k sharers).1 x k' = specView s x k' := by
  unfold aGet
  split
  · rfl
  · obtain ⟨h1, h2⟩ := cache_fold_frame s k (l :: sharers)
    unfold specView
    rw [h2, h1]

/-- **get_is_pure**: a read — including the read-through cache entry it leaves in the reader's table and
    in the tables of any other blocks — changes no view of any block for any key. -/
theorem get_is_pure {s : ASt} (hi : CInv s) (l k : Nat) (sharers : List Nat) (x k' : Nat) :
    eff (aGet s l k sharers).1 x k' = eff s x k' := by
  rw [get_refines (inv_get hi l k sharers), get_refines hi, specView_get]

/-- **put_refines**: a (guarded) `Put` keeps the invariant, the writer sees its value, and the
    specification of every other (block, key) is untouched. -/
theorem put_refines {s s' : ASt} {l k v : Nat} (hi : CInv s) (hs : aPut s l k v = some s') :
    CInv s' ∧ specView s' l k = some v ∧
    ∀ x k', (x ≠ l ∨ k' ≠ k) → specView s' x k' = specView s x k' := by
  have hi' := inv_put hi hs
  obtain ⟨b, hf, hc, _, rfl⟩ := aPut_eq hs
  obtain ⟨hb, hbl⟩ := findB_some hf
  have hsw := fun l' k' => sw_put (sl := s.sl) (sh := s.sh) l k v hi.wf (leaf_of_hasChild hc) b hb hbl l' k'
  refine ⟨hi', ?_, ?_⟩
  · unfold specView
    show (match specWriter (updB s.blocks l (putF k v)) l k with
      | some (_, v) => some v
      | none => s.disk k) = some v
    rw [hsw]; simp
  · intro x k' hne
    unfold specView
    show (match specWriter (updB s.blocks l (putF k v)) x k' with
      | some (_, v) => some v
      | none => s.disk k') = _
    rw [hsw]
    have : ¬ (x = l ∧ k' = k) := by
      rintro ⟨h1, h2⟩; rcases hne with h | h
      · exact h h1
      · exact h h2
    rw [if_neg this]
    try rfl

/-- **isolation across forks**, on what `Get` returns: after block `l` wrote `k`, `l` reads `v` and every
    other view (siblings, ancestors, other forks, the stable block — and `l` for other keys) is unchanged. -/
theorem put_isolated {s s' : ASt} {l k v : Nat} (hi : CInv s) (hs : aPut s l k v = some s') :
    eff s' l k = some v ∧ ∀ x k', (x ≠ l ∨ k' ≠ k) → eff s' x k' = eff s x k' := by
  obtain ⟨hi', h1, h2⟩ := put_refines hi hs
  refine ⟨by rw [get_refines hi', h1], fun x k' hne => ?_⟩
  rw [get_refines hi', get_refines hi, h2 x k' hne]

/-- **collect_exact**: `Collect(height)` on a block's trie (the entries carrying the block's own dye) is
    exactly the set of accounts the block wrote, with the values it wrote. -/
theorem collect_exact {s : ASt} (hi : CInv s) {b : ABlk} (hb : b ∈ s.blocks) (k v : Nat) :
    (∃ e, b.tbl k = some e ∧ e.dye = b.height ∧ e.val = v) ↔ b.writes k = some v := by
  constructor
  · rintro ⟨e, he, hd, hv⟩
    cases hsw : specWriter s.blocks b.label k with
    | none =>
      have := (hi.J2 b hb k hsw e he).2
      have := wf_height hi.wf b hb
      omega
    | some hv' =>
      obtain ⟨h0, v0⟩ := hv'
      have h1 := hi.J1 b hb k h0 v0 hsw
      rw [he] at h1
      cases h1
      have := ((sw_bounds hi.wf hsw).2 b hb rfl).2 hd
      rw [this, ← hv]
  · intro hw
    exact ⟨⟨v, b.height⟩, hi.J1 b hb k b.height v (sw_of_writes hi.wf b hb hw), rfl, rfl⟩

/-- **prune_exact**: making the child `l` of the stable block stable keeps the invariant, leaves exactly
    the strict descendants of `l`, does not change what any of them reads for any key, and the persisted
    accounts are the view of `l`. (`SetStableBlock` of a deeper block is this step iterated along the path.) -/
theorem prune_exact {s s' : ASt} {l : Nat} (hi : CInv s) (hs : aStable s l = some s') :
    CInv s' ∧ s'.sl = l ∧
    (∀ x, x ∈ s'.blocks ↔ x ∈ s.blocks ∧ x.label ≠ l ∧ desc s.blocks l x.label = true) ∧
    (∀ x ∈ s'.blocks, ∀ k, eff s' x.label k = eff s x.label k) ∧
    (∀ k, s'.disk k = eff s l k) := by
  have hi' := inv_stable hi hs
  refine ⟨hi', ?_, ?_, ?_, ?_⟩
  · obtain ⟨b, _, _, rfl⟩ := aStable_eq hs; rfl
  · obtain ⟨b, _, _, rfl⟩ := aStable_eq hs
    exact fun x => mem_prune_iff hi.wf x
  · intro x hx k
    rw [get_refines hi', get_refines hi, specView_stable hi hs x hx k]
  · intro k
    obtain ⟨b, hf, hp, rfl⟩ := aStable_eq hs
    obtain ⟨hb, hbl⟩ := findB_some hf
    show persist s.disk b.tbl b.height k = _
    rw [persist_eq_view hi hb hp k, get_refines hi, hbl]

/-! non-vacuity: two sibling forks below the stable block, one writes, the guards are satisfiable and the
    specification really separates the siblings -/

def demo : ASt := run (init 0 0 (fun k => if k = 7 then some 100 else none))
  [.setBlock 1 0 1, .setBlock 2 0 1, .get 2 7 [1], .put 1 7 5, .setBlock 3 1 2]

example : specView demo 1 7 = some 5 ∧ specView demo 3 7 = some 5 ∧ specView demo 2 7 = some 100 := by
  refine ⟨rfl, rfl, rfl⟩

example : ∃ s', aPut demo 3 8 9 = some s' := ⟨_, rfl⟩
example : ∃ s', aStable demo 1 = some s' := ⟨_, rfl⟩
example : CInv demo := inv_reachable _ _ _ _

/-! ## (b) LEGACY: the heap model of the code BEFORE fix fb6e64c (`putG false`): refutation by concrete witnesses -/

section Heap
open LemoModel.CowTrie LemoModel.UTree

/-- "every children backing array is owned by one node": no two distinct nodes with a non-empty
    children slice point into the same array -/
def arraysOwned (h : Heap) : Bool :=
  let ns := (List.range h.nodes.length).zip h.nodes
  ns.all (fun (i, n) => ns.all (fun (j, m) => i == j || n.len == 0 || m.len == 0 || n.arr != m.arr))

def k3a1 : Key := [3, 10, 1]
def k3a2 : Key := [3, 10, 2]
def k3a3 : Key := [3, 10, 3]
def k3a5 : Key := [3, 10, 5]
def k3b7 : Key := [3, 11, 7]

def unres (r : Res St) (d : St) : St := match r with
  | .ok s => s
  | _ => d
def unexc (r : Except SetErr St) (d : St) : St := match r with
  | .ok s => s
  | _ => d

/-- the witness of harness/corpus/C09/w2-parent-read.ops with 3-symbol keys: after a restart the stable
    block is label 0 (height 0), account 1 (key 3a2) is on disk; block 1 (height 1) writes 3a1, 3a3, 3a5;
    its child block 2 (height 2) writes 3b7 — the split case of `put`. -/
def witness (fixed : Bool) : St :=
  let s0 := openDb [(0, 0)] [(1, 102)] (some (0, 0))
  let s1 := unexc (setBlock s0 1 (some 0) 1) s0
  let s2 := unres (putAcct fixed s1 1 k3a1 0 201) s1
  let s3 := unres (putAcct fixed s2 1 k3a3 2 203) s2
  let s4 := unres (putAcct fixed s3 1 k3a5 3 204) s3
  let s5 := unexc (setBlock s4 2 (some 1) 2) s4
  unres (putAcct fixed s5 2 k3b7 4 305) s5

/-- the state after reading account 1 (3a2, persisted) through the view of `reader` -/
def afterRead (fixed : Bool) (reader : Nat) : St :=
  match getAcct (witness fixed) reader k3a2 1 with
  | .ok (s, _) => s
  | _ => witness fixed

/-- **refutation of the sharing invariant** on the model of the code before fix fb6e64c -/
theorem heap_sharing_invariant_refuted : arraysOwned (witness false).heap = false := by decide

/-- **refutation of `get_is_pure` / view isolation** on the model of the code before fix fb6e64c: block 2 sees the
    value 204 its parent wrote for 3a5; after a `Get` of another account through the PARENT's view
    (block 1) block 2 no longer finds 3a5 (it would now fall back to the stale stable value). -/
theorem heap_get_is_pure_refuted :
    peekAcct (witness false) 2 k3a5 3 = .ok (some 204) ∧
    peekAcct (afterRead false 1) 2 k3a5 3 = .ok none := by decide

/-- the persisted accounts (newest first) after `SetStableBlock(l)` -/
def persistedAfter (s : St) (l : Nat) : List (Nat × Nat) :=
  match setStable s l with
  | .ok (some (s', _)) => s'.disk
  | _ => []

/-- **refutation of persisted = view(stable)** on the model of the code before fix fb6e64c: block 1 wrote 204 for
    account 3 (3a5) and `SetStableBlock(1)` persists it — unless some `Get` went through the CHILD's view
    (block 2) before: then `Collect(1)` on block 1's trie misses account 3 and it is NOT persisted. -/
theorem heap_persist_refuted :
    peekAcct (witness false) 1 k3a5 3 = .ok (some 204) ∧
    persistedAfter (witness false) 1 = [(3, 204), (2, 203), (0, 201), (1, 102)] ∧
    persistedAfter (afterRead false 2) 1 = [(2, 203), (0, 201), (1, 102)] := by decide

/-! the same witnesses on the repaired `put` (tests, not theorems) -/
example : arraysOwned (witness true).heap = true := by decide
example : peekAcct (afterRead true 1) 2 k3a5 3 = .ok (some 204) := by decide
example : peekAcct (afterRead true 2) 1 k3a5 3 = .ok (some 204) := by decide
example : persistedAfter (afterRead true 2) 1 = [(3, 204), (2, 203), (0, 201), (1, 102)] := by decide

/-! ### the mechanism, universally -/

theorem cellsOf_setCells_self (h : Heap) (a : Nat) (c : List (Option Nat)) (ha : a < h.arrs.length) :
    cellsOf (setCells h a c) a = c := by
  simp [cellsOf, setCells, List.getElem?_set_self ha]

/-- Go's `insert(nodes, pos, node)` on a slice with spare capacity works IN PLACE: the new element is
    written at `pos` of the same backing array — under every other slice over that array. -/
theorem sliceInsert_in_place (h : Heap) (a len pos x : Nat) (hpos : pos < len)
    (hcap : len < (cellsOf h a).length) (ha : a < h.arrs.length) :
    ∃ h', sliceInsert h a len pos x = .ok (h', a, len + 1) ∧ (cellsOf h' a)[pos]? = some (some x) := by
  have hnp : ¬ pos > len := by omega
  unfold sliceInsert goAppend
  simp only [hnp, if_false, hcap, if_true]
  refine ⟨_, rfl, ?_⟩
  have hc1 : cellsOf (setCell h a len x) a = (cellsOf h a).set len (some x) := by
    unfold setCell; exact cellsOf_setCells_self h a _ ha
  have ha' : a < (setCell h a len x).arrs.length := by
    simp [setCell, setCells, ha]
  rw [cellsOf_setCells_self _ a _ ha', hc1]
  have htl : (((cellsOf h a).set len (some x)).take pos).length = pos := by
    simp only [List.length_take, List.length_set]; omega
  rw [List.append_assoc, List.append_assoc, List.getElem?_append_right (by omega), htl]
  simp

/-- the repaired split case: the copy lives in a NEW array (id = number of arrays before), so no slice that
    existed before can reach it, and the old arrays are untouched. -/
theorem copySlice_fresh (h : Heap) (a len : Nat) (hl : 0 < len) :
    (copySlice h a len).2.1 = h.arrs.length ∧
    cellsOf (copySlice h a len).1 (copySlice h a len).2.1 = (cellsOf h a).take len ∧
    ∀ a', a' < h.arrs.length → cellsOf (copySlice h a len).1 a' = cellsOf h a' := by
  have e : copySlice h a len = ({ h with arrs := h.arrs ++ [(cellsOf h a).take len] }, h.arrs.length, len) := by
    simp [copySlice, hl, allocArr]
  rw [e]
  refine ⟨rfl, ?_, ?_⟩
  · simp [cellsOf]
  · intro a' ha'
    simp [cellsOf, List.getElem?_append_left ha']

end Heap

/-! ## (c) the heap model with the repaired `put` refines the abstract machine -/

section HeapRefinement
open LemoModel.CowTrie LemoProofs.CowHeapL

variable {L : Nat} {E : Enc L}

/-- the refinement invariant holds in the freshly opened database -/
theorem heap_inv_init (E : Enc L) (sl sh : Nat) (disk : Nat → Option Nat) : HRel E hinit (init sl sh disk) :=
  hrel_init E sl sh disk

/-- **every operation preserves the invariant and succeeds** (never a Go panic / stuck state): SetBlock, Put through
    `putTopFixed` (guards as in `aPut`), Get through `getTop` (with the in-place read-through `insert`; the ghost
    `sharers` are the labels whose view gains the cached entry), one commit step of SetStableBlock -/
theorem heap_inv_step {s : HSt} {a : ASt} (hr : HRel E s a) (cop : COp) :
    ∃ s' sharers, hstep E s a cop = some s' ∧ HRel E s' (stepOp a (cop.fill sharers)) :=
  hstep_refines hr cop

theorem cinv_of {s : HSt} {a : ASt} (hr : HRel E s a) : CInv a := by
  obtain ⟨_, _, _, h⟩ := hr; exact h.inv

/-- **heap_view_refines**: what `Get` returns through the trie of ANY label (`GetTrie().Find` on the heap, else the
    persisted value) is the specified view -/
theorem heap_view_refines {s : HSt} {a : ASt} (hr : HRel E s a) (l k : Nat) :
    peekTop s.heap (s.rootOf l) (E.enc k) ((a.disk k).map (dataK k)) = .ok ((specView a l k).map (dataK k)) := by
  rw [hrel_peek hr l k, get_refines (cinv_of hr) l k]

/-- **heap_put_isolated**: a (guarded) Put through the heap succeeds, keeps the invariant, the writer then reads its
    value and every other (label, key) — siblings, ancestors, other forks, the stable block — reads what it read before -/
theorem heap_put_isolated {s : HSt} {a a' : ASt} (hr : HRel E s a) {l k v : Nat} {b : ABlk}
    (hs : aPut a l k v = some a') (hb : findB a.blocks l = some b) :
    ∃ s', hPut E s l k v b.height = some s' ∧ HRel E s' a' ∧
      peekTop s'.heap (s'.rootOf l) (E.enc k) ((a'.disk k).map (dataK k)) = .ok (some (dataK k v)) ∧
      ∀ x k', (x ≠ l ∨ k' ≠ k) →
        peekTop s'.heap (s'.rootOf x) (E.enc k') ((a'.disk k').map (dataK k')) =
        peekTop s.heap (s.rootOf x) (E.enc k') ((a.disk k').map (dataK k')) := by
  obtain ⟨s', q1, q2⟩ := hrel_put hr hs hb
  obtain ⟨p1, p2⟩ := put_isolated (cinv_of hr) hs
  refine ⟨s', q1, q2, ?_, ?_⟩
  · rw [hrel_peek q2 l k, p1]; rfl
  · intro x k' hne
    rw [hrel_peek q2 x k', hrel_peek hr x k', p2 x k' hne]

/-- **heap_get_is_pure**: a Get through the heap succeeds, returns the specified view, keeps the invariant (for some
    sharer set) and — although its read-through `insert` mutates shared nodes in place — no label reads anything
    different for any key afterwards -/
theorem heap_get_is_pure {s : HSt} {a : ASt} (hr : HRel E s a) (l k : Nat) :
    ∃ s' sharers, hGet E s l k (a.disk k) = some (s', specView a l k) ∧ HRel E s' (aGet a l k sharers).1 ∧
      (aGet a l k sharers).1.disk = a.disk ∧
      ∀ x k', peekTop s'.heap (s'.rootOf x) (E.enc k') ((a.disk k').map (dataK k')) =
              peekTop s.heap (s.rootOf x) (E.enc k') ((a.disk k').map (dataK k')) := by
  obtain ⟨s', sharers, q1, q2⟩ := hrel_get hr l k
  have hdisk : (aGet a l k sharers).1.disk = a.disk := by
    unfold aGet
    split
    · rfl
    · exact (cache_fold_frame a k (l :: sharers)).1
  refine ⟨s', sharers, by rw [q1, get_returns_view (cinv_of hr)], q2, hdisk, ?_⟩
  intro x k'
  have := hrel_peek q2 x k'
  rw [hdisk] at this
  rw [this, hrel_peek hr x k', get_is_pure (cinv_of hr)]

/-- **heap_stable_refines**: the stabilisation step on the heap (no heap change; the roots of the pruned blocks are
    dropped, LastConfirm's root becomes `l`'s) keeps the invariant, every surviving block reads what it read before,
    and the persisted accounts are the view of `l` -/
theorem heap_stable_views {s : HSt} {a a' : ASt} (hr : HRel E s a) {l : Nat} (hs : aStable a l = some a') :
    HRel E (hStable s a' l) a' ∧
    (∀ x ∈ a'.blocks, ∀ k,
      peekTop (hStable s a' l).heap ((hStable s a' l).rootOf x.label) (E.enc k) ((a'.disk k).map (dataK k)) =
      peekTop s.heap (s.rootOf x.label) (E.enc k) ((a.disk k).map (dataK k))) ∧
    (∀ k, (a'.disk k).map (dataK k) = (specView a l k).map (dataK k)) := by
  have q := hrel_stable hr hs
  obtain ⟨_, _, _, p3, p4⟩ := prune_exact (cinv_of hr) hs
  refine ⟨q, ?_, ?_⟩
  · intro x hx k
    rw [hrel_peek q x.label k, hrel_peek hr x.label k, p3 x hx k]
  · intro k; rw [p4 k, get_refines (cinv_of hr)]

/-- **heap_run_refines**: for every sequence of heap-level operations from the freshly opened database there are
    sharer sets for its reads such that the heap run succeeds, ends in a state related to the abstract run, and
    every label's view through the heap is the specification `specView` of the abstract run (so `get_refines`,
    `put_refines`, `collect_exact`, `prune_exact` of section (a) speak about the tables the heap realises) -/
theorem heap_run_refines (E : Enc L) (sl sh : Nat) (disk : Nat → Option Nat) (cops : List COp) :
    ∃ ops, ops.map eraseOp = cops ∧ ∃ s', hrun E hinit (init sl sh disk) ops = some s' ∧
      HRel E s' (run (init sl sh disk) ops) ∧
      ∀ l k, peekTop s'.heap (s'.rootOf l) (E.enc k) (((run (init sl sh disk) ops).disk k).map (dataK k)) =
        .ok ((specView (run (init sl sh disk) ops) l k).map (dataK k)) := by
  obtain ⟨ops, e1, s', e2, e3⟩ := hrun_refines cops (hrel_init E sl sh disk)
  exact ⟨ops, e1, s', e2, e3, fun l k => heap_view_refines e3 l k⟩

/-! non-vacuity: a concrete fixed-length encoding, and the demo run of section (a) replayed on the heap -/

def encDemo : Enc 3 where
  enc := fun k => [k / 100 % 10, k / 10 % 10, k % 10 + 20 * (k / 1000)]
  inj := by
    intro a b h
    simp only [List.cons.injEq, and_true] at h
    omega
  len := fun _ => rfl
  pos := by decide

/-- the hypotheses are satisfiable: the invariant holds initially, and along the demo run of section (a) -/
example : HRel encDemo hinit (init 0 0 (fun k => if k = 7 then some 100 else none)) := heap_inv_init _ _ _ _

example : ∃ ops, ops.map eraseOp = [.setBlock 1 0 1, .setBlock 2 0 1, .get 2 7, .put 1 7 5, .setBlock 3 1 2] ∧
    ∃ s', hrun encDemo hinit (init 0 0 (fun k => if k = 7 then some 100 else none)) ops = some s' := by
  obtain ⟨ops, h1, s', h2, _⟩ := heap_run_refines encDemo 0 0 (fun k => if k = 7 then some 100 else none)
    [.setBlock 1 0 1, .setBlock 2 0 1, .get 2 7, .put 1 7 5, .setBlock 3 1 2]
  exact ⟨ops, h1, s', h2⟩

/-- the heap machine really runs (kernel evaluation): the demo run with the sharer set of section (a) -/
example : (hrun encDemo hinit (init 0 0 (fun k => if k = 7 then some 100 else none))
    [.setBlock 1 0 1, .setBlock 2 0 1, .get 2 7 [1], .put 1 7 5, .setBlock 3 1 2]).isSome = true := by decide

end HeapRefinement

/-! ## (d) the machine the driver executes (`LemoModel.UTree`) refines the abstract machine -/

section UTreeRefinement
open LemoModel.CowTrie LemoModel.UTree LemoProofs.CowHeapL

variable {L : Nat} {E : Enc L}

/-- the operations of the driver (`Driver/C09.lean`: `block`, `put`, `get`, `stable`, `reopen`; keys are `E.enc k`,
    the account label is the key index) -/
inductive UOp where
  | block (l : Nat) (p : Option Nat) (h : Nat)
  | put (l k v : Nat)
  | get (l k : Nat)
  | stable (l : Nat)
  | reopen

/-- one driver step: a rejected / panicking operation leaves the state alone, exactly like `Driver.C09.step` -/
def ustep (E : Enc L) (u : St) : UOp → St
  | .block l p h => match setBlock u l p h with
    | .ok s => s
    | .error _ => u
  | .put l k v => match putAcct true u l (E.enc k) k v with
    | .ok s => s
    | _ => u
  | .get l k => match getAcct u l (E.enc k) k with
    | .ok (s, _) => s
    | _ => u
  | .stable l => match setStable u l with
    | .ok (some (s, _)) => s
    | _ => u
  | .reopen => u.reopen

def urun (E : Enc L) (u : St) (ops : List UOp) : St := ops.foldl (ustep E) u

/-- the usage guard of a `put`, stated on the driver's state: the block is unconfirmed, has no child yet, and its
    own `Collect(height)` does not yet contain the account (one Put per account per block — `Manager.Save`) -/
def PutGuardU (E : Enc L) (u : St) (l k : Nat) : Prop :=
  ∃ b, findBlk u l = some b ∧ (∀ x ∈ u.blocks, x.parent ≠ some l) ∧
    ∀ ds, collectTop u.heap b.root b.height = .ok ds → ∀ d ∈ ds, d.addr ≠ k

/-- every `put` of the run satisfies the usage guard in the state in which it is executed -/
def GuardedU (E : Enc L) : St → List UOp → Prop
  | _, [] => True
  | u, op :: ops => (match op with
      | .put l k _ => PutGuardU E u l k
      | _ => True) ∧ GuardedU E (ustep E u op) ops

/-- abstract states reachable by abstract operations and restarts -/
inductive AReach : ASt → ASt → Prop where
  | refl (a : ASt) : AReach a a
  | step {a b : ASt} (op : Op) : AReach a b → AReach a (stepOp b op)
  | restart {a b : ASt} : AReach a b → AReach a (init b.sl b.sh b.disk)

theorem AReach.steps {a b : ASt} (h : AReach a b) (ops : List Op) : AReach a (run b ops) := by
  unfold run
  induction ops generalizing b with
  | nil => exact h
  | cons op ops ih => exact ih (AReach.step op h)

/-- the initial state of a database that has a stable block (after `open` + genesis, or after any restart) -/
theorem utree_inv_open (E : Enc L) (cm dk : List (Nat × Nat)) (sl sh : Nat) (hc : ∃ c ∈ cm, c.1 = sl) :
    URel E (openDb cm dk (some (sl, sh))) (init sl sh (fun k => dk.lookup k)) :=
  urel_open E cm dk sl sh hc

/-- the usage guard on the driver's state implies the guards of `aPut` -/
theorem putGuard_abstract {u : St} {a : ASt} (hr : URel E u a) {l k : Nat} (v : Nat) (hg : PutGuardU E u l k) :
    ∃ a', aPut a l k v = some a' := by
  obtain ⟨b, hb, hleaf, hcoll⟩ := hg
  obtain ⟨ab, h1, h2, _⟩ := hr.ablk hb
  have hinv := hr.cinv
  unfold aPut
  rw [h1]
  simp only
  have hc : hasChild a.blocks l = false := by
    cases hh : hasChild a.blocks l with
    | false => rfl
    | true =>
      obtain ⟨z, hz, hzp⟩ := mem_of_hasChild hh
      obtain ⟨x, g1, _, _, g4⟩ := hr.of_amem hz
      exact absurd (by rw [g4, hzp]) (hleaf x g1)
  rw [hc]
  simp only [Bool.false_eq_true, if_false]
  have hw : ab.writes k = none := by
    cases hw : ab.writes k with
    | none => rfl
    | some v0 =>
      exfalso
      obtain ⟨e, he1, he2, he3⟩ := (collect_exact hinv (findB_some h1).1 k v0).mpr hw
      obtain ⟨q1, full, vis, q2⟩ := hr.hrel
      have hroot : (hsOf u).roots l = some b.root := by show (findBlk u l).map _ = _; rw [hb]; rfl
      obtain ⟨ds, d1, d2⟩ := rel_collect q2 hroot h1
      have hct : collectTop u.heap b.root b.height = .ok ds := by
        show collectTop (hsOf u).heap b.root b.height = _
        rw [collectTop_sim q1, h2]; exact d1
      have : (⟨k, v0⟩ : Data) ∈ ds := (d2 ⟨k, v0⟩).mpr (by
        show ab.tbl k = _
        rw [he1]; congr 1
        cases e with
        | mk ev ed => simp only at he2 he3; rw [he2, he3])
      exact hcoll ds hct _ this rfl
  rw [hw]
  simp only [Option.isSome_none, Bool.false_eq_true, if_false]
  exact ⟨_, rfl⟩

/-- **one driver step refines the abstract machine** -/
theorem utree_inv_step {u : St} {a : ASt} (hr : URel E u a) (op : UOp)
    (hg : match op with
      | .put l k _ => PutGuardU E u l k
      | _ => True) :
    ∃ a', AReach a a' ∧ URel E (ustep E u op) a' := by
  cases op with
  | block l p h =>
    show ∃ a', _ ∧ URel E (match setBlock u l p h with
      | .ok s => s
      | .error _ => u) a'
    cases hs : setBlock u l p h with
    | error e => exact ⟨a, AReach.refl a, hr⟩
    | ok u' =>
      cases p with
      | none =>
        -- with a stable block present a parentless block is rejected
        exfalso
        unfold setBlock at hs
        split at hs
        · cases hs
        · rw [hr.stable] at hs
          simp at hs
      | some p =>
        obtain ⟨a', h1, h2⟩ := urel_setBlock hr hs
        refine ⟨a', ?_, h2⟩
        have : a' = stepOp a (.setBlock l p h) := by
          show a' = (aSetBlock a l p h).getD a
          rw [h1]; rfl
        rw [this]; exact AReach.step _ (AReach.refl a)
  | put l k v =>
    obtain ⟨a', ha'⟩ := putGuard_abstract hr v hg
    obtain ⟨u', h1, h2⟩ := urel_put hr ha'
    refine ⟨a', ?_, ?_⟩
    · have : a' = stepOp a (.put l k v) := by
        show a' = (aPut a l k v).getD a
        rw [ha']; rfl
      rw [this]; exact AReach.step _ (AReach.refl a)
    · show URel E (match putAcct true u l (E.enc k) k v with
        | .ok s => s
        | _ => u) a'
      rw [h1]; exact h2
  | get l k =>
    show ∃ a', _ ∧ URel E (match getAcct u l (E.enc k) k with
      | .ok (s, _) => s
      | _ => u) a'
    by_cases hl : (findBlk u l).isSome ∨ ∃ c ∈ u.committed, c.1 = l
    · obtain ⟨u', sharers, h1, h2⟩ := urel_get hr l k hl
      refine ⟨(aGet a l k sharers).1, AReach.step (.get l k sharers) (AReach.refl a), ?_⟩
      rw [h1]; exact h2
    · have h1 : findBlk u l = none := by
        cases hf : findBlk u l with
        | none => rfl
        | some b => exact absurd (Or.inl (by rw [hf]; rfl)) hl
      have h2 : ∀ c ∈ u.committed, c.1 ≠ l := fun c hc e => hl (Or.inr ⟨c, hc, e⟩)
      rw [getAcct_unknown h1 h2]
      exact ⟨a, AReach.refl a, hr⟩
  | stable l =>
    show ∃ a', _ ∧ URel E (match setStable u l with
      | .ok (some (s, _)) => s
      | _ => u) a'
    cases hf : findBlk u l with
    | none => rw [setStable_unknown hf]; exact ⟨a, AReach.refl a, hr⟩
    | some b =>
      obtain ⟨u', rm, cs, h1, h2, _⟩ := urel_setStable hr hf
      rw [h1]
      exact ⟨_, (AReach.refl a).steps _, h2⟩
  | reopen => exact ⟨_, AReach.restart (AReach.refl a), urel_reopen hr⟩

theorem AReach.trans {a b c : ASt} (h1 : AReach a b) (h2 : AReach b c) : AReach a c := by
  induction h2 with
  | refl => exact h1
  | step op _ ih => exact AReach.step op ih
  | restart _ ih => exact AReach.restart ih

/-- **utree_run_refines**: every run of the driver's machine whose Puts respect the usage guard stays related to a
    state of the abstract machine (reached by abstract operations, with sharer sets for the reads, and restarts) -/
theorem utree_run_refines : ∀ (ops : List UOp) {u : St} {a : ASt}, URel E u a → GuardedU E u ops →
    ∃ a', AReach a a' ∧ URel E (urun E u ops) a'
  | [], u, a, hr, _ => ⟨a, AReach.refl a, hr⟩
  | op :: ops, u, a, hr, ⟨g1, g2⟩ => by
    obtain ⟨a1, r1, h1⟩ := utree_inv_step hr op g1
    obtain ⟨a2, r2, h2⟩ := utree_run_refines ops h1 g2
    exact ⟨a2, r1.trans r2, h2⟩

/-- **utree_view_refines**: in a related state, what `Get` would return through ANY label whose trie the driver's
    model hands out is the specified view -/
theorem utree_view_refines {u : St} {a : ASt} (hr : URel E u a) (l k : Nat)
    (hl : (findBlk u l).isSome ∨ ∃ c ∈ u.committed, c.1 = l) :
    peekAcct u l (E.enc k) k = .ok (specView a l k) := by
  have hroot : rootOf u l = .ok ((hsOf u).rootOf l) := by
    cases hf : findBlk u l with
    | some b => exact rootOf_live (corr_hsOf u) hf
    | none =>
      rcases hl with h | ⟨c, hc1, hc2⟩
      · rw [hf] at h; cases h
      · cases hfind : u.committed.find? (fun c => c.1 == l) with
        | none =>
          have := List.find?_eq_none.mp hfind c hc1
          simp [hc2] at this
        | some cm => exact rootOf_committed (corr_hsOf u) hf hfind
  unfold peekAcct
  rw [hroot, bind_ok]
  have hd : diskGet u k = (a.disk k).map (dataK k) := by
    unfold diskGet dataK
    rw [hr.disk k]
  have := heap_view_refines hr.hrel l k
  rw [hd]
  show (peekTop (hsOf u).heap _ _ _ >>= _) = _
  rw [this, bind_ok]
  cases specView a l k <;> rfl

/-- a chain of accepted stabilisation steps: the survivors read what they read before, and the persisted accounts
    are the view of the LAST committed block (the iterated `prune_exact`) -/
theorem stable_chain_exact : ∀ (cs : List Nat) {a : ASt}, CInv a → StableChain a cs →
    CInv (run a (cs.map Op.stable)) ∧
    (∀ x ∈ (run a (cs.map Op.stable)).blocks, x ∈ a.blocks ∧ ∀ k, eff (run a (cs.map Op.stable)) x.label k = eff a x.label k) ∧
    (∀ c ∈ cs, ∃ b ∈ a.blocks, b.label = c) ∧
    (∀ l, cs.getLast? = some l → (run a (cs.map Op.stable)).sl = l ∧ ∀ k, (run a (cs.map Op.stable)).disk k = eff a l k)
  | [], a, hi, _ => ⟨hi, fun x hx => ⟨hx, fun _ => rfl⟩, (fun c hc => by cases hc), (fun l hl => by cases hl)⟩
  | c :: cs, a, hi, ⟨a1, e1, e2⟩ => by
    rw [run_stable_cons a c cs e1]
    obtain ⟨hi1, p1, p2, p3, p4⟩ := prune_exact hi e1
    obtain ⟨q1, q2, q3, q4⟩ := stable_chain_exact cs hi1 e2
    obtain ⟨b, hb1, _, _⟩ := aStable_eq e1
    refine ⟨q1, ?_, ?_, ?_⟩
    · intro x hx
      obtain ⟨g1, g2⟩ := q2 x hx
      exact ⟨((p2 x).mp g1).1, fun k => (g2 k).trans (p3 x g1 k)⟩
    · intro c' hc'
      rcases List.mem_cons.mp hc' with rfl | h
      · exact ⟨b, (findB_some hb1).1, (findB_some hb1).2⟩
      · obtain ⟨b', g1, g2⟩ := q3 c' h
        exact ⟨b', ((p2 b').mp g1).1, g2⟩
    · intro l hl
      cases cs with
      | nil =>
        simp only [List.getLast?_singleton, Option.some.injEq] at hl
        subst hl
        exact ⟨p1, p4⟩
      | cons c2 cs2 =>
        rw [List.getLast?_cons_cons] at hl
        obtain ⟨g1, g2⟩ := q4 l hl
        refine ⟨g1, fun k => ?_⟩
        rw [g2 k]
        have hmem : l ∈ c2 :: cs2 := List.mem_of_getLast? hl
        obtain ⟨b', h1, h2⟩ := q3 l hmem
        rw [← h2]; exact p3 b' h1 k

/-- **utree_setStable** (`SetStableBlock` of the driver's model, any depth): for an unconfirmed block `l` the model
    commits the WHOLE path from the old stable block; afterwards the stable block is `l`, the relation holds, every
    surviving block reads what it read before the call, and the persisted accounts (Collect + batch write on the
    heap, iterated along the path) are the view `l` had before the call -/
theorem utree_setStable {u : St} {a : ASt} (hr : URel E u a) {l : Nat} {b : Blk} (hb : findBlk u l = some b) :
    ∃ u' rm a', setStable u l = .ok (some (u', rm)) ∧ URel E u' a' ∧ a'.sl = l ∧
      (∀ x ∈ a'.blocks, x ∈ a.blocks ∧ ∀ k, peekAcct u' x.label (E.enc k) k = peekAcct u x.label (E.enc k) k) ∧
      (∀ k, u'.disk.lookup k = specView a l k) := by
  obtain ⟨u', rm, cs, h1, h2, h3, h4, h5, _⟩ := urel_setStable hr hb
  obtain ⟨q1, q2, _, q4⟩ := stable_chain_exact cs hr.cinv h3
  obtain ⟨g1, g2⟩ := q4 l h5
  refine ⟨u', rm, _, h1, h2, g1, ?_, ?_⟩
  · intro x hx
    obtain ⟨m1, m2⟩ := q2 x hx
    refine ⟨m1, fun k => ?_⟩
    have hl' : (findBlk u' x.label).isSome := (h2.live_iff x.label).mpr (by rw [findB_of_mem q1.wf x hx]; rfl)
    have hl0 : (findBlk u x.label).isSome := (hr.live_iff x.label).mpr (by rw [findB_of_mem hr.cinv.wf x m1]; rfl)
    rw [utree_view_refines h2 x.label k (Or.inl hl'), utree_view_refines hr x.label k (Or.inl hl0),
      ← get_refines q1, ← get_refines hr.cinv, m2 k]
  · intro k
    rw [h2.disk k, g2 k, get_refines hr.cinv]

/-! non-vacuity of (d): the relation holds in an opened database, and a guarded run with a Put exists -/

def uDemo : St := openDb [(0, 0)] [(7, 100)] (some (0, 0))

example : URel encDemo uDemo (init 0 0 (fun k => [(7, 100)].lookup k)) :=
  utree_inv_open encDemo _ _ 0 0 ⟨(0, 0), by simp, rfl⟩

example : GuardedU encDemo uDemo [.block 1 (some 0) 1, .block 2 (some 0) 1, .get 2 7, .put 1 7 5, .stable 1] := by
  refine ⟨trivial, trivial, trivial, ?_, trivial, trivial⟩
  refine ⟨⟨1, 1, some 0, 0⟩, by decide, by decide, ?_⟩
  intro ds hds d hd
  have : collectTop (urun encDemo uDemo [.block 1 (some 0) 1, .block 2 (some 0) 1, .get 2 7]).heap 0 1 = .ok [] := by decide
  have hds' : collectTop (urun encDemo uDemo [.block 1 (some 0) 1, .block 2 (some 0) 1, .get 2 7]).heap 0 1 = .ok ds := hds
  rw [this] at hds'
  cases hds'
  cases hd

end UTreeRefinement

end LemoProofs.C09

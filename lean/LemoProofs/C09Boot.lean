/-
  C09 (f) — THE GENESIS BOOTSTRAP of the machine the driver executes (`LemoModel.UTree`): from the EMPTY database
  (`openDb [] [] none`: no stable block, nothing persisted) through `SetBlock` of height-0 blocks, their `Put`s (dye 0 = the
  dye of the root node and of the read-through cache), `Get`s, restarts, up to the FIRST `SetStableBlock` — and from there
  on the refinement of section (d) (`URel`) takes over, WITHOUT a restart in between.

    utree_inv_empty       the genesis-phase invariant `GRel` holds in the empty database
    genesis_step          every driver step keeps `GRel` (for an updated ghost table) — or it is the first accepted
                          `SetStableBlock(g)` and leads to `URel E u' (aGenesis w g)`
    genesis_view          a height-0 block reads exactly what IT holds; in particular never what another height-0 block wrote
                          (the tries of the height-0 blocks are disjoint: each `SetBlock` builds a fresh `NewEmptyDatabase()`)
    genesis_put_effect    EVERY Put in the genesis phase (no usage guard): succeeds; the writer then holds the FIRST value it
                          ever wrote for the account (a repeated Put of the same account is DROPPED: the node already
                          carries dye 0 = the block's dye); every other (block, account) reads what it read before
    genesis_get_pure      a Get changes nothing (nothing is persisted, so nothing is cached: the dye-0 collision between
                          "written by a height-0 block" and "cached from disk" cannot be observed before the first stable block)
    utree_inv_genesis     the first `SetStableBlock(g)`: succeeds, the dropped list is exactly the OTHER height-0 blocks in
                          insertion order, the new state is `URel`-related to the abstract machine whose stable block is `g`
                          (height 0), whose stable table/persisted accounts are what `g` held, with no unconfirmed block
    utree_boot_refines    run-level: every run of the driver's machine from the EMPTY database whose Puts respect the usage
                          guard is either still in the genesis phase (`GRel`) or related to SOME state of the abstract machine
                          (`URel`) — the statement throws the history link away ("some abstract state explains the heap")
    utree_boot_reach      the same run-level statement WITH the history link: the abstract state is `AReach`-able from
                          `aGenesis w' g` for some genesis block `g` and some ghost table `w'` of the genesis phase
  The run-level theorems ask `GuardedU` for the WHOLE run, i.e. also for the Puts of the genesis phase, although the proof
  never uses the guard there (`genesis_put_effect` needs none): they therefore say nothing about runs with duplicate /
  unknown-label Puts in the genesis phase; for those only the step theorems (`genesis_step`, `genesis_put_effect`) apply.
  ASSUMPTION made explicit: the phase starts from the empty database.  A database with persisted accounts but no stable
  block (only reachable by a crash inside the very first `blockCommit`) is outside `GRel`.
-/
import LemoProofs.C09
import LemoProofs.Lemmas.CowHeapGenesis
set_option linter.unusedSimpArgs false
set_option linter.unusedVariables false
namespace LemoProofs.C09
open LemoModel.CowTrie LemoModel.CowSpec LemoProofs.CowSpecL LemoModel.UTree LemoProofs.CowHeapL

variable {L : Nat} {E : Enc L}

theorem utree_inv_empty (E : Enc L) : GRel E (openDb [] [] none) (fun _ _ => none) := grel_open E

theorem putAcct_unknown {u : St} {l addr val : Nat} {key : Key} (h1 : findBlk u l = none) (h2 : u.committed = []) :
    putAcct true u l key addr val = .panic := by
  unfold putAcct actDb
  rw [h1, h2]
  rfl

/-- **genesis_view** -/
theorem genesis_view {u : St} {w : Nat → Nat → Option Nat} (hr : GRel E u w) {l : Nat} {b : Blk}
    (hb : findBlk u l = some b) (k : Nat) : peekAcct u l (E.enc k) k = .ok (w l k) := grel_view hr hb k

/-- **genesis_get_pure**: before the first stable block a Get never changes the state -/
theorem genesis_get_pure {u s : St} {w : Nat → Nat → Option Nat} (hr : GRel E u w) {l k : Nat} {v : Option Nat}
    (h : getAcct u l (E.enc k) k = .ok (s, v)) : s = u := getAcct_nodisk hr.disk h

/-- **genesis_put_effect** — the exact effect of ANY Put before the first stable block -/
theorem genesis_put_effect {u : St} {w : Nat → Nat → Option Nat} (hr : GRel E u w) {l : Nat} {b : Blk}
    (hb : findBlk u l = some b) (k v : Nat) :
    ∃ u', putAcct true u l (E.enc k) k v = .ok u' ∧ GRel E u' (wPut w l k v) ∧
      ∀ x bx, findBlk u x = some bx → ∀ k',
        peekAcct u x (E.enc k') k' = .ok (w x k') ∧
        peekAcct u' x (E.enc k') k' = .ok (if x = l ∧ k' = k then some ((w l k).getD v) else w x k') := by
  obtain ⟨u', h1, h2⟩ := grel_put hr hb k v
  refine ⟨u', h1, h2, ?_⟩
  intro x bx hx k'
  refine ⟨grel_view hr hx k', ?_⟩
  obtain ⟨h', r', hu'⟩ := putAcct_form hb h1
  have hx' : ∃ bx', findBlk u' x = some bx' := by
    rw [hu', findBlk_setRoot]
    show ∃ bx', (findBlk u x).map _ = some bx'
    rw [hx]; exact ⟨_, rfl⟩
  obtain ⟨bx', hbx'⟩ := hx'
  rw [grel_view h2 hbx' k']
  rfl

/-- **utree_inv_genesis** — the first `SetStableBlock` -/
theorem utree_inv_genesis {u : St} {w : Nat → Nat → Option Nat} (hr : GRel E u w) {g : Nat} {b : Blk}
    (hb : findBlk u g = some b) :
    ∃ u', setStable u g = .ok (some (u', (u.blocks.filter (fun x => x.label != g)).map (·.label))) ∧
      URel E u' (aGenesis w g) ∧ (∀ k, u'.disk.lookup k = w g k) ∧ u'.blocks = [] ∧ u'.stable = some (g, 0) := by
  obtain ⟨u', h1, h2⟩ := grel_stable hr hb
  refine ⟨u', h1, h2, h2.disk, ?_, h2.stable⟩
  have := h2.ord
  cases hbl : u'.blocks with
  | nil => rfl
  | cons x xs => rw [hbl] at this; simp [aGenesis] at this

/-- **genesis_step**: one driver step in the genesis phase -/
theorem genesis_step {u : St} {w : Nat → Nat → Option Nat} (hr : GRel E u w) (op : UOp) :
    (∃ w', GRel E (ustep E u op) w') ∨ (∃ g, op = .stable g ∧ URel E (ustep E u op) (aGenesis w g)) := by
  cases op with
  | block l p h =>
    left
    show ∃ w', GRel E (match setBlock u l p h with
      | .ok s => s
      | .error _ => u) w'
    cases hs : setBlock u l p h with
    | error e => exact ⟨w, hr⟩
    | ok u' => exact ⟨_, grel_setBlock hr hs⟩
  | put l k v =>
    left
    show ∃ w', GRel E (match putAcct true u l (E.enc k) k v with
      | .ok s => s
      | _ => u) w'
    cases hf : findBlk u l with
    | none => rw [putAcct_unknown hf hr.comm]; exact ⟨w, hr⟩
    | some b =>
      obtain ⟨u', h1, h2⟩ := grel_put hr hf k v
      rw [h1]; exact ⟨_, h2⟩
  | get l k =>
    left
    show ∃ w', GRel E (match getAcct u l (E.enc k) k with
      | .ok (s, _) => s
      | _ => u) w'
    cases hg : getAcct u l (E.enc k) k with
    | panic => exact ⟨w, hr⟩
    | stuck => exact ⟨w, hr⟩
    | ok pr =>
      obtain ⟨s, v⟩ := pr
      have := getAcct_nodisk hr.disk hg
      subst this
      exact ⟨w, hr⟩
  | stable l =>
    cases hf : findBlk u l with
    | none =>
      left
      show ∃ w', GRel E (match setStable u l with
        | .ok (some (s, _)) => s
        | _ => u) w'
      rw [setStable_unknown hf]; exact ⟨w, hr⟩
    | some b =>
      right
      obtain ⟨u', h1, h2⟩ := grel_stable hr hf
      refine ⟨l, rfl, ?_⟩
      show URel E (match setStable u l with
        | .ok (some (s, _)) => s
        | _ => u) _
      rw [h1]; exact h2
  | reopen => exact Or.inl ⟨_, grel_reopen hr⟩

/-- **utree_boot_refines**: from the genesis phase on, every guarded run of the driver's machine is either still in the
    genesis phase or related to a state of the abstract machine — in particular every run from the EMPTY database -/
theorem utree_boot_refines : ∀ (ops : List UOp) {u : St} {w : Nat → Nat → Option Nat}, GRel E u w → GuardedU E u ops →
    (∃ w', GRel E (urun E u ops) w') ∨ (∃ a, URel E (urun E u ops) a)
  | [], u, w, hr, _ => Or.inl ⟨w, hr⟩
  | op :: ops, u, w, hr, ⟨_, g2⟩ => by
    rcases genesis_step hr op with ⟨w', h⟩ | ⟨g, _, h⟩
    · exact utree_boot_refines ops h g2
    · obtain ⟨a2, _, h2⟩ := utree_run_refines ops h g2
      exact Or.inr ⟨a2, h2⟩

theorem utree_boot_from_empty (E : Enc L) (ops : List UOp) (hg : GuardedU E (openDb [] [] none) ops) :
    (∃ w', GRel E (urun E (openDb [] [] none) ops) w') ∨ (∃ a, URel E (urun E (openDb [] [] none) ops) a) :=
  utree_boot_refines ops (utree_inv_empty E) hg

/-- **utree_boot_reach**: `utree_boot_refines` with the history link kept: once the first `SetStableBlock(g)` has been
    accepted, the abstract state related to the driver's state is REACHED (`AReach`: abstract operations and restarts)
    from `aGenesis w' g`, where `w'` is the ghost table of the genesis phase at that moment (`GRel E _ w'`: what every
    height-0 block held).  The guard is still asked for the whole run (unused in the genesis phase). -/
theorem utree_boot_reach : ∀ (ops : List UOp) {u : St} {w : Nat → Nat → Option Nat}, GRel E u w → GuardedU E u ops →
    (∃ w', GRel E (urun E u ops) w') ∨
    (∃ w' g a, AReach (aGenesis w' g) a ∧ URel E (urun E u ops) a)
  | [], u, w, hr, _ => Or.inl ⟨w, hr⟩
  | op :: ops, u, w, hr, ⟨_, g2⟩ => by
    rcases genesis_step hr op with ⟨w', h⟩ | ⟨g, _, h⟩
    · exact utree_boot_reach ops h g2
    · obtain ⟨a2, r2, h2⟩ := utree_run_refines ops h g2
      exact Or.inr ⟨w, g, a2, r2, h2⟩

/-! non-vacuity and the dye-0 behaviour on a concrete run (kernel evaluation): two height-0 blocks, each writes account 7;
    neither sees the other's value; a second Put of block 0 is dropped; `SetStableBlock(0)` drops block 1 and persists 5 -/

def bootDemo : St := urun encDemo (openDb [] [] none) [.block 0 none 0, .block 1 none 0, .put 0 7 5, .put 1 7 6, .put 0 7 9]

example : GRel encDemo (openDb [] [] none) (fun _ _ => none) := utree_inv_empty encDemo

example : peekAcct bootDemo 0 (encDemo.enc 7) 7 = .ok (some 5) ∧ peekAcct bootDemo 1 (encDemo.enc 7) 7 = .ok (some 6) := by decide

example : (match setStable bootDemo 0 with
    | .ok (some (s, rm)) => (s.disk, rm, s.blocks.length, s.stable)
    | _ => ([], [], 99, none)) = ([(7, 5)], [1], 0, some (0, 0)) := by decide

end LemoProofs.C09

/-
  C09 (e) — the TREE QUERIES of the machine the driver executes (`LemoModel.UTree`), against the abstract parent map
  of `LemoModel.CowSpec` (`URel u a`):

    isExist_spec        `IsExistByHash`   = unconfirmed in the abstract tree, or in the block store
    iterate_spec        `IterateUnConfirms` (the `Walk` from LastConfirm) visits exactly the unconfirmed blocks
    anc_spec            `GetUnConfirmByHeight(h, leaf)` for sh < h ≤ height(leaf): the ancestor-or-self of `leaf` at height `h`
    anc_low / anc_unknown / anc_above
                        the other three answers (h ≤ sh: not found; unknown leaf: not found; h above the leaf: THE LEAF ITSELF —
                        Go's loop `for leaf != nil && leaf.Height() > height` does not run, the leaf is returned although its
                        height is smaller than the one asked for)
    dropped_step_spec   one `commit` iteration of `SetStableBlock`: the dropped-block list, as a SET, is exactly the
                        unconfirmed blocks that are neither the committed block nor its strict descendants
                        (there is NO theorem for a `SetStableBlock` of depth > 1 as a whole: the multi-level dropped list is
                        characterised per commit iteration only)
    `isExist_spec`: only the first disjunct (`URel.live_iff`: unconfirmed in the model ⇔ unconfirmed in the abstract tree) is
    content; the second disjunct is the model's OWN `committed` list on both sides of the ⇔ — nothing here characterises
    `committed` (e.g. "exactly the blocks on stabilised paths, never dropped ones"); that list is tied by the dumps only.
  The ORDER of the dropped list / of the iteration (pre-order, children in insertion order) is what the model computes
  and what the correspondence compares; it is not specified by a theorem.
-/
import LemoProofs.Lemmas.CowHeapUStable
set_option linter.unusedSimpArgs false
set_option linter.unusedVariables false
namespace LemoProofs.C09
open LemoModel.CowTrie LemoModel.CowSpec LemoProofs.CowSpecL LemoModel.UTree LemoProofs.CowHeapL

variable {L : Nat} {E : Enc L}

/-! ### IsExistByHash -/

theorem isExist_spec {u : St} {a : ASt} (hr : URel E u a) (l : Nat) :
    isExist u l = true ↔ ((findB a.blocks l).isSome = true ∨ ∃ c ∈ u.committed, c.1 = l) := by
  unfold isExist
  rw [Bool.or_eq_true, List.any_eq_true]
  constructor
  · rintro (h | ⟨c, hc, he⟩)
    · exact Or.inl ((hr.live_iff l).mp h)
    · exact Or.inr ⟨c, hc, by simpa using he⟩
  · rintro (h | ⟨c, hc, he⟩)
    · exact Or.inl ((hr.live_iff l).mpr h)
    · exact Or.inr ⟨c, hc, by simpa using he⟩

/-- the stable block exists -/
theorem isExist_stable {u : St} {a : ASt} (hr : URel E u a) : isExist u a.sl = true :=
  (isExist_spec hr a.sl).mpr (Or.inr hr.comm)

/-! ### Walk -/

theorem walk_sub : ∀ (f : Nat) (bs : List Blk) (p ex : Option Nat) (z : Blk), z ∈ walk f bs p ex → z ∈ bs
  | 0, _, _, _, _, h => by simp [walk] at h
  | f + 1, bs, p, ex, z, h => by
    rw [walk, List.mem_flatMap] at h
    obtain ⟨b0, hb0, hz⟩ := h
    rcases List.mem_cons.mp hz with rfl | hz'
    · exact (List.mem_filter.mp hb0).1
    · exact walk_sub f bs _ ex z hz'

/-- excluding a label that no block carries excludes nothing -/
theorem walk_noex (ex : Nat) : ∀ (f : Nat) (bs : List Blk) (p : Option Nat), (∀ b ∈ bs, b.label ≠ ex) →
    walk f bs p (some ex) = walk f bs p none
  | 0, _, _, _ => rfl
  | f + 1, bs, p, h => by
    rw [walk, walk]
    have e1 : bs.filter (fun b => b.parent == p && some b.label != some ex) =
        bs.filter (fun b => b.parent == p && some b.label != none) := by
      apply List.filter_congr
      intro b hb
      have := h b hb
      have a1 : (some b.label != some ex) = true := by
        rw [bne_iff_ne]; intro e; exact this (Option.some.inj e)
      have a2 : (some b.label != (none : Option Nat)) = true := by
        rw [bne_iff_ne]; intro e; cases e
      rw [a1, a2]
    have e2 : (fun (b : Blk) => b :: walk f bs (some b.label) (some ex)) =
        (fun (b : Blk) => b :: walk f bs (some b.label) none) := by
      funext b; rw [walk_noex ex f bs _ h]
    rw [e1, e2]

theorem label_le_sum : ∀ (bs : List ABlk) (b : ABlk), b ∈ bs → b.label ≤ (bs.map (·.label)).foldr (· + ·) 0
  | [], _, h => by cases h
  | y :: ys, b, h => by
    simp only [List.map_cons, List.foldr_cons]
    rcases List.mem_cons.mp h with rfl | h'
    · omega
    · have := label_le_sum ys b h'; omega

theorem exists_fresh (a : ASt) : ∃ ex, ex ≠ a.sl ∧ ∀ b ∈ a.blocks, b.label ≠ ex := by
  refine ⟨a.sl + 1 + (a.blocks.map (·.label)).foldr (· + ·) 0, by omega, ?_⟩
  intro b hb
  have := label_le_sum a.blocks b hb
  omega

/-- nothing descends from a label that is neither the stable block nor an unconfirmed block -/
theorem desc_fresh {sl sh ex : Nat} {bs : List ABlk} (hwf : WF sl sh bs) (h1 : ex ≠ sl) (h2 : ∀ b ∈ bs, b.label ≠ ex)
    (x : Nat) : desc bs ex x = false := by
  cases hd : desc bs ex x with
  | false => rfl
  | true =>
    exfalso
    obtain ⟨w, hw, hwp⟩ := desc_parent hd
    rcases wf_parent_height hwf w hw with ⟨hp, _⟩ | ⟨p, hp, hpl, _⟩
    · exact h1 (hwp.symm.trans hp)
    · exact h2 p hp (hpl.trans hwp)

/-- **iterate_spec**: `IterateUnConfirms` (`LastConfirm.Walk`) visits exactly the unconfirmed blocks of the abstract tree -/
theorem iterate_spec {u : St} {a : ASt} (hr : URel E u a) (x : Nat) :
    x ∈ iterate u ↔ (findB a.blocks x).isSome = true := by
  obtain ⟨ex, hex1, hex2⟩ := exists_fresh a
  have hwf := hr.cinv.wf
  have hexu : ∀ b ∈ u.blocks, b.label ≠ ex := by
    intro b hb e
    obtain ⟨ab, _, q2, q3, _, _⟩ := hr.of_mem hb
    exact hex2 ab q2 (q3.trans e)
  unfold iterate
  rw [hr.stableLabel, ← walk_noex ex _ _ _ hexu, List.mem_map]
  constructor
  · rintro ⟨z, hz, rfl⟩
    have hzm := walk_sub _ _ _ _ z hz
    apply (hr.live_iff z.label).mp
    rw [hr.self z hzm]; rfl
  · intro hx
    cases hf : findB a.blocks x with
    | none => rw [hf] at hx; cases hx
    | some ax =>
      obtain ⟨haxm, haxl⟩ := findB_some hf
      obtain ⟨z, hz1, hz2, _, _⟩ := hr.of_amem haxm
      refine ⟨z, ?_, by rw [hz2, haxl]⟩
      apply (walk_mem hr ex _ a.sl z).mpr
      refine ⟨hz1, ?_⟩
      have hh := wf_height hwf ax haxm
      have hb := height_bound hwf ax haxm
      have := AB.of_not_desc hwf (ax.height - a.sh) ax haxm (by omega) (hex2 ax haxm) (desc_fresh hwf hex1 hex2 _)
      rw [hz2]
      exact AB.mono this (by rw [hr.len]; omega)

/-! ### GetUnConfirmByHeight -/

theorem anc_go {u : St} {a : ASt} (hr : URel E u a) (h : Nat) (hsh : a.sh < h) : ∀ (d fuel l : Nat) (b : Blk),
    findBlk u l = some b → b.height = h + d → d < fuel →
    ∃ x ax, unconfirmByHeight.go u h a.sl fuel (some l) = .ok (some x) ∧ findB a.blocks x = some ax ∧ ax.height = h ∧
      (x = l ∨ desc a.blocks x l = true)
  | _, 0, _, _, _, _, hf => by omega
  | 0, fuel + 1, l, b, hb, hh, _ => by
    obtain ⟨ab, h1, h2, _⟩ := hr.ablk hb
    obtain ⟨_, hbl⟩ := findBlk_some hb
    refine ⟨l, ab, ?_, h1, by omega, Or.inl rfl⟩
    unfold unconfirmByHeight.go
    simp only
    rw [hb]
    simp only
    rw [if_neg (by omega), hbl]
  | d + 1, fuel + 1, l, b, hb, hh, hf => by
    obtain ⟨ab, h1, h2, h3⟩ := hr.ablk hb
    obtain ⟨habm, habl⟩ := findB_some h1
    unfold unconfirmByHeight.go
    simp only
    rw [hb]
    simp only
    rw [if_pos (by omega), h3]
    rcases wf_parent_height hr.cinv.wf ab habm with ⟨_, hph⟩ | ⟨pa, hpa, hpl, hph⟩
    · omega
    · obtain ⟨pb, g1, g2, _⟩ := hr.blk (findB_of_mem hr.cinv.wf pa hpa)
      rw [hpl] at g1
      obtain ⟨x, ax, e1, e2, e3, e4⟩ := anc_go hr h hsh d fuel ab.parent pb g1 (by omega) (by omega)
      refine ⟨x, ax, e1, e2, e3, Or.inr ?_⟩
      rw [← habl]
      exact desc_child hr.cinv.wf ab habm rfl (e4.elim (fun e => Or.inl e.symm) Or.inr)

/-- **anc_spec**: for an unconfirmed `leaf` and a height above the stable one and not above the leaf's,
    `GetUnConfirmByHeight` returns the ancestor-or-self of `leaf` (in the abstract parent map) whose height is `h` -/
theorem anc_spec {u : St} {a : ASt} (hr : URel E u a) {leaf h : Nat} {b : Blk} (hb : findBlk u leaf = some b)
    (h1 : a.sh < h) (h2 : h ≤ b.height) :
    ∃ x ax, unconfirmByHeight u h leaf = .ok (some x) ∧ findB a.blocks x = some ax ∧ ax.height = h ∧
      (x = leaf ∨ desc a.blocks x leaf = true) := by
  obtain ⟨ab, q1, q2, _⟩ := hr.ablk hb
  have hbd := height_bound hr.cinv.wf ab (findB_some q1).1
  obtain ⟨x, ax, e1, e2, e3, e4⟩ := anc_go hr h h1 (b.height - h) (u.blocks.length + 2) leaf b hb (by omega)
    (by rw [hr.len]; omega)
  refine ⟨x, ax, ?_, e2, e3, e4⟩
  unfold unconfirmByHeight
  rw [hr.stable]
  simp only
  rw [if_neg (by omega), hb]
  exact e1

/-- a height at or below the stable one: ErrBlockNotExist -/
theorem anc_low {u : St} {a : ASt} (hr : URel E u a) {leaf h : Nat} (h1 : h ≤ a.sh) :
    unconfirmByHeight u h leaf = .ok none := by
  unfold unconfirmByHeight
  rw [hr.stable]
  simp only
  rw [if_pos h1]

/-- an unknown leaf: ErrBlockNotExist -/
theorem anc_unknown {u : St} {a : ASt} (hr : URel E u a) {leaf h : Nat} (h1 : findBlk u leaf = none) :
    unconfirmByHeight u h leaf = .ok none := by
  unfold unconfirmByHeight
  rw [hr.stable]
  simp only
  split
  · rfl
  · rw [h1]

/-- a height ABOVE the leaf's: the code returns the leaf itself (a block of a smaller height than asked for) -/
theorem anc_above {u : St} {a : ASt} (hr : URel E u a) {leaf h : Nat} {b : Blk} (hb : findBlk u leaf = some b)
    (h1 : a.sh < h) (h2 : b.height < h) : unconfirmByHeight u h leaf = .ok (some leaf) := by
  obtain ⟨_, hbl⟩ := findBlk_some hb
  unfold unconfirmByHeight
  rw [hr.stable]
  simp only
  rw [if_neg (by omega), hb]
  simp only
  unfold unconfirmByHeight.go
  simp only
  rw [hb]
  simp only
  rw [if_neg (by omega), hbl]

/-! ### the dropped-block list of SetStableBlock -/

theorem commitOne_rm {u u' : St} {b : Blk} {rm : List Nat} (h : commitOne u b = .ok (u', rm)) :
    rm = (walk (u.blocks.length + 1) u.blocks (stableLabel u) (some b.label)).map (·.label) ∧
    u'.blocks = u.blocks.filter (fun x => !(rm.contains x.label) && x.label != b.label) := by
  unfold commitOne at h
  cases hc : collectTop u.heap b.root b.height with
  | panic => rw [hc] at h; cases h
  | stuck => rw [hc] at h; cases h
  | ok ds =>
    rw [hc, bind_ok] at h
    simp only [Res.ok.injEq, Prod.mk.injEq] at h
    obtain ⟨h1, h2⟩ := h
    subst h2
    subst h1
    exact ⟨rfl, rfl⟩

/-- **dropped_step_spec**: one `commit` iteration on ANY block `b` with an unconfirmed label (the statement does not ask
    `b` to be a child of the stable block, although `SetStableBlock` only ever commits such a child): the
    dropped-block list is, as a set, the unconfirmed blocks that are neither `b` nor strict descendants of `b` -/
theorem dropped_step_spec {u u' : St} {a : ASt} (hr : URel E u a) {b : Blk} {ab : ABlk}
    (hab : findB a.blocks b.label = some ab) {rm : List Nat} (hc : commitOne u b = .ok (u', rm)) (x : Nat) :
    x ∈ rm ↔ ((findB a.blocks x).isSome = true ∧ x ≠ b.label ∧ desc a.blocks b.label x = false) := by
  have hwf := hr.cinv.wf
  have hlsl : b.label ≠ a.sl := by
    rw [← (findB_some hab).2]; exact wf_label_ne hwf ab (findB_some hab).1
  rw [(commitOne_rm hc).1, List.mem_map, hr.stableLabel]
  constructor
  · rintro ⟨z, hz, rfl⟩
    obtain ⟨g1, g2⟩ := (walk_mem hr b.label _ a.sl z).mp hz
    obtain ⟨g3, g4⟩ := g2.avoids hwf hlsl (Or.inl rfl)
    refine ⟨?_, g3, g4⟩
    apply (hr.live_iff z.label).mp
    rw [hr.self z g1]; rfl
  · rintro ⟨h1, h2, h3⟩
    cases hf : findB a.blocks x with
    | none => rw [hf] at h1; cases h1
    | some ax =>
      obtain ⟨haxm, haxl⟩ := findB_some hf
      obtain ⟨z, hz1, hz2, _, _⟩ := hr.of_amem haxm
      refine ⟨z, ?_, by rw [hz2, haxl]⟩
      apply (walk_mem hr b.label _ a.sl z).mpr
      refine ⟨hz1, ?_⟩
      have hh := wf_height hwf ax haxm
      have hb := height_bound hwf ax haxm
      have := AB.of_not_desc hwf (ax.height - a.sh) ax haxm (by omega) (by rw [haxl]; exact h2) (by rw [haxl]; exact h3)
      rw [hz2]
      exact AB.mono this (by rw [hr.len]; omega)

end LemoProofs.C09

/-
  C10 — Election integrity: the published top list equals a full sort of the registered candidates;
  the deputies of a snapshot block are the top candidates and loadable.

  Model: `LemoModel.Ranking` (hand-written from store/{vote,cblock,chain_database,beansdb}.go and
  chain/consensus/dpovp.go, chain/deputynode/term_record.go; tied to the code by `hx c10`, which drives
  a real `store.ChainDatabase` and the model with the same histories — forks, SetStableBlock, re-open —
  and compares `GetCandidatesTop` and the all-candidates index after every op).

  FULL statements of the property (kept visible; the ones marked REFUTED are false for the code as it
  is — the witnesses below are kernel-checked on the faithful model and reproduced on the real code by
  the harness oracle):

    (S) `ranking_is_sort`        for ALL lists: the selection sort = the full sort cut to `max`. PROVED.
    (P) `ranking_perm_invariant` the result does not depend on the order of the input.        PROVED.
    (U) `updateTop_eq_fullSort`  for EVERY history of vote changes / registrations / un-registrations,
          top(B) = (fullSort (registered B)).take max.                                         REFUTED:
          `updateTop_tie_refuted`            third branch compares vote totals only
          `rerank_unregistered_refuted`      re-rank-all reads un-registered entries of the index
          `unregister_zero_votes_refuted`    `Ranking` returns early when the block has no VotesLog
          proved instead: `updateTop_eq_fullSort_partial` (coded `updateTop`, exact guards) and the
          full statement for the repaired `updateTopFixed` (`updateTopFixed_eq_fullSort`).
    (R) `restart_same_top`       a restarted node publishes the same lists.                    REFUTED for
          the blocks after the restart (`restart_diverges`: the index is empty after start-up);
          the list of the stable block itself is right (`restart_top_eq_fullSort`).
    (D) `deputies_loadable`      the deputies written at a snapshot block pass `NewTermRecord`.  REFUTED:
          `deputies_loadable_refuted` (votes are read from the snapshot block's own post-state);
          proved instead: `deputies_loadable_partial` (votes from the parent's view).
-/
import LemoProofs.Lemmas.Ranking
namespace LemoProofs.C10
open LemoModel LemoModel.Ranking LemoProofs.Ranking List

/-- the specification: all candidates sorted by (votes desc, address asc), cut to `max` -/
def topOf (max : Nat) (cs : List Cand) : List Cand := (fullSort cs).take max

/-! ## (S), (P): the selection sort -/

/-- `fullSort` really is "the" sort: a permutation of its input, sorted by (votes desc, addr asc);
    any other sorted permutation is equal to it. -/
theorem fullSort_spec (cs : List Cand) :
    fullSort cs ~ cs ∧ (fullSort cs).Pairwise LE ∧
    ∀ l, l ~ cs → l.Pairwise LE → l = fullSort cs :=
  ⟨fullSort_perm cs, fullSort_sorted cs,
   fun _ hp hs => sorted_perm_eq hs (fullSort_sorted cs) (hp.trans (fullSort_perm cs).symm)⟩

/-- (S) for ALL input lists (any length, duplicates allowed), the selection sort of `vote.go` returns
    exactly the first `max` elements of the full sort. (`max = 0` is excluded: `ranking 0 [c] = [c]`.) -/
theorem ranking_is_sort (max : Nat) (hmax : 1 ≤ max) (cs : List Cand) :
    ranking max cs = topOf max cs := by
  unfold topOf
  match cs with
  | [] => simp [ranking, fullSort]
  | [c] =>
    simp only [ranking, fullSort, insertC]
    rw [take_of_length_le (by simpa using hmax)]
  | c :: d :: rest =>
    simp only [ranking]
    rw [selSort_eq, ← fullSort_length (c :: d :: rest), take_min_length]

/-- (P) the result of `ranking` is independent of the order in which a Go map / the trie enumerates
    the candidates. -/
theorem ranking_perm_invariant (max : Nat) {cs cs' : List Cand} (h : cs ~ cs') :
    ranking max cs = ranking max cs' := by
  by_cases hmax : 1 ≤ max
  · rw [ranking_is_sort max hmax, ranking_is_sort max hmax]; unfold topOf; rw [fullSort_congr h]
  · have h0 : max = 0 := by omega
    subst h0
    have hl := h.length_eq
    match cs, cs', h, hl with
    | [], [], _, _ => rfl
    | [c], [d], h, _ =>
      have : c = d := by simpa using h
      subst this; rfl
    | _ :: _ :: _, _ :: _ :: _, _, _ => simp [ranking, selSort]
    | [], _ :: _, _, hl => simp at hl
    | [_], [], _, hl => simp at hl
    | [_], _ :: _ :: _, _, hl => simp at hl
    | _ :: _ :: _, [], _, hl => simp at hl
    | _ :: _ :: _, [_], _, hl => simp at hl

example : ranking 2 [⟨9, 30⟩, ⟨5, 20⟩, ⟨7, 20⟩, ⟨3, 10⟩] = [⟨9, 30⟩, ⟨5, 20⟩] := by decide

/-! ## (D): deputies of a snapshot block -/

/-- (D) REFUTED on the faithful model: the witness is the harness' engine scenario "transfer"
    (top of the parent `[U1 50000, D0 4]`; a transfer inside the snapshot block raises D0 to 100004). -/
theorem deputies_loadable_refuted :
    ∃ (top : List Cand) (post : Nat → Nat),
      top = topOf 20 top ∧
      newTermRecord 6 6 (sealDeputies 2 top post) = .panic "ErrInvalidDeputyVotes" :=
  ⟨[⟨3, 50000⟩, ⟨1, 4⟩], fun a => if a = 1 then 100004 else 50000, by decide, by decide⟩

/-- a second way to fail: every candidate un-registered ⇒ empty list ⇒ `ErrNoDeputyInBlock` -/
theorem deputies_empty_refuted (post : Nat → Nat) :
    newTermRecord 6 6 (sealDeputies 2 [] post) = .panic "ErrNoDeputyInBlock" := by
  simp [newTermRecord, sealDeputies, sealGo]

theorem termCheck_seal (votesAt : Nat → Nat) (cs : List Cand) (i : Nat) (prev : Option Deputy)
    (hsorted : cs.Pairwise (fun a b => a.votes ≥ b.votes))
    (hv : ∀ c ∈ cs, votesAt c.addr = c.votes)
    (hprev : ∀ p, prev = some p → ∀ c ∈ cs, p.votes ≥ c.votes) :
    termCheckGo i prev (sealGo votesAt i cs) = .ok := by
  induction cs generalizing i prev with
  | nil => simp [sealGo, termCheckGo]
  | cons c cs ih =>
    have hc := pairwise_cons.mp hsorted
    have hvc : votesAt c.addr = c.votes := hv c mem_cons_self
    have step : termCheckGo (i + 1) (some ⟨c.addr, votesAt c.addr, i⟩) (sealGo votesAt (i + 1) cs) = .ok := by
      apply ih (i + 1) _ hc.2 (fun x hx => hv x (mem_cons_of_mem _ hx))
      intro p hp x hx
      cases hp
      simpa [hvc] using hc.1 x hx
    simp only [sealGo, termCheckGo]
    cases prev with
    | none => simpa using step
    | some p =>
      have : ¬ votesAt c.addr > p.votes := by
        have := hprev p rfl c mem_cons_self
        omega
      simpa [this] using step

/-- (D) `_partial`: if the votes are taken from the SAME view as the order (the parent's: every entry
    of the parent's top list carries the votes `votesAt` returns), the list is not empty and the height
    is a snapshot height, then `NewTermRecord` accepts the deputies written by `Seal`. -/
theorem deputies_loadable_partial (max dc td h : Nat) (cands : List Cand) (votesAt : Nat → Nat)
    (hdc : 1 ≤ dc) (hmax : 1 ≤ max) (hne : cands ≠ []) (hh : h % td = 0)
    (hv : ∀ c ∈ topOf max cands, votesAt c.addr = c.votes) :
    newTermRecord td h (sealDeputies dc (topOf max cands) votesAt) = .ok := by
  have hsorted : (topOf max cands).Pairwise (fun a b => a.votes ≥ b.votes) :=
    ((fullSort_sorted cands).imp (fun h => LE_votes h)).sublist (take_sublist _ _)
  have hne' : (topOf max cands).take dc ≠ [] := by
    have : 0 < ((topOf max cands).take dc).length := by
      have hl : 0 < cands.length := length_pos_iff.mpr hne
      simp only [topOf, length_take, fullSort_length]; omega
    exact length_pos_iff.mp this
  unfold newTermRecord sealDeputies
  simp only [hh, ne_eq, not_true_eq_false, if_false]
  have hemp : (sealGo votesAt 0 (take dc (topOf max cands))).isEmpty = false := by
    cases hx : take dc (topOf max cands) with
    | nil => exact absurd hx hne'
    | cons a l => simp [sealGo]
  rw [hemp]
  simp only [Bool.false_eq_true, if_false]
  apply termCheck_seal
  · exact hsorted.sublist (take_sublist _ _)
  · intro c hc; exact hv c (mem_of_mem_take hc)
  · intro p hp; cases hp

/-- the hypotheses of `deputies_loadable_partial` are satisfiable (harness scenario "quiet") -/
example : newTermRecord 6 6 (sealDeputies 2 (topOf 20 [⟨1, 4⟩, ⟨3, 50000⟩])
    (fun a => if a = 1 then 4 else 50000)) = .ok := by decide

end LemoProofs.C10
